# per-property configuration of ./check (theorem names that must appear in the audit, sizes, extra engines)
TRUSTED_COMMON = [
    "Lean 4.33.0 kernel; axioms allowed: propext, Classical.choice, Quot.sound (audited per theorem by #print axioms on every run); no sorry/admit/native_decide/bv_decide/user axioms (grep on every run)",
    "Spec layer (lean/OtpVerif/Spec): my reading of the property and of RFC 4226/6238/6287/4648",
    "fact extractor harness/cmd/extract (regenerates lean/OtpVerif/Gen from the working tree through the verif-tagged hooks and the exported API)",
    "correspondence harness harness/cmd/corr + its generators (differential testing of Lean model vs implementation: reach bounded by generator quality)",
    "Go compiler/runtime, crypto/hmac + SHA (theorems are parametric in the HMAC; only its output lengths are assumed), modelled stdlib pieces in lean/OtpVerif/Std (validated by std.* ops, not verified)",
]

def P(theorems, **kw):
    d = {"theorems": ["OtpVerif.Props." + t for t in theorems]}
    d.update(kw)
    return d

PROPS = {
    "C01": P(["C01.mod10_eq_pow", "C01.hashIds_eq", "C01.C01_derive_eq_rfc", "C01.C01_generate_eq_rfc", "C01.C01_unsupported", "C01.C01_shape", "C01.C01_nil_defaults"],
             n_quick=1500, n_thorough=60000,
             explanation="theorems: model of GenerateHOTP/deriveRFC4226/truncate/shortDigit/longDigit = RFC 4226 value for all keys, counters, digits 1..10, hashes; regenerated mod10/masks/hash order checked by decide; correspondence: ghotp/derive/trunc/fmt ops incl. the complete offset x boundary-value grid of the truncate+format stage"),
}
