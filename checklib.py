# per-property configuration of ./check (theorem names that must appear in the audit, sizes, extra engines)
TRUSTED_COMMON = [
    "Lean 4.33.0 kernel; axioms allowed: propext, Classical.choice, Quot.sound (audited per theorem by #print axioms on every run); no sorry/admit/native_decide/bv_decide/user axioms (grep on every run)",
    "Spec layer (lean/OtpVerif/Spec): my reading of the property and of RFC 4226/6238/6287/4648",
    "fact extractor harness/cmd/extract (regenerates lean/OtpVerif/Gen from the working tree through the verif-tagged hooks and the exported API)",
    "correspondence harness harness/cmd/corr + its generators (differential testing of Lean model vs implementation: reach bounded by generator quality)",
    "Go compiler/runtime, crypto/hmac + SHA (theorems are parametric in the HMAC; only its output lengths are assumed), modelled stdlib pieces in lean/OtpVerif/Std (validated by std.* ops, not verified)",
]

def P(theorems, **kw):
    d = {"theorems": ["OtpVerif.Props." + t for t in theorems]}
    d.update(kw)
    return d

PROPS = {
    "C01": P(["C01.mod10_eq_pow", "C01.hashIds_eq", "C01.C01_derive_eq_rfc", "C01.C01_generate_eq_rfc", "C01.C01_unsupported", "C01.C01_shape", "C01.C01_nil_defaults"],
             n_quick=1500, n_thorough=60000,
             explanation="theorems: model of GenerateHOTP/deriveRFC4226/truncate/shortDigit/longDigit = RFC 4226 value for all keys, counters, digits 1..10, hashes; regenerated mod10/masks/hash order checked by decide; correspondence: ghotp/derive/trunc/fmt ops incl. the complete offset x boundary-value grid of the truncate+format stage"),
    "C02": P(["C02.C02_totp_eq_hotp", "C02.C02_totp_eq_rfc", "C02.C02_step", "C02.C02_boundary", "C02.C02_defaults"], n_quick=1500, n_thorough=50000,
             explanation="theorems: GenerateTOTP = GenerateHOTP at floor(sec/period) for 0 <= sec < 2^63, any period < 2^64 (0 = 30), defaults; correspondence: gtotp ops with nanoseconds / zone / monotonic reading varied at +-2 s of step boundaries"),
    "C03": P(["C03.C03_iff", "C03.C03_self", "C03.C03_len", "C03.C03_skew_refused", "C03.C03_nil", "C03.C03_bad_secret"], n_quick=1500, n_thorough=40000,
             explanation="theorems: window loop as written accepts exactly codes of counters in [max(0,c-s), c+s]; correspondence: vhotp ops with codes of every window distance -(s+3)..(s+3) and 10 mutation kinds"),
    "C04": P(["C04.C04_iff", "C04.C04_self", "C04.C04_skew_refused", "C04.C04_work", "C04.C04_fuel", "C04.C04_nil"], n_quick=1500, n_thorough=40000,
             explanation="theorems: TOTP skew loop (wrapping uint64 addition) accepts exactly steps in [n-s, n+s] when s <= n; skew > 10 refused; at most 21 HMACs per call; correspondence: vtotp ops"),
    "C05": P(["C05.C05_eq_rfc", "C05.C05_eq_rfc_spec", "C05.C05_unselected", "C05.C05_shape", "C05.C05_newSuite"], n_quick=1200, n_thorough=30000,
             explanation="theorems: deriveRFC6287 = RFC 6287 value over the documented layout for every usable suite config and admitted input; unselected fields have no influence; correspondence: gocra ops over registered, parsed and hand-built suites incl. histories that dirty the pooled buffer"),
    "C06": P(["C06.C06_iff", "C06.C06_fail", "C06.C06_total", "C06.C06_self", "C06.deriveRFC6287_no_panic"], n_quick=1500, n_thorough=30000,
             explanation="theorems: ValidateOCRA = (true,nil) iff GenerateOCRA returns that string, for every suite/input/string; failure => (false, error); correspondence: vocra ops with mutated and neighbouring codes"),
    "C07": P(["C07.C07_spellings", "C07.C07_reject_alphabet", "C07.C07_entrypoints", "C07.C07_same_code"], n_quick=2000, n_thorough=60000,
             explanation="theorems: DecodeSecret (TrimSpace, alphabet check, re-padding, ToUpper, Go's base32 decoder as written) maps every spelling of the encoding of b back to b, for every byte string b; correspondence: dec ops over all residues mod 5, paddings kept, case mixes, white space, malformed classes; std.b32dec/std.trim validate the stdlib models"),
    "C08": P(["C08.C08_bytes", "C08.C08_decode", "C08.C08_text", "C08.C08_unsupported", "C08.C08_history"], n_quick=1500, n_thorough=20000,
             explanation="theorems: RandomSecret returns the unpadded base32 of exactly the next 20/32/64 stream bytes, decodes back, histories consume consecutive disjoint segments; correspondence: rnd ops with crypto/rand.Reader substituted by recording readers (also short-chunk readers)"),
    "C14": P(["C14.C14_suite", "C14.C14_input", "C14.derive_ok_of_valid", "C14.C14_entry", "C14.C14_entry_spec", "C14.C14_unselected"], n_quick=1200, n_thorough=30000,
             explanation="theorems: SuiteConfig.Validate <-> usable, OCRAInput.Validate <-> admissible (enums in range), GenerateOCRA returns a code iff both; correspondence: adm ops with every field at every length 0..140 for 6 base configurations (complete grid) plus random configurations"),
}
