module verif/harness

go 1.24

require github.com/ja7ad/otp v0.0.0

replace github.com/ja7ad/otp => /repo
