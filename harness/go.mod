module verif/harness

go 1.24

require github.com/ja7ad/otp v0.0.0

require (
	golang.org/x/mod v0.22.0 // indirect
	golang.org/x/sync v0.10.0 // indirect
	golang.org/x/tools v0.29.0
)

replace github.com/ja7ad/otp => /repo
