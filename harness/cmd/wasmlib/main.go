// wasmlib: the library itself under the js/wasm build configuration.
//
// The same op lines the correspondence run of a property executes natively are executed a second time by the SAME harness
// compiled for GOOS=js GOARCH=wasm and run under Node (wasm_exec_node.js).  The two builds of the library must give the
// same answers: files selected by build tags (`*_wasm.go`, `//go:build js && wasm`) are part of the code base, and a
// helper that exists in two variants must behave as one.  Ops that need facilities js/wasm does not have (child processes,
// real parallelism) are left out.
package main

import (
	"bufio"
	"bytes"
	"context"
	"encoding/json"
	"flag"
	"fmt"
	"os"
	"os/exec"
	"path/filepath"
	"strings"
	"time"
)

type violation struct {
	Kind  string `json:"kind"`
	Op    string `json:"op"`
	Impl  string `json:"impl"`
	Model string `json:"model"`
}

func goEnv(extra ...string) []string {
	var env []string
	for _, kv := range os.Environ() {
		if strings.HasPrefix(kv, "GOOS=") || strings.HasPrefix(kv, "GOARCH=") || strings.HasPrefix(kv, "GOCOVERDIR=") {
			continue
		}
		env = append(env, kv)
	}
	return append(env, extra...)
}

func findNode() string {
	if p, err := exec.LookPath("node"); err == nil {
		return p
	}
	m, _ := filepath.Glob("/root/.nvm/versions/node/*/bin/node")
	if len(m) > 0 {
		return m[len(m)-1]
	}
	return "node"
}

func lines(b []byte) []string {
	var out []string
	sc := bufio.NewScanner(bytes.NewReader(b))
	sc.Buffer(make([]byte, 1<<20), 1<<26)
	for sc.Scan() {
		out = append(out, sc.Text())
	}
	return out
}

func main() {
	prop := flag.String("prop", "", "")
	seed := flag.Uint64("seed", 1, "")
	n := flag.Int("n", 600, "")
	tags := flag.String("tags", "verif,verif_internal", "")
	flag.Parse()
	harn, _ := os.Getwd()
	fail := func(msg string) {
		out, _ := json.Marshal(map[string]any{"error": msg})
		fmt.Println(string(out))
		os.Exit(3)
	}
	tmp, err := os.MkdirTemp("", "wasmlib")
	if err != nil {
		fail(err.Error())
	}
	defer os.RemoveAll(tmp)
	exit := func(code int) { os.RemoveAll(tmp); os.Exit(code) }
	wasm := filepath.Join(harn, "bin", "corr.wasm")
	for _, tg := range []string{*tags, "verif"} {
		b := exec.Command("go", "build", "-tags", tg, "-o", wasm, "./cmd/corr")
		b.Env = goEnv("GOOS=js", "GOARCH=wasm")
		if out, err := b.CombinedOutput(); err != nil {
			if tg == "verif" {
				fail("the harness does not build for js/wasm: " + strings.TrimSpace(string(out)))
			}
			continue
		}
		break
	}
	gr, err := exec.Command("go", "env", "GOROOT").Output()
	if err != nil {
		fail("go env GOROOT: " + err.Error())
	}
	runner := filepath.Join(strings.TrimSpace(string(gr)), "lib", "wasm", "wasm_exec_node.js")
	if _, err := os.Stat(runner); err != nil {
		runner = filepath.Join(strings.TrimSpace(string(gr)), "misc", "wasm", "wasm_exec_node.js")
	}
	ops := filepath.Join(tmp, "ops.txt")
	d := exec.Command(filepath.Join(harn, "bin", "corr"), "-prop", *prop, "-seed", fmt.Sprint(*seed), "-n", fmt.Sprint(*n), "-dump", ops)
	d.Env = goEnv()
	if out, err := d.CombinedOutput(); err != nil {
		fail("corr -dump: " + string(out))
	}
	data, _ := os.ReadFile(ops)
	var keep []string
	for _, l := range lines(data) {
		f := strings.Fields(l)
		if len(f) == 0 {
			continue
		}
		switch f[0] {
		case "rndseq", "rndpar", "std.trim", "std.b32dec", "wderive": // child processes / parallel readers / js-only entry point
			continue
		}
		keep = append(keep, l)
	}
	os.WriteFile(ops, []byte(strings.Join(keep, "\n")+"\n"), 0o644)
	// the native run has a per-call watchdog (answer "timeout"); the js/wasm run is single-threaded and cannot have one, so
	// it runs under a process deadline and an op that hangs natively is reported here and not sent to Node at all
	nctx, ncancel := context.WithTimeout(context.Background(), 15*time.Minute)
	defer ncancel()
	nat := exec.CommandContext(nctx, filepath.Join(harn, "bin", "corr"), "-exec", ops)
	nat.Env = goEnv()
	nat.WaitDelay = 5 * time.Second
	natOut, err := nat.Output()
	if err != nil {
		fail("native run failed: " + err.Error())
	}
	var viol []violation
	{
		na := lines(natOut)
		var keep2, na2 []string
		for i, l := range keep {
			if i < len(na) && strings.Contains(na[i], "timeout") {
				if len(viol) < 4 {
					viol = append(viol, violation{"the call does not return (per-call watchdog of the native run)", l, na[i], "returns"})
				}
				continue
			}
			keep2 = append(keep2, l)
			if i < len(na) {
				na2 = append(na2, na[i])
			}
		}
		if len(keep2) != len(keep) {
			keep = keep2
			natOut = []byte(strings.Join(na2, "\n") + "\n")
			os.WriteFile(ops, []byte(strings.Join(keep, "\n")+"\n"), 0o644)
		}
	}
	deadline := 90*time.Second + time.Duration(len(keep))*40*time.Millisecond
	wctx, wcancel := context.WithTimeout(context.Background(), deadline)
	defer wcancel()
	w := exec.CommandContext(wctx, findNode(), runner, wasm, "-exec", ops)
	w.Env = goEnv()
	w.WaitDelay = 5 * time.Second
	var werr bytes.Buffer
	w.Stderr = &werr
	wasmOut, err := w.Output()
	hung := wctx.Err() != nil
	a, b := lines(natOut), lines(wasmOut)
	if len(b) < len(a) {
		op := "?"
		if len(b) < len(keep) {
			op = keep[len(b)]
		}
		first := strings.SplitN(strings.TrimSpace(werr.String()), "\n", 2)[0]
		if hung {
			viol = append(viol, violation{fmt.Sprintf("the js/wasm build of the library did not return from this op (process deadline %s for %d ops)", deadline, len(keep)), op, "timeout", a[min(len(b), len(a)-1)]})
		} else {
			viol = append(viol, violation{"the js/wasm build of the library stopped (crash or exit) at this op", op, "process-crash: " + first, a[min(len(b), len(a)-1)]})
		}
	}
	diff := 0
	for i := 0; i < len(a) && i < len(b); i++ {
		if a[i] != b[i] {
			diff++
			if len(viol) < 8 {
				viol = append(viol, violation{"native and js/wasm builds of the library answer differently", keep[i], "js/wasm: " + b[i], "native: " + a[i]})
			}
		}
	}
	out := map[string]any{
		"coverage":   map[string]any{"ops_run_under_both_builds": len(a), "differences": diff, "runner": "node + wasm_exec_node.js", "skipped_op_kinds": "rndseq rndpar std.* wderive"},
		"violations": viol,
	}
	json.NewEncoder(os.Stdout).Encode(out)
	if len(viol) > 0 {
		exit(1)
	}
}
