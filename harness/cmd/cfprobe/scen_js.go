//go:build js && wasm

package main

import (
	"fmt"

	"github.com/ja7ad/otp"
)

func init() {
	extraScenario = func(r *rng, key []byte, algo otp.Algorithm, digits otp.Digits, hist int) scenario {
		c := r.next() >> uint(r.intn(60))
		return scenario{desc: fmt.Sprintf("ValidateOTPWasm key=%x counter=%d digits=%d algo=%d", key, c, digits, algo), history: hist,
			validate: func(code string) (bool, error) { return otp.ValidateOTPWasm(code, key, c, digits, algo) },
			generate: func() (string, error) { return otp.DeriveRFC4226Wasm(key, c, digits.Int(), algo) },
			other:    func() { otp.ValidateOTPWasm("000000", key, c+77, otp.SixDigits, algo) }}
	}
}
