// cfprobe: control-flow noninterference probe for C09.
//
// The property says that rejecting a wrong code of the right length does not depend on how many of its leading characters
// are correct.  A constant-time rejection executes the same basic blocks of package otp the same number of times whatever
// the position of the first wrong character; an early-exit comparison (however the expected code reached it: directly
// from the HMAC, or through anything the library remembered from an earlier call) does not.  The binary is built with
// `-cover -covermode=atomic`, so the per-block execution counters of package otp can be cleared and read in-process
// (runtime/coverage): for one (entry point, secret, moving factor, parameters, history) the probe submits, for every k,
// the expected code with character k replaced (k leading characters correct) and compares the counter vectors.
//
// No timing is measured and nothing is statistical: a difference is a deterministic, replayable fact about the
// executed path.  A verdict is only given where the measurement is stable (the same call measured twice gives the same
// vector) and where wrong codes with the *same* number of correct leading characters but different digits give the same
// vector (otherwise the implementation branches on the submitted digits themselves, which the property allows, and the
// scenario is counted as inconclusive).
package main

import (
	"bytes"
	"encoding/base32"
	"encoding/binary"
	"encoding/json"
	"flag"
	"fmt"
	"os"
	"os/exec"
	"path/filepath"
	"runtime"
	"runtime/coverage"
	"runtime/debug"
	"sort"
	"strings"
	"time"

	"github.com/ja7ad/otp"
)

type rng struct{ s uint64 }

func (r *rng) next() uint64 {
	r.s += 0x9E3779B97F4A7C15
	z := r.s
	z = (z ^ (z >> 30)) * 0xBF58476D1CE4E5B9
	z = (z ^ (z >> 27)) * 0x94D049BB133111EB
	return z ^ (z >> 31)
}
func (r *rng) intn(n int) int { return int(r.next() % uint64(n)) }

type violation struct {
	Kind  string `json:"kind"`
	Op    string `json:"op"`
	Impl  string `json:"impl"`
	Model string `json:"model"`
}

// a scenario: one validation entry point with everything but the submitted code fixed
type scenario struct {
	desc     string
	validate func(code string) (bool, error)
	generate func() (string, error)
	history  int // 0: no earlier call; 1: the right code was accepted just before; 2: accepted, then an unrelated validation
	other    func()
}

var buf bytes.Buffer

// extraScenario: entry points that exist in one build configuration only (js/wasm: ValidateOTPWasm)
var extraScenario func(r *rng, key []byte, algo otp.Algorithm, digits otp.Digits, hist int) scenario

func measure(f func()) []byte {
	if err := coverage.ClearCounters(); err != nil {
		fmt.Printf(`{"error":"coverage counters unavailable: %v"}`+"\n", err)
		os.Exit(3)
	}
	f()
	buf.Reset()
	if err := coverage.WriteCounters(&buf); err != nil {
		fmt.Printf(`{"error":"coverage counters unavailable: %v"}`+"\n", err)
		os.Exit(3)
	}
	// counter data file: 32-byte header, segment header {functions uint64, string-table length uint32, argument length
	// uint32}, string table and argument block (process facts, written from a map: their order varies), padding to a
	// multiple of 4, then the per-function counters, which are what is compared
	b := buf.Bytes()
	if len(b) < 48 {
		return nil
	}
	off := 48 + int(binary.LittleEndian.Uint32(b[40:44])) + int(binary.LittleEndian.Uint32(b[44:48]))
	off = (off + 3) &^ 3
	if off > len(b) {
		return nil
	}
	return append([]byte(nil), b[off:]...)
}

func mkScenario(r *rng) scenario {
	key := make([]byte, []int{10, 16, 20, 20, 32, 64, 65, 35}[r.intn(8)])
	for i := range key {
		key[i] = byte(r.next())
	}
	secret := base32.StdEncoding.WithPadding(base32.NoPadding).EncodeToString(key)
	algo := otp.Algorithm(r.intn(3))
	digits := otp.Digits([]int{6, 6, 8, 8, 10, 7, 9}[r.intn(7)])
	hist := r.intn(3)
	if extraScenario != nil && r.intn(3) == 0 {
		return extraScenario(r, key, algo, digits, hist)
	}
	switch r.intn(4) {
	case 0, 1:
		c := r.next() >> uint(r.intn(60))
		skew := uint([]int{0, 0, 1, 2, 10}[r.intn(5)])
		p := &otp.Param{Digits: digits, Algorithm: algo, Skew: skew}
		pg := &otp.Param{Digits: digits, Algorithm: algo}
		return scenario{desc: fmt.Sprintf("ValidateHOTP key=%x counter=%d digits=%d algo=%d skew=%d", key, c, digits, algo, skew), history: hist,
			validate: func(code string) (bool, error) { return otp.ValidateHOTP(secret, code, c, p) },
			generate: func() (string, error) { return otp.GenerateHOTP(secret, c, pg) },
			other:    func() { otp.ValidateHOTP(secret, "000000", c+77, &otp.Param{Digits: 6, Algorithm: algo}) }}
	case 2:
		sec := int64(r.next()>>uint(24+r.intn(30))) + 1
		per := uint([]int{30, 30, 60, 1, 17}[r.intn(5)])
		skew := uint([]int{0, 1, 2}[r.intn(3)])
		p := &otp.Param{Digits: digits, Algorithm: algo, Period: per, Skew: skew}
		t := time.Unix(sec, 0)
		return scenario{desc: fmt.Sprintf("ValidateTOTP key=%x unix=%d period=%d digits=%d algo=%d skew=%d", key, sec, per, digits, algo, skew), history: hist,
			validate: func(code string) (bool, error) { return otp.ValidateTOTP(secret, code, t, p) },
			generate: func() (string, error) { return otp.GenerateTOTP(secret, t, p) },
			other:    func() { otp.ValidateTOTP(secret, "000000", t.Add(time.Hour), &otp.Param{Digits: 6, Algorithm: algo, Period: 30}) }}
	default:
		suites := otp.ListSuites()
		sort.Strings(suites)
		name := suites[r.intn(len(suites))]
		su, err := otp.NewRawSuite(name)
		if err != nil {
			return mkScenario(r)
		}
		cfg := su.Config()
		fill := func(n int) []byte {
			b := make([]byte, n)
			for i := range b {
				b[i] = byte(r.next())
			}
			return b
		}
		in := otp.OCRAInput{}
		if cfg.IncludeCounter {
			in.Counter = fill(8)
		}
		if cfg.IncludeChallenge {
			in.Challenge = fill(10 + r.intn(100))
		}
		if cfg.IncludePassword {
			in.Password = fill([]int{0, 20, 32, 64}[cfg.PasswordHash])
		}
		if cfg.IncludeSession {
			in.SessionInfo = fill(r.intn(129))
		}
		if cfg.IncludeTimestamp {
			in.Timestamp = fill(8)
		}
		in2 := in
		in2.Challenge = append([]byte("0123456789"), in.Challenge...)
		if len(in2.Challenge) > 128 {
			in2.Challenge = in2.Challenge[:128]
		}
		return scenario{desc: fmt.Sprintf("ValidateOCRA key=%x suite=%s challenge=%x counter=%x password=%x session=%x timestamp=%x", key, name, in.Challenge, in.Counter, in.Password, in.SessionInfo, in.Timestamp), history: hist,
			validate: func(code string) (bool, error) { return otp.ValidateOCRA(secret, code, su, in) },
			generate: func() (string, error) { return otp.GenerateOCRA(secret, su, in) },
			other:    func() { otp.ValidateOCRA(secret, strings.Repeat("0", cfg.Digits), su, in2) }}
	}
}

func main() {
	seed := flag.Uint64("seed", 1, "")
	n := flag.Int("n", 300, "scenarios")
	dump := flag.String("dumpdir", "", "directory for the counter files of the first differing pair (go tool covdata textfmt)")
	wasmBin := flag.String("wasmbin", "", "the same probe built for js/wasm; run under Node after the native probes")
	node := flag.String("node", "", "")
	wasmExec := flag.String("wasmexec", "", "wasm_exec_node.js")
	flag.Parse()
	runtime.GOMAXPROCS(1)
	debug.SetGCPercent(-1) // a collection empties the pools; the next call then runs their New functions, which is a history effect, not a code-dependent one
	r := &rng{s: *seed}
	var viol []violation
	scen, conclusive, inconclusive, probes, unstable := 0, 0, 0, 0, 0
	byEntry := map[string]int{}
	byHistory := map[string]int{}
	var samples []string
	for i := 0; i < *n; i++ {
		sc := mkScenario(r)
		good, err := sc.generate()
		if err != nil || good == "" {
			continue
		}
		scen++
		byEntry[strings.Fields(sc.desc)[0]]++
		byHistory[[]string{"no earlier call", "right code accepted just before", "accepted, then an unrelated validation"}[sc.history]]++
		prep := func() {
			// the history the scenario asks for is re-established before every probe, so that all probes see the same past
			sc.validate(strings.Repeat("0", len(good)) + "0") // warm the pools / lazily built tables (wrong length: rejected)
			sc.generate()
			switch sc.history {
			case 1:
				sc.validate(good)
			case 2:
				sc.validate(good)
				sc.other()
			}
		}
		wrongAt := func(k int, delta byte) string {
			b := []byte(good)
			b[k] = '0' + (b[k]-'0'+delta)%10
			return string(b)
		}
		type probe struct {
			code    string
			leading int
			vec     []byte
			verdict string
		}
		// one measured closure per scenario: the statements of this harness executed between clearing and reading the
		// counters are then the same for every probe (the harness itself has to be instrumented for the counters to be
		// readable in-process)
		var cur string
		var ok bool
		var e error
		call := func() { ok, e = sc.validate(cur) }
		run := func(code string, leading int) (probe, bool) {
			var vs [2][]byte
			cur = code
			for rep := 0; rep < 2; rep++ {
				prep()
				vs[rep] = measure(call)
			}
			probes += 2
			verdict := fmt.Sprint(ok, " ", e)
			return probe{code, leading, vs[0], verdict}, bytes.Equal(vs[0], vs[1])
		}
		var ps []probe
		stable := true
		for k := 0; k < len(good); k++ {
			p, st := run(wrongAt(k, 1+byte(r.intn(9))), k)
			stable = stable && st
			ps = append(ps, p)
		}
		// controls: other wrong codes with no correct leading character and with len-1 correct leading characters
		var ctl []probe
		for _, d := range []byte{2, 5, 7} {
			b := []byte(good)
			for j := range b {
				b[j] = '0' + (b[j]-'0'+d+byte(j%2))%10
			}
			p, st := run(string(b), 0)
			stable = stable && st
			ctl = append(ctl, p)
		}
		if !stable {
			unstable++
			continue
		}
		digitDependent := false
		for _, c := range ctl {
			if c.verdict == ctl[0].verdict && !bytes.Equal(c.vec, ctl[0].vec) {
				digitDependent = true
			}
		}
		if digitDependent {
			inconclusive++
			continue
		}
		conclusive++
		if len(samples) < 4 {
			samples = append(samples, fmt.Sprintf("%s [%s]: %d wrong codes with 0..%d correct leading characters, one path", sc.desc, []string{"no earlier call", "after the right code was accepted", "after acceptance and an unrelated validation"}[sc.history], len(ps), len(ps)-1))
		}
		base := ps[0]
		for _, p := range ps[1:] {
			if p.verdict != base.verdict || bytes.Equal(p.vec, base.vec) {
				continue
			}
			where := ""
			if *dump != "" && len(viol) == 0 {
				where = explain(*dump, prep, sc, base.code, p.code)
			}
			hist := []string{"", "after the same call with the right code " + good + " returned true: ", "after the same call with the right code " + good + " returned true and one unrelated validation: "}[sc.history]
			viol = append(viol, violation{"rejection path depends on the number of correct leading characters",
				fmt.Sprintf("%s%s expected=%s: code %s (%d leading characters correct) vs code %s (%d correct)", hist, sc.desc, good, base.code, base.leading, p.code, p.leading),
				"the two rejections execute different numbers of statements of package otp" + where, "identical executed path (constant-time rejection)"})
			break
		}
		if len(viol) >= 5 {
			break
		}
	}
	var wasmCov any
	if *wasmBin != "" {
		// the same probe under the js/wasm build of the library (which adds ValidateOTPWasm), run by Node
		if *node == "" {
			*node = "node"
			if p, err := exec.LookPath("node"); err == nil {
				*node = p
			} else if m, _ := filepath.Glob("/root/.nvm/versions/node/*/bin/node"); len(m) > 0 {
				*node = m[len(m)-1]
			}
		}
		if *wasmExec == "" {
			gr, _ := exec.Command("go", "env", "GOROOT").Output()
			*wasmExec = filepath.Join(strings.TrimSpace(string(gr)), "lib", "wasm", "wasm_exec_node.js")
			if _, err := os.Stat(*wasmExec); err != nil {
				*wasmExec = filepath.Join(strings.TrimSpace(string(gr)), "misc", "wasm", "wasm_exec_node.js")
			}
		}
		cmd := exec.Command(*node, *wasmExec, *wasmBin, "-seed", fmt.Sprint(*seed+1), "-n", fmt.Sprint(*n))
		o, _ := cmd.Output()
		var wr struct {
			Coverage   map[string]any `json:"coverage"`
			Violations []violation    `json:"violations"`
			Error      string         `json:"error"`
		}
		if i := bytes.IndexByte(o, '{'); i < 0 || json.Unmarshal(o[i:], &wr) != nil || wr.Coverage == nil {
			fmt.Printf(`{"error":"js/wasm probe gave no report: %s"}`+"\n", strings.ReplaceAll(trunc(string(o), 300), `"`, "'"))
			os.Exit(3)
		}
		wasmCov = wr.Coverage
		for _, v := range wr.Violations {
			v.Kind += " (js/wasm build)"
			viol = append(viol, v)
		}
		if c, ok := wr.Coverage["calls"].(float64); ok {
			probes += int(c)
		}
		if c, ok := wr.Coverage["conclusive_scenarios"].(float64); ok {
			conclusive += int(c)
		}
	}
	out := map[string]any{
		"coverage": map[string]any{"js_wasm_build": wasmCov, "calls": probes, "scenarios": scen, "conclusive_scenarios": conclusive, "inconclusive_digit_dependent": inconclusive, "unstable_measurements": unstable,
			"distinct_requests": conclusive, "by_entry_point": byEntry, "by_history": byHistory, "samples": samples,
			"method": "per-statement execution counters of package otp, crypto/subtle and crypto/internal/fips140/subtle (go build -cover -covermode=atomic, runtime/coverage.ClearCounters/WriteCounters), GOMAXPROCS=1, collector off"},
		"violations": viol,
	}
	json.NewEncoder(os.Stdout).Encode(out)
	if len(viol) > 0 {
		os.Exit(1)
	}
}

// explain names the statements whose execution counts differ between the two rejections
func explain(dir string, prep func(), sc scenario, a, b string) string {
	texts := make([]map[string]string, 2)
	for i, code := range []string{a, b} {
		d := filepath.Join(dir, fmt.Sprintf("cf%d", i))
		os.RemoveAll(d)
		os.MkdirAll(d, 0o755)
		prep()
		coverage.ClearCounters()
		sc.validate(code)
		coverage.WriteMetaDir(d)
		coverage.WriteCountersDir(d)
		txt := filepath.Join(d, "profile.txt")
		cmd := exec.Command("go", "tool", "covdata", "textfmt", "-i="+d, "-o="+txt)
		cmd.Env = append(os.Environ(), "GOFLAGS=-mod=mod", "GOWORK=off")
		cmd.Run()
		m := map[string]string{}
		data, _ := os.ReadFile(txt)
		for _, l := range strings.Split(string(data), "\n") {
			f := strings.Fields(l)
			if len(f) == 3 && strings.Contains(f[0], "ja7ad/otp") {
				m[f[0]] = f[2]
			}
		}
		texts[i] = m
		os.RemoveAll(d)
	}
	var diff []string
	for k, v := range texts[0] {
		if texts[1][k] != v {
			diff = append(diff, fmt.Sprintf("%s executed %s vs %s times", strings.TrimPrefix(k, "github.com/ja7ad/otp/"), v, texts[1][k]))
		}
	}
	sort.Strings(diff)
	if len(diff) > 4 {
		diff = diff[:4]
	}
	if len(diff) == 0 {
		return ""
	}
	return ": " + strings.Join(diff, "; ")
}

func trunc(s string, n int) string {
	if len(s) > n {
		return s[:n]
	}
	return s
}
