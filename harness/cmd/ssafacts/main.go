// ssafacts: static fact extractor over go/ssa (trusted translator, over-approximating).
// It loads the library natively and for js/wasm, the wasm binding and the REST layer, runs a small
// context-insensitive, field-insensitive explicit-flow taint analysis and a root analysis, and emits
// lean/OtpVerif/Gen/Sites.lean with
//   cmpSites   – every comparison-like site with the taint of its operands (C09)
//   errSites   – every error-construction site with the taint of its arguments (C13)
//   panicSites – every potentially panicking instruction of package otp with its dominating guards (C10)
//   storeSites – every write through a pointer/slice whose root is not local/fresh/pool (C12, C11)
//   poolSites  – per function using sync.Pool: the order of Get / reslice / write / read / Put (C11)
// Keys never contain line numbers: (package configuration, function, kind, ordinal, expression text).
package main

import (
	"fmt"
	"go/constant"
	"go/token"
	"go/types"
	"os"
	"path/filepath"
	"sort"
	"strings"

	"golang.org/x/tools/go/packages"
	"golang.org/x/tools/go/ssa"
	"golang.org/x/tools/go/ssa/ssautil"
)

const (
	tH = 1 << iota // derived from an HMAC sum
	tC             // derived from caller-supplied text (string / []byte / js.Value / request body)
	tS             // derived from the secret text or the decoded key
)

type analysis struct {
	cfgName string
	prog    *ssa.Program
	fns     []*ssa.Function
	inRepo  map[*ssa.Function]bool
	val     map[ssa.Value]int
	obj     map[ssa.Value]int // taint of memory objects, keyed by root value
	retT    map[*ssa.Function][]int
	changed bool
	bySig   map[string][]*ssa.Function
	tupleT  map[ssa.Value][]int // per-component taint of tuple-valued in-repo calls
}

func repoPkg(p *types.Package) bool {
	return p != nil && strings.HasPrefix(p.Path(), "github.com/ja7ad/otp")
}

func (a *analysis) addVal(v ssa.Value, t int) {
	if v == nil || t == 0 {
		return
	}
	if a.val[v]|t != a.val[v] {
		a.val[v] |= t
		a.changed = true
	}
}

func (a *analysis) addObj(v ssa.Value, t int) {
	if v == nil || t == 0 {
		return
	}
	if a.obj[v]|t != a.obj[v] {
		a.obj[v] |= t
		a.changed = true
	}
}

// retAliasOf: for an analysed function, the parameter indices that one of its pointer-like results may alias
// (e.g. padBytes returns input[:length]); root() follows a call to such a function into the matching argument.
var retAliasOf = map[*ssa.Function][]int{}

// retGlobalOf: an analysed function one of whose pointer-like results points into a package-level variable
// (func table() map[string]T { once.Do(build); return theTable }); root() follows a call to it into that variable, so
// that what its callers do with the reference is judged as a use of the global itself.
var retGlobalOf = map[*ssa.Function]*ssa.Global{}

func paramIndex(f *ssa.Function, p *ssa.Parameter) int {
	for i, q := range f.Params {
		if q == p {
			return i
		}
	}
	return -1
}

func benignKind(k string) bool { return k == "local" || k == "fresh" || k == "const" || k == "pool" }

// spilledParam: the local slot `x` is the by-value copy of a parameter (`*x = param` at function entry)
func spilledParam(x *ssa.Alloc) *ssa.Parameter {
	if x.Referrers() == nil {
		return nil
	}
	for _, r := range *x.Referrers() {
		if st, ok := r.(*ssa.Store); ok && st.Addr == x {
			if p, ok := st.Val.(*ssa.Parameter); ok {
				return p
			}
		}
	}
	return nil
}

func pointerLike(t types.Type) bool {
	switch t.Underlying().(type) {
	case *types.Slice, *types.Pointer, *types.Map:
		return true
	}
	return false
}

// root follows address / slice derivations back to the object a value points into.
func root(v ssa.Value) ssa.Value {
	r, _ := rootD(v)
	return r
}

// rootD: as root, and whether a pointer / slice / map was loaded from memory on the way (so that the pointee is not the
// holder's own storage)
func rootD(v ssa.Value) (ssa.Value, bool) {
	deref := false // a pointer / slice / map was loaded from memory on the way: the pointee is not the holder's own storage
	for i := 0; i < 64; i++ {
		switch x := v.(type) {
		case *ssa.Alloc:
			// a reference loaded out of the local copy of a by-value struct parameter still points into the caller's memory
			if deref {
				if p := spilledParam(x); p != nil {
					return p, deref
				}
			}
			return v, deref
		case *ssa.Field:
			if pointerLike(x.Type()) {
				deref = true
			}
			v = x.X
		case *ssa.IndexAddr:
			v = x.X
		case *ssa.FieldAddr:
			v = x.X
		case *ssa.Slice:
			v = x.X
		case *ssa.Convert:
			v = x.X
		case *ssa.ChangeType:
			v = x.X
		case *ssa.TypeAssert:
			v = x.X
		case *ssa.MakeInterface:
			v = x.X
		case *ssa.UnOp:
			if x.Op == token.MUL {
				// a pointer/slice loaded from memory: the pointee belongs to whatever the holder belongs to
				if pointerLike(x.Type()) {
					deref = true
				}
				v = x.X
			} else {
				return v, deref
			}
		case *ssa.Extract:
			v = x.Tuple
		case *ssa.Phi:
			// prefer a non-local edge (over-approximation for "may point into caller memory")
			best := x.Edges[0]
			for _, e := range x.Edges {
				if k := rootKind(root2(e)); k != "local" && k != "fresh" && k != "const" {
					best = e
					break
				}
			}
			if best == v {
				return v, deref
			}
			v = best
		case *ssa.Call:
			if b, ok := x.Call.Value.(*ssa.Builtin); ok && b.Name() == "append" {
				v = x.Call.Args[0]
				continue
			}
			if f := x.Call.StaticCallee(); f != nil && f.Pkg != nil && !strings.HasPrefix(f.Pkg.Pkg.Path(), "github.com/ja7ad/otp") && strings.HasPrefix(f.Name(), "Append") {
				// strconv.AppendUint, (*big.Int).Append, hex.AppendEncode, binary.BigEndian.AppendUint64, fmt.Appendf …: by the
				// library's convention the result is the first byte-slice argument, extended (like the builtin append)
				followed := false
				for _, arg := range x.Call.Args {
					if sl, ok := arg.Type().Underlying().(*types.Slice); ok {
						if b, ok := sl.Elem().Underlying().(*types.Basic); ok && b.Kind() == types.Uint8 {
							v = arg
							followed = true
							break
						}
					}
				}
				if followed {
					continue
				}
			}
			if f := x.Call.StaticCallee(); f != nil {
				if gl, ok := retGlobalOf[f]; ok && gl != nil {
					v = gl
					continue
				}
				if idxs, ok := retAliasOf[f]; ok && len(idxs) > 0 {
					// the result aliases one of the arguments: prefer a non-benign one (over-approximation)
					best := -1
					for _, ix := range idxs {
						if ix < len(x.Call.Args) {
							if best < 0 {
								best = ix
							}
							if !benignKind(rootKind(rootNoPhi(x.Call.Args[ix]))) {
								best = ix
								break
							}
						}
					}
					if best >= 0 {
						v = x.Call.Args[best]
						continue
					}
				}
			}
			return v, deref
		default:
			return v, deref
		}
	}
	return v, deref
}

func root2(v ssa.Value) ssa.Value { return rootNoPhi(v) }

func rootNoPhi(v ssa.Value) ssa.Value {
	for i := 0; i < 64; i++ {
		switch x := v.(type) {
		case *ssa.IndexAddr:
			v = x.X
		case *ssa.FieldAddr:
			v = x.X
		case *ssa.Slice:
			v = x.X
		case *ssa.Convert:
			v = x.X
		case *ssa.ChangeType:
			v = x.X
		case *ssa.TypeAssert:
			v = x.X
		case *ssa.UnOp:
			if x.Op == token.MUL {
				v = x.X
			} else {
				return v
			}
		case *ssa.Extract:
			v = x.Tuple
		default:
			return v
		}
	}
	return v
}

func isPoolGet(v ssa.Value) bool {
	c, ok := v.(*ssa.Call)
	if !ok {
		return false
	}
	if f := c.Call.StaticCallee(); f != nil && f.Name() == "Get" && f.Pkg != nil && f.Pkg.Pkg.Path() == "sync" {
		return true
	}
	return false
}

func rootKind(r ssa.Value) string {
	switch x := r.(type) {
	case *ssa.Alloc:
		return "local"
	case *ssa.MakeSlice, *ssa.MakeMap, *ssa.MakeChan, *ssa.MakeClosure:
		return "fresh"
	case *ssa.Parameter:
		return "param:" + x.Name()
	case *ssa.FreeVar:
		return "freevar:" + x.Name()
	case *ssa.Global:
		return "global:" + x.Name()
	case *ssa.Const:
		return "const"
	case *ssa.Call:
		if isPoolGet(x) {
			return "pool"
		}
		if f := x.Call.StaticCallee(); f != nil {
			return "call:" + f.Name()
		}
		return "call:?"
	case *ssa.BinOp:
		return "fresh" // string concatenation etc.
	default:
		return fmt.Sprintf("other:%T", r)
	}
}

func isTextType(t types.Type) bool {
	switch u := t.Underlying().(type) {
	case *types.Basic:
		return u.Kind() == types.String
	case *types.Slice:
		if b, ok := u.Elem().Underlying().(*types.Basic); ok && b.Kind() == types.Uint8 {
			return true
		}
		if n, ok := u.Elem().(*types.Named); ok && n.Obj().Name() == "Value" && n.Obj().Pkg() != nil && n.Obj().Pkg().Path() == "syscall/js" {
			return true
		}
	case *types.Struct:
		for i := 0; i < u.NumFields(); i++ {
			if isTextType(u.Field(i).Type()) {
				return true
			}
		}
	case *types.Pointer:
		if s, ok := u.Elem().Underlying().(*types.Struct); ok {
			for i := 0; i < s.NumFields(); i++ {
				if bt, ok := s.Field(i).Type().Underlying().(*types.Basic); ok && bt.Kind() == types.String {
					return true
				}
			}
		}
	}
	return false
}

func calleeName(c *ssa.CallCommon) string {
	if c.IsInvoke() {
		return "(" + c.Value.Type().String() + ")." + c.Method.Name()
	}
	if f := c.StaticCallee(); f != nil {
		if f.Pkg != nil {
			if recv := f.Signature.Recv(); recv != nil {
				return f.Pkg.Pkg.Path() + ".(" + types.TypeString(recv.Type(), func(p *types.Package) string { return "" }) + ")." + f.Name()
			}
			return f.Pkg.Pkg.Path() + "." + f.Name()
		}
		return f.Name()
	}
	if b, ok := c.Value.(*ssa.Builtin); ok {
		return "builtin." + b.Name()
	}
	return "dynamic"
}

func isErrorType(t types.Type) bool {
	return types.TypeString(t, nil) == "error"
}

// seed sources
func (a *analysis) seed() {
	for _, f := range a.fns {
		exported := f.Object() != nil && f.Object().Exported() && f.Parent() == nil
		path := ""
		if f.Pkg != nil {
			path = f.Pkg.Pkg.Path()
		}
		for _, p := range f.Params {
			t := 0
			if (exported && path == "github.com/ja7ad/otp" && isTextType(p.Type())) || (strings.HasSuffix(path, "/wasm") && isTextType(p.Type()) && strings.Contains(p.Type().String(), "js.Value")) {
				t |= tC
			}
			if strings.EqualFold(p.Name(), "secret") || strings.EqualFold(p.Name(), "secretBuf") {
				t |= tS
			}
			a.addVal(p, t)
			if t != 0 {
				a.addObj(p, t)
			}
		}
	}
}

func (a *analysis) taintOf(v ssa.Value) int {
	if v == nil {
		return 0
	}
	t := a.val[v]
	switch v.(type) {
	case *ssa.Const, *ssa.Function, *ssa.Builtin:
		return 0
	}
	return t
}

func (a *analysis) resolve(c *ssa.CallCommon) []*ssa.Function {
	if f := c.StaticCallee(); f != nil {
		return []*ssa.Function{f}
	}
	if c.IsInvoke() {
		// interface method call: concrete methods of repo types with that name
		var out []*ssa.Function
		for _, f := range a.fns {
			if f.Name() == c.Method.Name() && f.Signature.Recv() != nil {
				out = append(out, f)
			}
		}
		return out
	}
	// call through a function value: every repo function / closure with an identical signature
	return a.bySig[types.TypeString(c.Value.Type().Underlying(), nil)]
}

func (a *analysis) step(f *ssa.Function) {
	for _, b := range f.Blocks {
		for _, ins := range b.Instrs {
			switch x := ins.(type) {
			case *ssa.BinOp:
				a.addVal(x, a.taintOf(x.X)|a.taintOf(x.Y))
			case *ssa.UnOp:
				t := a.taintOf(x.X)
				if x.Op == token.MUL {
					t |= a.obj[root(x.X)]
				}
				a.addVal(x, t)
			case *ssa.Convert:
				a.addVal(x, a.taintOf(x.X)|a.obj[root(x.X)])
			case *ssa.ChangeType:
				a.addVal(x, a.taintOf(x.X))
			case *ssa.ChangeInterface:
				a.addVal(x, a.taintOf(x.X))
			case *ssa.MakeInterface:
				a.addVal(x, a.taintOf(x.X))
			case *ssa.TypeAssert:
				a.addVal(x, a.taintOf(x.X))
			case *ssa.Slice:
				a.addVal(x, a.taintOf(x.X)|a.obj[root(x.X)])
			case *ssa.Index:
				a.addVal(x, a.taintOf(x.X)|a.taintOf(x.Index))
			case *ssa.IndexAddr:
				a.addVal(x, a.taintOf(x.X))
			case *ssa.Lookup:
				a.addVal(x, a.taintOf(x.X)|a.taintOf(x.Index))
			case *ssa.Field:
				a.addVal(x, a.taintOf(x.X))
			case *ssa.FieldAddr:
				a.addVal(x, a.taintOf(x.X))
			case *ssa.Phi:
				t := 0
				for _, e := range x.Edges {
					t |= a.taintOf(e)
				}
				a.addVal(x, t)
			case *ssa.Extract:
				t := a.taintOf(x.Tuple)
				if pr, ok := a.tupleT[x.Tuple]; ok && x.Index < len(pr) {
					t = pr[x.Index]
				}
				// error results of decoding helpers carry positions / a byte, not the content
				if isErrorType(x.Type()) {
					if c, ok := x.Tuple.(*ssa.Call); ok {
						n := calleeName(&c.Call)
						if strings.HasPrefix(n, "encoding/") || strings.HasPrefix(n, "crypto/rand") || strings.HasSuffix(n, ".DecodeSecret") {
							t = 0
						}
					}
				}
				a.addVal(x, t)
			case *ssa.Store:
				a.addObj(root(x.Addr), a.taintOf(x.Val))
			case *ssa.MapUpdate:
				a.addObj(root(x.Map), a.taintOf(x.Value)|a.taintOf(x.Key))
			case *ssa.MakeClosure:
				fn := x.Fn.(*ssa.Function)
				for i, bnd := range x.Bindings {
					a.addVal(fn.FreeVars[i], a.taintOf(bnd)|a.obj[root(bnd)])
					a.addObj(fn.FreeVars[i], a.taintOf(bnd)|a.obj[root(bnd)])
				}
			case *ssa.Return:
				if a.retT[f] == nil {
					a.retT[f] = make([]int, len(x.Results))
				}
				for i, r := range x.Results {
					t := a.taintOf(r)
					if a.retT[f][i]|t != a.retT[f][i] {
						a.retT[f][i] |= t
						a.changed = true
					}
				}
			case ssa.CallInstruction:
				a.call(x)
			}
		}
	}
}

func (a *analysis) call(ci ssa.CallInstruction) {
	c := ci.Common()
	v := ci.Value()
	name := calleeName(c)
	argT := 0
	for _, arg := range c.Args {
		argT |= a.taintOf(arg)
		if dataBearing(arg.Type()) {
			argT |= a.obj[root(arg)]
		}
	}
	if c.IsInvoke() {
		argT |= a.taintOf(c.Value)
	}
	// builtins
	if b, ok := c.Value.(*ssa.Builtin); ok {
		switch b.Name() {
		case "copy":
			a.addObj(root(c.Args[0]), a.taintOf(c.Args[1])|a.obj[root(c.Args[1])])
		case "append":
			if v != nil {
				a.addVal(v, argT)
			}
			a.addObj(root(c.Args[0]), argT)
		case "len", "cap":
			// the length of the expected code is the (public) digit count: lengths carry caller / secret labels only
			if v != nil {
				a.addVal(v, argT&^tH)
			}
		case "min", "max":
			if v != nil {
				a.addVal(v, argT)
			}
		}
		return
	}
	callees := a.resolve(c)
	inRepo := false
	for _, f := range callees {
		if a.inRepo[f] && len(f.Blocks) > 0 {
			inRepo = true
			args := c.Args
			params := f.Params
			if c.IsInvoke() && len(params) == len(args)+1 {
				a.addVal(params[0], a.taintOf(c.Value))
				params = params[1:]
			}
			for i, p := range params {
				if i < len(args) {
					a.addVal(p, a.taintOf(args[i]))
					if dataBearing(p.Type()) {
						// a slice / string / array value stands for its content (as a re-slice already does): what has been
						// written into the argument's backing store travels with the value into the callee
						a.addVal(p, a.obj[root(args[i])])
					}
					a.addObj(p, a.obj[root(args[i])])
					// what the callee writes through a pointer / slice parameter lands in the caller's object
					if pointerLike(p.Type()) {
						a.addObj(root(args[i]), a.obj[p])
					}
				}
			}
			if v != nil {
				all := 0
				rt := a.retT[f]
				for _, t := range rt {
					all |= t
				}
				if len(rt) > 1 {
					cur := a.tupleT[v]
					if cur == nil {
						cur = make([]int, len(rt))
					}
					for i, t := range rt {
						if i < len(cur) && cur[i]|t != cur[i] {
							cur[i] |= t
							a.changed = true
						}
					}
					a.tupleT[v] = cur
				}
				a.addVal(v, all)
			}
		}
	}
	if inRepo {
		return
	}
	// library / external call summaries
	switch {
	case strings.HasPrefix(name, "crypto/subtle.") || name == "crypto/hmac.Equal":
		return // sanctioned constant-time sink (hmac.Equal is documented as, and is, ConstantTimeCompare(a, b) == 1): result declassified
	case strings.HasSuffix(name, ").Sum") && (strings.Contains(name, "hash.Hash") || strings.Contains(name, "hmac")):
		if v != nil {
			a.addVal(v, tH|argT)
		}
		return
	case strings.HasSuffix(name, ").PostBody") || strings.HasSuffix(name, ").Peek"):
		if v != nil {
			a.addVal(v, tC)
		}
		return
	case strings.HasSuffix(name, ".DecodeSecret"):
		if v != nil {
			a.addVal(v, tS|argT)
		}
		return
	}
	if v != nil {
		a.addVal(v, argT)
	}
	// external callee may write through pointer arguments (json.Unmarshal(body, &req), mac.Write(buf), rand.Read(b), PutUint64(buf, v))
	for _, arg := range c.Args {
		if _, ok := arg.Type().Underlying().(*types.Pointer); ok {
			a.addObj(root(arg), argT)
		}
		if _, ok := arg.Type().Underlying().(*types.Slice); ok && (strings.Contains(name, "Put") || strings.Contains(name, "Read") || strings.Contains(name, "Unmarshal")) {
			a.addObj(root(arg), argT)
		}
	}
	if c.IsInvoke() || (len(c.Args) > 0 && strings.Contains(name, ").Write")) {
		// h.Write(data): the hash state absorbs the data
		recv := c.Value
		if !c.IsInvoke() && len(c.Args) > 0 {
			recv = c.Args[0]
		}
		a.addVal(recv, argT)
		a.addObj(root(recv), argT)
	}
}

// dataBearing: slices, strings, arrays and pointers to arrays carry content; pointers to structs / interfaces
// (a request context, a hash state) are opaque handles whose unrelated fields must not smear taint.
func dataBearing(t types.Type) bool {
	switch u := t.Underlying().(type) {
	case *types.Slice, *types.Array:
		return true
	case *types.Basic:
		return u.Kind() == types.String
	case *types.Pointer:
		_, ok := u.Elem().Underlying().(*types.Array)
		return ok
	}
	return false
}

func ts(t int) string {
	s := ""
	if t&tH != 0 {
		s += "H"
	}
	if t&tC != 0 {
		s += "C"
	}
	if t&tS != 0 {
		s += "S"
	}
	if s == "" {
		return "-"
	}
	return s
}

func isConst(v ssa.Value) bool {
	_, ok := v.(*ssa.Const)
	return ok
}

func fnName(f *ssa.Function) string {
	n := f.String()
	// a function literal assigned to a package-level variable is named after the variable (init$N numbers shift
	// whenever another literal is added to the package)
	if p := f.Parent(); p != nil && p.Name() == "init" && p.Parent() == nil {
		for _, b := range p.Blocks {
			for _, ins := range b.Instrs {
				if st, ok := ins.(*ssa.Store); ok {
					var fv ssa.Value = st.Val
					if mc, ok := fv.(*ssa.MakeClosure); ok {
						fv = mc.Fn
					}
					if mi, ok := fv.(*ssa.MakeInterface); ok {
						fv = mi.X
					}
					if cf, ok := fv.(*ssa.Function); ok && cf == f {
						if g, ok := root(st.Addr).(*ssa.Global); ok && p.Pkg != nil {
							n = p.Pkg.Pkg.Path() + "." + g.Name() + "$func"
						}
					}
				}
			}
		}
	}
	n = strings.ReplaceAll(n, "github.com/ja7ad/otp", "otp")
	return n
}

func exprText(v ssa.Value) string {
	switch x := v.(type) {
	case *ssa.Const:
		if x.Value == nil {
			return "nil"
		}
		if x.Value.Kind() == constant.String {
			s := constant.StringVal(x.Value)
			if len(s) > 40 {
				s = s[:40]
			}
			return fmt.Sprintf("%q", s)
		}
		return x.Value.ExactString()
	case *ssa.Parameter:
		return x.Name()
	case *ssa.Global:
		return x.Name()
	case *ssa.FreeVar:
		return x.Name()
	case *ssa.Convert:
		return exprText(x.X)
	case *ssa.ChangeType:
		return exprText(x.X)
	case *ssa.UnOp:
		if x.Op == token.MUL {
			return "*" + exprText(x.X)
		}
		return x.Op.String() + exprText(x.X)
	case *ssa.FieldAddr:
		st := x.X.Type().Underlying().(*types.Pointer).Elem().Underlying().(*types.Struct)
		return exprText(x.X) + "." + st.Field(x.Field).Name()
	case *ssa.Field:
		st := x.X.Type().Underlying().(*types.Struct)
		return exprText(x.X) + "." + st.Field(x.Field).Name()
	case *ssa.IndexAddr:
		return exprText(x.X) + "[" + exprText(x.Index) + "]"
	case *ssa.Index:
		return exprText(x.X) + "[" + exprText(x.Index) + "]"
	case *ssa.BinOp:
		return "(" + exprText(x.X) + " " + x.Op.String() + " " + exprText(x.Y) + ")"
	case *ssa.Call:
		n := calleeName(&x.Call)
		if i := strings.LastIndex(n, "."); i >= 0 {
			n = n[i+1:]
		}
		var as []string
		for _, a := range x.Call.Args {
			as = append(as, exprText(a))
		}
		return n + "(" + strings.Join(as, ",") + ")"
	case *ssa.Alloc:
		if x.Comment != "" {
			return x.Comment
		}
		return "alloc"
	case *ssa.Slice:
		return exprText(x.X) + "[:]"
	case *ssa.Phi:
		if x.Comment != "" {
			return x.Comment
		}
		return "phi"
	case *ssa.Extract:
		return exprText(x.Tuple) + fmt.Sprintf("#%d", x.Index)
	case *ssa.Lookup:
		return exprText(x.X) + "[" + exprText(x.Index) + "]"
	case *ssa.TypeAssert:
		return exprText(x.X)
	case *ssa.MakeInterface:
		return exprText(x.X)
	}
	return fmt.Sprintf("%T", v)
}

func strip(v ssa.Value) ssa.Value {
	for {
		switch x := v.(type) {
		case *ssa.Convert:
			v = x.X
		case *ssa.ChangeType:
			v = x.X
		default:
			return v
		}
	}
}

// guardsOf: dominating branch conditions that mention (a conversion of) value v, or of len(v's root)
func guardsOf(b *ssa.BasicBlock, vs ...ssa.Value) []string {
	var out []string
	want := map[ssa.Value]bool{}
	for _, v := range vs {
		if v != nil {
			want[strip(v)] = true
		}
	}
	mentions := func(c ssa.Value) bool {
		bo, ok := c.(*ssa.BinOp)
		if !ok {
			return false
		}
		for _, o := range []ssa.Value{bo.X, bo.Y} {
			o = strip(o)
			if want[o] {
				return true
			}
			if call, ok := o.(*ssa.Call); ok {
				if bi, ok := call.Call.Value.(*ssa.Builtin); ok && bi.Name() == "len" && want[strip(call.Call.Args[0])] {
					return true
				}
			}
		}
		return false
	}
	cur := b
	for cur != nil {
		d := cur.Idom()
		if d == nil {
			break
		}
		if iff, ok := d.Instrs[len(d.Instrs)-1].(*ssa.If); ok && mentions(iff.Cond) {
			// which successor leads to cur?
			pol := ""
			if d.Succs[0] == cur || d.Succs[0].Dominates(cur) {
				pol = ""
			} else if d.Succs[1] == cur || d.Succs[1].Dominates(cur) {
				pol = "!"
			} else {
				pol = "?"
			}
			if pol != "?" {
				out = append(out, pol+exprText(iff.Cond))
			}
		}
		cur = d
	}
	sort.Strings(out)
	return out
}

type site struct {
	cfg, fn, kind, expr string
	ord                 int
	extra               []string
	x, y                int
	xc, yc              bool
	// verification condition (panic sites): variables, hypotheses, goal; and the same under the context of every call site
	vcVars, vcHyps []string
	vcGoal         string
	hasVC          bool
	vcCtx          [][3]interface{}
	hasCtx         bool
}

func appendPanic(ps []site, ins ssa.Instruction, s site) []site {
	s.vcVars, s.vcHyps, s.vcGoal, s.hasVC = vcFor(ins)
	if s.hasVC {
		s.vcCtx, s.hasCtx = vcVariants(ins, 0)
	}
	return append(ps, s)
}

func vcStmt(vars, hyps []string, goal string) string {
	stmt := ""
	if len(vars) > 0 {
		stmt = "∀ (" + strings.Join(vars, " ") + " : Int), "
	}
	for _, h := range hyps {
		stmt += "(" + h + ") → "
	}
	return stmt + "(" + goal + ")"
}

func lstr(s string) string {
	var b strings.Builder
	b.WriteByte('"')
	for _, r := range s {
		switch {
		case r == '"' || r == '\\':
			b.WriteByte('\\')
			b.WriteRune(r)
		case r < 32 || r > 126:
			fmt.Fprintf(&b, "\\u{%x}", r)
		default:
			b.WriteRune(r)
		}
	}
	b.WriteByte('"')
	return b.String()
}

func lbytes(s string) string {
	if s == "" {
		return "[]"
	}
	parts := make([]string, len(s))
	for i := 0; i < len(s); i++ {
		parts[i] = fmt.Sprintf("%d", s[i])
	}
	return "[" + strings.Join(parts, ",") + "]"
}

func oneLine(s string) string { return strings.ReplaceAll(strings.ReplaceAll(s, "\n", " "), "\r", " ") }

func cfgCode(c string) int {
	if c == "native" {
		return 0
	}
	return 1
}

func kindCode(k string) int {
	switch {
	case strings.HasPrefix(k, "binop"):
		return 0
	case strings.HasPrefix(k, "ct "):
		return 1
	case strings.HasPrefix(k, "call "):
		return 2
	case k == "branch":
		return 3
	default:
		return 4
	}
}

func lbool(b bool) string {
	if b {
		return "true"
	}
	return "false"
}

var earlyExit = map[string]bool{
	"bytes.Equal": true, "bytes.Compare": true, "bytes.HasPrefix": true, "bytes.HasSuffix": true, "bytes.Contains": true, "bytes.Index": true, "bytes.EqualFold": true,
	"strings.Compare": true, "strings.EqualFold": true, "strings.HasPrefix": true, "strings.HasSuffix": true, "strings.Contains": true, "strings.Index": true,
	"reflect.DeepEqual": true, "slices.Equal": true, "slices.Compare": true,
}

func analyse(cfgName string, env []string, patterns []string, wantPkgs map[string]bool) (cmp, errs, panics, stores, pools []site, loaded []string) {
	// the repository is a Go workspace: load it with its own settings (no -mod=mod, no GOWORK=off)
	var base []string
	for _, kv := range os.Environ() {
		if strings.HasPrefix(kv, "GOFLAGS=") || strings.HasPrefix(kv, "GOWORK=") {
			continue
		}
		base = append(base, kv)
	}
	cfg := &packages.Config{Mode: packages.LoadAllSyntax, Dir: os.Getenv("VERIF_REPO_DIR"), Env: append(base, env...)}
	if cfg.Dir == "" {
		cfg.Dir = "/repo"
	}
	pkgs, err := packages.Load(cfg, patterns...)
	if err != nil {
		fmt.Fprintln(os.Stderr, "load:", err)
		os.Exit(2)
	}
	bad := false
	packages.Visit(pkgs, nil, func(p *packages.Package) {
		if strings.HasPrefix(p.PkgPath, "github.com/ja7ad/otp") {
			for _, e := range p.Errors {
				fmt.Fprintln(os.Stderr, "package error:", e)
				bad = true
			}
		}
	})
	if bad {
		os.Exit(2)
	}
	prog, _ := ssautil.AllPackages(pkgs, ssa.InstantiateGenerics)
	prog.Build()
	a := &analysis{cfgName: cfgName, prog: prog, inRepo: map[*ssa.Function]bool{}, val: map[ssa.Value]int{}, obj: map[ssa.Value]int{}, retT: map[*ssa.Function][]int{}, bySig: map[string][]*ssa.Function{}, tupleT: map[ssa.Value][]int{}}
	for f := range ssautil.AllFunctions(prog) {
		if f.Pkg != nil && wantPkgs[f.Pkg.Pkg.Path()] && !strings.HasPrefix(f.Name(), "Verif") {
			a.fns = append(a.fns, f)
			a.inRepo[f] = true
		} else if f.Parent() != nil {
			p := f
			for p.Parent() != nil {
				p = p.Parent()
			}
			if p.Pkg != nil && wantPkgs[p.Pkg.Pkg.Path()] && !strings.HasPrefix(p.Name(), "Verif") {
				a.fns = append(a.fns, f)
				a.inRepo[f] = true
			}
		}
	}
	sort.Slice(a.fns, func(i, j int) bool { return a.fns[i].String() < a.fns[j].String() })
	for _, f := range a.fns {
		k := types.TypeString(f.Signature.Underlying(), nil)
		a.bySig[k] = append(a.bySig[k], f)
	}
	for p := range wantPkgs {
		loaded = append(loaded, p)
	}
	sort.Strings(loaded)
	a.seed()
	for iter := 0; iter < 60; iter++ {
		a.changed = false
		for _, f := range a.fns {
			a.step(f)
		}
		if !a.changed {
			break
		}
	}
	// --- interprocedural summaries for the store-root analysis
	for k := range retAliasOf {
		delete(retAliasOf, k)
	}
	for k := range retGlobalOf {
		delete(retGlobalOf, k)
	}
	for iter := 0; iter < 4; iter++ {
		for _, f := range a.fns {
			seen := map[int]bool{}
			for _, b := range f.Blocks {
				for _, ins := range b.Instrs {
					if ret, ok := ins.(*ssa.Return); ok {
						for _, res := range ret.Results {
							switch res.Type().Underlying().(type) {
							case *types.Slice, *types.Pointer, *types.Map:
								if p, ok := root(res).(*ssa.Parameter); ok && !isNilConst(res) {
									if ix := paramIndex(f, p); ix >= 0 {
										seen[ix] = true
									}
								}
								if gl, ok := root(res).(*ssa.Global); ok && !isNilConst(res) {
									retGlobalOf[f] = gl
								}
							}
						}
					}
				}
			}
			var idxs []int
			for ix := range seen {
				idxs = append(idxs, ix)
			}
			sort.Ints(idxs)
			retAliasOf[f] = idxs
		}
	}
	// call sites of every analysed function, and whether a function value of it is taken anywhere
	for k := range vcCallers {
		delete(vcCallers, k)
	}
	for k := range vcValueUse {
		delete(vcValueUse, k)
	}
	vcAllFns = a.fns
	ifaceTypesMemo = nil
	callers := map[*ssa.Function][]*ssa.CallCommon{}
	callerFn := map[*ssa.CallCommon]*ssa.Function{}
	valueUse := map[*ssa.Function]bool{}
	for _, f := range a.fns {
		for _, b := range f.Blocks {
			for _, ins := range b.Instrs {
				if ci, ok := ins.(ssa.CallInstruction); ok {
					c := ci.Common()
					if g := c.StaticCallee(); g != nil {
						// a call to an instance of a generic function is a call site of the generic body that is analysed
						if o := g.Origin(); o != nil && !a.inRepo[g] {
							g = o
						}
						if a.inRepo[g] {
							callers[g] = append(callers[g], c)
							callerFn[c] = f
							vcCallers[g] = append(vcCallers[g], ci)
						}
					}
					for _, arg := range c.Args {
						if g, ok := arg.(*ssa.Function); ok {
							valueUse[g] = true
						}
					}
				} else if mc, ok := ins.(*ssa.MakeClosure); ok {
					// a function literal escapes only if the closure VALUE is used for something other than being called
					if g, ok := mc.Fn.(*ssa.Function); ok && mc.Referrers() != nil {
						for _, ref := range *mc.Referrers() {
							ci, isCall := ref.(ssa.CallInstruction)
							if !isCall || ci.Common().Value != ssa.Value(mc) {
								valueUse[g] = true
							}
						}
					}
				} else {
					for _, op := range ins.Operands(nil) {
						if op != nil && *op != nil {
							if g, ok := (*op).(*ssa.Function); ok {
								valueUse[g] = true
							}
						}
					}
				}
			}
		}
	}
	for k, v := range valueUse {
		vcValueUse[k] = v
	}
	// a function value that is only ever handed, as an argument, to an analysed function which does nothing with that
	// parameter but call it (validate(code, n, func(scratch *[10]byte) …)) is as good as called there: argUses records the
	// (call, argument position) pairs, fnEscapes any other use of the value (stored, returned, passed to foreign code)
	type argUse struct {
		c *ssa.CallCommon
		j int
	}
	argUses := map[*ssa.Function][]argUse{}
	fnEscapes := map[*ssa.Function]bool{}
	var noteUse func(g *ssa.Function, val ssa.Value, user ssa.Instruction)
	noteUse = func(g *ssa.Function, val ssa.Value, user ssa.Instruction) {
		if ct, ok := user.(*ssa.ChangeType); ok && ct.Referrers() != nil {
			// conversion to a named function type (type expectation func(…) …): the same value under another type
			for _, ref := range *ct.Referrers() {
				noteUse(g, ct, ref)
			}
			return
		}
		if _, ok := user.(*ssa.DebugRef); ok {
			return
		}
		ci, isCall := user.(ssa.CallInstruction)
		if !isCall {
			fnEscapes[g] = true
			return
		}
		c := ci.Common()
		if c.Value == val {
			return // called directly
		}
		h := c.StaticCallee()
		if h == nil || !a.inRepo[h] || len(h.Blocks) == 0 || c.IsInvoke() {
			fnEscapes[g] = true
			return
		}
		found := false
		for j, arg := range c.Args {
			if arg == val {
				argUses[g] = append(argUses[g], argUse{c, j})
				callerFn[c] = user.Parent()
				found = true
			}
		}
		if !found {
			fnEscapes[g] = true
		}
	}
	for _, f := range a.fns {
		for _, b := range f.Blocks {
			for _, ins := range b.Instrs {
				if mc, ok := ins.(*ssa.MakeClosure); ok {
					if g, ok := mc.Fn.(*ssa.Function); ok && mc.Referrers() != nil {
						for _, ref := range *mc.Referrers() {
							noteUse(g, mc, ref)
						}
					}
					continue
				}
				for _, op := range ins.Operands(nil) {
					if op != nil && *op != nil {
						if g, ok := (*op).(*ssa.Function); ok {
							noteUse(g, g, ins)
						}
					}
				}
			}
		}
	}
	// onceInit: a function literal that captures nothing and whose only use is as the argument of (*sync.Once).Do runs at
	// most once per process and can depend on nothing but package-level data, which is read-only (purity): what it stores
	// into package-level variables is initialisation, exactly as if it stood in init()
	onceInit := map[*ssa.Function]bool{}
	{
		total := map[*ssa.Function]int{}
		once := map[*ssa.Function]int{}
		for _, f := range a.fns {
			for _, b := range f.Blocks {
				for _, ins := range b.Instrs {
					for _, op := range ins.Operands(nil) {
						if op != nil && *op != nil {
							if g, ok := (*op).(*ssa.Function); ok && g.Parent() != nil {
								total[g]++
							}
						}
					}
					if ci, ok := ins.(ssa.CallInstruction); ok {
						c := ci.Common()
						if h := c.StaticCallee(); h != nil && h.Pkg != nil && h.Pkg.Pkg.Path() == "sync" && h.Name() == "Do" && len(c.Args) == 2 {
							if g, ok := c.Args[1].(*ssa.Function); ok && len(g.FreeVars) == 0 && len(g.Params) == 0 {
								once[g]++
							}
						}
					}
				}
			}
		}
		for g, n := range once {
			if n == total[g] {
				onceInit[g] = true
			}
		}
	}
	// calledOnly(h, j): parameter j of h is used for nothing but being called; the calls through it
	calledOnly := func(h *ssa.Function, j int) ([]*ssa.CallCommon, bool) {
		if j >= len(h.Params) || h.Params[j].Referrers() == nil {
			return nil, false
		}
		var calls []*ssa.CallCommon
		for _, ref := range *h.Params[j].Referrers() {
			ci, isCall := ref.(ssa.CallInstruction)
			if !isCall || ci.Common().Value != ssa.Value(h.Params[j]) {
				if _, dbg := ref.(*ssa.DebugRef); dbg {
					continue
				}
				return nil, false
			}
			calls = append(calls, ci.Common())
		}
		return calls, true
	}
	// initOnly(f): f runs only while the package is being initialised (it is `init`, or an internal function / literal all
	// of whose callers are).  A panic there would abort every program that imports the library, including the existing
	// tests and this check's own harness, so it is not an input-dependent panic site.
	initMemo := map[*ssa.Function]int{}
	var initOnly func(f *ssa.Function, depth int) bool
	initOnly = func(f *ssa.Function, depth int) bool {
		if f == nil || depth > 8 {
			return false
		}
		if f.Name() == "init" || strings.HasPrefix(f.Name(), "init#") {
			return true
		}
		if v, ok := initMemo[f]; ok {
			return v == 1
		}
		initMemo[f] = 0
		res := false
		if f.Parent() != nil {
			// a function literal: runs during initialisation only if it is created and called there and not kept
			res = initOnly(f.Parent(), depth+1) && len(callers[f]) > 0 && !valueUse[f]
			if res {
				for _, c := range callers[f] {
					if !initOnly(callerFn[c], depth+1) {
						res = false
					}
				}
			}
		} else if !token.IsExported(f.Name()) && !valueUse[f] && len(callers[f]) > 0 {
			res = true
			for _, c := range callers[f] {
				if !initOnly(callerFn[c], depth+1) {
					res = false
				}
			}
		}
		if res {
			initMemo[f] = 1
		}
		return res
	}
	// benignParam(f, i): f is an unexported, non-escaping function and at EVERY call site the i-th argument points into
	// local, fresh or pooled memory (or into a parameter of the caller that is benign in turn): a write through that
	// parameter cannot touch an exported function's argument or a global.
	var benignRootFn func(f *ssa.Function, v ssa.Value, depth int) bool
	var benignParam func(f *ssa.Function, i int, depth int) bool
	benignParam = func(f *ssa.Function, i int, depth int) bool {
		if depth > 6 || token.IsExported(f.Name()) && f.Parent() == nil {
			return false
		}
		viaValue := f.Parent() != nil || valueUse[f]
		if viaValue {
			// a function literal, or a function used as a value: every use of the value must be a direct call or a hand-over
			// to an analysed function that only calls it
			if fnEscapes[f] || (len(callers[f]) == 0 && len(argUses[f]) == 0) {
				return false
			}
			for _, u := range argUses[f] {
				h := u.c.StaticCallee()
				calls, ok := calledOnly(h, u.j)
				if !ok {
					return false
				}
				for _, c := range calls {
					if i >= len(c.Args) || benignRootFn == nil || !benignRootFn(h, c.Args[i], depth+1) {
						return false
					}
				}
			}
		} else if len(callers[f]) == 0 {
			return false
		}
		for _, c := range callers[f] {
			if i >= len(c.Args) {
				return false
			}
			if benignRootFn != nil && benignRootFn(callerFn[c], c.Args[i], depth+1) {
				continue
			}
			return false
		}
		return true
	}
	// benignRoot(f, v): the memory v points into is local, fresh or pooled — directly, through a parameter that is benign
	// at every call site, or through a variable captured by a function literal (range-over-func bodies, deferred closures)
	// whose captured slot in the enclosing function holds only such memory.
	var benignRoot func(f *ssa.Function, v ssa.Value, depth int) bool
	benignRoot = func(f *ssa.Function, v ssa.Value, depth int) bool {
		if depth > 6 {
			return false
		}
		r, deref := rootD(v)
		if benignKind(rootKind(r)) {
			return true
		}
		switch x := r.(type) {
		case *ssa.Parameter:
			if ix := paramIndex(f, x); ix >= 0 {
				return benignParam(f, ix, depth)
			}
		case *ssa.FreeVar:
			parent := f.Parent()
			if parent == nil {
				return false
			}
			idx := -1
			for k, fv := range f.FreeVars {
				if fv == x {
					idx = k
				}
			}
			found := false
			for _, b := range parent.Blocks {
				for _, ins := range b.Instrs {
					mc, ok := ins.(*ssa.MakeClosure)
					if !ok || mc.Fn != ssa.Value(f) || idx < 0 || idx >= len(mc.Bindings) {
						continue
					}
					found = true
					slot := mc.Bindings[idx]
					if !deref {
						// the captured variable itself is written: that is the enclosing function's own variable
						if !benignRoot(parent, slot, depth+1) {
							return false
						}
						continue
					}
					// a reference held in the captured variable is followed: everything ever stored into the slot must be benign
					al, ok := slot.(*ssa.Alloc)
					if !ok {
						if !benignRoot(parent, slot, depth+1) {
							return false
						}
						continue
					}
					if al.Referrers() != nil {
						for _, ref := range *al.Referrers() {
							if st, ok := ref.(*ssa.Store); ok && st.Addr == ssa.Value(al) && pointerLike(st.Val.Type()) {
								if !benignRoot(parent, st.Val, depth+1) {
									return false
								}
							}
						}
					}
				}
			}
			return found
		}
		return false
	}
	benignRootFn = benignRoot
	rootedAtBenignParam := func(f *ssa.Function, v ssa.Value) bool { return benignRoot(f, v, 0) }
	// --- collect sites
	for _, f := range a.fns {
		if len(f.Blocks) == 0 {
			continue
		}

		isInit := f.Name() == "init" || strings.HasPrefix(f.Name(), "init#") || onceInit[f]
		ord := map[string]int{}
		next := func(kind string) int { ord[kind]++; return ord[kind] }
		fn := fnName(f)
		libFn := f.Pkg != nil && f.Pkg.Pkg.Path() == "github.com/ja7ad/otp" || (f.Parent() != nil && strings.HasPrefix(fn, "otp."))
		if libFn && initOnly(f, 0) {
			libFn = false // package-initialisation code: see initOnly
		}
		usesPool := false
		var poolOps []string
		for _, b := range f.Blocks {
			for _, ins := range b.Instrs {
				switch x := ins.(type) {
				case *ssa.BinOp:
					switch x.Op {
					case token.EQL, token.NEQ, token.LSS, token.LEQ, token.GTR, token.GEQ:
						tx, ty := a.taintOf(x.X), a.taintOf(x.Y)
						if (tx|ty)&tH != 0 {
							cmp = append(cmp, site{cfg: cfgName, fn: fn, kind: "binop " + x.Op.String(), ord: next("cmp"), expr: exprText(x), x: tx, y: ty, xc: isConst(x.X), yc: isConst(x.Y)})
						}
					case token.QUO, token.REM:
						if libFn && !isConst(x.Y) {
							if bt, ok := x.Y.Type().Underlying().(*types.Basic); ok && bt.Info()&types.IsInteger != 0 {
								panics = appendPanic(panics, ins, site{cfg: cfgName, fn: fn, kind: "div", ord: next("div"), expr: exprText(x), extra: guardsOf(b, x.Y)})
							}
						}
					}
				case *ssa.If:
					t := a.taintOf(x.Cond)
					if t&tH != 0 && t&tC != 0 {
						// a branch on a value derived from both the HMAC and caller text (not via a sanctioned sink)
						if _, isCmp := x.Cond.(*ssa.BinOp); !isCmp {
							cmp = append(cmp, site{cfg: cfgName, fn: fn, kind: "branch", ord: next("cmp"), expr: exprText(x.Cond), x: t, y: t})
						}
					}
				case *ssa.Lookup:
					tx, ty := a.taintOf(x.X), a.taintOf(x.Index)
					if (tx|ty)&tH != 0 && (tx|ty)&tC != 0 {
						cmp = append(cmp, site{cfg: cfgName, fn: fn, kind: "lookup", ord: next("cmp"), expr: exprText(x), x: tx, y: ty})
					}
					if libFn {
						if _, isMap := x.X.Type().Underlying().(*types.Map); !isMap && !isConst(x.Index) {
							panics = appendPanic(panics, ins, site{cfg: cfgName, fn: fn, kind: "index", ord: next("index"), expr: exprText(x), extra: guardsOf(b, x.Index, x.X)})
						}
					}
				case *ssa.IndexAddr:
					if libFn && !isConst(x.Index) {
						panics = appendPanic(panics, ins, site{cfg: cfgName, fn: fn, kind: "index", ord: next("index"), expr: exprText(x), extra: guardsOf(b, x.Index, x.X)})
					} else if libFn {
						// constant index into a slice (arrays are checked at compile time)
						if _, isSlice := x.X.Type().Underlying().(*types.Slice); isSlice {
							panics = appendPanic(panics, ins, site{cfg: cfgName, fn: fn, kind: "index", ord: next("index"), expr: exprText(x), extra: guardsOf(b, x.X)})
						}
					}
				case *ssa.Index:
					if libFn && !isConst(x.Index) {
						panics = appendPanic(panics, ins, site{cfg: cfgName, fn: fn, kind: "index", ord: next("index"), expr: exprText(x), extra: guardsOf(b, x.Index, x.X)})
					}
				case *ssa.Slice:
					if libFn && (x.Low != nil && !isConst(x.Low) || x.High != nil && !isConst(x.High) || x.High != nil && isConst(x.High) && !isArrayPtr(x.X) || x.Low != nil && isConst(x.Low) && !isArrayPtr(x.X) && exprText(x.Low) != "0") {
						lo, hi := "", ""
						if x.Low != nil {
							lo = exprText(x.Low)
						}
						if x.High != nil {
							hi = exprText(x.High)
						}
						panics = appendPanic(panics, ins, site{cfg: cfgName, fn: fn, kind: "slice", ord: next("slice"), expr: exprText(x.X) + "[" + lo + ":" + hi + "]", extra: guardsOf(b, x.Low, x.High, x.X)})
					}
					if usesPool && rootKind(root(x.X)) == "pool" {
						poolOps = append(poolOps, "4|reslice "+exprText(x.X))
					}
				case *ssa.MakeSlice:
					if libFn && !isConst(x.Len) {
						panics = appendPanic(panics, ins, site{cfg: cfgName, fn: fn, kind: "makeslice", ord: next("makeslice"), expr: "make(" + exprText(x.Len) + ")", extra: guardsOf(b, x.Len)})
					}
				case *ssa.TypeAssert:
					if libFn && !x.CommaOk && poolTyped(a, x) {
						// what comes out of this pool is what New makes and every Put puts: values of exactly the asserted type
						panics = appendPanic(panics, ins, site{cfg: cfgName, fn: fn, kind: "typeassert(pool-typed)", ord: next("typeassert"), expr: exprText(x.X) + ".(" + x.AssertedType.String() + ")"})
					} else if libFn && !x.CommaOk {
						panics = appendPanic(panics, ins, site{cfg: cfgName, fn: fn, kind: "typeassert", ord: next("typeassert"), expr: exprText(x.X) + ".(" + x.AssertedType.String() + ")"})
					}
				case *ssa.Panic:
					if c, ok := x.X.(*ssa.MakeInterface); ok {
						if k, ok := c.X.(*ssa.Const); ok && k.Value != nil && k.Value.Kind() == constant.String {
							msg := constant.StringVal(k.Value)
							if strings.HasPrefix(msg, "iterator call did not preserve panic") || strings.HasPrefix(msg, "yield function called after range loop exit") {
								continue // checks the compiler adds around range-over-func loops, not library code
							}
						}
					}
					if libFn {
						panics = appendPanic(panics, ins, site{cfg: cfgName, fn: fn, kind: "panic", ord: next("panic"), expr: exprText(x.X)})
					}
				case *ssa.Store:
					r := root(x.Addr)
					k := rootKind(r)
					if !isInit && (strings.HasPrefix(k, "param:") || strings.HasPrefix(k, "global:") || strings.HasPrefix(k, "freevar:") || strings.HasPrefix(k, "call:") || strings.HasPrefix(k, "other:")) {
						if _, direct := x.Addr.(*ssa.Alloc); !direct && !rootedAtBenignParam(f, x.Addr) {
							stores = append(stores, site{cfg: cfgName, fn: fn, kind: "store " + k, ord: next("store"), expr: exprText(x.Addr)})
						}
					}
					if usesPool && k == "pool" {
						poolOps = append(poolOps, "3|write "+exprText(x.Addr))
					}
				case *ssa.MapUpdate:
					r := root(x.Map)
					k := rootKind(r)
					if !isInit && k != "local" && k != "fresh" && !rootedAtBenignParam(f, x.Map) {
						stores = append(stores, site{cfg: cfgName, fn: fn, kind: "mapupdate " + k, ord: next("store"), expr: exprText(x.Map)})
					}
				case *ssa.Return:
					for _, res := range x.Results {
						switch res.Type().Underlying().(type) {
						case *types.Slice, *types.Pointer, *types.Map:
							k := rootKind(root(res))
							if strings.HasPrefix(k, "param:") && !token.IsExported(f.Name()) && f.Parent() == nil && !valueUse[f] {
								// an internal helper returning a view of its argument: accounted for at its call sites (retAliasOf);
								// without call sites it is dead code outside the tests
								continue
							}
							if strings.HasPrefix(k, "global:") && !token.IsExported(f.Name()) && f.Parent() == nil && !valueUse[f] && len(callers[f]) > 0 && retGlobalOf[f] != nil {
								// an internal helper handing its callers a reference to a package-level table: every caller's use
								// of it is judged as a use of that global (retGlobalOf)
								continue
							}
							if strings.HasPrefix(k, "param:") && rootedAtBenignParam(f, res) {
								// a view of memory that is local, fresh or pooled at every place this function is called from
								continue
							}
							if strings.HasPrefix(k, "param:") || strings.HasPrefix(k, "global:") || k == "pool" {
								if !isNilConst(res) {
									stores = append(stores, site{cfg: cfgName, fn: fn, kind: "return " + k, ord: next("return"), expr: exprText(res)})
								}
							}
						}
					}
				case ssa.CallInstruction:
					c := x.Common()
					name := calleeName(c)
					short := name
					if i := strings.LastIndex(name, "/"); i >= 0 {
						short = name[i+1:]
					}
					v := x.Value()
					// comparison-like library calls and the sanctioned sinks
					if len(c.Args) >= 2 && (earlyExit[short] || strings.HasPrefix(short, "subtle.") || short == "hmac.Equal") {
						tx := a.taintOf(c.Args[0]) | a.obj[root(c.Args[0])]
						ty := a.taintOf(c.Args[1]) | a.obj[root(c.Args[1])]
						if (tx|ty)&tH != 0 {
							kind := "call " + short
							if strings.HasPrefix(short, "subtle.") || short == "hmac.Equal" {
								kind = "ct " + short
							}
							cmp = append(cmp, site{cfg: cfgName, fn: fn, kind: kind, ord: next("cmp"), expr: exprText(c.Args[0]) + " ~ " + exprText(c.Args[1]), x: tx, y: ty})
						}
					}
					// error construction
					if short == "fmt.Errorf" || short == "errors.New" {
						t := 0
						for _, arg := range c.Args[1:] {
							t |= a.taintOf(arg) | a.obj[root(arg)]
						}
						if len(c.Args) > 0 && !isConst(c.Args[0]) {
							t |= a.taintOf(c.Args[0])
						}
						errs = append(errs, site{cfg: cfgName, fn: fn, kind: short, ord: next("err"), expr: exprText(c.Args[0]), x: t})
					}
					// atomic / sync.Map writes into non-local memory are writes like any other
					if f2 := c.StaticCallee(); f2 != nil && len(c.Args) > 0 {
						full, nm := f2.String(), f2.Name()
						pkgp := ""
						switch {
						case strings.Contains(full, "sync/atomic."):
							pkgp = "sync/atomic" // also instantiations of the generic atomic.Pointer[T], which have no package of their own
						case strings.Contains(full, "sync.Map"):
							pkgp = "sync"
						}
						isAtomicWrite := pkgp == "sync/atomic" && (strings.HasPrefix(nm, "Store") || strings.HasPrefix(nm, "Swap") || strings.HasPrefix(nm, "CompareAndSwap") || strings.HasPrefix(nm, "Add") || strings.HasPrefix(nm, "Or") || strings.HasPrefix(nm, "And"))
						isSyncMapWrite := pkgp == "sync" && (nm == "Store" || nm == "LoadOrStore" || nm == "Swap" || nm == "Delete" || nm == "LoadAndDelete" || nm == "CompareAndSwap")
						if (isAtomicWrite || isSyncMapWrite) && !isInit {
							k := rootKind(root(c.Args[0]))
							if k != "local" && k != "fresh" && !rootedAtBenignParam(f, c.Args[0]) {
								stores = append(stores, site{cfg: cfgName, fn: fn, kind: "store " + k + " (atomic)", ord: next("store"), expr: exprText(c.Args[0])})
							}
						}
					}
					// appends / copies into non-local memory
					if b, ok := c.Value.(*ssa.Builtin); ok && (b.Name() == "append" || b.Name() == "copy") {
						k := rootKind(root(c.Args[0]))
						if (strings.HasPrefix(k, "param:") || strings.HasPrefix(k, "global:") || strings.HasPrefix(k, "freevar:")) && !rootedAtBenignParam(f, c.Args[0]) {
							stores = append(stores, site{cfg: cfgName, fn: fn, kind: b.Name() + " " + k, ord: next("store"), expr: exprText(c.Args[0])})
						}
						if usesPool && k == "pool" {
							poolOps = append(poolOps, "5|"+b.Name()+" into "+exprText(c.Args[0]))
						}
					}
					// unsafe views must point at local memory
					if strings.HasSuffix(name, ".unsafeString") && len(c.Args) == 1 {
						k := rootKind(root(c.Args[0]))
						if k != "local" && k != "fresh" {
							stores = append(stores, site{cfg: cfgName, fn: fn, kind: "unsafe-view " + k, ord: next("store"), expr: exprText(c.Args[0])})
						}
					}
					// pool protocol
					if f2 := c.StaticCallee(); f2 != nil && f2.Pkg != nil && f2.Pkg.Pkg.Path() == "sync" && f2.Signature.Recv() != nil && strings.Contains(f2.Signature.Recv().Type().String(), "Pool") {
						usesPool = true
						code := "0|" // Get
						if f2.Name() == "Put" {
							code = "1|"
							if _, ok := x.(*ssa.Defer); ok {
								code = "2|"
							}
						}
						poolOps = append(poolOps, code+exprText(c.Args[0]))
					} else if _, isBuiltin := c.Value.(*ssa.Builtin); usesPool && !isBuiltin {
						for ai, arg := range c.Args {
							if rootKind(root(arg)) == "pool" {
								code := "9|"
								switch {
								case strings.HasPrefix(short, "binary.") && strings.Contains(short, "Put"):
									code = "6|" // overwrites the buffer
								case short == "(hash.Hash).Write" || strings.HasPrefix(short, "subtle.") || strings.HasPrefix(short, "bytes.") || strings.HasPrefix(short, "hex."):
									code = "7|" // reads it, keeps nothing
								default:
									g := c.StaticCallee()
									if g != nil && !a.inRepo[g] {
										if o := g.Origin(); o != nil && a.inRepo[o] {
											g = o // an instance of a generic helper of the repository: its analysed body is the generic one
										}
									}
									if g != nil && a.inRepo[g] && !retainsParam(a, g, ai, 0) {
										code = "8|" // an internal helper that neither stores nor publishes its argument
									}
								}
								poolOps = append(poolOps, code+"pass-to "+short+" "+exprText(arg))
							}
						}
					}
					_ = v
				}
			}
		}
		if usesPool {
			pools = append(pools, site{cfg: cfgName, fn: fn, kind: "pool", ord: 1, expr: strings.Join(poolOps, "; "), extra: poolOps})
		}
	}
	return
}

// retainsParam: may function f keep (store, capture, send, hand to unknown code) the memory its i-th argument points to
// beyond the call?  Returning a view of it is not retention (the caller sees that through retAliasOf).
func retainsParam(a *analysis, f *ssa.Function, i int, depth int) bool {
	if depth > 4 || i >= len(f.Params) || len(f.Blocks) == 0 {
		return true
	}
	p := f.Params[i]
	is := func(v ssa.Value) bool { return v != nil && root(v) == ssa.Value(p) }
	for _, b := range f.Blocks {
		for _, ins := range b.Instrs {
			switch x := ins.(type) {
			case *ssa.Store:
				if is(x.Val) && pointerLike(x.Val.Type()) {
					if _, local := root(x.Addr).(*ssa.Alloc); !local {
						return true
					}
				}
			case *ssa.MapUpdate:
				if is(x.Value) || is(x.Key) {
					return true
				}
			case *ssa.MakeClosure:
				for _, bnd := range x.Bindings {
					if is(bnd) {
						return true
					}
				}
			case *ssa.Send:
				if is(x.X) {
					return true
				}
			case ssa.CallInstruction:
				c := x.Common()
				if _, ok := c.Value.(*ssa.Builtin); ok {
					continue
				}
				_, isGo := x.(*ssa.Go)
				for j, arg := range c.Args {
					if !is(arg) {
						continue
					}
					if isGo {
						return true
					}
					name := calleeName(c)
					short := name
					if k := strings.LastIndex(name, "/"); k >= 0 {
						short = name[k+1:]
					}
					if g := c.StaticCallee(); g != nil && a.inRepo[g] {
						if retainsParam(a, g, j, depth+1) {
							return true
						}
						continue
					}
					if short == "(hash.Hash).Write" || strings.HasPrefix(short, "binary.") || strings.HasPrefix(short, "subtle.") || strings.HasPrefix(short, "bytes.") || strings.HasPrefix(short, "hex.") {
						continue
					}
					return true
				}
			}
		}
	}
	return false
}

// poolTyped: x asserts the type of a value obtained from sync.Pool.Get on a package-level pool whose New function and
// every Put (in the analysed code) use exactly that type.
func poolTyped(a *analysis, x *ssa.TypeAssert) bool {
	call, ok := x.X.(*ssa.Call)
	if !ok || !isPoolGet(call) || len(call.Call.Args) != 1 {
		return false
	}
	pool, ok := call.Call.Args[0].(*ssa.Global)
	if !ok {
		return false
	}
	want := x.AssertedType
	sawNew := false
	for _, f := range a.fns {
		for _, b := range f.Blocks {
			for _, ins := range b.Instrs {
				switch y := ins.(type) {
				case ssa.CallInstruction:
					c := y.Common()
					if g := c.StaticCallee(); g != nil && g.Name() == "Put" && g.Pkg != nil && g.Pkg.Pkg.Path() == "sync" && len(c.Args) == 2 && c.Args[0] == ssa.Value(pool) {
						mi, ok := c.Args[1].(*ssa.MakeInterface)
						if !ok || !types.Identical(mi.X.Type(), want) {
							return false
						}
					}
				case *ssa.Store:
					// pool.New = func() any { return <value of type want> }   (init)
					if fa, ok := y.Addr.(*ssa.FieldAddr); ok && fa.X == ssa.Value(pool) {
						var fn *ssa.Function
						switch v := y.Val.(type) {
						case *ssa.Function:
							fn = v
						case *ssa.MakeClosure:
							fn, _ = v.Fn.(*ssa.Function)
						}
						if fn == nil {
							return false
						}
						for _, fb := range fn.Blocks {
							for _, fi := range fb.Instrs {
								if ret, ok := fi.(*ssa.Return); ok {
									for _, res := range ret.Results {
										mi, ok := res.(*ssa.MakeInterface)
										if !ok || !types.Identical(mi.X.Type(), want) {
											return false
										}
										sawNew = true
									}
								}
							}
						}
					}
				}
			}
		}
	}
	return sawNew
}

func isNilConst(v ssa.Value) bool {
	c, ok := v.(*ssa.Const)
	return ok && c.Value == nil
}

func isArrayPtr(v ssa.Value) bool {
	p, ok := v.Type().Underlying().(*types.Pointer)
	if !ok {
		return false
	}
	_, ok = p.Elem().Underlying().(*types.Array)
	return ok
}

func main() {
	out := "/verif/lean/OtpVerif/Gen/Sites.lean"
	if len(os.Args) > 1 {
		out = os.Args[1]
	}
	var cmp, errs, panics, stores, pools []site
	c1, e1, p1, s1, o1, _ := analyse("native", nil, []string{"github.com/ja7ad/otp", "github.com/ja7ad/otp/internal/app/api"},
		map[string]bool{"github.com/ja7ad/otp": true, "github.com/ja7ad/otp/internal/app/api": true})
	c2, e2, p2, s2, o2, _ := analyse("jswasm", []string{"GOOS=js", "GOARCH=wasm"}, []string{"github.com/ja7ad/otp", "github.com/ja7ad/otp/wasm"},
		map[string]bool{"github.com/ja7ad/otp": true, "github.com/ja7ad/otp/wasm": true})
	cmp = append(c1, c2...)
	errs = append(e1, e2...)
	panics = append(p1, p2...)
	stores = append(s1, s2...)
	pools = append(o1, o2...)

	var b strings.Builder
	b.WriteString("-- GENERATED by /verif/harness/cmd/ssafacts (go/ssa over the working tree, native and js/wasm). Do not edit.\n")
	b.WriteString("namespace OtpVerif.Gen\n\n")
	b.WriteString("/-- a comparison-like site touching HMAC-derived data: taint of the two operands (H hmac-derived, C caller text, S secret) -/\n")
	b.WriteString("/- cfg: 0 native, 1 js/wasm.  kindCode: 0 comparison operator, 1 crypto/subtle constant-time function, 2 early-exit library comparison, 3 branch on a mixed value, 4 lookup.  fnB: the function name as bytes (String operations do not reduce in the kernel). -/\n")
	b.WriteString("structure CmpSite where\n  cfg : Nat\n  fn : String\n  fnB : List Nat\n  ord : Nat\n  kindCode : Nat\n  kind : String\n  expr : String\n  xH : Bool\n  xC : Bool\n  yH : Bool\n  yC : Bool\n  xConst : Bool\n  yConst : Bool\n  deriving Repr\n\n")
	b.WriteString("def cmpSites : List CmpSite := [\n")
	for i, s := range cmp {
		sep := ","
		if i == len(cmp)-1 {
			sep = ""
		}
		fmt.Fprintf(&b, "  { cfg := %d, fn := %s, fnB := %s, ord := %d, kindCode := %d, kind := %s, expr := %s, xH := %s, xC := %s, yH := %s, yC := %s, xConst := %s, yConst := %s }%s\n",
			cfgCode(s.cfg), lstr(s.fn), lbytes(s.fn), s.ord, kindCode(s.kind), lstr(s.kind), lstr(s.expr), lbool(s.x&tH != 0), lbool(s.x&tC != 0), lbool(s.y&tH != 0), lbool(s.y&tC != 0), lbool(s.xc), lbool(s.yc), sep)
	}
	b.WriteString("]\n\n")
	b.WriteString("/-- an error / message construction site: is any argument secret- (S) or HMAC-derived (H)? -/\n")
	b.WriteString("structure ErrSite where\n  cfg : Nat\n  fn : String\n  ord : Nat\n  kind : String\n  fmt : String\n  argS : Bool\n  argH : Bool\n  deriving Repr\n\n")
	b.WriteString("def errSites : List ErrSite := [\n")
	for i, s := range errs {
		sep := ","
		if i == len(errs)-1 {
			sep = ""
		}
		fmt.Fprintf(&b, "  { cfg := %d, fn := %s, ord := %d, kind := %s, fmt := %s, argS := %s, argH := %s }%s\n",
			cfgCode(s.cfg), lstr(s.fn), s.ord, lstr(s.kind), lstr(s.expr), lbool(s.x&tS != 0), lbool(s.x&tH != 0), sep)
	}
	b.WriteString("]\n\n")
	emit := func(name, doc string, ss []site) {
		fmt.Fprintf(&b, "/-- %s; every text is given as bytes (kernel-decidable equality) followed by a readable comment -/\ndef %s : List (Nat × List Nat × List Nat × List Nat × List (List Nat)) := [\n", doc, name)
		for i, s := range ss {
			sep := ","
			if i == len(ss)-1 {
				sep = ""
			}
			var ex []string
			for _, e := range s.extra {
				ex = append(ex, lbytes(e))
			}
			fmt.Fprintf(&b, "  -- %s ¦ %s ¦ %s #%d ¦ %s ¦ %s\n  (%d, %s, %s, %s, [%s])%s\n", s.cfg, s.fn, s.kind, s.ord, oneLine(s.expr), oneLine(strings.Join(s.extra, " ; ")),
				cfgCode(s.cfg), lbytes(s.fn), lbytes(s.kind), lbytes(s.expr), strings.Join(ex, ", "), sep)
		}
		b.WriteString("]\n\n")
	}
	// verification conditions: one line per theorem / table entry so that the check can drop the ones omega cannot prove
	{
		var vb strings.Builder
		vb.WriteString("-- GENERATED by /verif/harness/cmd/ssafacts (vc.go). Do not edit.\n")
		vb.WriteString("-- One in-bounds / non-zero-divisor condition per potentially panicking instruction, from the dominating branch\n-- conditions, type facts and loop-variable monotonicity found in go/ssa; each is proved by omega.\n")
		vb.WriteString("namespace OtpVerif.Gen.PanicVC\n\n")
		vb.WriteString("/-- a panic site together with the condition under which it cannot panic, and the proof of that condition -/\nstructure Proved where\n  site : Nat × List Nat × List Nat × List Nat × List (List Nat)\n  cond : Prop\n  proof : cond\n\n")
		var entries []string
		k := 0
		for _, s := range panics {
			if !s.hasVC {
				continue
			}
			name := fmt.Sprintf("vc_%d_%s_%s_%d", cfgCode(s.cfg), leanIdent(s.fn), leanIdent(s.kind), s.ord)
			var ex []string
			for _, e := range s.extra {
				ex = append(ex, lbytes(e))
			}
			tuple := fmt.Sprintf("(%d, %s, %s, %s, [%s])", cfgCode(s.cfg), lbytes(s.fn), lbytes(s.kind), lbytes(s.expr), strings.Join(ex, ", "))
			// variant a: from the function's own guards
			fmt.Fprintf(&vb, "theorem %s_a : %s := by intros; omega -- VC %d.a ¦ %s ¦ %s ¦ %s\n", name, vcStmt(s.vcVars, s.vcHyps, s.vcGoal), k, s.cfg, s.fn, oneLine(s.expr))
			entries = append(entries, fmt.Sprintf("  ⟨%s, _, %s_a⟩ :: -- VCENTRY %d.a", tuple, name, k))
			// variant b: under what holds at every call site of this (internal) function
			if s.hasCtx && len(s.vcCtx) > 0 {
				var parts, proofs []string
				for _, c := range s.vcCtx {
					parts = append(parts, "("+vcStmt(c[0].([]string), c[1].([]string), c[2].(string))+")")
					proofs = append(proofs, "by intros; omega")
				}
				stmt, proof := strings.Join(parts, " ∧ "), "⟨"+strings.Join(proofs, ", ")+"⟩"
				if len(parts) == 1 {
					proof = proofs[0]
				}
				fmt.Fprintf(&vb, "theorem %s_b : %s := %s -- VC %d.b ¦ %s ¦ %s ¦ %s (at its %d call sites)\n", name, stmt, proof, k, s.cfg, s.fn, oneLine(s.expr), len(parts))
				entries = append(entries, fmt.Sprintf("  ⟨%s, _, %s_b⟩ :: -- VCENTRY %d.b", tuple, name, k))
			}
			k++
		}
		vb.WriteString("\ndef proved : List Proved :=\n")
		for _, e := range entries {
			vb.WriteString(e + "\n")
		}
		vb.WriteString("  []\n\nend OtpVerif.Gen.PanicVC\n")
		vcOut := filepath.Join(filepath.Dir(out), "PanicVC.lean")
		if os.Getenv("VERIF_VC_OUT") != "" {
			vcOut = os.Getenv("VERIF_VC_OUT")
		}
		if old, err := os.ReadFile(vcOut); err != nil || string(old) != vb.String() {
			os.WriteFile(vcOut, []byte(vb.String()), 0o644)
		}
	}
	emit("panicSites", "potentially panicking instructions of package otp: (cfg, function, kind, ordinal, expression, dominating guards on the operand)", panics)
	emit("storeSites", "writes / returns / unsafe views whose root is caller memory, a global, or pooled memory escaping: (cfg, function, kind, ordinal, expression, [])", stores)
	{
		b.WriteString("/-- for each function that uses a sync.Pool: its pool operations in program order, as (code, text):\n0 Get, 1 Put, 2 deferred Put, 3 write into the buffer, 4 reslice, 5 append / copy into it, 6 handed to a library function that overwrites it,\n7 handed to a library function that only reads it, 8 handed to an internal helper that does not keep it, 9 handed to anything else -/\n")
		b.WriteString("def poolSites : List (Nat × List Nat × List (Nat × List Nat)) := [\n")
		for i, s := range pools {
			sep := ","
			if i == len(pools)-1 {
				sep = ""
			}
			var ops []string
			for _, o := range s.extra {
				code, text := o[:1], o[2:]
				ops = append(ops, "("+code+", "+lbytes(text)+")")
			}
			fmt.Fprintf(&b, "  -- %s ¦ %s ¦ %s\n  (%d, %s, [%s])%s\n", s.cfg, s.fn, oneLine(s.expr), cfgCode(s.cfg), lbytes(s.fn), strings.Join(ops, ", "), sep)
		}
		b.WriteString("]\n\n")
	}
	b.WriteString("end OtpVerif.Gen\n")
	old, err := os.ReadFile(out)
	if err == nil && string(old) == b.String() {
		return
	}
	os.MkdirAll(filepath.Dir(out), 0o755)
	if err := os.WriteFile(out, []byte(b.String()), 0o644); err != nil {
		panic(err)
	}
	fmt.Println("ssafacts: rewrote", out)
}
