// Verification conditions for potentially panicking instructions.
//
// For an index / slice / integer division / make instruction the generator collects, from go/ssa,
//   - the dominating branch conditions (only those whose successor has the branch as its single predecessor),
//   - type facts (unsigned values are >= 0, lengths are >= 0, cap >= len, array lengths are constants,
//     x & mask lies in 0..mask, x % c lies in 0..c-1 for unsigned x),
//   - the length of freshly made or re-sliced values,
//   - for a loop variable i = phi(init, i±c): i >= init (counting up) or i <= init (counting down),
// as linear (in)equalities over the integers, and states the in-bounds condition as the goal.  Each condition
// becomes one Lean theorem proved by `omega`; a site whose condition omega cannot prove is left to the reviewed
// list (Model/Justified.lean).  Integers are modelled as unbounded: wrap-around of the index arithmetic itself
// (an index expression exceeding 2^63) is outside what these conditions see.
package main

import (
	"fmt"
	"go/constant"
	"go/token"
	"go/types"
	"sort"
	"strings"

	"golang.org/x/tools/go/ssa"
)

type vcgen struct {
	names map[ssa.Value]string // integer atoms
	lens  map[ssa.Value]string // length atoms
	caps  map[ssa.Value]string
	vars  []string
	hyps  []string
	seenH map[string]bool
	busy  map[ssa.Value]bool
	n     int
	// while a loop back edge is being described: values computed inside the loop belong to the PREVIOUS iteration there and
	// get names of their own (overN / overL / overC), so that they are never confused with this iteration's values
	loopHead           *ssa.BasicBlock
	overN, overL, overC map[ssa.Value]string
	phiDepth           int
	phiDone            map[*ssa.Phi]bool
	phiGuardDepth      int
	fieldCanon         map[string]ssa.Value // (parameter, field path) -> the first Field instruction met for it
}

func newVC() *vcgen {
	return &vcgen{names: map[ssa.Value]string{}, lens: map[ssa.Value]string{}, caps: map[ssa.Value]string{}, seenH: map[string]bool{}, busy: map[ssa.Value]bool{}}
}

func (g *vcgen) fresh(prefix string) string {
	g.n++
	v := fmt.Sprintf("%s%d", prefix, g.n)
	g.vars = append(g.vars, v)
	return v
}

func (g *vcgen) hyp(h string) {
	if !g.seenH[h] {
		g.seenH[h] = true
		g.hyps = append(g.hyps, h)
	}
}

func intInfo(t types.Type) (isInt, unsigned bool, bits int) {
	b, ok := t.Underlying().(*types.Basic)
	if !ok || b.Info()&types.IsInteger == 0 {
		return false, false, 0
	}
	switch b.Kind() {
	case types.Int8:
		return true, false, 8
	case types.Int16:
		return true, false, 16
	case types.Int32:
		return true, false, 32
	case types.Int64, types.Int, types.UntypedInt, types.UntypedRune:
		return true, false, 64
	case types.Uint8:
		return true, true, 8
	case types.Uint16:
		return true, true, 16
	case types.Uint32:
		return true, true, 32
	case types.Uint64, types.Uint, types.Uintptr:
		return true, true, 64
	}
	return true, false, 64
}

// variant: under a back-edge description, v is computed inside the loop (its block is not a strict dominator of the head)
func (g *vcgen) variant(v ssa.Value) bool {
	if g.loopHead == nil {
		return false
	}
	ins, ok := v.(ssa.Instruction)
	if !ok || ins.Block() == nil {
		return false
	}
	b := ins.Block()
	return !(b != g.loopHead && b.Dominates(g.loopHead))
}

// canon: two `f.width` expressions on a by-value parameter are two Field instructions of one immutable value — one atom
func (g *vcgen) canon(v ssa.Value) ssa.Value {
	if ld, ok := v.(*ssa.UnOp); ok && ld.Op == token.MUL {
		// a field read through the local slot a by-value parameter was spilled into, when that slot is never written again
		// and its address goes nowhere: the parameter's field
		path := ""
		var cur ssa.Value = ld.X
		for i := 0; i < 6; i++ {
			fa, ok := cur.(*ssa.FieldAddr)
			if !ok {
				break
			}
			path = fmt.Sprintf(".%d", fa.Field) + path
			cur = fa.X
		}
		if al, ok := cur.(*ssa.Alloc); ok && path != "" {
			if p := spilledParam(al); p != nil && readOnlySlot(al) {
				key := fmt.Sprintf("%p%s", p, path)
				if g.fieldCanon == nil {
					g.fieldCanon = map[string]ssa.Value{}
				}
				if c, ok := g.fieldCanon[key]; ok {
					return c
				}
				g.fieldCanon[key] = v
			}
		}
		return v
	}
	fl, ok := v.(*ssa.Field)
	if !ok {
		return v
	}
	path := ""
	var cur ssa.Value = fl
	for i := 0; i < 6; i++ {
		f2, ok := cur.(*ssa.Field)
		if !ok {
			break
		}
		path = fmt.Sprintf(".%d", f2.Field) + path
		cur = f2.X
	}
	p, ok := cur.(*ssa.Parameter)
	if !ok {
		return v
	}
	key := fmt.Sprintf("%p%s", p, path)
	if g.fieldCanon == nil {
		g.fieldCanon = map[string]ssa.Value{}
	}
	if c, ok := g.fieldCanon[key]; ok {
		return c
	}
	g.fieldCanon[key] = v
	return v
}

func (g *vcgen) atom(v ssa.Value) string {
	v = g.canon(v)
	names := g.names
	if g.variant(v) {
		names = g.overN
	}
	if n, ok := names[v]; ok {
		return n
	}
	n := g.fresh("v")
	names[v] = n
	if isInt, uns, bits := intInfo(v.Type()); isInt {
		if uns {
			g.hyp("0 ≤ " + n)
			if bits < 64 {
				g.hyp(fmt.Sprintf("%s < %d", n, uint64(1)<<uint(bits)))
			}
		} else if bits < 64 {
			g.hyp(fmt.Sprintf("-%d ≤ %s", uint64(1)<<uint(bits-1), n))
			g.hyp(fmt.Sprintf("%s < %d", n, uint64(1)<<uint(bits-1)))
		} else {
			g.hyp("-9223372036854775808 ≤ " + n)
			g.hyp(n + " < 9223372036854775808")
		}
		if uns && bits == 64 {
			g.hyp(n + " < 18446744073709551616")
		}
	}
	return n
}

func constInt(v ssa.Value) (int64, bool) {
	c, ok := v.(*ssa.Const)
	if !ok || c.Value == nil || c.Value.Kind() != constant.Int {
		return 0, false
	}
	if i, exact := constant.Int64Val(c.Value); exact {
		return i, true
	}
	return 0, false
}

func lit(i int64) string {
	if i < 0 {
		return fmt.Sprintf("(%d)", i)
	}
	return fmt.Sprintf("%d", i)
}

// lin: a linear integer expression for v (or an atom)
func (g *vcgen) lin(v ssa.Value) string {
	if v == nil {
		return "0"
	}
	if i, ok := constInt(v); ok {
		return lit(i)
	}
	if g.busy[v] {
		return g.atom(v)
	}
	g.busy[v] = true
	defer delete(g.busy, v)
	switch x := v.(type) {
	case *ssa.BinOp:
		_, uns, bits := intInfo(x.Type())
		switch x.Op {
		case token.ADD:
			// narrow unsigned additions wrap at small values (uint8: 200 + 100 = 44): not linear over the integers
			if isInt, _, _ := intInfo(x.Type()); isInt && !(uns && bits < 64) {
				return "(" + g.lin(x.X) + " + " + g.lin(x.Y) + ")"
			}
			if isInt, _, _ := intInfo(x.Type()); isInt && uns && bits < 64 {
				// … but a sum that stays below 2^bits is the sum: two cases
				a := g.atom(v)
				X, Y := g.lin(x.X), g.lin(x.Y)
				p := fmt.Sprintf("%d", uint64(1)<<uint(bits))
				g.hyp("(" + X + " + " + Y + " < " + p + " ∧ " + a + " = " + X + " + " + Y + ") ∨ (" + X + " + " + Y + " ≥ " + p + " ∧ " + a + " = " + X + " + " + Y + " - " + p + ")")
				return a
			}
		case token.SUB:
			if isInt, _, _ := intInfo(x.Type()); isInt && !uns {
				return "(" + g.lin(x.X) + " - " + g.lin(x.Y) + ")"
			}
			if isInt, _, _ := intInfo(x.Type()); isInt && uns && bits <= 64 {
				// unsigned subtraction wraps: `uint(d)-1 >= 10` as a one-comparison range check
				a := g.atom(v)
				X, Y := g.lin(x.X), g.lin(x.Y)
				p := "18446744073709551616"
				if bits < 64 {
					p = fmt.Sprintf("%d", uint64(1)<<uint(bits))
				}
				g.hyp("(" + Y + " ≤ " + X + " ∧ " + a + " = " + X + " - " + Y + ") ∨ (" + X + " < " + Y + " ∧ " + a + " = " + X + " - " + Y + " + " + p + ")")
				return a
			}
		case token.MUL:
			if c, ok := constInt(x.Y); ok && !uns {
				return "(" + lit(c) + " * " + g.lin(x.X) + ")"
			}
			if c, ok := constInt(x.X); ok && !uns {
				return "(" + lit(c) + " * " + g.lin(x.Y) + ")"
			}
			// unsigned product by a constant: the product itself while it fits the type, some value of the type otherwise
			for _, pr := range [][2]ssa.Value{{x.X, x.Y}, {x.Y, x.X}} {
				if c, ok := constInt(pr[1]); ok && uns && c >= 0 && bits <= 64 {
					a := g.atom(v)
					X := "(" + lit(c) + " * " + g.lin(pr[0]) + ")"
					p := "18446744073709551616"
					if bits < 64 {
						p = fmt.Sprintf("%d", uint64(1)<<uint(bits))
					}
					g.hyp("(" + X + " < " + p + " ∧ " + a + " = " + X + ") ∨ (" + X + " ≥ " + p + " ∧ 0 ≤ " + a + ")")
					return a
				}
			}
		case token.SHR:
			// x >> k = ⌊x / 2^k⌋ (arithmetic shift; Lean's Int division by a positive literal is the floor)
			if c, ok := constInt(x.Y); ok && c >= 0 && c < 62 {
				if isInt, _, _ := intInfo(x.Type()); isInt {
					return "(" + g.lin(x.X) + " / " + lit(int64(1)<<uint(c)) + ")"
				}
			}
		case token.SHL:
			// x << k = x · 2^k while it fits (signed: treated as unbounded, as sums are)
			if c, ok := constInt(x.Y); ok && c >= 0 && c < 62 && !uns {
				if isInt, _, _ := intInfo(x.Type()); isInt {
					return "(" + lit(int64(1)<<uint(c)) + " * " + g.lin(x.X) + ")"
				}
			}
		case token.AND_NOT:
			// x &^ (2^k - 1): x rounded down to a multiple of 2^k
			if c, ok := constInt(x.Y); ok && c > 0 && c < (1<<61) && (c&(c+1)) == 0 {
				if isInt, _, _ := intInfo(x.Type()); isInt {
					return "(" + lit(c+1) + " * (" + g.lin(x.X) + " / " + lit(c+1) + "))"
				}
			}
		case token.AND:
			// x & (2^k - 1) = x mod 2^k
			for _, pr := range [][2]ssa.Value{{x.X, x.Y}, {x.Y, x.X}} {
				if c, ok := constInt(pr[1]); ok && c > 0 && c < (1<<61) && (c&(c+1)) == 0 {
					if isInt, _, _ := intInfo(x.Type()); isInt {
						return "(" + g.lin(pr[0]) + " % " + lit(c+1) + ")"
					}
				}
			}
			a := g.atom(v)
			for _, o := range []ssa.Value{x.X, x.Y} {
				if c, ok := constInt(o); ok && c >= 0 {
					g.hyp("0 ≤ " + a)
					g.hyp(a + " ≤ " + lit(c))
				}
			}
			return a
		case token.QUO:
			// unsigned x / c: the floor (x is non-negative)
			if c, ok := constInt(x.Y); ok && c > 0 {
				if _, xu, _ := intInfo(x.X.Type()); xu {
					return "(" + g.lin(x.X) + " / " + lit(c) + ")"
				}
			}
		case token.REM:
			if c, ok := constInt(x.Y); ok && c > 0 {
				if _, xu, _ := intInfo(x.X.Type()); xu {
					return "(" + g.lin(x.X) + " % " + lit(c) + ")"
				}
			}
			a := g.atom(v)
			if c, ok := constInt(x.Y); ok && c > 0 {
				if _, xu, _ := intInfo(x.X.Type()); xu {
					g.hyp("0 ≤ " + a)
					g.hyp(a + " < " + lit(c))
				}
			}
			return a
		}
		return g.atom(v)
	case *ssa.Convert:
		si, su, sb := intInfo(x.X.Type())
		di, du, db := intInfo(x.Type())
		if si && di {
			// value-preserving conversions
			if (su == du && sb <= db) || (su && !du && sb < db) {
				return g.lin(x.X)
			}
			// sign-changing conversions of the same width (`uint(n-lo) <= uint(hi-lo)`, `int(u)`): the value is kept
			// when it fits and moved by 2^bits when it does not — two cases, omega splits them
			if sb == db && sb <= 64 {
				a := g.atom(v)
				e := g.lin(x.X)
				p := "18446744073709551616"
				h := "9223372036854775808"
				if sb < 64 {
					p = fmt.Sprintf("%d", uint64(1)<<uint(sb))
					h = fmt.Sprintf("%d", uint64(1)<<uint(sb-1))
				}
				if !su && du {
					g.hyp("(0 ≤ " + e + " ∧ " + a + " = " + e + ") ∨ (" + e + " < 0 ∧ " + a + " = " + e + " + " + p + ")")
				} else if su && !du {
					g.hyp("(" + e + " < " + h + " ∧ " + a + " = " + e + ") ∨ (" + e + " ≥ " + h + " ∧ " + a + " = " + e + " - " + p + ")")
				}
				return a
			}
		}
		return g.atom(v)
	case *ssa.ChangeType:
		return g.lin(x.X)
	case *ssa.Extract:
		// n, err := hex.Decode(dst, src): 0 ≤ n ≤ len(dst), n ≤ len(src)/2;  n := copy-like library results
		if call, ok := x.Tuple.(*ssa.Call); ok && x.Index == 0 {
			if f := call.Call.StaticCallee(); f != nil && f.Pkg != nil && f.Pkg.Pkg.Path() == "encoding/hex" && f.Name() == "Decode" && len(call.Call.Args) == 2 {
				a := g.atom(v)
				g.hyp("0 ≤ " + a)
				g.hyp(a + " ≤ " + g.lenOf(call.Call.Args[0]))
				g.hyp("2 * " + a + " ≤ " + g.lenOf(call.Call.Args[1]))
				return a
			}
		}
		return g.atom(v)
	case *ssa.UnOp:
		// an integer loaded from a table (array / struct / array of structs, local or package-level) into which nothing but
		// integer constants is ever stored: the value lies between the smallest and the largest of them (0 included: untouched
		// elements are zero)
		if x.Op == token.MUL {
			if isInt, _, _ := intInfo(x.Type()); isInt {
				if lo, hi, hiKnown, ok := tableRange(x.X, ""); ok {
					a := g.atom(v)
					g.hyp(lit(lo) + " ≤ " + a)
					if hiKnown {
						g.hyp(a + " ≤ " + lit(hi))
					}
					return a
				}
			}
		}
		return g.atom(v)
	case *ssa.Field:
		// field of a struct value that was loaded as a whole from such a table (for _, f := range fields { … f.width … })
		if isInt, _, _ := intInfo(x.Type()); isInt {
			if lo, hi, hiKnown, ok := valueRange(x, ""); ok {
				a := g.atom(v)
				g.hyp(lit(lo) + " ≤ " + a)
				if hiKnown {
					g.hyp(a + " ≤ " + lit(hi))
				}
				return a
			}
		}
		return g.atom(v)
	case *ssa.Call:
		if b, ok := x.Call.Value.(*ssa.Builtin); ok && len(x.Call.Args) == 1 {
			switch b.Name() {
			case "len":
				return g.lenOf(x.Call.Args[0])
			case "cap":
				return g.capOf(x.Call.Args[0])
			}
		}
		if b, ok := x.Call.Value.(*ssa.Builtin); ok && b.Name() == "copy" && len(x.Call.Args) == 2 {
			a := g.atom(v)
			g.hyp("0 ≤ " + a)
			g.hyp(a + " ≤ " + g.lenOf(x.Call.Args[0]))
			g.hyp(a + " ≤ " + g.lenOf(x.Call.Args[1]))
			return a
		}
		if f := x.Call.StaticCallee(); f != nil && f.Pkg != nil && f.Pkg.Pkg.Path() == "encoding/hex" && len(x.Call.Args) == 1 {
			switch f.Name() {
			case "DecodedLen":
				return "(" + g.lin(x.Call.Args[0]) + " / 2)"
			case "EncodedLen":
				return "(2 * " + g.lin(x.Call.Args[0]) + ")"
			}
		}
		// sort.Search(n, f) ∈ 0..n; sort.SearchStrings / SearchInts(a, x) ∈ 0..len(a); slices.BinarySearch*(a, x) ∈ 0..len(a)
		if f := x.Call.StaticCallee(); f != nil && f.Pkg != nil && len(x.Call.Args) >= 2 {
			if isInt, _, _ := intInfo(x.Type()); isInt {
				switch {
				case f.Pkg.Pkg.Path() == "sort" && f.Name() == "Search":
					a := g.atom(v)
					n := g.lin(x.Call.Args[0])
					g.hyp("0 ≤ " + a)
					g.hyp(n + " < 0 ∨ " + a + " ≤ " + n)
					return a
				case f.Pkg.Pkg.Path() == "sort" && (f.Name() == "SearchStrings" || f.Name() == "SearchInts" || f.Name() == "SearchFloat64s"):
					a := g.atom(v)
					g.hyp("0 ≤ " + a)
					g.hyp(a + " ≤ " + g.lenOf(x.Call.Args[0]))
					return a
				}
			}
		}
		// strings.IndexByte / Index / LastIndex… and the bytes equivalents: -1, or a position inside the first argument
		if f := x.Call.StaticCallee(); f != nil && f.Pkg != nil && (f.Pkg.Pkg.Path() == "strings" || f.Pkg.Pkg.Path() == "bytes") && len(x.Call.Args) >= 2 {
			switch f.Name() {
			case "IndexByte", "Index", "IndexRune", "IndexAny", "LastIndex", "LastIndexByte", "LastIndexAny", "IndexFunc", "LastIndexFunc":
				a := g.atom(v)
				g.hyp("(-1) ≤ " + a)
				g.hyp(a + " < " + g.lenOf(x.Call.Args[0]) + " ∨ " + a + " = (-1)")
				return a
			}
		}
		if f := x.Call.StaticCallee(); f != nil && f.Pkg != nil && (f.Pkg.Pkg.Path() == "crypto/subtle" || f.Pkg.Pkg.Path() == "crypto/internal/fips140/subtle") {
			switch f.Name() {
			case "ConstantTimeCompare", "ConstantTimeEq", "ConstantTimeByteEq", "ConstantTimeLessOrEq":
				a := g.atom(v)
				g.hyp("0 ≤ " + a)
				g.hyp(a + " ≤ 1")
				return a
			}
		}
		// min(a, b, …) / max(a, b, …) over integers: bounded by every argument and equal to one of them
		if b, ok := x.Call.Value.(*ssa.Builtin); ok && (b.Name() == "min" || b.Name() == "max") && len(x.Call.Args) >= 1 && len(x.Call.Args) <= 4 {
			if isInt, _, _ := intInfo(x.Type()); isInt {
				a := g.atom(v)
				var eqs []string
				for _, arg := range x.Call.Args {
					t := g.lin(arg)
					if b.Name() == "min" {
						g.hyp(a + " ≤ " + t)
					} else {
						g.hyp(t + " ≤ " + a)
					}
					eqs = append(eqs, a+" = "+t)
				}
				g.hyp(strings.Join(eqs, " ∨ "))
				return a
			}
		}
		return g.atom(v)
	case *ssa.Phi:
		a := g.atom(v)
		if !g.variant(v) {
			g.phiEdges(x, a)
		}
		// i = phi(init, i + c, …): monotone loop variable
		var inits []ssa.Value
		up, down, other := false, false, false
		var edges []ssa.Value
		for _, e := range x.Edges {
			// a conditional step inside the loop body reaches the loop head as a phi of (i, i±c): look through it
			if p2, ok := e.(*ssa.Phi); ok && p2 != x && len(p2.Edges) <= 4 {
				through := true
				for _, e2 := range p2.Edges {
					if e2 == ssa.Value(x) {
						continue
					}
					if bo, ok := e2.(*ssa.BinOp); ok && (bo.Op == token.ADD || bo.Op == token.SUB) && bo.X == ssa.Value(x) {
						if _, isC := constInt(bo.Y); isC {
							continue
						}
					}
					through = false
				}
				if through {
					edges = append(edges, p2.Edges...)
					continue
				}
			}
			edges = append(edges, e)
		}
		for _, e := range edges {
			if bo, ok := e.(*ssa.BinOp); ok && (bo.Op == token.ADD || bo.Op == token.SUB) && bo.X == ssa.Value(x) {
				if c, ok := constInt(bo.Y); ok {
					if (bo.Op == token.ADD) == (c > 0) && c != 0 {
						up = true
					} else if c != 0 {
						down = true
					}
					continue
				}
				if nonNegative(bo.Y) {
					// size += len(field) / size += table[i].width (a table of non-negative constants)
					if bo.Op == token.ADD {
						up = true
					} else {
						down = true
					}
					continue
				}
				other = true
				continue
			}
			if e == ssa.Value(x) {
				continue
			}
			inits = append(inits, e)
		}
		// a choice among constants (size := 20 / 32 / 64)
		if !up && !down && !other && len(inits) > 0 {
			lo, hi, all := int64(0), int64(0), true
			for k, e := range inits {
				c, ok := constInt(e)
				if !ok {
					all = false
					break
				}
				if k == 0 || c < lo {
					lo = c
				}
				if k == 0 || c > hi {
					hi = c
				}
			}
			if all {
				g.hyp(lit(lo) + " ≤ " + a)
				g.hyp(a + " ≤ " + lit(hi))
			}
		}
		if _, uns, _ := intInfo(x.Type()); !other && !uns && len(inits) == 1 && (up != down) {
			init := g.lin(inits[0])
			if up {
				g.hyp(init + " ≤ " + a)
			} else {
				g.hyp(a + " ≤ " + init)
			}
		}
		return a
	}
	return g.atom(v)
}

// phiEdges: a = phi(e_1 … e_n) is, for some k, the value e_k carried by the k-th incoming edge, and that edge is taken
// only under its branch condition.  For a back edge everything computed inside the loop refers to the previous
// iteration (own names).  The result is one disjunctive hypothesis; omega splits it.
func (g *vcgen) phiEdges(x *ssa.Phi, a string) {
	if g.phiDepth >= 2 || g.loopHead != nil || g.phiDone[x] {
		return
	}
	if g.phiDone == nil {
		g.phiDone = map[*ssa.Phi]bool{}
	}
	g.phiDone[x] = true
	if isInt, _, _ := intInfo(x.Type()); !isInt {
		return
	}
	B := x.Block()
	if len(B.Preds) != len(x.Edges) || len(x.Edges) > 4 {
		return
	}
	g.phiDepth++
	defer func() { g.phiDepth-- }()
	var disj []string
	for k, e := range x.Edges {
		pred := B.Preds[k]
		back := B.Dominates(pred)
		if back {
			g.loopHead = B
			g.overN, g.overL, g.overC = map[ssa.Value]string{}, map[ssa.Value]string{}, map[ssa.Value]string{}
		}
		d := a + " = " + g.lin(e)
		if iff, ok := pred.Instrs[len(pred.Instrs)-1].(*ssa.If); ok && len(pred.Succs) == 2 && pred.Succs[0] != pred.Succs[1] {
			pol := 0
			if pred.Succs[0] == B {
				pol = 1
			} else if pred.Succs[1] == B {
				pol = -1
			}
			cond := iff.Cond
			if u, ok := cond.(*ssa.UnOp); ok && u.Op == token.NOT {
				cond = u.X
				pol = -pol
			}
			if bo, ok := cond.(*ssa.BinOp); ok && pol != 0 {
				if op, ok := cmpLean[bo.Op]; ok {
					xi, _, _ := intInfo(bo.X.Type())
					yi, _, _ := intInfo(bo.Y.Type())
					if xi && yi {
						h := g.lin(bo.X) + " " + op + " " + g.lin(bo.Y)
						if pol < 0 {
							h = "¬(" + h + ")"
						}
						d += " ∧ " + h
					}
				}
			}
		}
		g.loopHead, g.overN, g.overL, g.overC = nil, nil, nil, nil
		disj = append(disj, "("+d+")")
	}
	g.hyp(strings.Join(disj, " ∨ "))
}

func arrayLen(t types.Type) (int64, bool) {
	switch u := t.Underlying().(type) {
	case *types.Array:
		return u.Len(), true
	case *types.Pointer:
		if a, ok := u.Elem().Underlying().(*types.Array); ok {
			return a.Len(), true
		}
	}
	return 0, false
}

func (g *vcgen) lenOf(v ssa.Value) string {
	v = g.canon(v)
	if n, ok := arrayLen(v.Type()); ok {
		return lit(n)
	}
	if c, ok := v.(*ssa.Const); ok && c.Value != nil && c.Value.Kind() == constant.String {
		return lit(int64(len(constant.StringVal(c.Value))))
	}
	if c, ok := v.(*ssa.Const); ok && c.Value == nil {
		return "0"
	}
	lens := g.lens
	if g.variant(v) {
		lens = g.overL
	}
	if n, ok := lens[v]; ok {
		return n
	}
	if g.busy[v] {
		n := g.fresh("l")
		lens[v] = n
		g.hyp("0 ≤ " + n)
		return n
	}
	g.busy[v] = true
	defer delete(g.busy, v)
	switch x := v.(type) {
	case *ssa.MakeSlice:
		return g.lin(x.Len)
	case *ssa.Slice:
		lo := "0"
		if x.Low != nil {
			lo = g.lin(x.Low)
		}
		if x.High != nil {
			return "(" + g.lin(x.High) + " - " + lo + ")"
		}
		return "(" + g.lenOf(x.X) + " - " + lo + ")"
	case *ssa.Convert:
		// string <-> []byte keep the length
		if _, isBasic := x.X.Type().Underlying().(*types.Basic); isBasic {
			if _, isSl := x.Type().Underlying().(*types.Slice); isSl {
				return g.lenOf(x.X)
			}
		}
		if _, isSl := x.X.Type().Underlying().(*types.Slice); isSl {
			if b, ok := x.Type().Underlying().(*types.Basic); ok && b.Info()&types.IsString != 0 {
				return g.lenOf(x.X)
			}
		}
	case *ssa.ChangeType:
		return g.lenOf(x.X)
	case *ssa.Call:
		// append(a, b...): go/ssa passes the appended elements as one slice
		if b, ok := x.Call.Value.(*ssa.Builtin); ok && b.Name() == "append" && len(x.Call.Args) == 2 {
			return "(" + g.lenOf(x.Call.Args[0]) + " + " + g.lenOf(x.Call.Args[1]) + ")"
		}
	}
	n := g.fresh("l")
	lens[v] = n
	g.hyp("0 ≤ " + n)
	return n
}

func (g *vcgen) capOf(v ssa.Value) string {
	v = g.canon(v)
	if n, ok := arrayLen(v.Type()); ok {
		return lit(n)
	}
	if ms, ok := v.(*ssa.MakeSlice); ok {
		if ms.Cap == nil || ms.Cap == ms.Len {
			return g.lin(ms.Len)
		}
	}
	if sl, ok := v.(*ssa.Slice); ok && sl.Max == nil {
		// cap(x[lo:hi]) = cap(x) - lo (for an array or pointer to array: its length - lo)
		if _, isStr := sl.X.Type().Underlying().(*types.Basic); !isStr {
			lo := "0"
			if sl.Low != nil {
				lo = g.lin(sl.Low)
			}
			base := ""
			if n, ok := arrayLen(sl.X.Type()); ok {
				base = lit(n)
			} else if _, isSl := sl.X.Type().Underlying().(*types.Slice); isSl {
				base = g.capOf(sl.X)
			}
			if base != "" {
				return "(" + base + " - " + lo + ")"
			}
		}
	}
	caps := g.caps
	if g.variant(v) {
		caps = g.overC
	}
	if n, ok := caps[v]; ok {
		return n
	}
	n := g.fresh("c")
	caps[v] = n
	g.hyp(g.lenOf(v) + " ≤ " + n)
	return n
}

var cmpLean = map[token.Token]string{token.LSS: "<", token.LEQ: "≤", token.GTR: ">", token.GEQ: "≥", token.EQL: "=", token.NEQ: "≠"}

// earlier: an index / slice operation that was executed before the site (earlier in its block, or in a dominating block)
// did not panic, so its own in-bounds condition holds here
func (g *vcgen) earlier(site ssa.Instruction) {
	b := site.Block()
	n := 0
	add := func(e ssa.Instruction) {
		switch e.(type) {
		case *ssa.IndexAddr, *ssa.Index, *ssa.Lookup, *ssa.Slice:
			if n < 12 {
				if h, ok := g.goalFor(e); ok {
					g.hyp(h)
					n++
				}
			}
		}
	}
	for _, e := range b.Instrs {
		if e == site {
			break
		}
		add(e)
	}
	for d := b.Idom(); d != nil; d = d.Idom() {
		for _, e := range d.Instrs {
			add(e)
		}
	}
}

// guards: dominating branch conditions as hypotheses
func (g *vcgen) guards(b *ssa.BasicBlock) {
	cur := b
	for cur != nil {
		d := cur.Idom()
		if d == nil {
			break
		}
		if iff, ok := d.Instrs[len(d.Instrs)-1].(*ssa.If); ok {
			pol := 0
			for k, s := range d.Succs {
				if len(s.Preds) == 1 && (s == cur || s.Dominates(cur)) {
					pol = 1 - 2*k // succ 0: true branch (+1), succ 1: false branch (-1)
				}
			}
			cond := iff.Cond
			if u, ok := cond.(*ssa.UnOp); ok && u.Op == token.NOT {
				cond = u.X
				pol = -pol
			}
			// strings.HasPrefix(s, "lit") / HasSuffix on the taken branch: len(s) >= len("lit")
			if call, ok := cond.(*ssa.Call); ok && pol > 0 && len(call.Call.Args) == 2 {
				if f := call.Call.StaticCallee(); f != nil && f.Pkg != nil && (f.Pkg.Pkg.Path() == "strings" || f.Pkg.Pkg.Path() == "bytes") && (f.Name() == "HasPrefix" || f.Name() == "HasSuffix") {
					if c, ok := call.Call.Args[1].(*ssa.Const); ok && c.Value != nil && c.Value.Kind() == constant.String {
						g.hyp(lit(int64(len(constant.StringVal(c.Value)))) + " ≤ " + g.lenOf(call.Call.Args[0]))
					}
				}
			}
			if bo, ok := cond.(*ssa.BinOp); ok && pol != 0 {
				if op, ok := cmpLean[bo.Op]; ok {
					xi, _, _ := intInfo(bo.X.Type())
					yi, _, _ := intInfo(bo.Y.Type())
					if xi && yi {
						h := g.lin(bo.X) + " " + op + " " + g.lin(bo.Y)
						if pol < 0 {
							h = "¬(" + h + ")"
						}
						g.hyp(h)
					}
				}
				// s == "" / s != "": a statement about len(s)
				if bo.Op == token.EQL || bo.Op == token.NEQ {
					for _, pr := range [][2]ssa.Value{{bo.X, bo.Y}, {bo.Y, bo.X}} {
						if c, isC := pr[1].(*ssa.Const); isC && c.Value != nil && c.Value.Kind() == constant.String && constant.StringVal(c.Value) == "" {
							empty := (bo.Op == token.EQL) == (pol > 0)
							if empty {
								g.hyp(g.lenOf(pr[0]) + " = 0")
							} else {
								g.hyp("1 ≤ " + g.lenOf(pr[0]))
							}
						}
					}
				}
			}
			// a short-circuit `a || b` / `a && b` evaluated as a value: cond = phi(true …, b) resp. phi(false …, b).  On the
			// false branch of an ||-phi (true branch of an &&-phi) every edge that carries the constant is impossible, so
			// control came through the one remaining edge: its value decides, and what guards that predecessor holds too.
			if ph, ok := cond.(*ssa.Phi); ok && pol != 0 && g.phiGuardDepth < 4 && len(ph.Edges) == len(ph.Block().Preds) {
				var rest []int
				okShape := true
				for k, e := range ph.Edges {
					if c, isC := e.(*ssa.Const); isC && c.Value != nil && c.Value.Kind() == constant.Bool {
						if constant.BoolVal(c.Value) == (pol < 0) {
							continue // this edge would have made the condition true (false): not taken
						}
						okShape = false
						continue
					}
					rest = append(rest, k)
				}
				if okShape && len(rest) == 1 {
					k := rest[0]
					pred := ph.Block().Preds[k]
					e := ph.Edges[k]
					p2 := pol
					if u, ok := e.(*ssa.UnOp); ok && u.Op == token.NOT {
						e = u.X
						p2 = -p2
					}
					if bo, ok := e.(*ssa.BinOp); ok {
						if op, ok := cmpLean[bo.Op]; ok {
							xi, _, _ := intInfo(bo.X.Type())
							yi, _, _ := intInfo(bo.Y.Type())
							if xi && yi {
								h := g.lin(bo.X) + " " + op + " " + g.lin(bo.Y)
								if p2 < 0 {
									h = "¬(" + h + ")"
								}
								g.hyp(h)
							}
						}
					}
					g.phiGuardDepth++
					g.guards(pred)
					g.phiGuardDepth--
				}
			}
		}
		cur = d
	}
}

// call sites of analysed functions (filled by analyse) and the functions whose value is taken somewhere
var vcCallers = map[*ssa.Function][]ssa.CallInstruction{}
var vcValueUse = map[*ssa.Function]bool{}

// stdlib facts: the length of an HMAC-SHA1/256/512 digest
func (g *vcgen) libFacts(v ssa.Value) {
	if c, ok := v.(*ssa.Call); ok && c.Call.IsInvoke() && c.Call.Method != nil && c.Call.Method.Name() == "Sum" &&
		strings.HasSuffix(c.Call.Value.Type().String(), "hash.Hash") && len(c.Call.Args) == 1 {
		if k, ok := c.Call.Args[0].(*ssa.Const); ok && k.Value == nil {
			g.hyp("20 ≤ " + g.lenOf(v))
		}
	}
}

// context: what holds at the call sites of f about the parameters this condition mentions.  One (vars, hyps) per call
// site; ok=false if f may be called from outside the analysed code (exported, or used as a value) or has no callers.
func vcVariants(ins ssa.Instruction, depth int) (out [][3]interface{}, ok bool) {
	f := ins.Parent()
	internal := func(f *ssa.Function) bool {
		// a function literal qualifies when its value is used for nothing but being called (then its call sites are known)
		return f != nil && (f.Parent() != nil || !token.IsExported(f.Name())) && !vcValueUse[f] && len(vcCallers[f]) > 0 && !dynamicallyCallable(f)
	}
	if !internal(f) {
		return nil, false
	}
	// call chains: the site calling f, then (while the caller is itself an internal helper) a site calling that caller, …
	// up to three levels.  Every chain is one way control reaches the instruction; the condition must hold on each.
	var chains [][]ssa.CallInstruction
	var grow func(chain []ssa.CallInstruction, fn *ssa.Function, level int)
	grow = func(chain []ssa.CallInstruction, fn *ssa.Function, level int) {
		if len(chains) > 48 {
			return
		}
		if level >= 3 || !internal(fn) {
			chains = append(chains, append([]ssa.CallInstruction(nil), chain...))
			return
		}
		for _, ci := range vcCallers[fn] {
			rec := false
			for _, prev := range chain {
				if prev == ci {
					rec = true
				}
			}
			if rec || ci.Parent() == fn {
				chains = append(chains, append([]ssa.CallInstruction(nil), chain...))
				continue
			}
			grow(append(chain, ci), ci.Parent(), level+1)
		}
	}
	grow(nil, f, 0)
	if len(chains) > 48 {
		// too many ways in: one level only
		chains = nil
		for _, ci := range vcCallers[f] {
			chains = append(chains, []ssa.CallInstruction{ci})
		}
	}
	for _, chain := range chains {
		g := newVC()
		goal, gok := g.goalFor(ins)
		if !gok {
			return nil, false
		}
		g.guards(ins.Block())
		g.earlier(ins)
		callee := f
		for _, ci := range chain {
			c := ci.Common()
			args := c.Args
			for i, p := range callee.Params {
				if i >= len(args) {
					continue
				}
				if n, ok := g.names[p]; ok {
					g.hyp(n + " = " + g.lin(args[i]))
				}
				if n, ok := g.lens[p]; ok {
					g.hyp(n + " = " + g.lenOf(args[i]))
					g.libFacts(args[i])
				}
				if n, ok := g.caps[p]; ok {
					g.hyp(n + " = " + g.capOf(args[i]))
				}
			}
			g.guards(ci.Block())
			callee = ci.Parent()
		}
		sort.Strings(g.hyps)
		out = append(out, [3]interface{}{g.vars, g.hyps, goal})
	}
	return out, len(out) > 0
}

func (g *vcgen) goalFor(ins ssa.Instruction) (goal string, ok bool) {
	switch x := ins.(type) {
	case *ssa.IndexAddr:
		goal = "0 ≤ " + g.lin(x.Index) + " ∧ " + g.lin(x.Index) + " < " + g.lenOf(x.X)
	case *ssa.Index:
		goal = "0 ≤ " + g.lin(x.Index) + " ∧ " + g.lin(x.Index) + " < " + g.lenOf(x.X)
	case *ssa.Lookup:
		if _, isMap := x.X.Type().Underlying().(*types.Map); isMap {
			return "", false
		}
		goal = "0 ≤ " + g.lin(x.Index) + " ∧ " + g.lin(x.Index) + " < " + g.lenOf(x.X)
	case *ssa.Slice:
		lo := "0"
		if x.Low != nil {
			lo = g.lin(x.Low)
		}
		limit := g.lenOf(x.X)
		if _, isSl := x.X.Type().Underlying().(*types.Slice); isSl {
			limit = g.capOf(x.X)
		}
		hi := g.lenOf(x.X)
		if x.High != nil {
			hi = g.lin(x.High)
		}
		goal = "0 ≤ " + lo + " ∧ " + lo + " ≤ " + hi + " ∧ " + hi + " ≤ " + limit
		if x.Max != nil {
			goal += " ∧ " + hi + " ≤ " + g.lin(x.Max) + " ∧ " + g.lin(x.Max) + " ≤ " + limit
		}
	case *ssa.BinOp:
		if x.Op != token.QUO && x.Op != token.REM {
			return "", false
		}
		goal = g.lin(x.Y) + " ≠ 0"
	case *ssa.MakeSlice:
		goal = "0 ≤ " + g.lin(x.Len)
	default:
		return "", false
	}
	return goal, true
}

// vcFor: (variables, hypotheses, goal) for a potentially panicking instruction, or ok=false if no condition is generated
func vcFor(ins ssa.Instruction) (vars, hyps []string, goal string, ok bool) {
	g := newVC()
	goal, ok = g.goalFor(ins)
	if !ok {
		return nil, nil, "", false
	}
	g.guards(ins.Block())
	g.earlier(ins)
	sort.Strings(g.hyps)
	return g.vars, g.hyps, goal, true
}

func leanIdent(s string) string {
	var b strings.Builder
	for _, r := range s {
		if r >= 'a' && r <= 'z' || r >= 'A' && r <= 'Z' || r >= '0' && r <= '9' {
			b.WriteRune(r)
		} else {
			b.WriteByte('_')
		}
	}
	return b.String()
}


// addrPath: base object (an Alloc or a Global) and the field path (array indexing dropped) of an address expression
func addrPath(v ssa.Value) (base ssa.Value, path string, ok bool) {
	for i := 0; i < 8; i++ {
		switch x := v.(type) {
		case *ssa.IndexAddr:
			v = x.X
		case *ssa.FieldAddr:
			path = fmt.Sprintf(".%d", x.Field) + path
			v = x.X
		case *ssa.Alloc:
			return x, path, true
		case *ssa.Global:
			return x, path, true
		default:
			return nil, "", false
		}
	}
	return nil, "", false
}

// vcAllFns: every analysed function (filled by analyse); used to make sure a package-level table is written during
// initialisation only
var vcAllFns []*ssa.Function

var tableDepth int

// valueRange: the range of the integer found at field path `rest` inside the aggregate VALUE v (a struct or array that
// was loaded as a whole, an element of such an array value, a field of such a struct value)
func valueRange(v ssa.Value, rest string) (lo, hi int64, hiKnown bool, ok bool) {
	for i := 0; i < 6; i++ {
		switch x := v.(type) {
		case *ssa.UnOp:
			if x.Op != token.MUL {
				return 0, 0, false, false
			}
			return tableRange(x.X, rest)
		case *ssa.Parameter:
			// an aggregate passed by value to an internal function / method: whatever its call sites pass
			fn := x.Parent()
			if fn == nil || fn.Parent() != nil || token.IsExported(fn.Name()) || vcValueUse[fn] || len(vcCallers[fn]) == 0 || tableDepth >= 4 || dynamicallyCallable(fn) {
				return 0, 0, false, false
			}
			ix := -1
			for k, p := range fn.Params {
				if p == x {
					ix = k
				}
			}
			if ix < 0 {
				return 0, 0, false, false
			}
			seen := false
			hiKnown = true
			for _, ci := range vcCallers[fn] {
				args := ci.Common().Args
				if ix >= len(args) {
					return 0, 0, false, false
				}
				tableDepth++
				l2, h2, hk2, ok2 := valueRange(args[ix], rest)
				tableDepth--
				if !ok2 {
					return 0, 0, false, false
				}
				if !seen || l2 < lo {
					lo = l2
				}
				if !seen || h2 > hi {
					hi = h2
				}
				if !hk2 {
					hiKnown = false
				}
				seen = true
			}
			return lo, hi, hiKnown, seen
		case *ssa.Index:
			v = x.X // an element of an array value: any element
		case *ssa.Field:
			rest = fmt.Sprintf(".%d", x.Field) + rest
			v = x.X
		default:
			return 0, 0, false, false
		}
	}
	return 0, 0, false, false
}

// tableRange: see the UnOp case of lin
func tableRange(addr ssa.Value, extra string) (lo, hi int64, hiKnown bool, ok bool) {
	hiKnown = true
	base, path, ok := addrPath(addr)
	if !ok {
		return 0, 0, false, false
	}
	path += extra
	var fns []*ssa.Function
	switch b := base.(type) {
	case *ssa.Alloc:
		// the table must stay inside the function: its address is only indexed / selected, loaded from and stored into
		if b.Referrers() == nil {
			return 0, 0, false, false
		}
		var walk func(v ssa.Value, depth int) bool
		walk = func(v ssa.Value, depth int) bool {
			refs := v.Referrers()
			if refs == nil || depth > 6 {
				return depth <= 6
			}
			for _, r := range *refs {
				switch y := r.(type) {
				case *ssa.IndexAddr:
					if y.X != v || !walk(y, depth+1) {
						return false
					}
				case *ssa.FieldAddr:
					if !walk(y, depth+1) {
						return false
					}
				case *ssa.UnOp:
					if y.Op != token.MUL {
						return false
					}
					// loading a whole element / the whole table by value is fine (a copy); loading a pointer out of it is not tracked
					if pointerLike(y.Type()) {
						continue
					}
				case *ssa.Store:
					if y.Addr != v {
						return false // the address itself is stored somewhere
					}
				case *ssa.DebugRef:
				case *ssa.Slice:
					return false
				default:
					return false
				}
			}
			return true
		}
		if !walk(b, 0) {
			return 0, 0, false, false
		}
		fns = []*ssa.Function{b.Parent()}
	case *ssa.Global:
		if token.IsExported(b.Name()) {
			return 0, 0, false, false // a user of the package may write it
		}
		for _, f := range vcAllFns {
			for _, blk := range f.Blocks {
				for _, ins := range blk.Instrs {
					for _, op := range ins.Operands(nil) {
						if op == nil || *op != ssa.Value(b) {
							continue
						}
						switch y := ins.(type) {
						case *ssa.IndexAddr, *ssa.FieldAddr, *ssa.DebugRef:
						case *ssa.UnOp:
							if y.Op != token.MUL || pointerLike(y.Type()) {
								return 0, 0, false, false
							}
						case *ssa.Store:
							if y.Addr != ssa.Value(b) {
								return 0, 0, false, false
							}
						default:
							return 0, 0, false, false // sliced, passed on, compared …: its memory may be reachable elsewhere
						}
					}
				}
			}
		}
		fns = vcAllFns
	}
	seen := false
	for _, f := range fns {
		if f == nil {
			continue
		}
		isInit := f.Name() == "init" || strings.HasPrefix(f.Name(), "init#")
		for _, blk := range f.Blocks {
			for _, ins := range blk.Instrs {
				st, isStore := ins.(*ssa.Store)
				if !isStore {
					continue
				}
				b2, p2, ok2 := addrPath(st.Addr)
				if !ok2 || b2 != base {
					continue
				}
				if _, isGlobal := base.(*ssa.Global); isGlobal && !isInit {
					return 0, 0, false, false // written outside initialisation
				}
				if p2 != path {
					if strings.HasPrefix(path, p2) {
						// a whole element / struct is stored over the field (composite literals are built in a temporary and
						// copied in): the field's value is whatever that temporary holds there
						if tableDepth < 4 {
							tableDepth++
							l2, h2, hk2, ok2 := valueRange(st.Val, path[len(p2):])
							tableDepth--
							if ok2 {
								if !seen || l2 < lo {
									lo = l2
								}
								if !seen || h2 > hi {
									hi = h2
								}
								if !hk2 {
									hiKnown = false
								}
								seen = true
								continue
							}
						}
						return 0, 0, false, false
					}
					continue
				}
				c, isC := constInt(st.Val)
				if !isC {
					// len(x) / cap(x): non-negative, unbounded above
					if call, isCall := st.Val.(*ssa.Call); isCall {
						if bi, isB := call.Call.Value.(*ssa.Builtin); isB && (bi.Name() == "len" || bi.Name() == "cap") {
							hiKnown = false
							c = 0
							isC = true
						}
					}
				}
				if !isC {
					return 0, 0, false, false
				}
				if !seen || c < lo {
					lo = c
				}
				if !seen || c > hi {
					hi = c
				}
				seen = true
			}
		}
	}
	if !seen {
		return 0, 0, false, false
	}
	if lo > 0 {
		lo = 0
	}
	if hi < 0 {
		hi = 0
	}
	return lo, hi, hiKnown, true
}


// nonNegative: len / cap, an unsigned value widened losslessly, or a value from a table of non-negative constants
func nonNegative(v ssa.Value) bool {
	switch x := v.(type) {
	case *ssa.Call:
		if b, ok := x.Call.Value.(*ssa.Builtin); ok && (b.Name() == "len" || b.Name() == "cap") {
			return true
		}
	case *ssa.Convert:
		si, su, sb := intInfo(x.X.Type())
		di, _, db := intInfo(x.Type())
		if si && di && su && sb < db {
			return true
		}
	case *ssa.UnOp:
		if x.Op == token.MUL {
			if lo, _, _, ok := tableRange(x.X, ""); ok && lo >= 0 {
				return true
			}
		}
	case *ssa.Field:
		if lo, _, _, ok := valueRange(x, ""); ok && lo >= 0 {
			return true
		}
	}
	return false
}


// readOnlySlot: the local slot is written once (the parameter spill) and only read through field addresses afterwards
func readOnlySlot(al *ssa.Alloc) bool {
	if al.Referrers() == nil {
		return false
	}
	stores := 0
	var ok func(v ssa.Value, top bool, depth int) bool
	ok = func(v ssa.Value, top bool, depth int) bool {
		refs := v.Referrers()
		if refs == nil || depth > 6 {
			return depth <= 6
		}
		for _, r := range *refs {
			switch y := r.(type) {
			case *ssa.FieldAddr:
				if !ok(y, false, depth+1) {
					return false
				}
			case *ssa.UnOp:
				if y.Op != token.MUL {
					return false
				}
			case *ssa.Store:
				if !top || y.Addr != v {
					return false
				}
				stores++
			case *ssa.DebugRef:
			default:
				return false
			}
		}
		return true
	}
	return ok(al, true, 0) && stores == 1
}


// dynamicallyCallable: a method whose receiver type (or a pointer to it) is converted to an interface somewhere in the
// analysed code may be called through that interface — its static call sites are then not all of its call sites
var ifaceTypesMemo map[string]bool

func dynamicallyCallable(f *ssa.Function) bool {
	recv := f.Signature.Recv()
	if recv == nil {
		return false
	}
	if ifaceTypesMemo == nil {
		ifaceTypesMemo = map[string]bool{}
		for _, fn := range vcAllFns {
			for _, blk := range fn.Blocks {
				for _, ins := range blk.Instrs {
					if mi, ok := ins.(*ssa.MakeInterface); ok {
						t := mi.X.Type()
						ifaceTypesMemo[t.String()] = true
						if p, ok := t.Underlying().(*types.Pointer); ok {
							ifaceTypesMemo[p.Elem().String()] = true
						}
					}
				}
			}
		}
	}
	t := recv.Type()
	if ifaceTypesMemo[t.String()] {
		return true
	}
	if p, ok := t.Underlying().(*types.Pointer); ok && ifaceTypesMemo[p.Elem().String()] {
		return true
	}
	return ifaceTypesMemo[types.NewPointer(t).String()]
}
