// Dictionary-guided generation: every integer literal (and constant shift / product of literals) and every short string
// literal that occurs in the non-test Go sources of the working tree becomes a candidate value for counters, instants,
// periods, skews, lengths and texts — together with its neighbours.  A branch that only fires near a magic number the code
// itself spells out (1 << 32, 0x7fffffff, 3600, 128, …) is then reached with good probability, whatever the number is; the
// dictionary is rebuilt from the tree on every run, so a changed tree brings its own constants.
package main

import (
	"go/ast"
	"go/constant"
	"go/parser"
	"go/token"
	"os"
	"path/filepath"
	"sort"
	"strconv"
	"strings"
)

var dictInts []uint64
var dictStrs []string

func repoRoot() string {
	if d := os.Getenv("VERIF_REPO_DIR"); d != "" {
		return d
	}
	return "/repo"
}

func constOf(e ast.Expr) (constant.Value, bool) {
	switch x := e.(type) {
	case *ast.BasicLit:
		if x.Kind == token.INT || x.Kind == token.CHAR {
			v := constant.MakeFromLiteral(x.Value, x.Kind, 0)
			if v.Kind() != constant.Unknown {
				return constant.ToInt(v), true
			}
		}
	case *ast.ParenExpr:
		return constOf(x.X)
	case *ast.UnaryExpr:
		if v, ok := constOf(x.X); ok && (x.Op == token.SUB || x.Op == token.ADD) {
			return constant.UnaryOp(x.Op, v, 0), true
		}
	case *ast.BinaryExpr:
		a, ok1 := constOf(x.X)
		b, ok2 := constOf(x.Y)
		if ok1 && ok2 {
			switch x.Op {
			case token.SHL:
				if s, ok := constant.Uint64Val(b); ok && s < 200 {
					return constant.Shift(a, token.SHL, uint(s)), true
				}
			case token.ADD, token.SUB, token.MUL:
				return constant.BinaryOp(a, x.Op, b), true
			}
		}
	case *ast.CallExpr: // conversions such as uint64(1) << 32, time.Duration(30)
		if len(x.Args) == 1 {
			return constOf(x.Args[0])
		}
	}
	return nil, false
}

func buildDict() {
	seenI := map[uint64]bool{}
	seenS := map[string]bool{}
	addI := func(v uint64) {
		for _, w := range []uint64{v - 1, v, v + 1} {
			if !seenI[w] {
				seenI[w] = true
				dictInts = append(dictInts, w)
			}
		}
	}
	root := repoRoot()
	var files []string
	for _, pat := range []string{"*.go", "wasm/*.go", "internal/app/api/*.go"} {
		m, _ := filepath.Glob(filepath.Join(root, pat))
		files = append(files, m...)
	}
	sort.Strings(files)
	fset := token.NewFileSet()
	for _, f := range files {
		if strings.HasSuffix(f, "_test.go") || strings.Contains(filepath.Base(f), "verif_hooks") {
			continue
		}
		af, err := parser.ParseFile(fset, f, nil, parser.SkipObjectResolution)
		if err != nil {
			continue
		}
		ast.Inspect(af, func(n ast.Node) bool {
			switch x := n.(type) {
			case ast.Expr:
				if v, ok := constOf(x); ok {
					if u, exact := constant.Uint64Val(v); exact {
						addI(u)
					} else if i, exact := constant.Int64Val(v); exact {
						addI(uint64(i))
					}
					// 2^k literals also as masks
				}
				if bl, ok := x.(*ast.BasicLit); ok && bl.Kind == token.STRING {
					if s, err := strconv.Unquote(bl.Value); err == nil && len(s) > 0 && len(s) <= 24 && !seenS[s] && !strings.ContainsAny(s, "%\n") {
						seenS[s] = true
						dictStrs = append(dictStrs, s)
					}
				}
			}
			return true
		})
	}
	if len(dictInts) == 0 {
		dictInts = []uint64{0}
	}
	if len(dictStrs) == 0 {
		dictStrs = []string{""}
	}
}

// dictInt: a value from the dictionary, sometimes scaled the way the code scales its inputs (time step, byte/hex length)
func dictInt(r *rng) uint64 {
	v := dictInts[r.intn(len(dictInts))]
	switch r.intn(6) {
	case 0:
		return v * 30
	case 1:
		return v * 60
	case 2:
		return v * 2
	}
	return v
}
