// wasmcorr: correspondence check of the WebAssembly/JavaScript binding (C20).
// It builds wasm/main.go for js/wasm from the working tree, makes a scratch copy of the JS package entry
// module (otp-js/src/index.js + wasm_exec.js) with the fresh wasm at ../lib/otp.wasm, and drives it under
// Node: every op calls a function either as `globalThis.<fn>` or through the object the package exports.
// The same calls (with JS values abstracted to their type class) go to the Lean model of the binding; the
// native library's answer (Lean model of the native code, itself tied to the native code by C01–C04) is the
// spec on the common domain.  A call after which the Go program has exited is reported as `module-dead`.
package main

import (
	"bufio"
	"bytes"
	"context"
	"crypto/hmac"
	"crypto/sha1"
	"crypto/sha256"
	"crypto/sha512"
	"encoding/binary"
	"encoding/hex"
	"encoding/json"
	"flag"
	"fmt"
	"hash"
	"os"
	"os/exec"
	"path/filepath"
	"sort"
	"strconv"
	"strings"
	"time"
)

type jsArg struct {
	Lit string `json:"lit"` // JavaScript source of the value
	Tok string `json:"-"`   // abstract token for the model
}

type op struct {
	Target string   `json:"target"` // "global" or "export"
	Fn     string   `json:"fn"`
	Args   []jsArg  `json:"-"`
	Lits   []string `json:"args"`
}

type rng struct{ s uint64 }

func (r *rng) next() uint64 {
	r.s += 0x9E3779B97F4A7C15
	z := r.s
	z = (z ^ (z >> 30)) * 0xBF58476D1CE4E5B9
	z = (z ^ (z >> 27)) * 0x94D049BB133111EB
	return z ^ (z >> 31)
}
func (r *rng) intn(n int) int      { return int(r.next() % uint64(n)) }
func pick[T any](r *rng, xs []T) T { return xs[r.intn(len(xs))] }

func hx(s string) string {
	if s == "" {
		return "-"
	}
	return hex.EncodeToString([]byte(s))
}

func jstr(s string) jsArg {
	b, _ := json.Marshal(s)
	return jsArg{Lit: string(b), Tok: "s:" + hx(s)}
}

func jint(z int64) jsArg { return jsArg{Lit: fmt.Sprintf("%d", z), Tok: fmt.Sprintf("i:%d", z)} }

// a fractional number whose truncation toward zero is z
func jfrac(z int64) jsArg {
	if z >= 0 {
		return jsArg{Lit: fmt.Sprintf("%d.7", z), Tok: fmt.Sprintf("i:%d", z)}
	}
	return jsArg{Lit: fmt.Sprintf("%d.7", z), Tok: fmt.Sprintf("i:%d", z)}
}

var wrongTypes = []jsArg{
	{"undefined", "u"}, {"null", "n"}, {"true", "b:1"}, {"false", "b:0"}, {"NaN", "huge"}, {"Infinity", "huge"}, {"-Infinity", "huge"},
	{"2**70", "huge"}, {"-(2**70)", "huge"}, {"2**63", "huge"}, {"-1", "i:-1"}, {"-0.5", "i:0"}, {"1.7", "i:1"}, {"9007199254740994", "i:9007199254740994"},
	{"({})", "obj"}, {"[]", "obj"}, {"(()=>1)", "fn"}, {"Symbol('x')", "sym"}, {"10n", "big"}, {`""`, "s:-"}, {`"12"`, "s:3132"}, {"7", "i:7"},
}

const b32 = "ABCDEFGHIJKLMNOPQRSTUVWXYZ234567"

func genSecret(r *rng) (string, []byte) {
	n := pick(r, []int{5, 10, 20, 20, 32, 64, 64, 63, 65, 128, 128, 127, 129, 200}) // incl. the hash block sizes and their neighbours
	key := make([]byte, n)
	for i := range key {
		key[i] = byte(r.next())
	}
	s := strings.TrimRight(base32enc(key), "=")
	if r.intn(4) == 0 {
		s = strings.ToLower(s)
	}
	return s, key
}

func base32enc(b []byte) string {
	var out []byte
	for i := 0; i < len(b); i += 5 {
		var chunk [5]byte
		n := copy(chunk[:], b[i:])
		v := uint64(chunk[0])<<32 | uint64(chunk[1])<<24 | uint64(chunk[2])<<16 | uint64(chunk[3])<<8 | uint64(chunk[4])
		chars := []int{0, 2, 4, 5, 7, 8}[n]
		for j := 0; j < 8; j++ {
			if j < chars {
				out = append(out, b32[(v>>(35-5*uint(j)))&31])
			} else {
				out = append(out, '=')
			}
		}
	}
	return string(out)
}

func refCode(key []byte, counter uint64, digits, algo int) string {
	var h func() hash.Hash
	switch algo {
	case 0:
		h = sha1.New
	case 1:
		h = sha256.New
	default:
		h = sha512.New
	}
	var c [8]byte
	binary.BigEndian.PutUint64(c[:], counter)
	mac := hmac.New(h, key)
	mac.Write(c[:])
	sum := mac.Sum(nil)
	o := sum[len(sum)-1] & 15
	v := uint64(binary.BigEndian.Uint32(sum[o:o+4]) & 0x7fffffff)
	m := uint64(1)
	for i := 0; i < digits; i++ {
		m *= 10
	}
	return fmt.Sprintf("%0*d", digits, v%m)
}

func genOps(r *rng, n int) []op {
	var ops []op
	// the clipped / wrapped part of the window, systematically: small counters and instants, every skew class, every
	// distance from below the window to twice the skew above it (a sample of the grid in proportion to n)
	{
		key := []byte("12345678901234567890")
		type cell struct{ c, s, dist int64 }
		var grid []cell
		for _, c := range []int64{0, 1, 2, 3, 9, 10, 11} {
			for _, s := range []int64{0, 1, 2, 3, 10} {
				for dist := -(s + 2); dist <= 2*s+2; dist++ {
					grid = append(grid, cell{c, s, dist})
				}
			}
		}
		take := n / 4
		if take > len(grid) {
			take = len(grid)
		}
		for k := 0; k < take; k++ {
			g := grid[(k*len(grid)/take+int(r.intn(3)))%len(grid)]
			tgt := pick(r, []string{"global", "export"})
			ds, as := pick(r, []string{"6", "8", "10"}), pick(r, []string{"SHA1", "SHA256", "SHA512"})
			d := map[string]int{"6": 6, "8": 8, "10": 10}[ds]
			a := map[string]int{"SHA1": 0, "SHA256": 1, "SHA512": 2}[as]
			code := refCode(key, uint64(g.c+g.dist), d, a)
			ops = append(ops, op{Target: tgt, Fn: "validateHOTP", Args: []jsArg{jstr(rfcKeyB32), jstr(code), jint(g.c), jstr(ds), jstr(as), jint(g.s)}})
			per := int64(pick(r, []int{1, 30, 60}))
			ops = append(ops, op{Target: tgt, Fn: "validateTOTP", Args: []jsArg{jstr(rfcKeyB32), jstr(code), jint(g.c*per + int64(r.intn(int(per)))), jstr(ds), jstr(as), jint(g.s), jint(per)}})
		}
	}
	// boundary codes (maximal zero padding) through both tables of names
	for _, rc := range rareCodes {
		as := []string{"SHA1", "SHA256", "SHA512"}[rc[0]]
		for _, ds := range []string{"10", "9", "8", "6"} {
			tgt := pick(r, []string{"global", "export"})
			ops = append(ops, op{Target: tgt, Fn: "generateHOTP", Args: []jsArg{jstr(rfcKeyB32), jint(int64(rc[1])), jstr(ds), jstr(as)}})
			d := map[string]int{"10": 10, "9": 9, "8": 8, "6": 6}[ds]
			code := refCode([]byte("12345678901234567890"), rc[1], d, int(rc[0]))
			ops = append(ops, op{Target: tgt, Fn: "validateHOTP", Args: []jsArg{jstr(rfcKeyB32), jstr(mutCode(r, code)), jint(int64(rc[1]) + int64(r.intn(3)) - 1), jstr(ds), jstr(as), jint(1)}})
			ops = append(ops, op{Target: tgt, Fn: "validateTOTP", Args: []jsArg{jstr(rfcKeyB32), jstr("+" + code[1:]), jint(int64(rc[1]) * 30), jstr(ds), jstr(as), jint(0), jint(30)}})
		}
	}
	// key-confusion histories: pairs of calls of one function whose argument lists are DIFFERENT but coincide under a
	// careless rendering (a memo keyed by args.join(sep), by String(arg), by JSON without types): the same number as a number
	// and as text, and text arguments with a separator character moved across the argument boundary.  Both orders, through
	// both tables of names, back to back — the second answer must be that call's own answer.
	{
		key := []byte("12345678901234567890")
		code1 := refCode(key, 1, 6, 0)
		for _, tgt := range []string{"export", "global"} {
			pairs := [][2][]jsArg{
				{{jstr(rfcKeyB32), jstr("1"), jstr("6"), jstr("SHA1")}, {jstr(rfcKeyB32), jint(1), jstr("6"), jstr("SHA1")}},
				{{jstr(rfcKeyB32), jint(1), jstr("6"), jstr("SHA1")}, {jstr(rfcKeyB32), jstr("1"), jstr("6"), jstr("SHA1")}},
				{{jstr(rfcKeyB32), jint(1), jint(6), jstr("SHA1")}, {jstr(rfcKeyB32), jint(1), jstr("6"), jstr("SHA1")}},
			}
			for _, p := range pairs {
				ops = append(ops, op{Target: tgt, Fn: "generateHOTP", Args: p[0]}, op{Target: tgt, Fn: "generateHOTP", Args: p[1]})
			}
			vp := [][2][]jsArg{
				{{jstr(rfcKeyB32), jstr(code1), jstr("1"), jstr("6"), jstr("SHA1"), jint(0)}, {jstr(rfcKeyB32), jstr(code1), jint(1), jstr("6"), jstr("SHA1"), jint(0)}},
				{{jstr(rfcKeyB32), jstr(code1), jint(1), jstr("6"), jstr("SHA1"), jint(0)}, {jstr(rfcKeyB32), jstr(code1), jint(1), jstr("6"), jstr("SHA1"), jstr("0")}},
				{{jstr(rfcKeyB32), jstr(code1), jint(1), jstr("6"), jstr("SHA1"), jint(0)}, {jstr(rfcKeyB32), jstr(code1), jint(10), jstr("6"), jstr("SHA1"), jint(0)}},
			}
			for _, p := range vp {
				ops = append(ops, op{Target: tgt, Fn: "validateHOTP", Args: p[0]}, op{Target: tgt, Fn: "validateHOTP", Args: p[1]})
			}
			ops = append(ops, op{Target: tgt, Fn: "generateTOTP", Args: []jsArg{jstr(rfcKeyB32), jstr("59"), jstr("6"), jstr("SHA1"), jint(30)}},
				op{Target: tgt, Fn: "generateTOTP", Args: []jsArg{jstr(rfcKeyB32), jint(59), jstr("6"), jstr("SHA1"), jint(30)}},
				op{Target: tgt, Fn: "generateTOTP", Args: []jsArg{jstr(rfcKeyB32), jint(59), jstr("6"), jstr("SHA1"), jstr("30")}})
			// a refused call repeated: the second answer must be the refusal again (nothing may be remembered from a failed
			// decoding / parsing), and a valid call after it must be answered as if alone
			for _, bad := range []string{"GEZDGNBVGY3TQOJ1", "!!!", "A", "GEZDGNBVGY3TQOJQ=", "gezdgnbvgy3tqoj\u017f"} {
				for rep := 0; rep < 2; rep++ {
					ops = append(ops, op{Target: tgt, Fn: "generateHOTP", Args: []jsArg{jstr(bad), jint(7), jstr("6"), jstr("SHA1")}})
				}
				emptyKeyCode := refCode(nil, 7, 6, 0)
				ops = append(ops, op{Target: tgt, Fn: "validateHOTP", Args: []jsArg{jstr(bad), jstr(emptyKeyCode), jint(7), jstr("6"), jstr("SHA1"), jint(0)}},
					op{Target: tgt, Fn: "validateHOTP", Args: []jsArg{jstr(bad), jstr(emptyKeyCode), jint(7), jstr("6"), jstr("SHA1"), jint(0)}},
					op{Target: tgt, Fn: "generateTOTP", Args: []jsArg{jstr(bad), jint(59), jstr("6"), jstr("SHA1"), jint(30)}},
					op{Target: tgt, Fn: "generateTOTP", Args: []jsArg{jstr(bad), jint(59), jstr("6"), jstr("SHA1"), jint(30)}},
					op{Target: tgt, Fn: "validateTOTP", Args: []jsArg{jstr(bad), jstr(emptyKeyCode), jint(210), jstr("6"), jstr("SHA1"), jint(0), jint(30)}},
					op{Target: tgt, Fn: "generateHOTP", Args: []jsArg{jstr(rfcKeyB32), jint(7), jstr("6"), jstr("SHA1")}})
			}
			for _, sep := range []string{"|", ",", ":", " ", "/", "-", "_", ";", "\x00", "\t", "&", "="} {
				a := []jsArg{jstr("totp"), jstr("Acme" + sep + "EU"), jstr("bob"), jstr(rfcKeyB32), jstr("6"), jstr("SHA1")}
				b := []jsArg{jstr("totp"), jstr("Acme"), jstr("EU" + sep + "bob"), jstr(rfcKeyB32), jstr("6"), jstr("SHA1")}
				ops = append(ops, op{Target: tgt, Fn: "generateOTPURL", Args: a}, op{Target: tgt, Fn: "generateOTPURL", Args: b})
				// the same shift between secret and code of a validation
				ops = append(ops, op{Target: tgt, Fn: "validateHOTP", Args: []jsArg{jstr(rfcKeyB32 + sep), jstr(code1), jint(1), jstr("6"), jstr("SHA1"), jint(0)}},
					op{Target: tgt, Fn: "validateHOTP", Args: []jsArg{jstr(rfcKeyB32), jstr(sep + code1), jint(1), jstr("6"), jstr("SHA1"), jint(0)}},
					op{Target: tgt, Fn: "validateHOTP", Args: []jsArg{jstr(rfcKeyB32), jstr(code1), jint(1), jstr("6"), jstr("SHA1"), jint(0)}})
			}
		}
	}
	digitsS := []string{"6", "8", "9", "10", "6", "8", "10", "7", "x", "06", "08", "+8", "010", "264", "266", " 8", "8 ", "-248"}
	algoS := []string{"SHA1", "SHA256", "SHA512", "sha1", "MD5"}
	dOf := map[string]int{"6": 6, "8": 8, "9": 9, "10": 10}
	aOf := map[string]int{"SHA1": 0, "SHA256": 1, "SHA512": 2}
	var lastSecret string
	var lastKey []byte
	for i := 0; i < n; i++ {
		target := pick(r, []string{"global", "global", "export"})
		secret, key := genSecret(r)
		if i > 0 && r.intn(3) == 0 {
			// history: the same secret as the previous call, with another hash / length (caches keyed on the secret only)
			secret, key = lastSecret, lastKey
		}
		if i > 0 && r.intn(8) == 0 && lastSecret != "" {
			// history: right after a call with a secret, a text that only LOOKS like it to a careless comparison — another
			// letter case is the same key; a Unicode look-alike (Kelvin sign, long s, dotless i) is not a base32 text at all
			b := []rune(lastSecret)
			k := r.intn(len(b))
			for j := 0; j < len(b); j++ {
				c := b[(k+j)%len(b)]
				var rep rune
				switch c {
				case 'K', 'k':
					rep = '\u212a'
				case 'S', 's':
					rep = '\u017f'
				case 'I', 'i':
					rep = '\u0131'
				}
				if rep != 0 {
					b[(k+j)%len(b)] = rep
					break
				}
			}
			secret, key = string(b), nil
		}
		lastSecret, lastKey = secret, key
		ds, as := pick(r, digitsS), pick(r, algoS)
		d, ok := dOf[ds]
		if !ok {
			d = 6
		}
		a := aOf[as]
		counter := pick(r, []int64{0, 1, 2, 3, 9, 10, 11, 1 << 31, 1 << 32, 1<<53 - 1, 1 << 53, int64(r.next() >> uint(11+r.intn(52)))})
		if r.intn(6) == 0 {
			if v := dictInt(r) + uint64(r.intn(5)) - 2; v < 1<<53 {
				counter = int64(v) // near a number the code itself mentions
			}
		}
		var o op
		switch r.intn(10) {
		case 0, 1:
			cv := jint(counter)
			if r.intn(6) == 0 {
				cv = jfrac(counter % (1 << 40))
			}
			o = op{Target: target, Fn: "generateHOTP", Args: []jsArg{jstr(secret), cv, jstr(ds), jstr(as)}}
		case 2:
			per := int64(pick(r, []int{1, 29, 30, 30, 60, 3600, 3601, 0}))
			ts := counter % (1 << 53)
			if r.intn(3) == 0 {
				// an instant at which several periods start a window together, asked again with another period right after
				ts = int64(3600 * (1 + r.intn(500000)))
				o = op{Target: target, Fn: "generateTOTP", Args: []jsArg{jstr(secret), jint(ts), jstr(ds), jstr(as), jint(per)}}
				ops = append(ops, o)
				per = int64(pick(r, []int{30, 60, 120, 300, 3600, 15, 1}))
			}
			o = op{Target: target, Fn: "generateTOTP", Args: []jsArg{jstr(secret), jint(ts), jstr(ds), jstr(as), jint(per)}}
		case 3, 4:
			skew := int64(pick(r, []int{0, 1, 1, 2, 3, 10, 11}))
			w := skew
			if w > 10 {
				w = 2
			}
			dist := int64(r.intn(int(2*(w+2)+1))) - (w + 2)
			cc := counter + dist // below counter 0 this wraps (uint64): native HOTP skips those steps, so their codes must be refused
			code := mutCode(r, refCode(key, uint64(cc), d, a))
			o = op{Target: target, Fn: "validateHOTP", Args: []jsArg{jstr(secret), jstr(code), jint(counter), jstr(ds), jstr(as), jint(skew)}}
		case 5, 6:
			skew := int64(pick(r, []int{0, 1, 1, 2, 3, 10, 11}))
			per := int64(pick(r, []int{1, 30, 30, 60, 3600}))
			ts := counter % (1 << 53)
			w := skew
			if w > 10 {
				w = 2
			}
			dist := int64(r.intn(int(2*(w+2)+1))) - (w + 2)
			step := ts/per + dist // near the epoch this wraps (uint64): native TOTP does visit the wrapped steps
			code := mutCode(r, refCode(key, uint64(step), d, a))
			o = op{Target: target, Fn: "validateTOTP", Args: []jsArg{jstr(secret), jstr(code), jint(ts), jstr(ds), jstr(as), jint(skew), jint(per)}}
		case 7:
			o = op{Target: target, Fn: "generateOTPURL", Args: []jsArg{jstr(pick(r, []string{"totp", "hotp", "x"})), jstr(pick(r, []string{"Example", "My Co", "A/B?c#d%41"})),
				jstr(pick(r, []string{"alice@example.com", "bob smith"})), jstr(secret), jstr(ds), jstr(as)}}
		default:
			// malformed call: one argument position replaced by a value of another type, or a wrong argument count
			fn := pick(r, []string{"generateHOTP", "generateTOTP", "validateHOTP", "validateTOTP", "generateOTPURL"})
			var args []jsArg
			switch fn {
			case "generateHOTP":
				args = []jsArg{jstr(secret), jint(1), jstr("6"), jstr("SHA1")}
			case "generateTOTP":
				args = []jsArg{jstr(secret), jint(59), jstr("6"), jstr("SHA1"), jint(30)}
			case "validateHOTP":
				args = []jsArg{jstr(secret), jstr("123456"), jint(1), jstr("6"), jstr("SHA1"), jint(1)}
			case "validateTOTP":
				args = []jsArg{jstr(secret), jstr("123456"), jint(59), jstr("6"), jstr("SHA1"), jint(1), jint(30)}
			default:
				args = []jsArg{jstr("totp"), jstr("I"), jstr("a"), jstr(secret), jstr("6"), jstr("SHA1")}
			}
			switch r.intn(4) {
			case 0:
				args = args[:r.intn(len(args))]
			case 1:
				args = append(args, jint(1))
			default:
				args[r.intn(len(args))] = pick(r, wrongTypes)
			}
			o = op{Target: target, Fn: fn, Args: args}
		}
		ops = append(ops, o)
		if i%7 == 6 {
			// a probe after possibly hostile calls: the module must still answer correctly
			ops = append(ops, op{Target: "global", Fn: "generateHOTP", Args: []jsArg{jstr("GEZDGNBVGY3TQOJQGEZDGNBVGY3TQOJQ"), jint(int64(i % 10)), jstr("6"), jstr("SHA1")}})
		}
	}
	return ops
}

const nodeScript = `
const fs = require('fs');
const ops = JSON.parse(fs.readFileSync(process.argv[2], 'utf8'));
const start = parseInt(process.argv[3] || '0');
const origLog = console.log;
console.log = () => {};
function canon(v) {
  if (typeof v === 'string') return v.startsWith('error:') ? 'err' : 'str:' + (v.length ? Buffer.from(v, 'utf8').toString('hex') : '-');
  if (typeof v === 'boolean') return 'bool:' + v;
  return 'other:' + typeof v;
}
require(process.argv[4])().then((api) => {
  for (let i = start; i < ops.length; i++) {
    const o = ops[i];
    let ans;
    try {
      const args = o.args.map((s) => eval(s));
      const f = o.target === 'export' ? api[o.fn] : globalThis[o.fn];
      if (typeof f !== 'function') ans = 'missing';
      else ans = canon(f.apply(null, args));
    } catch (e) {
      ans = /already exited/.test(String(e)) ? 'module-dead' : 'throw:' + String(e).slice(0, 80).replace(/\s+/g, '_');
    }
    fs.writeSync(1, '@@ ' + i + ' ' + ans + '\n');
    if (ans === 'module-dead') break;
  }
  process.exit(0);
}).catch((e) => { fs.writeSync(1, '@@ init-failed ' + String(e).replace(/\s+/g, '_') + '\n'); process.exit(3); });
`

// exportsScript: which functions the Go program registers on globalThis (they appear while the module loads and answer a
// call without arguments with an "error:" string), and which of them each name exported by the package's entry module is
// bound to: by identity of the function object, or — for a wrapper — by giving the same answers on a few well-formed calls.
const exportsScript = `
const fs = require('fs');
console.log = () => {};
const before = new Set(Object.getOwnPropertyNames(globalThis));
const S = 'GEZDGNBVGY3TQOJQGEZDGNBVGY3TQOJQ';
const probes = {
  generateHOTP: [[S, 1, '6', 'SHA1'], [S, 77, '8', 'SHA256'], [S, 4294967296, '10', 'SHA512']],
  generateTOTP: [[S, 59, '6', 'SHA1', 30], [S, 1111111109, '8', 'SHA256', 60], [S, 3600, '6', 'SHA1', 60]],
  validateHOTP: [[S, '287082', 1, '6', 'SHA1', 0], [S, '287082', 3, '6', 'SHA1', 2], [S, '000000', 1, '6', 'SHA1', 1]],
  validateTOTP: [[S, '287082', 59, '6', 'SHA1', 0, 30], [S, '287082', 119, '6', 'SHA1', 2, 30], [S, '000000', 59, '6', 'SHA1', 1, 30]],
  generateOTPURL: [['totp', 'My Co', 'a@b', S, '6', 'SHA1'], ['hotp', 'I', 'x y', S, '8', 'SHA512']],
};
require(process.argv[2])().then((api) => {
  const globals = Object.getOwnPropertyNames(globalThis).filter((k) => {
    if (before.has(k) || typeof globalThis[k] !== 'function' || k === 'Go') return false;
    try { const r = globalThis[k](); return typeof r === 'string' && r.startsWith('error:'); } catch (e) { return false; }
  }).sort();
  const same = (a, b) => JSON.stringify(a) === JSON.stringify(b);
  const out = {};
  for (const name of Object.keys(api).sort()) {
    if (typeof api[name] !== 'function') { out[name] = '?not-a-function'; continue; }
    let g = globals.find((k) => api[name] === globalThis[k]);
    if (!g) {
      g = globals.find((k) => probes[k] && probes[k].every((args) => {
        try { return same(api[name].apply(null, args), globalThis[k].apply(null, args)); } catch (e) { return false; }
      }) && (() => { try { const r = api[name](); return typeof r === 'string' && r.startsWith('error:'); } catch (e) { return false; } })());
    }
    out[name] = g || '?unmatched';
  }
  fs.writeSync(1, '@@EXPORTS ' + JSON.stringify({ globals, exports: out }) + '\n');
  process.exit(0);
}).catch((e) => { fs.writeSync(1, '@@EXPORTS ' + JSON.stringify({ error: String(e) }) + '\n'); process.exit(3); });
`

func natBytes(s string) string {
	var p []string
	for _, b := range []byte(s) {
		p = append(p, fmt.Sprint(b))
	}
	return "[" + strings.Join(p, ",") + "]"
}

// writeExports: observe the export table and write Gen/JsExports.lean
func writeExports(node, tmp, out string) error {
	script := filepath.Join(tmp, "exports.js")
	os.WriteFile(script, []byte(exportsScript), 0o644)
	cmd := exec.Command(node, script, filepath.Join(tmp, "pkg", "src", "index.js"))
	raw, _ := cmd.CombinedOutput()
	var res struct {
		Error   string            `json:"error"`
		Globals []string          `json:"globals"`
		Exports map[string]string `json:"exports"`
	}
	i := strings.Index(string(raw), "@@EXPORTS ")
	if i < 0 {
		return fmt.Errorf("no export table observed: %s", strings.TrimSpace(string(raw)))
	}
	line := string(raw)[i+len("@@EXPORTS "):]
	if j := strings.IndexByte(line, '\n'); j >= 0 {
		line = line[:j]
	}
	if err := json.Unmarshal([]byte(line), &res); err != nil || res.Error != "" {
		return fmt.Errorf("export table: %v %s", err, res.Error)
	}
	var b strings.Builder
	b.WriteString("-- GENERATED by /verif/harness/cmd/wasmcorr -exports: the freshly built wasm module is loaded under Node through\n-- otp-js/src/index.js and the bindings are OBSERVED (function identity, else equal answers on probe calls). Do not edit.\n")
	b.WriteString("namespace OtpVerif.Gen\n/-- (exported name, global function it is bound to), sorted by name -/\ndef jsExports : List (List Nat × List Nat) := [\n")
	var names []string
	for k := range res.Exports {
		names = append(names, k)
	}
	sort.Strings(names)
	for i, k := range names {
		sep := ","
		if i == len(names)-1 {
			sep = ""
		}
		fmt.Fprintf(&b, "  -- %s: globalThis.%s\n  (%s, %s)%s\n", k, res.Exports[k], natBytes(k), natBytes(res.Exports[k]), sep)
	}
	b.WriteString("]\n/-- the globals the Go program registers -/\ndef wasmGlobals : List (List Nat) := [\n")
	for i, g := range res.Globals {
		sep := ","
		if i == len(res.Globals)-1 {
			sep = ""
		}
		fmt.Fprintf(&b, "  -- %s\n  %s%s\n", g, natBytes(g), sep)
	}
	b.WriteString("]\nend OtpVerif.Gen\n")
	if old, err := os.ReadFile(out); err == nil && string(old) == b.String() {
		return nil
	}
	return os.WriteFile(out, []byte(b.String()), 0o644)
}

func runNode(node, script, opsFile, index string, n int) ([]string, error) {
	ans := make([]string, n)
	start := 0
	for start < n {
		// process deadline: a call that never returns inside the single-threaded module cannot be interrupted from inside
		ctx, cancel := context.WithTimeout(context.Background(), 60*time.Second+time.Duration(n-start)*50*time.Millisecond)
		cmd := exec.CommandContext(ctx, node, script, opsFile, fmt.Sprint(start), index)
		cmd.WaitDelay = 5 * time.Second
		var out bytes.Buffer
		cmd.Stdout = &out
		cmd.Stderr = &out
		err := cmd.Run()
		timedOut := ctx.Err() != nil
		cancel()
		last := -1
		sc := bufio.NewScanner(&out)
		sc.Buffer(make([]byte, 1<<20), 1<<26)
		for sc.Scan() {
			l := sc.Text()
			if !strings.HasPrefix(l, "@@ ") {
				continue
			}
			f := strings.SplitN(l[3:], " ", 2)
			if f[0] == "init-failed" {
				return nil, fmt.Errorf("wasm module did not initialise: %s", l)
			}
			var i int
			fmt.Sscanf(f[0], "%d", &i)
			if len(f) == 2 && i < n {
				ans[i] = f[1]
				last = i
			}
		}
		if timedOut && last >= start && last+1 < n {
			ans[last+1] = "module-hung"
			last++
		} else if last < start {
			if err != nil && !timedOut {
				return nil, fmt.Errorf("node: %v: %s", err, trunc(out.String(), 400))
			}
			// the process died without answering op `start`
			ans[start] = "module-dead"
			if timedOut {
				ans[start] = "module-hung"
			}
			last = start
		}
		start = last + 1
	}
	return ans, nil
}

func runDriver(driver string, lines []string) ([]string, []string, error) {
	cmd := exec.Command(driver)
	cmd.Stdin = strings.NewReader(strings.Join(lines, "\n") + "\n")
	var out bytes.Buffer
	cmd.Stdout = &out
	cmd.Stderr = os.Stderr
	if err := cmd.Run(); err != nil {
		return nil, nil, err
	}
	var m, s []string
	sc := bufio.NewScanner(&out)
	sc.Buffer(make([]byte, 1<<20), 1<<26)
	for sc.Scan() {
		p := strings.SplitN(sc.Text(), "\t", 2)
		m = append(m, p[0])
		if len(p) == 2 {
			s = append(s, p[1])
		} else {
			s = append(s, "")
		}
	}
	if len(m) != len(lines) {
		return nil, nil, fmt.Errorf("driver answered %d of %d", len(m), len(lines))
	}
	return m, s, nil
}

type violation struct {
	Kind  string `json:"kind"`
	Op    string `json:"op"`
	Impl  string `json:"impl"`
	Model string `json:"model"`
	Spec  string `json:"spec,omitempty"`
	JS    string `json:"js_call"`
}

func trunc(s string, n int) string {
	if len(s) > n {
		return s[:n] + "…"
	}
	return s
}

// rareCodes: counters at which the truncated HMAC value of the RFC 4226 test key is below 10 (found by cmd/rarecodes,
// about 2·10^8 HMACs per hit): the decimal code then has the maximal number of leading zeros.  {algo, counter, value}
var rareCodes = [][3]uint64{{0, 549209910, 2}, {0, 645201048, 2}, {0, 1145924030, 7}, {1, 100499525, 2}, {1, 142619083, 7}, {1, 211445524, 6},
	{2, 170782163, 7}, {2, 188616518, 2}, {2, 222150204, 2}}

const rfcKeyB32 = "GEZDGNBVGY3TQOJQGEZDGNBVGY3TQOJQ"

// mutCode: mostly the code itself; otherwise a near miss that a lenient parser, a trimming helper or a numeric
// comparison would let through (the native validator compares the string byte for byte)
func mutCode(r *rng, code string) string {
	if code == "" {
		return code
	}
	switch r.intn(14) {
	case 0:
		b := []byte(code)
		b[r.intn(len(b))] ^= 1
		return string(b)
	case 1:
		return pick(r, []string{" ", "\t", "\n", "\u00a0"}) + code
	case 2:
		return code + pick(r, []string{" ", "\t", "\r\n", "\u00a0"})
	case 3: // a sign in place of a leading zero / leading character
		return pick(r, []string{"+", "-", " "}) + code[1:]
	case 4:
		return pick(r, []string{"+", "0", "00"}) + code
	case 6, 7: // the same number modulo 2^32 / 2^31 (a comparison of parsed values in a narrow integer type)
		if v, err := strconv.ParseUint(code, 10, 64); err == nil {
			w := v + uint64(pick(r, []uint64{1 << 32, 1 << 33, 1 << 31, 1<<32 - 1<<31}))
			if t := strconv.FormatUint(w, 10); len(t) <= len(code) {
				return strings.Repeat("0", len(code)-len(t)) + t
			}
		}
		return code
	case 5: // full-width / Arabic-Indic digit for the last character
		return code[:len(code)-1] + pick(r, []string{"０", "٠", "x"})
	}
	return code
}

func main() {
	seed := flag.Uint64("seed", 1, "")
	n := flag.Int("n", 400, "")
	driver := flag.String("driver", "/verif/lean/.lake/build/bin/driver", "")
	repo := flag.String("repo", "/repo", "")
	node := flag.String("node", "", "")
	exportsOut := flag.String("exports", "", "only observe the export table and write it to this Lean file")
	flag.Parse()
	os.Setenv("VERIF_REPO_DIR", *repo)
	buildDict()
	if *node == "" {
		for _, c := range []string{"/root/.nvm/versions/node/v20.20.2/bin/node", "node"} {
			if p, err := exec.LookPath(c); err == nil {
				*node = p
				break
			}
		}
	}
	tmp, err := os.MkdirTemp("", "wasmcorr")
	if err != nil {
		os.Exit(2)
	}
	defer os.RemoveAll(tmp)
	var env []string
	for _, kv := range os.Environ() {
		if strings.HasPrefix(kv, "GOFLAGS=") || strings.HasPrefix(kv, "GOWORK=") || strings.HasPrefix(kv, "GOOS=") || strings.HasPrefix(kv, "GOARCH=") {
			continue
		}
		env = append(env, kv)
	}
	os.MkdirAll(filepath.Join(tmp, "pkg", "src"), 0o755)
	os.MkdirAll(filepath.Join(tmp, "pkg", "lib"), 0o755)
	build := exec.Command("go", "build", "-o", filepath.Join(tmp, "pkg", "lib", "otp.wasm"), "./wasm/main.go")
	build.Dir = *repo
	build.Env = append(env, "GOOS=js", "GOARCH=wasm", "GOPROXY=off")
	if out, err := build.CombinedOutput(); err != nil {
		fmt.Printf(`{"error":"wasm module does not build: %s"}`+"\n", strings.ReplaceAll(strings.ReplaceAll(string(out), `"`, `'`), "\n", " "))
		os.Exit(3)
	}
	for _, f := range []string{"index.js", "wasm_exec.js"} {
		b, err := os.ReadFile(filepath.Join(*repo, "otp-js", "src", f))
		if err != nil {
			fmt.Printf(`{"error":"missing otp-js/src/%s"}`+"\n", f)
			os.Exit(3)
		}
		os.WriteFile(filepath.Join(tmp, "pkg", "src", f), b, 0o644)
	}
	if *exportsOut != "" {
		if err := writeExports(*node, tmp, *exportsOut); err != nil {
			fmt.Println("wasmcorr -exports:", err)
			os.RemoveAll(tmp)
			os.Exit(3)
		}
		return
	}
	script := filepath.Join(tmp, "drive.js")
	os.WriteFile(script, []byte(nodeScript), 0o644)
	r := &rng{s: *seed}
	ops := genOps(r, *n)
	for i := range ops {
		ops[i].Lits = []string{}
		for _, a := range ops[i].Args {
			ops[i].Lits = append(ops[i].Lits, a.Lit)
		}
	}
	opsJSON, _ := json.Marshal(ops)
	opsFile := filepath.Join(tmp, "ops.json")
	os.WriteFile(opsFile, opsJSON, 0o644)
	impl, err := runNode(*node, script, opsFile, filepath.Join(tmp, "pkg", "src", "index.js"), len(ops))
	if err != nil {
		fmt.Printf(`{"error":"%s"}`+"\n", strings.ReplaceAll(err.Error(), `"`, `'`))
		os.Exit(3)
	}
	var lines []string
	for _, o := range ops {
		var toks []string
		for _, a := range o.Args {
			toks = append(toks, a.Tok)
		}
		lines = append(lines, "js "+o.Fn+" "+strings.Join(toks, " "))
	}
	model, spec, err := runDriver(*driver, lines)
	if err != nil {
		fmt.Printf(`{"error":"driver: %v"}`+"\n", err)
		os.Exit(2)
	}
	var viol []violation
	hist := map[string]int{}
	byFn := map[string]int{}
	distinct := map[string]bool{}
	specd := 0
	var samples []string
	for i, o := range ops {
		call := fmt.Sprintf("%s.%s(%s)", o.Target, o.Fn, trunc(strings.Join(o.Lits, ", "), 200))
		hist[strings.SplitN(impl[i], ":", 2)[0]]++
		byFn[o.Target+"."+o.Fn]++
		distinct[lines[i]+o.Target] = true
		if i%(len(ops)/5+1) == 0 {
			samples = append(samples, call+"  =>  "+trunc(impl[i], 60))
		}
		if spec[i] != "" {
			specd++
		}
		if impl[i] != model[i] {
			k := "impl-vs-model"
			if spec[i] != "" && impl[i] != spec[i] {
				k = "wasm-vs-native (and vs the binding model)"
			}
			viol = append(viol, violation{k, lines[i] + " [" + o.Target + "]", impl[i], model[i], spec[i], call})
		} else if spec[i] != "" && impl[i] != spec[i] {
			viol = append(viol, violation{"wasm-vs-native", lines[i] + " [" + o.Target + "]", impl[i], model[i], spec[i], call})
		}
	}
	if len(viol) > 20 {
		viol = viol[:20]
	}
	out := map[string]any{
		"coverage": map[string]any{"calls": len(ops), "distinct_requests": len(distinct), "with_native_reference": specd, "answer_histogram": hist, "by_function": byFn, "samples": samples,
			"node": *node},
		"violations": viol,
	}
	json.NewEncoder(os.Stdout).Encode(out)
	if len(viol) > 0 {
		os.RemoveAll(tmp)
		os.Exit(1)
	}
}
