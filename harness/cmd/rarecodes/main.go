// rarecodes searches for HOTP counters whose 31-bit truncated HMAC value is tiny (so that the decimal code has the
// maximal number of leading zeros).  Such counters are boundary inputs that random generation never reaches
// (probability about 5e-9 per counter for a value below 10); the result is committed as corpus/rare_codes.txt and fed to
// the correspondence and wasm engines on every run.  Usage: rarecodes <per-hash-count> > corpus/rare_codes.txt
package main

import (
	"crypto/hmac"
	"crypto/sha1"
	"crypto/sha256"
	"crypto/sha512"
	"encoding/binary"
	"fmt"
	"hash"
	"os"
	"runtime"
	"sort"
	"strconv"
	"sync"
)

type hit struct {
	algo    int
	counter uint64
	value   uint32
}

func main() {
	want := 3
	if len(os.Args) > 1 {
		want, _ = strconv.Atoi(os.Args[1])
	}
	key := []byte("12345678901234567890") // the RFC 4226 test key (base32 GEZDGNBVGY3TQOJQGEZDGNBVGY3TQOJQ)
	ctors := []func() hash.Hash{sha1.New, sha256.New, sha512.New}
	var all []hit
	for a, ctor := range ctors {
		var mu sync.Mutex
		var hits []hit
		workers := runtime.NumCPU()
		const block = 1 << 22
		var next uint64
		var wg sync.WaitGroup
		done := false
		for w := 0; w < workers; w++ {
			wg.Add(1)
			go func() {
				defer wg.Done()
				mac := hmac.New(ctor, key)
				var buf [8]byte
				sum := make([]byte, 0, 64)
				for {
					mu.Lock()
					if done {
						mu.Unlock()
						return
					}
					lo := next
					next += block
					mu.Unlock()
					for c := lo; c < lo+block; c++ {
						binary.BigEndian.PutUint64(buf[:], c)
						mac.Reset()
						mac.Write(buf[:])
						sum = mac.Sum(sum[:0])
						off := sum[len(sum)-1] & 0xf
						v := (uint32(sum[off])<<24 | uint32(sum[off+1])<<16 | uint32(sum[off+2])<<8 | uint32(sum[off+3])) & 0x7fffffff
						if v < 10 {
							mu.Lock()
							hits = append(hits, hit{a, c, v})
							if len(hits) >= want {
								done = true
							}
							mu.Unlock()
						}
					}
				}
			}()
		}
		wg.Wait()
		sort.Slice(hits, func(i, j int) bool { return hits[i].counter < hits[j].counter })
		all = append(all, hits...)
	}
	fmt.Println("# HOTP counters with a truncated value below 10 for the RFC 4226 test key (found by harness/cmd/rarecodes): algo counter value")
	for _, h := range all {
		fmt.Printf("%d %d %d\n", h.algo, h.counter, h.value)
	}
}
