//go:build !verif_internal

package main

const hasInternal = false

func runInternal(f []string) string { return "skipped" }
