package main

// gen.go: structured, mostly-valid input generators per property plus a malformed stream.
// Every random choice comes from one splitmix64 stream seeded by VERIF_SEED.

import (
	"hash/adler32"
	"hash/crc32"
	"hash/fnv"
	"math/big"
	"strconv"
	"encoding/base32"
	"encoding/binary"
	"fmt"
	"strings"
)

type rng struct{ s uint64 }

func (r *rng) next() uint64 {
	r.s += 0x9E3779B97F4A7C15
	z := r.s
	z = (z ^ (z >> 30)) * 0xBF58476D1CE4E5B9
	z = (z ^ (z >> 27)) * 0x94D049BB133111EB
	return z ^ (z >> 31)
}
func (r *rng) intn(n int) int { return int(r.next() % uint64(n)) }
func (r *rng) bytes(n int) []byte {
	b := make([]byte, n)
	for i := range b {
		b[i] = byte(r.next())
	}
	return b
}
func pick[T any](r *rng, xs []T) T { return xs[r.intn(len(xs))] }

var keyLens = []int{0, 1, 5, 10, 19, 20, 20, 20, 21, 32, 32, 63, 64, 64, 65, 127, 128, 128, 129, 130, 200, 255, 256, 257, 300}

// lastKey: the previous key handed out; a related key keeps its length and most of its bytes (a long common prefix, another
// tail; one flipped byte; the block-size prefix kept) — two secrets that any digest, prefix or length shortcut confuses
var lastKey []byte

func genKey(r *rng) []byte {
	k := genKey0(r)
	if len(lastKey) > 0 && r.intn(6) == 0 {
		k = append([]byte{}, lastKey...)
		switch r.intn(4) {
		case 0:
			k[len(k)-1] ^= byte(1 + r.intn(255))
		case 1:
			k[r.intn(len(k))] ^= 1 << uint(r.intn(8))
		case 2:
			for _, cut := range []int{128, 64, 32, 20} {
				if len(k) > cut {
					copy(k[cut:], r.bytes(len(k)-cut))
					break
				}
			}
		default:
			k[0] ^= 0x80
		}
	}
	lastKey = k
	return k
}

func genKey0(r *rng) []byte {
	n := pick(r, keyLens)
	switch r.intn(8) {
	case 0:
		return make([]byte, n)
	case 1:
		b := make([]byte, n)
		for i := range b {
			b[i] = 0xFF
		}
		return b
	case 2:
		if n == 20 {
			return []byte("12345678901234567890")
		}
	}
	return r.bytes(n)
}

var counterBounds = []uint64{0, 1, 2, 3, 9, 10, 11, 255, 256, 1<<31 - 1, 1 << 31, 1<<31 + 1, 1<<32 - 1, 1 << 32, 1<<32 + 1,
	1<<53 - 1, 1 << 53, 1<<56 - 1, 1 << 56, 1<<56 + 5, 1<<63 - 1, 1 << 63, 1<<63 + 1, 1<<63 + 5, 1<<64 - 12, 1<<64 - 11, 1<<64 - 2, 1<<64 - 1}

func genCounter(r *rng) uint64 {
	if r.intn(7) == 0 {
		return dictInt(r) + uint64(r.intn(5)) - 2 // near a number the code itself mentions
	}
	switch r.intn(4) {
	case 0:
		return pick(r, counterBounds)
	case 1:
		return uint64(r.intn(1000))
	case 2:
		return pick(r, counterBounds) + uint64(r.intn(21)) - 10
	}
	return r.next() >> uint(r.intn(64))
}

func genDigits(r *rng, hostile bool) int {
	if hostile && r.intn(3) == 0 {
		return pick(r, []int{0, 11, 12, 63, 64, 65, 128, 254, 255, r.intn(256)})
	}
	if r.intn(12) == 0 {
		return pick(r, []int{0, 11, 12, 255})
	}
	return 1 + r.intn(10)
}

func genAlgo(r *rng, hostile bool) int {
	if hostile && r.intn(3) == 0 {
		return pick(r, []int{3, 4, 99, 255, r.intn(256)})
	}
	if r.intn(15) == 0 {
		return pick(r, []int{3, 4, 255})
	}
	return r.intn(3)
}

func paramStr(d int, period uint64, skew uint64, a int) string {
	return fmt.Sprintf("P:%d:%d:%d:%d", d, period, skew, a)
}

func hxs(s string) string { return hx([]byte(s)) }

// ---------- C01 ----------

func craftedSum(r *rng, n int, off int, val uint32) []byte {
	sum := r.bytes(n)
	sum[n-1] = sum[n-1]&0xF0 | byte(off)
	top := byte(val>>24) & 0x7F
	if r.intn(2) == 0 {
		top |= 0x80 // the masked-out bit
	}
	sum[off] = top
	sum[off+1] = byte(val >> 16)
	sum[off+2] = byte(val >> 8)
	sum[off+3] = byte(val)
	return sum
}

func interestingValues() []uint32 {
	vs := []uint32{0, 1, 9, 1<<31 - 1, 1 << 30, 1410065407, 1410065408, 1410065409, 2147483646, 1999999999, 2000000000}
	p := uint32(1)
	for k := 1; k <= 9; k++ {
		p *= 10
		vs = append(vs, p-1, p, p+1, 2*p, 2*p-1)
	}
	return vs
}

func genC01(r *rng, n int, hostile bool) []string {
	var out []string
	out = append(out, rareOps(r)...)
	// keys at the hash block sizes and their neighbours (HMAC treats keys up to / beyond one block differently), every hash
	for _, kl := range []int{19, 20, 21, 63, 64, 65, 127, 128, 129} {
		for a := 0; a < 3; a++ {
			key := r.bytes(kl)
			c := genCounter(r)
			out = append(out, fmt.Sprintf("derive %s %d %d %d", hx(key), c, pick(r, []int{6, 8, 10}), a),
				fmt.Sprintf("gvhotp %s %d %d %s", hxs(spell(r, key)), c, c, paramStr(6, 0, 1, a)))
		}
	}
	// the complete finite grid of the truncate + formatter stage: all 16 offsets x boundary values, and
	// every digit count x boundary values for the three formatters
	mods := []uint64{1, 10, 100, 1000, 10000, 100000, 1000000, 10000000, 100000000, 1000000000, 10000000000}
	for off := 0; off < 16; off++ {
		for _, v := range interestingValues() {
			hl := pick(r, []int{20, 32, 64})
			out = append(out, fmt.Sprintf("trunc %s %d", hx(craftedSum(r, hl, off, v)), pick(r, mods[1:])))
		}
	}
	for d := 0; d <= 10; d++ {
		for _, v := range interestingValues() {
			if d <= 8 {
				out = append(out, fmt.Sprintf("fmt short %d %d", v, d))
			}
			out = append(out, fmt.Sprintf("fmt long %d %d", v, d), fmt.Sprintf("fmt dec %d %d", v, d))
		}
	}
	for i := 0; i < n; i++ {
		key := genKey(r)
		c := genCounter(r)
		d, a := genDigits(r, hostile), genAlgo(r, hostile)
		p := paramStr(d, uint64(r.intn(3))*30, uint64(r.intn(4)), a)
		if r.intn(10) == 0 {
			p = "N"
		}
		switch r.intn(10) {
		case 0, 1:
			out = append(out, fmt.Sprintf("derive %s %d %d %d", hx(key), c, d, a))
		case 2:
			// history: a large counter, then small ones with the same key (stale pooled buffers)
			out = append(out, fmt.Sprintf("ghotp %s %d %s", hxs(spell(r, key)), pick(r, counterBounds[12:]), p))
			for j := 0; j < 3; j++ {
				out = append(out, fmt.Sprintf("ghotp %s %d %s", hxs(spell(r, key)), uint64(r.intn(10)), p))
			}
		default:
			out = append(out, fmt.Sprintf("ghotp %s %d %s", hxs(spell(r, key)), c, p))
		}
	}
	return out
}

// ---------- C02 ----------

var periods = []uint64{0, 0, 1, 2, 29, 30, 30, 30, 31, 60, 60, 3600, 86400, 1 << 31, 1<<32 - 1, 1 << 32}

func genSec(r *rng, period uint64) int64 {
	if period == 0 {
		period = 30
	}
	if r.intn(7) == 0 {
		if v := int64(dictInt(r)) + int64(r.intn(5)) - 2; v >= 0 && v < 1<<62 {
			return v // near a number the code itself mentions (also as a multiple of the usual periods)
		}
	}
	switch r.intn(5) {
	case 0:
		return pick(r, []int64{0, 1, 29, 30, 31, 59, 60, 1111111109, 1111111111, 1234567890, 2000000000, 20000000000, 1<<31 - 1, 1 << 31, 1<<32 - 1, 1 << 32,
			9223372036, 9223372037, 9300000000, 1 << 40, 1<<62 - 1})
	case 1, 2:
		// around a step boundary n*period, +-2 s
		n := int64(r.next() % (1 << uint(1+r.intn(40))))
		s := n*int64(period) + int64(r.intn(5)) - 2
		if s < 0 || s >= 1<<62 {
			s = int64(r.intn(100000))
		}
		return s
	case 3:
		return int64(r.next() >> uint(2+r.intn(62)))
	}
	return int64(r.intn(4000000000))
}

func timeFields(r *rng, sec int64) string {
	nsec := pick(r, []int64{0, 0, 1, 499999999, 500000000, 500000001, 999999999, int64(r.intn(1000000000))})
	zone := pick(r, []int64{0, 1, 3600, -3600, 19800, -43200, 50400, 12345})
	mono := r.intn(3) // 0: wall only; 1: with a monotonic reading consistent with the wall clock; 2: wall clock stepped under the reading
	return fmt.Sprintf("%d %d %d %d", sec, nsec, zone, mono)
}

// steppedClock: histories of instants that all carry (nearly) the same monotonic reading while their wall clocks are steps
// apart — same secret, same parameters (also the nil parameter), in both directions.  The step of an instant is decided by
// its wall clock alone.
func steppedClock(r *rng, validate bool) []string {
	var out []string
	for i := 0; i < 6; i++ {
		key := r.bytes(20)
		sec := int64(1000000000 + r.intn(1000000000))
		per := pick(r, []uint64{30, 30, 60, 1})
		p := pick(r, []string{"N", "N", paramStr(6, per, 1, 0), paramStr(8, per, 0, 1)})
		if p == "N" {
			per = 30
		}
		sp := hxs(base32.StdEncoding.EncodeToString(key))
		for _, d := range []int64{0, int64(per), -int64(per), 3600, 1, int64(per) * 3 / 2, 86400, -3600} {
			t := fmt.Sprintf("%d %d 0 2", sec+d, int64(r.intn(1000000000)))
			if validate {
				code := refHOTP(key, uint64(sec)/per, 6, 0) // the code of the first instant's step: right only while the wall clock stays in it
				out = append(out, fmt.Sprintf("vtotp %s %s %s %s", sp, hxs(code), t, p))
			} else {
				out = append(out, fmt.Sprintf("gtotp %s %s %s", sp, t, p))
			}
		}
	}
	return out
}

// resolutionGrid (C02, second clause): generation and validation must resolve parameters identically — absent parameters,
// a zero period and the explicit defaults are interchangeable on both sides.  For a few keys and instants the code generated
// under one spelling of the parameters is validated under every other spelling, at the same instant and at the instants of
// the neighbouring steps (skew 0, 1, 2), so that a default applied on one side only, or in one part of the validator only
// (the step computation but not the window stride, say), shows as a wrong verdict.
func resolutionGrid(r *rng) []string {
	var out []string
	for k := 0; k < 6; k++ {
		key := genKey(r)
		ks := hxs(spell(r, key))
		sec := int64(r.intn(2000000000)) + 90
		if k == 0 {
			sec = 59
		}
		for _, s := range []uint64{0, 1, 2} {
			for dist := -int64(s) - 1; dist <= int64(s)+1; dist++ {
				at := sec + dist*30
				if at < 0 {
					continue
				}
				code := refHOTP(key, uint64(at)/30, 6, 0)
				for _, p := range []string{paramStr(6, 0, s, 0), paramStr(6, 30, s, 0)} {
					out = append(out, fmt.Sprintf("vtotp %s %s %s %s", ks, hxs(code), timeFields(r, sec), p))
				}
				if s == 0 {
					out = append(out, fmt.Sprintf("vtotp %s %s %s N", ks, hxs(code), timeFields(r, sec)))
				}
			}
		}
		for _, p := range []string{"N", paramStr(6, 0, 0, 0), paramStr(6, 30, 0, 0), paramStr(0, 0, 0, 0)} {
			out = append(out, fmt.Sprintf("gtotp %s %s %s", ks, timeFields(r, sec), p))
			out = append(out, fmt.Sprintf("gvtotp %s %d %d %s", ks, sec, sec+int64(r.intn(3)-1)*30, p))
		}
	}
	return out
}

func genC02(r *rng, n int, hostile bool) []string {
	var out []string
	out = append(out, steppedClock(r, false)...)
	out = append(out, resolutionGrid(r)...)
	for i := 0; i < n; i++ {
		key := genKey(r)
		per := pick(r, periods)
		sec := genSec(r, per)
		if hostile && r.intn(4) == 0 {
			sec = pick(r, []int64{-1, -30, -31, -1 << 62, -1 << 63, 1<<63 - 1, 1 << 62})
		}
		d, a := genDigits(r, hostile), genAlgo(r, hostile)
		p := paramStr(d, per, uint64(r.intn(3)), a)
		if r.intn(10) == 0 {
			p = "N"
		}
		out = append(out, fmt.Sprintf("gtotp %s %s %s", hxs(spell(r, key)), timeFields(r, sec), p))
		if r.intn(4) == 0 {
			// same second, different sub-second / zone / monotonic part
			out = append(out, fmt.Sprintf("gtotp %s %s %s", hxs(spell(r, key)), timeFields(r, sec), p))
		}
	}
	return out
}

// ---------- code mutations (C03, C04, C06) ----------

func mutateCode(r *rng, code string) (string, string) {
	b := []byte(code)
	n := len(b)
	kind := r.intn(16)
	if n == 10 && r.intn(4) == 0 {
		kind = 11
	}
	switch {
	case kind < 6 || n == 0:
		return code, "exact"
	case kind == 6:
		i := r.intn(n)
		b[i] = '0' + (b[i]-'0'+byte(1+r.intn(9)))%10
		return string(b), "edit1"
	case kind == 7:
		return code[:n-1], "trunc"
	case kind == 8:
		return code + string(rune('0'+r.intn(10))), "extend"
	case kind == 9:
		return pick(r, []string{" " + code, code + " ", code + "\n", "\t" + code, " " + code[1:], code[:n-1] + " "}), "space"
	case kind == 10:
		// Arabic-Indic / full-width digit in place of the first character (multi-byte)
		alt := pick(r, []string{"٠", "０"})
		return alt + code[1:], "unicode"
	case kind == 11:
		// numerically equal modulo 2^32 / 2^31 (only representable with 10 digits)
		var v uint64
		fmt.Sscanf(code, "%d", &v)
		v2 := v + pick(r, []uint64{1 << 32, 1 << 33, 1 << 31})
		s := fmt.Sprintf("%0*d", n, v2)
		if len(s) != n {
			s = fmt.Sprintf("%0*d", n, v2%pow10(n))
		}
		return s, "mod2^32"
	case kind == 12 && n >= 2:
		// two bytes changed so that the XOR differences sum to 256, or cancel
		i, j := r.intn(n), r.intn(n)
		if i != j {
			b[i] ^= 0x80
			b[j] ^= 0x80
		}
		return string(b), "xor-pair"
	case kind == 13:
		return string(r.bytes(n)), "random-bytes"
	case kind == 14:
		return "", "empty"
	default:
		i := r.intn(n)
		b[i] = pick(r, []byte{'a', '/', ':', 0, 0xff, '+', '-'})
		return string(b), "nondigit"
	}
}


// numericAliases: every string OF THE SAME LENGTH as `code` that some lenient numeric reading would take for the same
// value (a sign or blank in place of a leading zero, a decimal point, an exponent, base prefixes, digit separators) or
// for a value that coincides with it in a narrower accumulator (2^8 … 2^33 added, or subtracted, while the length stays).
// The property says "byte for byte": none of them may be accepted unless it is itself the code of a window counter.
func numericAliases(code string) []string {
	n := len(code)
	if n == 0 {
		return nil
	}
	var v uint64
	for _, ch := range []byte(code) {
		if ch < '0' || ch > '9' {
			return nil
		}
		v = v*10 + uint64(ch-'0')
	}
	seen := map[string]bool{code: true}
	var out []string
	add := func(s string) {
		if len(s) == n && !seen[s] {
			seen[s] = true
			out = append(out, s)
		}
	}
	lz := 0
	for lz < n-1 && code[lz] == '0' {
		lz++
	}
	if code[0] == '0' {
		for _, p := range []string{"+", "-", " ", "\t", "\n", "_", "."} {
			add(p + code[1:])
		}
		add(code[1:] + ".")
		add(code[1:] + " ")
		add(code[1:] + "\n")
		add(code[1:] + "\x00")
		add(fmt.Sprintf("%*d", n, v))  // blanks for all leading zeros
		add(fmt.Sprintf("%+0*d", n, v)) // sign, then zeros
		add(fmt.Sprintf("%-*d", n, v))  // trailing blanks
	}
	if lz >= 2 {
		for _, f := range []string{"0x%0*x", "0X%0*X", "0o%0*o", "0b%0*b"} {
			add(fmt.Sprintf(f, n-2, v))
		}
		add(fmt.Sprintf("%0*o", n, v)) // what a base-0 reader takes a zero-led numeral for
		if ds := fmt.Sprint(v); len(ds) >= 2 && len(ds)+1 <= n {
			add(strings.Repeat("0", n-len(ds)-1) + ds[:1] + "_" + ds[1:])
		}
	}
	// exponent spellings: 25550 = 2555e1
	if v > 0 {
		m, k := v, 0
		for m%10 == 0 {
			m /= 10
			k++
			e := fmt.Sprintf("%de%d", m, k)
			if len(e) <= n {
				add(strings.Repeat("0", n-len(e)) + e)
			}
		}
	}
	lim := pow10(n)
	for _, sh := range []uint{8, 16, 24, 31, 32, 33} {
		for k := uint64(1); k <= 3; k++ {
			d := k << sh
			if v+d < lim {
				add(fmt.Sprintf("%0*d", n, v+d))
			}
			if v >= d {
				add(fmt.Sprintf("%0*d", n, v-d))
			}
		}
	}
	return out
}

// aliasOps: for a few keys, counters whose code starts with one or more zeros are searched (1 in 10 / 1 in 100), and each
// numeric alias of the code is submitted to the validator, at the counter itself and with the code inside a window
func aliasOps(r *rng, totp bool) []string {
	var out []string
	for _, d := range []int{6, 8, 10, 7} {
		for a := 0; a < 3; a++ {
			key := genKey(r)
			ks := hxs(spell(r, key))
			found1, found2 := false, false
			for c := uint64(r.intn(1000)); !(found1 && found2) && c < 1<<20; c++ {
				code := refHOTP(key, c, d, a)
				two := strings.HasPrefix(code, "00")
				if code[0] != '0' || (two && found2) || (!two && found1) {
					continue
				}
				if two {
					found2 = true
				} else {
					found1 = true
				}
				for _, al := range numericAliases(code) {
					s := pick(r, []uint64{0, 0, 1, 2})
					at := c + uint64(r.intn(int(2*s+1))) - s
					if at > 1<<62 {
						at = c
					}
					if totp {
						per := pick(r, []uint64{30, 30, 60, 1})
						out = append(out, fmt.Sprintf("vtotp %s %s %s %s", ks, hxs(al), timeFields(r, int64(at*per)+int64(r.intn(int(per)))), paramStr(d, per, s, a)))
					} else {
						out = append(out, fmt.Sprintf("vhotp %s %s %d %s", ks, hxs(al), at, paramStr(d, 0, s, a)))
					}
				}
			}
			// ten digits: the value itself is shifted (no leading zero needed)
			if d == 10 {
				c := genCounter(r) >> 2
				code := refHOTP(key, c, d, a)
				for _, al := range numericAliases(code) {
					if totp {
						out = append(out, fmt.Sprintf("vtotp %s %s %s %s", ks, hxs(al), timeFields(r, int64(c>>8)*30), paramStr(d, 30, 1, a)))
					} else {
						out = append(out, fmt.Sprintf("vhotp %s %s %d %s", ks, hxs(al), c, paramStr(d, 0, 1, a)))
					}
				}
			}
		}
	}
	return out
}

// degenerateOps: the corners where "nothing" could be mistaken for "equal": the empty code (and "0") against a declared
// length of 0, derivations that fail (unusable suite, unsupported hash, undecodable secret) with every code a failed
// derivation might be compared with ("", "0", zeros of the declared length) — for every validator and every way of
// building a suite value.  Systematic, not drawn: which of these a change breaks must not depend on the random stream.
func degenerateOps(r *rng, which string) []string {
	var out []string
	key := genKey(r)
	ks := hxs(spell(r, key))
	codes := func(d int) []string {
		cs := []string{"", "0", "00", " "}
		if d > 0 && d < 16 {
			cs = append(cs, strings.Repeat("0", d))
		}
		return cs
	}
	switch which {
	case "hotp", "totp":
		for _, d := range []int{0, 1, 6, 11, 255} {
			for _, a := range []int{0, 2, 3, 255} {
				for _, s := range []uint64{0, 1, 11} {
					for _, k := range []string{ks, hxs("!not base32!"), "-"} {
						for _, c := range codes(d) {
							if which == "hotp" {
								out = append(out, fmt.Sprintf("vhotp %s %s %d %s", k, hxs(c), uint64(r.intn(5)), paramStr(d, 0, s, a)))
							} else {
								out = append(out, fmt.Sprintf("vtotp %s %s %s %s", k, hxs(c), timeFields(r, int64(r.intn(100))), paramStr(d, pick(r, []uint64{0, 30}), s, a)))
							}
						}
					}
				}
			}
		}
	case "ocra":
		in := "I:nil:3132333435363738:nil:nil:nil"
		for _, kind := range []string{"C", "M", "X", "S"} {
			for _, d := range []int64{0, 1, 3, 6, 11} {
				for _, h := range []int{0, 3} {
					for _, q := range []bool{true, false} {
						c := cfgT{kind: kind, raw: "OCRA-1:HOTP-SHA1-6:QN08", hash: h, digits: d, challenge: 1, q: q}
						if !q {
							c.challenge = 0
						}
						for _, k := range []string{ks, hxs("!not base32!")} {
							for _, code := range codes(int(d)) {
								out = append(out, fmt.Sprintf("vocra %s %s %s %s", k, hxs(code), c.str(), in))
							}
						}
					}
				}
			}
		}
		// the zero RawSuite that NewRawSuite returns beside its error, and unparsable raw strings
		for _, code := range codes(0) {
			out = append(out, fmt.Sprintf("vocra %s %s M:-:0:0:0:00000:0:0 %s", ks, hxs(code), in))
			out = append(out, fmt.Sprintf("vocra %s %s C:-:0:0:0:00000:0:0 %s", ks, hxs(code), in))
			out = append(out, fmt.Sprintf("vocra %s %s R:%s %s", ks, hxs(code), hxs("OCRA-1:HOTP-SHA1-0:QN08"), in))
		}
	}
	return out
}

var skews = []uint64{0, 0, 1, 1, 2, 2, 3, 5, 9, 10, 10}
var refusedSkews = []uint64{11, 12, 1000, 1 << 32, 1<<63 - 1, 1 << 63, 1<<63 + 1, 1<<64 - 2, 1<<64 - 1}

// windowGrid: the clipped / wrapped part of the window, systematically (small counters and instants, every skew class,
// every distance from below the window to twice the skew above it), plus refused skews read as signed / narrowed numbers
func windowGrid(r *rng, totp bool) []string {
	var out []string
	key := genKey(r)
	ks := hxs(spell(r, key))
	for _, c := range []uint64{0, 1, 2, 3, 9, 10, 11} {
		for _, s := range []uint64{0, 1, 2, 3, 10} {
			for dist := -int64(s + 2); dist <= int64(2*s+2); dist++ {
				d, a := pick(r, []int{6, 8, 10}), r.intn(3)
				code := refHOTP(key, c+uint64(dist), d, a)
				if totp {
					per := pick(r, []uint64{1, 30, 60})
					out = append(out, fmt.Sprintf("vtotp %s %s %s %s", ks, hxs(code), timeFields(r, int64(c*per+uint64(r.intn(int(per))))), paramStr(d, per, s, a)))
				} else {
					out = append(out, fmt.Sprintf("vhotp %s %s %d %s", ks, hxs(code), c, paramStr(d, 0, s, a)))
				}
			}
		}
	}
	for _, s := range refusedSkews {
		for _, c := range []uint64{0, 5, 1 << 31, 1<<63 + 5, 1<<64 - 1} {
			for _, off := range []uint64{0, s, -s, uint64(int32(s)), uint64(uint8(s)), -uint64(uint8(s)), 1} {
				code := refHOTP(key, c+off, 6, 0)
				if totp {
					if c < 1<<61 {
						out = append(out, fmt.Sprintf("vtotp %s %s %s %s", ks, hxs(code), timeFields(r, int64(c*30)), paramStr(6, 30, s, 0)))
					}
				} else {
					out = append(out, fmt.Sprintf("vhotp %s %s %d %s", ks, hxs(code), c, paramStr(6, 0, s, 0)))
				}
			}
		}
	}
	return out
}

func genC03(r *rng, n int, hostile bool) []string {
	var out []string
	out = append(out, rareOps(r)...)
	out = append(out, windowGrid(r, false)...)
	out = append(out, aliasOps(r, false)...)
	out = append(out, degenerateOps(r, "hotp")...)
	for i := 0; i < n; i++ {
		key := genKey(r)
		d, a := genDigits(r, hostile), genAlgo(r, hostile)
		s := pick(r, skews)
		if r.intn(12) == 0 {
			s = pick(r, refusedSkews)
		}
		var c uint64
		switch r.intn(5) {
		case 0:
			c = uint64(r.intn(14))
		case 1:
			c = pick(r, []uint64{1 << 31, 1 << 32, 1 << 63, 1<<63 - 1, 1<<63 + 5}) + uint64(r.intn(25)) - 12
		case 2:
			c = 1<<64 - 1 - s - uint64(r.intn(3)) // c + s <= 2^64-1
		default:
			c = genCounter(r)
		}
		if !hostile && s <= 10 && c > 1<<64-1-s {
			c = 1<<64 - 1 - s
		}
		w := int64(s)
		if s > 10 {
			w = 2
		}
		dist := int64(r.intn(int(2*(w+3)+1))) - (w + 3)
		cc := c + uint64(dist)
		if dist < 0 && uint64(-dist) > c {
			cc = 0
		}
		if s > 10 && r.intn(2) == 0 {
			// a refused window read as a signed / narrowed number: the code of the counter such a reading would reach
			cc = c + pick(r, []uint64{s, -s, uint64(int64(s)), uint64(int32(s)), uint64(uint8(s)), -uint64(uint8(s))})
		}
		code := refHOTP(key, cc, d, a)
		if code == "" {
			code = strings.Repeat("0", d%12)
		}
		code, _ = mutateCode(r, code)
		p := paramStr(d, 0, s, a)
		if r.intn(10) == 0 {
			p = "N"
			code, _ = mutateCode(r, refHOTP(key, cc, 6, 0))
		}
		out = append(out, fmt.Sprintf("vhotp %s %s %d %s", hxs(spell(r, key)), hxs(code), c, p))
		if r.intn(10) == 0 && d >= 1 && d <= 10 && a < 3 {
			// replay chain: a code of an earlier call's window, submitted again where the window is clipped at counter 0
			// (or for another secret): nothing may be remembered from the earlier call
			s2 := uint64(1 + r.intn(10))
			c1 := uint64(20 + r.intn(1000))
			p2 := paramStr(d, 0, s2, a)
			k1 := hxs(spell(r, key))
			out = append(out, fmt.Sprintf("vhotp %s %s %d %s", k1, hxs(refHOTP(key, c1, d, a)), c1, p2))
			for j := 0; j < 3; j++ {
				off := uint64(r.intn(int(2*s2+1))) - s2
				k2 := k1
				if r.intn(3) == 0 {
					k2 = hxs(spell(r, genKey(r)))
				}
				out = append(out, fmt.Sprintf("vhotp %s %s %d %s", k2, hxs(refHOTP(key, c1+off, d, a)), uint64(r.intn(int(s2))), p2))
			}
		}
		if r.intn(8) == 0 {
			// the string object returned by a generation, validated at another counter
			c2 := c + uint64(r.intn(int(2*w+7))) - uint64(w+3)
			out = append(out, fmt.Sprintf("gvhotp %s %d %d %s", hxs(spell(r, key)), c, c2, p))
		}
	}
	return out
}

func genC04(r *rng, n int, hostile bool) []string {
	var out []string
	out = append(out, windowGrid(r, true)...)
	out = append(out, steppedClock(r, true)...)
	out = append(out, aliasOps(r, true)...)
	out = append(out, degenerateOps(r, "totp")...)
	out = append(out, resolutionGrid(r)...)
	for i := 0; i < n; i++ {
		key := genKey(r)
		d, a := genDigits(r, hostile), genAlgo(r, hostile)
		s := pick(r, skews)
		if r.intn(12) == 0 {
			s = pick(r, refusedSkews)
		}
		per := pick(r, periods)
		ep := per
		if ep == 0 {
			ep = 30
		}
		sec := genSec(r, per)
		if hostile && r.intn(4) == 0 {
			sec = pick(r, []int64{-1, -30, -1 << 62, 1<<63 - 1})
		}
		var step uint64
		if sec >= 0 {
			step = uint64(sec) / ep
		}
		w := int64(s)
		if s > 10 {
			w = 2
		}
		dist := int64(r.intn(int(2*(w+3)+1))) - (w + 3)
		cc := step + uint64(dist)
		if dist < 0 && uint64(-dist) > step {
			cc = 0
		}
		if s > 10 && r.intn(2) == 0 {
			cc = step + pick(r, []uint64{s, -s, uint64(int64(s)), uint64(int32(s)), uint64(uint8(s)), -uint64(uint8(s))})
		}
		code := refHOTP(key, cc, d, a)
		if code == "" {
			code = strings.Repeat("0", d%12)
		}
		code, _ = mutateCode(r, code)
		p := paramStr(d, per, s, a)
		if r.intn(10) == 0 {
			p = "N"
			step = uint64(sec) / 30
			code, _ = mutateCode(r, refHOTP(key, step+uint64(r.intn(3))-1, 6, 0))
		}
		out = append(out, fmt.Sprintf("vtotp %s %s %s %s", hxs(spell(r, key)), hxs(code), timeFields(r, sec), p))
		if r.intn(10) == 0 && d >= 1 && d <= 10 && a < 3 {
			// replay chain (see genC03): an earlier call's window code submitted again near the epoch / for another secret
			s2 := uint64(1 + r.intn(10))
			st1 := uint64(20 + r.intn(1000))
			p2 := paramStr(d, 30, s2, a)
			k1 := hxs(spell(r, key))
			out = append(out, fmt.Sprintf("vtotp %s %s %s %s", k1, hxs(refHOTP(key, st1, d, a)), timeFields(r, int64(st1*30+7)), p2))
			for j := 0; j < 3; j++ {
				off := uint64(r.intn(int(2*s2+1))) - s2
				k2 := k1
				if r.intn(3) == 0 {
					k2 = hxs(spell(r, genKey(r)))
				}
				out = append(out, fmt.Sprintf("vtotp %s %s %s %s", k2, hxs(refHOTP(key, st1+off, d, a)), timeFields(r, int64(r.intn(int(s2))*30+3)), p2))
			}
		}
		if r.intn(6) == 0 && sec >= 0 {
			// the string object returned by a generation, validated at another instant (possibly far away)
			t2 := sec + int64(r.intn(int(2*w+7))-int(w+3))*int64(ep)
			if r.intn(3) == 0 {
				t2 = pick(r, []int64{59, 1111111109, 2000000000, sec + 1000003})
			}
			if t2 < 0 {
				t2 = 0
			}
			out = append(out, fmt.Sprintf("gvtotp %s %d %d %s", hxs(spell(r, key)), sec, t2, p))
		}
	}
	return out
}

// ---------- OCRA (C05, C06, C14) ----------

type cfgT struct {
	raw               string
	hash              int
	digits, challenge int64
	c, q, p, s, t     bool
	pw, ts            int64
	kind              string
}

func (c cfgT) str() string {
	return fmt.Sprintf("%s:%s:%d:%d:%d:%s%s%s%s%s:%d:%d", c.kind, hxs(c.raw), c.hash, c.digits, c.challenge, b2s(c.c), b2s(c.q), b2s(c.p), b2s(c.s), b2s(c.t), c.pw, c.ts)
}

var registered []string // filled from otp.ListSuites() in main

func grammarSuite(r *rng, wild bool) string {
	h := pick(r, []string{"SHA1", "SHA256", "SHA512"})
	d := 4 + r.intn(7)
	if wild {
		d = r.intn(12)
		if r.intn(8) == 0 {
			h = pick(r, []string{"SHA384", "SHA224", "SHA2", "SHA3", "SHA", "SHA0", "SHA11", "SHA-1", "SHA2560", "MD5", "sha384"})
		}
	}
	s := fmt.Sprintf("OCRA-1:HOTP-%s-%d:", h, d)
	var toks []string
	if r.intn(2) == 0 {
		toks = append(toks, "C")
	}
	toks = append(toks, "Q"+pick(r, []string{"N", "N", "N", "A", "H"})+pick(r, []string{"08", "10", "08", "10", "64", "04"}))
	if r.intn(2) == 0 {
		toks = append(toks, "P"+pick(r, []string{"SHA1", "SHA256", "SHA512"}))
	}
	if r.intn(2) == 0 {
		toks = append(toks, pick(r, []string{"S", "S064", "S128", "S512"}))
	}
	if r.intn(2) == 0 {
		toks = append(toks, fmt.Sprintf("T%d%s", 1+r.intn(59), pick(r, []string{"S", "M", "H"})))
	}
	s += strings.Join(toks, "-")
	if r.intn(6) == 0 {
		s = strings.ToLower(s[:7]) + s[7:]
		s = "OCRA-1:" + strings.ToLower(s[7:])
	}
	return s
}

func genCfg(r *rng, wild bool) cfgT {
	c := cfgT{kind: pick(r, []string{"C", "C", "M", "S", "X"})}
	c.raw = pick(r, []string{"", "OCRA-1:HOTP-SHA1-6:QN08", "x", "suite \xff\x00 text", strings.Repeat("R", 300), grammarSuite(r, false)})
	c.hash = r.intn(3)
	c.digits = int64(4 + r.intn(7))
	c.challenge = int64(r.intn(7))
	c.c, c.q, c.p, c.s, c.t = r.intn(2) == 0, r.intn(3) != 0, r.intn(3) == 0, r.intn(3) == 0, r.intn(3) == 0
	c.pw = int64(r.intn(4))
	if c.p && r.intn(4) != 0 {
		c.pw = int64(1 + r.intn(3))
	}
	if c.q && r.intn(5) != 0 {
		c.challenge = int64(1 + r.intn(6))
	}
	c.ts = pick(r, []int64{-1, 0, 1, 1, 30, 60, 60})
	if c.t && r.intn(5) != 0 {
		c.ts = pick(r, []int64{1, 30, 60})
	}
	if wild {
		switch r.intn(6) {
		case 0:
			c.digits = pick(r, []int64{-1, 0, 3, 11, 12, 1 << 40, -1 << 40})
		case 1:
			c.hash = pick(r, []int{3, 4, 255})
		case 2:
			c.challenge = pick(r, []int64{-1, 7, 8, 100})
		case 3:
			c.pw = pick(r, []int64{-1, 4, 7})
		}
	}
	return c
}

func fieldLen(r *rng, want int, exact bool) int {
	if r.intn(12) == 0 {
		if v := dictInt(r); v <= 300 {
			return int(v) // a length the code itself mentions
		}
	}
	if r.intn(4) != 0 {
		if exact {
			return want
		}
		return pick(r, []int{want, want + 1, 127, 128, want + r.intn(120-want+1)})
	}
	return pick(r, []int{0, 1, 7, 8, 9, 10, 11, 19, 20, 21, 31, 32, 33, 63, 64, 65, 127, 128, 129, 140})
}

func genField(r *rng, n int) string {
	if n == 0 {
		return pick(r, []string{"-", "nil"})
	}
	switch r.intn(3) {
	case 0:
		b := make([]byte, n)
		for i := range b {
			b[i] = '0' + byte(r.intn(10))
		}
		return hx(b)
	}
	return hx(r.bytes(n))
}

func minQ(ch int64) int {
	switch ch {
	case 1, 3, 5:
		return 8
	case 2, 4, 6:
		return 10
	}
	return 0
}

func pwLen(pw int64) int {
	switch pw {
	case 1:
		return 20
	case 2:
		return 32
	case 3:
		return 64
	}
	return 20
}

// genInputFor builds an input for cfg: mostly admissible, with random content in unselected fields.
func genInputFor(r *rng, c cfgT) string {
	unsel := func() int {
		if r.intn(2) == 0 {
			return 0
		}
		return r.intn(141)
	}
	cl, ql, pl, sl, tl := unsel(), unsel(), unsel(), unsel(), unsel()
	if c.c {
		cl = fieldLen(r, 8, true)
	}
	if c.q {
		ql = fieldLen(r, minQ(c.challenge), false)
	}
	if c.p {
		pl = fieldLen(r, pwLen(c.pw), true)
	}
	if c.s {
		sl = pick(r, []int{0, 1, 20, 64, 127, 128, 128, 129, r.intn(129)})
	}
	if c.t {
		tl = fieldLen(r, 8, true)
	}
	return fmt.Sprintf("I:%s:%s:%s:%s:%s", genField(r, cl), genField(r, ql), genField(r, pl), genField(r, sl), genField(r, tl))
}

func cfgOfRegistered(name string) (cfgT, bool) {
	// parse the registered naming scheme just enough to build matching inputs (generation aid only)
	parts := strings.Split(name, ":")
	if len(parts) != 3 {
		return cfgT{}, false
	}
	c := cfgT{raw: name, kind: "R"}
	for _, tok := range strings.Split(parts[2], "-") {
		switch {
		case tok == "C":
			c.c = true
		case strings.HasPrefix(tok, "Q"):
			c.q = true
			if strings.HasSuffix(tok, "10") {
				c.challenge = 2
			} else {
				c.challenge = 1
			}
		case strings.HasPrefix(tok, "PSHA"):
			c.p = true
			c.pw = map[string]int64{"PSHA1": 1, "PSHA256": 2, "PSHA512": 3}[tok]
		case strings.HasPrefix(tok, "S"):
			c.s = true
		case strings.HasPrefix(tok, "T"):
			c.t = true
		}
	}
	return c, true
}

func genSuiteAndInput(r *rng, wild bool) (string, string, cfgT) {
	switch r.intn(4) {
	case 0:
		name := pick(r, registered)
		c, _ := cfgOfRegistered(name)
		return "R:" + hxs(name), genInputFor(r, c), c
	case 1:
		name := grammarSuite(r, wild)
		c, _ := cfgOfRegistered(strings.ToUpper(name))
		return "R:" + hxs(name), genInputFor(r, c), c
	}
	c := genCfg(r, wild)
	return c.str(), genInputFor(r, c), c
}

// sizeGrid: programmatic configurations whose name has a boundary length (powers of two and their neighbours, the longest
// names the parser can produce) with every data input selected at its maximal size — the places where a pre-sized or pooled
// message buffer, or a capacity computed from "maximal" parts, is one byte short
func sizeGrid(r *rng) []string {
	var out []string
	key := genKey(r)
	ks := hxs(spell(r, key))
	for _, L := range []int{0, 1, 47, 48, 49, 63, 64, 65, 118, 119, 120, 127, 128, 129, 255, 256, 257, 400, 401} {
		for _, pw := range []int64{1, 3} {
			c := cfgT{kind: pick(r, []string{"C", "M"}), raw: strings.Repeat("R", L), hash: r.intn(3), digits: 6, challenge: 1, c: true, q: true, p: true, s: true, t: true, pw: pw, ts: 60}
			in := fmt.Sprintf("I:%s:%s:%s:%s:%s", hx(r.bytes(8)), hx(r.bytes(128)), hx(r.bytes(pwLen(pw))), hx(r.bytes(128)), hx(r.bytes(8)))
			out = append(out, fmt.Sprintf("gocra %s %s %s", ks, c.str(), in))
			code := refOCRA(key, c, in)
			if code != "" {
				out = append(out, fmt.Sprintf("vocra %s %s %s %s", ks, hxs(code), c.str(), in))
			}
		}
	}
	// time-step tokens at the edges of the unit rule (no unit, unit only, several units), appended to a parsable name
	for _, t := range []string{"T", "T1", "T30", "T120", "T1234", "TS", "TM", "T0S", "T5SS", "T5MS", "T05M", "T999H", "T1000S", "t30", "T30s", "T-1S", "T+1S"} {
		out = append(out, "suite "+hxs("OCRA-1:HOTP-SHA1-6:QN08-"+t))
		out = append(out, fmt.Sprintf("gocra %s R:%s I:-:%s:-:-:%s", ks, hxs("OCRA-1:HOTP-SHA1-6:QN08-"+t), hx([]byte("12345678")), hx(r.bytes(8))))
	}
	return out
}

func genC05(r *rng, n int, hostile bool) []string {
	var out []string
	out = append(out, editedSuiteOps(r)...)
	out = append(out, sizeGrid(r)...)
	// every registered suite with a boundary input
	for _, name := range registered {
		c, _ := cfgOfRegistered(name)
		out = append(out, fmt.Sprintf("gocra %s R:%s %s", hxs(spell(r, genKey(r))), hxs(name), genInputFor(r, c)))
	}
	for i := 0; i < n; i++ {
		su, in, c := genSuiteAndInput(r, hostile)
		key := genKey(r)
		out = append(out, fmt.Sprintf("gocra %s %s %s", hxs(spell(r, key)), su, in))
		if r.intn(3) == 0 {
			// history: a call that fills the pooled buffer with non-zero bytes, then a short-field call
			big := fmt.Sprintf("I:%s:%s:%s:%s:%s", hx(r.bytes(8)), hx(bytesOf(0xA5, 128)), hx(r.bytes(pwLen(c.pw))), hx(bytesOf(0x5A, 128)), hx(r.bytes(8)))
			out = append(out, fmt.Sprintf("gocra %s %s %s", hxs(spell(r, key)), su, big))
			out = append(out, fmt.Sprintf("gocra %s %s %s", hxs(spell(r, key)), su, genInputFor(r, c)))
		}
	}
	return out
}

// digestCollisions: pairs of distinct well-formed suite strings that agree under one of the standard 32-bit digests
// (FNV-1, FNV-1a, CRC-32 IEEE and Castagnoli, Adler-32).  The answer for a suite string must be a function of the whole
// string; anything that recognises a string by a short digest of it gives the second string of such a pair the first
// one's configuration.  The pairs are found by a birthday search over the suite grammar (n strings: about n^2/2^33 pairs
// per digest).
func digestCollisions(r *rng, n int) [][2]string {
	wide := func() string {
		s := fmt.Sprintf("OCRA-1:HOTP-%s-%d:", pick(r, []string{"SHA1", "SHA256", "SHA512"}), 4+r.intn(7))
		var toks []string
		if r.intn(2) == 0 {
			toks = append(toks, "C")
		}
		switch r.intn(8) {
		case 0:
			toks = append(toks, fmt.Sprintf("Q%s%02d", pick(r, []string{"N", "A", "H"}), 4+r.intn(61))) // the RFC's full range
		case 1:
		default:
			toks = append(toks, pick(r, []string{"QN08", "QN10"})) // the formats of the registered suites
		}
		if r.intn(2) == 0 {
			toks = append(toks, "P"+pick(r, []string{"SHA1", "SHA256", "SHA512"}))
		}
		if r.intn(8) != 0 { // mostly with the two numeric parts: they are what makes the space large enough for a birthday search
			toks = append(toks, fmt.Sprintf("S%03d", r.intn(1000)))
		}
		if r.intn(8) != 0 {
			switch r.intn(4) {
			case 0:
				toks = append(toks, fmt.Sprintf("T%dH", r.intn(49)))
			case 1:
				toks = append(toks, fmt.Sprintf("T%d%s", 1+r.intn(999), pick(r, []string{"S", "M", "H"})))
			default:
				toks = append(toks, fmt.Sprintf("T%d%s", 1+r.intn(59), pick(r, []string{"S", "M"})))
			}
		}
		return s + strings.Join(toks, "-")
	}
	cast := crc32.MakeTable(crc32.Castagnoli)
	digests := []func(string) uint32{
		func(s string) uint32 { h := fnv.New32(); h.Write([]byte(s)); return h.Sum32() },
		func(s string) uint32 { h := fnv.New32a(); h.Write([]byte(s)); return h.Sum32() },
		func(s string) uint32 { return crc32.ChecksumIEEE([]byte(s)) },
		func(s string) uint32 { return crc32.Checksum([]byte(s), cast) },
		func(s string) uint32 { return adler32.Checksum([]byte(s)) },
	}
	seen := make([]map[uint32]string, len(digests))
	for i := range seen {
		seen[i] = make(map[uint32]string, n)
	}
	var out [][2]string
	perDigest := make([]int, len(digests))
	for i := 0; i < n; i++ {
		s := wide()
		for k, d := range digests {
			h := d(s)
			if o, ok := seen[k][h]; ok && o != s && perDigest[k] < 3 {
				ca, _ := cfgOfRegistered(o)
				cb, _ := cfgOfRegistered(s)
				if ca.str() != cb.str() || !strings.EqualFold(o[:20], s[:20]) { // different configuration: a mix-up is visible
					out = append(out, [2]string{o, s})
					perDigest[k]++
				}
			} else if !ok {
				seen[k][h] = s
			}
		}
	}
	return out
}

// admissibleInput builds an input every selected field of which has an admissible length (unselected fields empty)
func admissibleInput(r *rng, c cfgT) string {
	cl, ql, pl, sl, tl := 0, 0, 0, 0, 0
	if c.c {
		cl = 8
	}
	if c.q {
		ql = minQ(c.challenge) + r.intn(100)
	}
	if c.p {
		pl = pwLen(c.pw)
	}
	if c.s {
		sl = 1 + r.intn(128)
	}
	if c.t {
		tl = 8
	}
	return fmt.Sprintf("I:%s:%s:%s:%s:%s", genField(r, cl), genField(r, ql), genField(r, pl), genField(r, sl), genField(r, tl))
}

// genDigestPairs: histories in which two suite strings with a common 32-bit digest are used one after the other
func genDigestPairs(r *rng, n int) []string {
	var out []string
	nb := 250000
	if n >= 8000 {
		nb = 400000
	}
	for _, pr := range digestCollisions(r, nb) {
		key := r.bytes(20)
		for _, name := range []string{pr[0], pr[1], pr[0]} {
			c, _ := cfgOfRegistered(name)
			out = append(out, fmt.Sprintf("parse %s", hxs(name)))
			for k := 0; k < 2; k++ {
				out = append(out, fmt.Sprintf("gocra %s R:%s %s", hxs(base32.StdEncoding.EncodeToString(key)), hxs(name), admissibleInput(r, c)))
			}
		}
	}
	return out
}

func bytesOf(b byte, n int) []byte {
	x := make([]byte, n)
	for i := range x {
		x[i] = b
	}
	return x
}

func genC14(r *rng, n int, hostile bool) []string {
	var out []string
	out = append(out, editedSuiteOps(r)...)
	// systematic: each field alone at every length 0..140 for a few configurations
	base := []cfgT{
		{kind: "C", raw: "a", hash: 0, digits: 6, challenge: 1, q: true},
		{kind: "C", raw: "a", hash: 1, digits: 8, challenge: 2, q: true, c: true},
		{kind: "C", raw: "a", hash: 2, digits: 10, challenge: 0, p: true, pw: 2},
		{kind: "C", raw: "a", hash: 0, digits: 4, challenge: 5, q: true, s: true, t: true, ts: 60},
		{kind: "C", raw: "a", hash: 0, digits: 6, challenge: 1, q: true, ts: 60}, // time step set, T not selected
		{kind: "C", raw: "a", hash: 0, digits: 6, challenge: 3, q: true, p: true, pw: 3},
	}
	for _, c := range base {
		for l := 0; l <= 140; l++ {
			for fld := 0; fld < 5; fld++ {
				ls := [5]int{0, 0, 0, 0, 0}
				if c.c {
					ls[0] = 8
				}
				if c.q {
					ls[1] = minQ(c.challenge)
				}
				if c.p {
					ls[2] = pwLen(c.pw)
				}
				if c.t {
					ls[4] = 8
				}
				ls[fld] = l
				in := fmt.Sprintf("I:%s:%s:%s:%s:%s", genField(r, ls[0]), genField(r, ls[1]), genField(r, ls[2]), genField(r, ls[3]), genField(r, ls[4]))
				out = append(out, fmt.Sprintf("adm %s %s", c.str(), in))
			}
		}
	}
	for i := 0; i < n; i++ {
		c := genCfg(r, true)
		c.kind = "C"
		in := genInputFor(r, c)
		out = append(out, fmt.Sprintf("adm %s %s", c.str(), in))
		c.kind = pick(r, []string{"C", "M", "S", "X"})
		out = append(out, fmt.Sprintf("gocra %s %s %s", hxs(spell(r, genKey(r))), c.str(), in))
	}
	return out
}

// editedSuiteOps: a suite obtained from a constructor (registered name / parsed string) and then edited through its
// exported embedded configuration, one field at a time, keeping the name: each edit that makes the suite unusable must be
// refused by generation and validation, each edit that keeps it usable must give the RFC value of the edited
// configuration.  Whatever a constructor established (and may have remembered) about the old fields says nothing here.
func editedSuiteOps(r *rng) []string {
	var out []string
	names := []string{"OCRA-1:HOTP-SHA1-6:QN08", "OCRA-1:HOTP-SHA256-8:C-QN08-PSHA1", "OCRA-1:HOTP-SHA512-8:QN08-T1M", "OCRA-1:HOTP-SHA1-7:C-QN10-S064-T30S"}
	for _, name := range names {
		base, ok := cfgOfRegistered(strings.ToUpper(name))
		if !ok {
			continue
		}
		base.raw = name
		base.kind = "X"
		edits := []func(c *cfgT){
			func(c *cfgT) {},
			func(c *cfgT) { c.digits = 8 },
			func(c *cfgT) { c.digits = 3 }, func(c *cfgT) { c.digits = 0 }, func(c *cfgT) { c.digits = 11 }, func(c *cfgT) { c.digits = -1 },
			func(c *cfgT) { c.hash = 3 }, func(c *cfgT) { c.hash = 7 }, func(c *cfgT) { c.hash = (c.hash + 1) % 3 },
			func(c *cfgT) { c.p = true; c.pw = 0 }, func(c *cfgT) { c.p = true; c.pw = 2 },
			func(c *cfgT) { c.t = true; c.ts = 0 }, func(c *cfgT) { c.t = true; c.ts = -1 }, func(c *cfgT) { c.t = true; c.ts = 60 },
			func(c *cfgT) { c.q = true; c.challenge = 0 }, func(c *cfgT) { c.challenge = 3 },
			func(c *cfgT) { c.s = !c.s }, func(c *cfgT) { c.c = !c.c },
			// enum fields outside their named constants (negative, just above, far above), with the input selected
			func(c *cfgT) { c.p = true; c.pw = -1 }, func(c *cfgT) { c.p = true; c.pw = 4 }, func(c *cfgT) { c.p = true; c.pw = -1 << 31 }, func(c *cfgT) { c.p = true; c.pw = 1 << 40 },
			func(c *cfgT) { c.q = true; c.challenge = -1 }, func(c *cfgT) { c.q = true; c.challenge = 7 }, func(c *cfgT) { c.q = true; c.challenge = -1 << 31 }, func(c *cfgT) { c.q = true; c.challenge = 1 << 40 },
			func(c *cfgT) { c.hash = 255 }, func(c *cfgT) { c.digits = 1 << 40 }, func(c *cfgT) { c.digits = -1 << 40 }, func(c *cfgT) { c.t = true; c.ts = 1 << 40 },
		}
		key := genKey(r)
		ks := hxs(spell(r, key))
		for _, e := range edits {
			c := base
			e(&c)
			in := admissibleInput(r, c)
			out = append(out, fmt.Sprintf("gocra %s %s %s", ks, c.str(), in))
			code := refOCRA(key, c, in)
			if code == "" {
				code = strings.Repeat("0", int(c.digits&15))
			}
			out = append(out, fmt.Sprintf("vocra %s %s %s %s", ks, hxs(code), c.str(), in))
		}
	}
	return out
}

func genC06(r *rng, n int, hostile bool) []string {
	var out []string
	out = append(out, degenerateOps(r, "ocra")...)
	out = append(out, editedSuiteOps(r)...)
	for i := 0; i < n; i++ {
		su, in, c := genSuiteAndInput(r, hostile || r.intn(4) == 0)
		key := genKey(r)
		// the expected code computed independently where the configuration allows it
		code := ""
		if c.kind != "R" || true {
			code = refOCRA(key, c, in)
		}
		if code == "" {
			code = strings.Repeat("0", int(c.digits&15))
		}
		if r.intn(5) == 0 {
			// the code for a neighbouring input
			in2 := genInputFor(r, c)
			if c2 := refOCRA(key, c, in2); c2 != "" {
				code = c2
			}
		} else {
			if al := numericAliases(code); len(al) > 0 && (code[0] == '0' || r.intn(6) == 0) {
				ks := hxs(spell(r, key))
				for _, v := range al {
					out = append(out, fmt.Sprintf("vocra %s %s %s %s", ks, hxs(v), su, in))
				}
			}
			code, _ = mutateCode(r, code)
		}
		out = append(out, fmt.Sprintf("vocra %s %s %s %s", hxs(spell(r, key)), hxs(code), su, in))
		if r.intn(6) == 0 {
			out = append(out, fmt.Sprintf("vocra %s %s %s %s", hxs("!not base32!"), hxs(code), su, in))
		}
	}
	return out
}

// refOCRA computes the expected code for generation purposes (cfgT describes the selected fields)
func refOCRA(key []byte, c cfgT, in string) string {
	f := strings.Split(in, ":")
	if len(f) != 6 {
		return ""
	}
	var b [5][]byte
	for i := 0; i < 5; i++ {
		b[i], _ = unhex(f[i+1])
	}
	padR := func(x []byte, w int) []byte {
		if len(x) >= w {
			return x[:w]
		}
		return append(append([]byte{}, x...), make([]byte, w-len(x))...)
	}
	raw := c.raw
	digits, hash := int(c.digits), c.hash
	if c.kind == "R" {
		// digits/hash from the name
		p := strings.Split(strings.ToUpper(raw), ":")
		if len(p) == 3 {
			q := strings.Split(p[1], "-")
			if len(q) == 3 {
				hash = map[string]int{"SHA1": 0, "SHA256": 1, "SHA512": 2}[q[1]]
				fmt.Sscanf(q[2], "%d", &digits)
			}
		}
	}
	msg := append([]byte(raw), 0)
	if c.c {
		msg = append(msg, padR(b[0], 8)...)
	}
	if c.q {
		msg = append(msg, padR(b[1], 128)...)
	}
	if c.p {
		msg = append(msg, b[2]...)
	}
	if c.s {
		msg = append(msg, padR(b[3], 128)...)
	}
	if c.t {
		msg = append(msg, padR(b[4], 8)...)
	}
	return refOCRAMsgCode(key, msg, digits, hash)
}

// rareCodes: counters at which the truncated HMAC value of the RFC 4226 test key is below 10 (found by cmd/rarecodes,
// about 2·10^8 HMACs per hit): the decimal code then has the maximal number of leading zeros.  {algo, counter, value}
var rareCodes = [][3]uint64{{0, 549209910, 2}, {0, 645201048, 2}, {0, 1145924030, 7}, {1, 100499525, 2}, {1, 142619083, 7}, {1, 211445524, 6},
	{2, 170782163, 7}, {2, 188616518, 2}, {2, 222150204, 2}}

const rfcKeyB32 = "GEZDGNBVGY3TQOJQGEZDGNBVGY3TQOJQ"

// rareOps: generation and validation at the rare counters, for every code length
func rareOps(r *rng) []string {
	var out []string
	for _, rc := range rareCodes {
		a, c := int(rc[0]), rc[1]
		for _, d := range []int{10, 9, 8, 6, 1} {
			out = append(out, fmt.Sprintf("ghotp %s %d %s", hxs(rfcKeyB32), c, paramStr(d, 0, 0, a)))
			out = append(out, fmt.Sprintf("derive %s %d %d %d", hx([]byte("12345678901234567890")), c, d, a)) // under js/wasm also the binding's own derivation
			code := refHOTP([]byte("12345678901234567890"), c, d, a)
			for _, v := range []string{code, "+" + code[1:], " " + code[1:], code[1:], "-" + code[1:]} {
				out = append(out, fmt.Sprintf("vhotp %s %s %d %s", hxs(rfcKeyB32), hxs(v), c+uint64(r.intn(3))-1, paramStr(d, 0, 1, a)))
			}
			out = append(out, fmt.Sprintf("gtotp %s %s %s", hxs(rfcKeyB32), timeFields(r, int64(c*30+uint64(r.intn(30)))), paramStr(d, 30, 0, a)))
			if d == 6 || d == 10 {
				for _, v := range numericAliases(code) {
					out = append(out, fmt.Sprintf("vtotp %s %s %s %s", hxs(rfcKeyB32), hxs(v), timeFields(r, int64(c*30+uint64(r.intn(30)))), paramStr(d, 30, 0, a)))
				}
			}
		}
	}
	return out
}

// ---------- C07 ----------

func genC07(r *rng, n int, hostile bool) []string {
	var out []string
	for l := 0; l <= 12; l++ { // every residue mod 5 several times, all padding amounts kept
		key := r.bytes(l)
		e := base32.StdEncoding.EncodeToString(key)
		data := strings.TrimRight(e, "=")
		for keep := 0; keep <= len(e)-len(data); keep++ {
			out = append(out, "dec "+hxs(data+strings.Repeat("=", keep)), "dec "+hxs(strings.ToLower(data)+strings.Repeat("=", keep)))
		}
		out = append(out, "dec "+hxs(e+"="), "dec "+hxs(e+"========"))
	}
	// every byte value substituted for / inserted before one character of a valid text (exhaustive in the byte)
	{
		base := base32.StdEncoding.EncodeToString(r.bytes(10)) // 16 characters, no padding
		at := r.intn(len(base))
		for v := 0; v < 256; v++ {
			out = append(out, "dec "+hxs(base[:at]+string([]byte{byte(v)})+base[at+1:]))
			if v%4 == 0 {
				out = append(out, "dec "+hxs(base[:at]+string([]byte{byte(v)})+base[at:]+"======="))
			}
		}
	}
	for i := 0; i < n; i++ {
		key := r.bytes(r.intn(257))
		if r.intn(3) == 0 {
			key = genKey(r)
		}
		sp := spell(r, key)
		switch r.intn(12) {
		case 10: // one bit of one character flipped (neighbours of the alphabet under case folds, parity bits, …)
			b := []byte(sp)
			if len(b) > 0 {
				b[r.intn(len(b))] ^= 1 << uint(r.intn(8))
			}
			sp = string(b)
		case 11: // any byte value anywhere
			b := []byte(sp)
			if len(b) > 0 {
				b[r.intn(len(b))] = byte(r.intn(256))
			}
			sp = string(b)
		case 0: // a character outside the alphabet somewhere
			b := []byte(sp)
			if len(b) > 0 {
				b[r.intn(len(b))] = pick(r, []byte{'0', '1', '8', '9', '@', '[', '`', '{', '/', '+', '-', '_', ' ', '\n', '\r', 0, 0x7f, 0x80, 0xc4, 0xff, '='})
			}
			sp = string(b)
		case 1: // impossible length
			t := strings.TrimRight(strings.TrimSpace(sp), "=")
			sp = t + pick(r, []string{"A", "AAA", "AAAAAA", "A=", "AAA=="})
		case 2: // padding in the middle
			t := strings.TrimSpace(sp)
			if len(t) > 2 {
				k := 1 + r.intn(len(t)-1)
				sp = t[:k] + pick(r, []string{"=", "==", "======"}) + t[k:]
			}
		case 3: // Unicode white space around / non-ASCII letters that fold to ASCII
			sp = pick(r, []string{"\u0085", " ", " ", "　", "ı", "ſ", "K"}) + sp + pick(r, []string{"", " ", "ı"})
		case 4: // embedded CR/LF groups
			t := strings.TrimSpace(sp)
			if len(t) > 1 {
				k := 1 + r.intn(len(t)-1)
				sp = t[:k] + strings.Repeat(pick(r, []string{"\n", "\r\n", "\r"}), 1+r.intn(16)) + t[k:]
			}
		case 5:
			sp = string(r.bytes(r.intn(40)))
		}
		out = append(out, "dec "+hxs(sp))
		if r.intn(4) == 0 {
			out = append(out, "std.b32dec "+hxs(strings.ToUpper(strings.TrimSpace(sp))), "std.trim "+hxs(sp))
		}
		if r.intn(10) == 0 {
			// every entry point answers a text that does not decode with an error (no panic, no code)
			bad := hxs(pick(r, []string{"!not base32!", "MFRGG1", "AAA", "MF=RGG", "ıııııııı", "", " ", sp + "!"}))
			c := genCounter(r)
			out = append(out, fmt.Sprintf("ghotp %s %d N", bad, c), fmt.Sprintf("vhotp %s %s %d N", bad, hxs("123456"), c),
				fmt.Sprintf("gtotp %s %s N", bad, timeFields(r, 59)), fmt.Sprintf("vtotp %s %s %s N", bad, hxs("123456"), timeFields(r, 59)),
				fmt.Sprintf("gocra %s R:%s I:nil:3132333435363738:nil:nil:nil", bad, hxs("OCRA-1:HOTP-SHA1-6:QN08")),
				fmt.Sprintf("vocra %s %s R:%s I:nil:3132333435363738:nil:nil:nil", bad, hxs("123456"), hxs("OCRA-1:HOTP-SHA1-6:QN08")))
		}
		if r.intn(8) == 0 {
			// all entry points see the same key for different spellings
			c := genCounter(r)
			out = append(out, fmt.Sprintf("ghotp %s %d N", hxs(spell(r, key)), c), fmt.Sprintf("ghotp %s %d N", hxs(spell(r, key)), c))
		}
	}
	return out
}

// ---------- C08 ----------

func genC08(r *rng, n int, hostile bool) []string {
	var out []string
	for i := 0; i < n; i++ {
		a := r.intn(3)
		if r.intn(6) == 0 {
			a = pick(r, []int{3, 4, 99, 255})
		}
		var st []byte
		switch r.intn(5) {
		case 0:
			st = make([]byte, 200)
		case 1:
			st = bytesOf(0xFF, 200)
		case 2:
			st = make([]byte, 200)
			for j := range st {
				st[j] = byte(j)
			}
		default:
			st = r.bytes(64 + r.intn(140))
		}
		chunk := pick(r, []int{0, 0, 1, 7, 16, 19, 20, 31, 32, 63, 64})
		out = append(out, fmt.Sprintf("rnd %d %s %d", a, hx(st), chunk))
		if i%12 == 0 {
			// histories against one source: mixed sizes, long enough to cross any internal buffering
			k := 1 + r.intn(24)
			as := make([]string, k)
			switch r.intn(4) {
			case 0: // one hash for a while, then another
				a0, a1 := r.intn(3), r.intn(3)
				cut := r.intn(k + 1)
				for j := range as {
					if j < cut {
						as[j] = strconv.Itoa(a0)
					} else {
						as[j] = strconv.Itoa(a1)
					}
				}
			case 1:
				for j := range as {
					as[j] = strconv.Itoa(pick(r, []int{0, 1, 2, 0, 1, 2, 0, 1, 2, 3, 255}))
				}
			default:
				for j := range as {
					as[j] = strconv.Itoa(r.intn(3))
				}
			}
			out = append(out, fmt.Sprintf("rndseq %s %s %d %d", strings.Join(as, ","), hx(r.bytes(4096)),
				pick(r, []int{0, 0, 0, 1, 7, 19, 20, 31, 33, 64}), pick(r, []int{1, 1, 1, 2, 8})))
		}
		if i%25 == 0 {
			// interleaved calls: the results must be the encodings of disjoint consecutive stream segments
			out = append(out, fmt.Sprintf("rndpar %d %s %d", r.intn(3), hx(r.bytes(64*8)), 2+r.intn(7)))
		}
	}
	return out
}

// ---------- C15 ----------

func malformedSuite(r *rng) string {
	base := grammarSuite(r, true)
	switch r.intn(16) {
	case 0:
		return strings.Replace(base, "OCRA-1", pick(r, []string{"OCRA-2", "OCRA-10", "OCRA-1x", "ocra-1", "OCRA", ""}), 1)
	case 1:
		return base + pick(r, []string{":x", ":", "-", "-X", "-QN08", "-C", "-T1M", "-S", "-T2M-T3M"})
	case 2:
		return strings.Replace(base, "HOTP-SHA", pick(r, []string{"HOTP-MD", "TOTP-SHA", "HOTP-ſHA", "HOTP-SHA384-", "HOTP-", "hotp-ſha"}), 1)
	case 3:
		p := strings.Split(base, ":")
		return p[0] + ":" + p[1]
	case 4:
		p := strings.Split(base, ":")
		q := strings.Split(p[1], "-")
		q[2] = pick(r, []string{"+6", "-6", "06", "006", "0006", "6.0", " 6", "", "x", "18446744073709551622", "9223372036854775807"})
		return p[0] + ":" + strings.Join(q, "-") + ":" + p[2]
	case 5:
		return base + "-T" + pick(r, []string{"3074457345618258603M", "+1M", "-1M", "01M", "1m", "1", "M", "1X", "999H", "1000S", "0S", "00S"})
	case 6:
		return base + "-S" + pick(r, []string{"HA1", "X", "06", "0644", "+64", "06٤", "ſ"})
	case 7:
		p := strings.Split(base, ":")
		t := strings.Split(p[2], "-")
		if len(t) > 1 {
			i := r.intn(len(t) - 1)
			t[i], t[i+1] = t[i+1], t[i]
		}
		return p[0] + ":" + p[1] + ":" + strings.Join(t, "-")
	case 8:
		p := strings.Split(base, ":")
		return p[0] + ":" + p[1] + ":" + p[2] + "-" + strings.Split(p[2], "-")[0]
	case 9:
		b := []byte(base)
		b[r.intn(len(b))] = pick(r, []byte{0, ' ', 0x80, 0xff, 'x', ':', '-'})
		return string(b)
	case 10:
		return pick(r, []string{"", ":", "::", ":::", "OCRA-1::", "OCRA-1:HOTP-SHA1-6:", "OCRA-1:HOTP-SHA1-6", "OCRA-1:HOTP-SHA1:QN08", "OCRA-1:HOTP-SHA1-6-7:QN08"})
	case 11:
		return strings.Replace(base, "Q", pick(r, []string{"QX", "Q", "QN", "QN8", "QN080"}), 1)
	case 12:
		return strings.Replace(base, "PSHA", pick(r, []string{"PMD5", "P", "PSHA384", "PSHA"}), 1)
	default:
		return base
	}
}

// bitFlips: every single-bit change of every byte of a few well-formed suite strings (covering each kind of token), through
// the parser and through the constructor.  A well-formed string has no well-formed neighbour at distance one bit except where
// a letter changes case or a digit changes into another digit; everything else — control bytes that differ from a digit or
// letter only in bit 5, bytes above 0x7f, punctuation — has to be refused, not read as the character it resembles.
func bitFlips(r *rng) []string {
	bases := []string{"OCRA-1:HOTP-SHA1-6:QN08", "OCRA-1:HOTP-SHA256-8:C-QN10-PSHA1-S064-T1M", "OCRA-1:HOTP-SHA512-10:QN08-PSHA512-T30S",
		"ocra-1:hotp-sha256-7:c-qn10-psha256-s-t2h", "OCRA-1:HOTP-SHA1-4:C-QN08-PSHA256-S128-T59S"}
	var out []string
	// every position of two names with the bytes at which text classes change hands (0x80: first non-ASCII byte and a
	// lone continuation byte, 0x7f, NUL, the lead bytes of 2- and 4-byte sequences, 0xff), substituted and inserted
	for _, b := range bases[:2] {
		for i := 0; i <= len(b); i++ {
			for _, sub := range []byte{0x80, 0x7f, 0x00, 0xc2, 0xf0, 0xff} {
				if i < len(b) {
					m := []byte(b)
					m[i] = sub
					out = append(out, "suite "+hx(m))
				}
				m := append(append(append([]byte(nil), b[:i]...), sub), b[i:]...)
				out = append(out, "suite "+hx(m))
			}
		}
	}
	for _, b := range bases {
		for i := 0; i < len(b); i++ {
			for bit := 0; bit < 8; bit++ {
				m := []byte(b)
				m[i] ^= 1 << bit
				out = append(out, "suite "+hx(m))
				if bit == 4 || bit == 5 || bit == 7 {
					out = append(out, "parse "+hx(m))
				}
			}
		}
	}
	return out
}

func genC15(r *rng, n int, hostile bool) []string {
	var out []string
	for _, name := range registered {
		out = append(out, "suite "+hxs(name))
	}
	out = append(out, bitFlips(r)...)
	for i := 0; i < n; i++ {
		switch r.intn(6) {
		case 0, 1, 2:
			s := grammarSuite(r, true)
			out = append(out, "suite "+hxs(s))
			if r.intn(3) == 0 {
				out = append(out, "parse "+hxs(s))
			}
		case 3:
			out = append(out, "suite "+hxs(malformedSuite(r)))
		case 4:
			name := pick(r, registered)
			out = append(out, "suite "+hxs(name), "parse "+hxs(name), "suite "+hxs(strings.ToLower(name)), "suite "+hxs(name+" "))
		default:
			c := genCfg(r, true)
			c.kind = "C"
			out = append(out, "newsuite "+c.str())
		}
	}
	return out
}

// grammarEnum enumerates the grammar of the property completely (thorough tier): digits 0..11, all optional
// parts, time values 1..59 S/M and 1..48 H sampled by stride to stay near 10^5 strings.
func grammarEnum(stride int) []string {
	var out []string
	k := 0
	for _, h := range []string{"SHA1", "SHA256", "SHA512"} {
		for d := 0; d <= 11; d++ {
			for _, c := range []string{"", "C-"} {
				for _, qf := range []string{"N", "A", "H"} {
					for _, ql := range []string{"08", "10"} {
						for _, p := range []string{"", "-PSHA1", "-PSHA256", "-PSHA512"} {
							for _, s := range []string{"", "-S", "-S064"} {
								ts := []string{""}
								for v := 1; v <= 59; v++ {
									ts = append(ts, fmt.Sprintf("-T%dS", v), fmt.Sprintf("-T%dM", v))
									if v <= 48 {
										ts = append(ts, fmt.Sprintf("-T%dH", v))
									}
								}
								for _, t := range ts {
									k++
									if k%stride != 0 {
										continue
									}
									out = append(out, fmt.Sprintf("OCRA-1:HOTP-%s-%d:%sQ%s%s%s%s%s", h, d, c, qf, ql, p, s, t))
								}
							}
						}
					}
				}
			}
		}
	}
	return out
}

// ---------- C17 ----------

func decString(r *rng) string {
	if r.intn(7) == 0 {
		// around a power of two (word and limb boundaries of any big-number arithmetic): 2^k + d, 2^j + 2^k + d
		v := new(big.Int).Lsh(big.NewInt(1), uint(pick(r, []int{8, 16, 31, 32, 33, 53, 63, 64, 64, 65, 96, 96, 127, 128, 128, 160, 192, 255, 256, 512, 1023})))
		if r.intn(3) == 0 {
			v.Add(v, new(big.Int).Lsh(big.NewInt(1), uint(pick(r, []int{0, 8, 32, 32, 64}))))
		}
		v.Add(v, big.NewInt(int64(r.intn(19)-9)))
		if r.intn(4) == 0 {
			v.Mul(v, big.NewInt(int64(1+r.intn(9))))
		}
		return v.Abs(v).String()
	}
	switch r.intn(12) {
	case 0:
		return pick(r, []string{"", "0", "00", "1", "18446744073709551615", "18446744073709551616", "99999999999999999999", "72057594037927936", "72057594037927941", "255", "256"})
	case 1:
		return pick(r, []string{"+5", "-5", "-0", "+0", " 5", "5 ", "1_000", "0x10", "1e3", "١٢٣", "12a", "a"})
	case 2:
		n := 1 + r.intn(64)
		b := make([]byte, n)
		for i := range b {
			b[i] = '0' + byte(r.intn(10))
		}
		return string(b)
	case 3:
		n := pick(r, []int{19, 20, 21, 63, 64, 65, 300, 308, 309, 310, 400})
		b := make([]byte, n)
		for i := range b {
			b[i] = '0' + byte(r.intn(10))
		}
		if r.intn(2) == 0 {
			for i := range b {
				b[i] = '9'
			}
		}
		return string(b)
	case 4:
		return "000" + fmt.Sprintf("%d", r.next())
	}
	return fmt.Sprintf("%d", r.next()>>uint(r.intn(64)))
}

func hexString(r *rng) string {
	n := pick(r, []int{0, 1, 2, 3, 7, 8, 15, 16, 17, 18, 32, r.intn(40), r.intn(300)})
	const hexd = "0123456789abcdefABCDEF"
	b := make([]byte, n)
	for i := range b {
		b[i] = hexd[r.intn(len(hexd))]
	}
	if r.intn(6) == 0 && n > 0 {
		b[r.intn(n)] = pick(r, []byte{'g', 'G', ' ', 'x', '-', 0xff})
	}
	return string(b)
}

func genC17(r *rng, n int, hostile bool) []string {
	var out []string
	for _, v := range counterBounds {
		out = append(out, fmt.Sprintf("to8 %d", v))
	}
	for i := 0; i < n; i++ {
		switch r.intn(8) {
		case 0:
			out = append(out, fmt.Sprintf("to8 %d", genCounter(r)))
		case 1:
			out = append(out, "help dec8 "+hxs(decString(r)))
		case 2:
			out = append(out, "help dec64 "+hxs(decString(r)))
		case 3:
			out = append(out, "help hexts "+hxs(hexString(r)))
		case 4, 5:
			out = append(out, "help question "+hxs(decString(r)))
		case 6:
			w := int64(pick(r, []int{0, 1, 2, 8, 16, 17, 32, 256, 1 << 20, r.intn(64)}))
			if hostile && r.intn(3) == 0 {
				w = pick(r, []int64{-1, -16, -1 << 40})
			}
			out = append(out, fmt.Sprintf("leftpad %s %d", hxs(hexString(r)), w))
			// spellings of code lengths / hashes: the documented ones, and near misses that must fall back to 6 / SHA-1
			out = append(out, "fromstr "+hxs(pick(r, []string{"6", "8", "9", "10", "SHA1", "SHA256", "SHA512", "", "7", "06", "08", "+8", "010", "264", "266", "-248", " 8", "8 ",
				"８", "sha1", "Sha256", "SHA-1", "SHA384", "SHA512 ", "MD5", "1e1", "0x8", string(r.bytes(1 + r.intn(4))), dictStrs[r.intn(len(dictStrs))]})))
			// the Must* helper (documented to panic on text that is not hexadecimal): width in bytes, over-long values included
			hs := hexString(r)
			if r.intn(3) == 0 {
				hs = strings.Repeat(pick(r, []string{"A", "0", "f", "7"}), r.intn(6)) + hx(r.bytes(1+r.intn(24)))
			}
			out = append(out, fmt.Sprintf("musthex %s %d", hxs(hs), pick(r, []int{0, 1, 2, 4, 8, 8, 8, 16, 20, 32, 64, 128})))
		default:
			fs := make([]string, 5)
			for j := range fs {
				switch r.intn(3) {
				case 0:
					fs[j] = "-"
				case 1:
					fs[j] = hxs(hx(r.bytes(1 + r.intn(20))))
				default:
					fs[j] = hxs(hexString(r))
				}
			}
			out = append(out, "hexinput "+strings.Join(fs, " "))
		}
		if r.intn(10) == 0 {
			// end to end: a numeric question through the helper into an OCRA QN suite
			q := decString(r)
			out = append(out, "help question "+hxs(q))
		}
	}
	return out
}

func u64be(v uint64) []byte {
	var b [8]byte
	binary.BigEndian.PutUint64(b[:], v)
	return b[:]
}
