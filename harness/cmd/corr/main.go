// corr: the correspondence check.  It generates op lines for one property, runs the real library
// in-process on them (one sequential history in one process, so pooled buffers and caches carry
// over between ops), pipes the same lines to the compiled Lean driver (model + spec answers),
// canonicalises and compares, shrinks mismatches, and writes a JSON report.
package main

import (
	"strconv"
	"bufio"
	"bytes"
	"encoding/base32"
	"encoding/json"
	"flag"
	"fmt"
	"os"
	"os/exec"
	"sort"
	"strings"
	"sync"
	"time"

	"github.com/ja7ad/otp"
)

type mismatch struct {
	Index   int      `json:"index"`
	Op      string   `json:"op"`
	Impl    string   `json:"impl"`
	Model   string   `json:"model"`
	Spec    string   `json:"spec,omitempty"`
	Kind    string   `json:"kind"` // impl-vs-model | impl-vs-spec | leak | retained-string-changed | history
	Shrunk  string   `json:"shrunk_op,omitempty"`
	History []string `json:"history,omitempty"`
	ErrText string   `json:"err_text,omitempty"`
}

type report struct {
	Property            string         `json:"property"`
	Seed                uint64         `json:"seed"`
	Tier                string         `json:"tier"`
	Evaluations         int            `json:"evaluations"`
	DistinctNontrivial  int            `json:"distinct_nontrivial"`
	Rule                string         `json:"rule"`
	OpsByKind           map[string]int `json:"ops_by_kind"`
	ImplOutcomes        map[string]int `json:"impl_outcomes"`
	SpecDefined         int            `json:"spec_defined"`
	Samples             []string       `json:"samples"`
	Mismatches          []mismatch     `json:"mismatches"`
	CorpusReplayed      int            `json:"corpus_replayed"`
	FailingInputFound   bool           `json:"failing_input_found"`
	WallS               float64        `json:"wall_s"`
	ConstantAnswerShare float64        `json:"constant_answer_share"`
}

// canon drops error-class words (compared: ok/err/panic, values, verdict shape; not which error).
func canon(s string) string {
	f := strings.Fields(s)
	var out []string
	for i := 0; i < len(f); i++ {
		out = append(out, f[i])
		if f[i] == "err" || f[i] == "false-err" || f[i] == "suite-err" || f[i] == "gen-err" {
			if i+1 < len(f) && isWord(f[i+1]) {
				i++
			}
		}
	}
	return strings.Join(out, " ")
}

func isWord(s string) bool {
	for _, c := range s {
		if !(c >= 'a' && c <= 'z' || c >= 'A' && c <= 'Z') {
			return false
		}
	}
	return len(s) > 0
}

// runDriver pipes lines to `shards` driver processes and returns (model, spec) answers.
func runDriver(driver string, lines []string, shards int) ([]string, []string, error) {
	n := len(lines)
	model := make([]string, n)
	spec := make([]string, n)
	if n == 0 {
		return model, spec, nil
	}
	if shards > n {
		shards = n
	}
	var wg sync.WaitGroup
	errs := make([]error, shards)
	for s := 0; s < shards; s++ {
		lo, hi := s*n/shards, (s+1)*n/shards
		wg.Add(1)
		go func(s, lo, hi int) {
			defer wg.Done()
			cmd := exec.Command(driver)
			cmd.Stdin = strings.NewReader(strings.Join(lines[lo:hi], "\n") + "\n")
			var out bytes.Buffer
			cmd.Stdout = &out
			cmd.Stderr = os.Stderr
			if err := cmd.Run(); err != nil {
				errs[s] = fmt.Errorf("driver: %v", err)
				return
			}
			sc := bufio.NewScanner(&out)
			sc.Buffer(make([]byte, 1<<20), 1<<26)
			i := lo
			for sc.Scan() && i < hi {
				parts := strings.SplitN(sc.Text(), "\t", 2)
				model[i] = parts[0]
				if len(parts) == 2 {
					spec[i] = parts[1]
				}
				i++
			}
			if i != hi {
				errs[s] = fmt.Errorf("driver returned %d answers for %d ops", i-lo, hi-lo)
			}
		}(s, lo, hi)
	}
	wg.Wait()
	for _, e := range errs {
		if e != nil {
			return nil, nil, e
		}
	}
	return model, spec, nil
}

// leakCheck: does the error text of a failing op disclose the secret or an accepted code? (C13)
// ownText: the text occurs in a string literal of the library itself (the generators draw candidate secrets from those
// literals): an error message that contains it says nothing about the argument — "issuer is required" contains the
// "secret" `issuer is required`
func ownText(t string) bool {
	for _, s := range dictStrs {
		if len(s) >= len(t) && strings.Contains(s, t) {
			return true
		}
	}
	return false
}

func leakCheck(line, errText string) string {
	if errText == "" {
		return ""
	}
	f := strings.Fields(line)
	if len(f) < 2 {
		return ""
	}
	var secretText []byte
	switch f[0] {
	case "ghotp", "vhotp", "gtotp", "vtotp", "gocra", "vocra":
		secretText, _ = unhex(f[1])
	case "urlp":
		raw, _ := unhex(f[1])
		if i := strings.Index(string(raw), "secret="); i >= 0 {
			v := string(raw)[i+7:]
			if j := strings.IndexAny(v, "&#"); j >= 0 {
				v = v[:j]
			}
			if len(v) >= 8 && strings.Contains(errText, v) && !ownText(v) {
				return "the secret parameter of the URL"
			}
		}
		return ""
	case "urlg":
		if len(f) > 4 {
			sec, _ := unhex(f[4])
			if len(sec) >= 8 && strings.Contains(errText, string(sec)) && !ownText(string(sec)) {
				return "the secret"
			}
		}
		return ""
	default:
		return ""
	}
	key, err := otp.DecodeSecret(string(secretText))
	trimmed := strings.TrimSpace(string(secretText))
	if len(trimmed) >= 8 && strings.Contains(errText, trimmed) && !ownText(trimmed) {
		return "secret text"
	}
	if err == nil && len(key) >= 5 {
		for _, enc := range []string{string(key), fmt.Sprintf("%x", key), fmt.Sprintf("%X", key), base32.StdEncoding.EncodeToString(key),
			strings.TrimRight(base32.StdEncoding.EncodeToString(key), "=")} {
			if len(enc) >= 8 && strings.Contains(errText, enc) {
				return "key material"
			}
		}
	}
	return ""
}

func kindOf(line string) string {
	f := strings.Fields(line)
	if len(f) == 0 {
		return ""
	}
	if f[0] == "help" || f[0] == "fmt" {
		return f[0] + "." + f[1]
	}
	return f[0]
}

func outcomeClass(ans string) string {
	f := strings.Fields(ans)
	if len(f) == 0 {
		return "empty"
	}
	return f[0]
}

func genFor(prop string, r *rng, n int) []string {
	switch prop {
	case "C01":
		return genC01(r, n, false)
	case "C02":
		return genC02(r, n, false)
	case "C03":
		return genC03(r, n, false)
	case "C04":
		return genC04(r, n, false)
	case "C05":
		return append(genDigestPairs(r, n), genC05(r, n, false)...)
	case "C06":
		return genC06(r, n, false)
	case "C07":
		return genC07(r, n, false)
	case "C08":
		return genC08(r, n, false)
	case "C14":
		return genC14(r, n, false)
	case "C15":
		return genC15(r, n, false)
	case "C16":
		return genC16(r, n, false)
	case "C17":
		return genC17(r, n, false)
	case "C10":
		var out []string
		k := n / 10
		out = append(out, genC01(r, k, true)...)
		out = append(out, genC02(r, k, true)...)
		out = append(out, genC03(r, k, true)...)
		out = append(out, genC04(r, k, true)...)
		out = append(out, genC05(r, k, true)...)
		out = append(out, genC06(r, k, true)...)
		out = append(out, genC07(r, k, true)...)
		out = append(out, genC15(r, k, true)...)
		out = append(out, genC16(r, k, true)...)
		out = append(out, genC17(r, k, true)...)
		out = append(out, genC10extra(r, k)...)
		return out
	case "C13":
		var out []string
		k := n / 4
		out = append(out, genC03(r, k, true)...)
		out = append(out, genC04(r, k, true)...)
		out = append(out, genC06(r, k, true)...)
		out = append(out, genC05(r, k/2, true)...)
		out = append(out, genC16(r, k/2, true)...)
		return out
	case "C12":
		var out []string
		k := n / 4
		out = append(out, genC05(r, k, false)...)
		out = append(out, genC06(r, k, false)...)
		out = append(out, genC14(r, k/4, false)...)
		out = append(out, genC02(r, k/2, false)...)
		out = append(out, genC04(r, k/2, false)...)
		out = append(out, genC03(r, k/2, false)...)
		out = append(out, genC01(r, k/2, false)...) // includes the `derive` op (key slices with canaries; both derivation variants under js/wasm)
		// the registry through the exported API, twice per name: instantiating a registered suite must leave what lookup by
		// name returns exactly as it was (no write through a shared entry)
		for pass := 0; pass < 2; pass++ {
			for _, name := range registered {
				out = append(out, "suite "+hxs(name))
			}
		}
		return out
	case "C11":
		// long mixed sequential history
		var out []string
		k := n / 6
		parts := [][]string{genC01(r, k, false), genC02(r, k, false), genC03(r, k, false), genC04(r, k, false), genC05(r, k, false), genC06(r, k, false), genC15(r, k/2, false)}
		for len(parts) > 0 {
			i := r.intn(len(parts))
			take := 1 + r.intn(4)
			if take > len(parts[i]) {
				take = len(parts[i])
			}
			out = append(out, parts[i][:take]...)
			parts[i] = parts[i][take:]
			if len(parts[i]) == 0 {
				parts = append(parts[:i], parts[i+1:]...)
			}
		}
		return out
	}
	return nil
}

// genC10extra: hostile arguments for ops that the other generators do not push to extremes
func genC10extra(r *rng, n int) []string {
	var out []string
	huge := strings.Repeat("7", 65536)
	out = append(out, "help question "+hxs(huge), "help dec8 "+hxs(huge), "help hexts "+hxs(huge[:4097]), "dec "+hxs(strings.Repeat("A", 65536)),
		"dec "+hxs(strings.Repeat("=", 4096)), "suite "+hxs(strings.Repeat("OCRA-1:", 8000)), "suite "+hxs(strings.Repeat("-", 65536)),
		"help question "+hxs(strings.Repeat("9", 309)), "help question "+hxs(strings.Repeat("9", 310)), "help question "+hxs(strings.Repeat("9", 5000)),
		"leftpad - 1048576", "leftpad "+hxs("abc")+" 0")
	for d := 0; d < 256; d++ {
		for _, a := range []int{0, 1, 2, 3, 255} {
			out = append(out, fmt.Sprintf("ghotp %s 1 P:%d:0:0:%d", hxs("GEZDGNBVGY3TQOJQ"), d, a))
		}
		out = append(out, fmt.Sprintf("vhotp %s %s 1 P:%d:0:1:0", hxs("GEZDGNBVGY3TQOJQ"), hxs(strings.Repeat("0", d)), d))
		out = append(out, fmt.Sprintf("gtotp %s 59 0 0 0 P:%d:0:0:0", hxs("GEZDGNBVGY3TQOJQ"), d))
	}
	for d := -2; d <= 14; d++ {
		c := cfgT{kind: pick(r, []string{"C", "M"}), raw: "OCRA-1:HOTP-SHA1-6:QN08", hash: 0, digits: int64(d), challenge: 1, q: true}
		out = append(out, fmt.Sprintf("gocra %s %s I:-:%s:-:-:-", hxs("GEZDGNBVGY3TQOJQ"), c.str(), hxs("12345678")))
		dd := d
		if dd < 0 {
			dd = 0
		}
		out = append(out, fmt.Sprintf("vocra %s %s %s I:-:%s:-:-:-", hxs("GEZDGNBVGY3TQOJQ"), hxs(strings.Repeat("0", dd)), c.str(), hxs("12345678")))
		out = append(out, "suite "+hxs(fmt.Sprintf("OCRA-1:HOTP-SHA1-%d:QN08", d)))
		out = append(out, fmt.Sprintf("gocra %s R:%s I:-:%s:-:-:-", hxs("GEZDGNBVGY3TQOJQ"), hxs(fmt.Sprintf("OCRA-1:HOTP-SHA1-%d:QN08", d)), hxs("12345678")))
	}
	for h := 0; h < 6; h++ {
		c := cfgT{kind: "M", raw: "x", hash: h, digits: 6, challenge: 1, q: true}
		out = append(out, fmt.Sprintf("gocra %s %s I:-:%s:-:-:-", hxs("GEZDGNBVGY3TQOJQ"), c.str(), hxs("12345678")))
	}
	_ = n
	return out
}

func main() {
	prop := flag.String("prop", "", "property id")
	tier := flag.String("tier", "quick", "quick|thorough")
	seed := flag.Uint64("seed", 1, "PRNG seed")
	driver := flag.String("driver", "/verif/lean/.lake/build/bin/driver", "path of the compiled Lean driver")
	outPath := flag.String("out", "", "report JSON path")
	replay := flag.String("replay", "", "file with op lines to replay instead of generating")
	execOnly := flag.String("exec", "", "internal: run the op lines of this file against the implementation only, print answers")
	corpus := flag.String("corpus", "", "directory of corpus .ops files to run first")
	nFlag := flag.Int("n", 0, "number of generated cases (0 = tier default)")
	dump := flag.String("dump", "", "write the op lines this run would execute to this file and exit")
	worker := flag.Bool("worker", false, "internal: run as the supervised worker process")
	progress := flag.String("progress", "", "internal: file to which the worker appends every op line before executing it")
	flag.Parse()

	registered = otp.ListSuites()
	sort.Strings(registered)
	for _, n := range registered {
		registrySnapshot[n] = otp.SuiteConfigFromRaws(n)
	}
	buildDict()

	if *execOnly != "" {
		data, err := os.ReadFile(*execOnly)
		if err != nil {
			fmt.Fprintln(os.Stderr, err)
			os.Exit(2)
		}
		w := bufio.NewWriter(os.Stdout)
		for _, l := range strings.Split(strings.TrimRight(string(data), "\n"), "\n") {
			fmt.Fprintln(w, runImpl(l))
			w.Flush() // per line: a reader that kills this process at a deadline must see which op did not return
		}
		return
	}

	if *dump != "" {
		ls, _ := buildLines(*prop, *tier, *seed, *nFlag, *corpus, *replay)
		os.WriteFile(*dump, []byte(strings.Join(ls, "\n")+"\n"), 0o644)
		return
	}
	if !*worker {
		supervise(*prop, *tier, *seed, *driver, *outPath)
		return
	}
	var progressF *os.File
	if *progress != "" {
		progressF, _ = os.OpenFile(*progress, os.O_CREATE|os.O_WRONLY|os.O_TRUNC, 0o644)
	}

	start := time.Now()
	lines, ncorpus := buildLines(*prop, *tier, *seed, *nFlag, *corpus, *replay)
	rep := report{Property: *prop, Seed: *seed, Tier: *tier, OpsByKind: map[string]int{}, ImplOutcomes: map[string]int{}, CorpusReplayed: ncorpus, Mismatches: []mismatch{}, Samples: []string{}}
	rep.Rule = "ops generated from structured generators (mostly valid inputs from the repo's own types plus a malformed stream) seeded by VERIF_SEED; " +
		"a case counts as distinct non-trivial iff its canonical op line is new AND the implementation reached the modelled core " +
		"(answer ok/true/false-err with a derived value or a verdict) or it is the first rejection of its (op kind, outcome class) pair"

	impl := make([]string, len(lines))
	errTexts := make([]string, len(lines))
	type kept struct {
		idx int
		s   string
		hex string
	}
	var retained []kept
	for i, l := range lines {
		if progressF != nil {
			progressF.WriteString(l + "\n")
		}
		impl[i] = runImpl(l)
		errTexts[i] = lastErrText
		// retain returned code strings WITHOUT copying, to re-check them after later calls (C11: a returned code never changes)
		if lastOKSet && strings.HasPrefix(impl[i], "ok ") {
			retained = append(retained, kept{i, lastOKString, hx([]byte(lastOKString))})
		}
	}
	model, spec, err := runDriver(*driver, lines, 16)
	if err != nil {
		fmt.Fprintln(os.Stderr, "corr:", err)
		os.Exit(2)
	}

	seen := map[string]bool{}
	seenReject := map[string]bool{}
	same := 0
	for i, l := range lines {
		rep.OpsByKind[kindOf(l)]++
		oc := outcomeClass(impl[i])
		rep.ImplOutcomes[oc]++
		if i > 0 && impl[i] == impl[i-1] {
			same++
		}
		if !seen[l] {
			seen[l] = true
			core := oc == "ok" || oc == "true" || (oc == "false-err" && strings.Contains(impl[i], "invalidCode") && !strings.Contains(impl[i], "invalidCodeLength")) || oc == "suite-ok"
			if core {
				rep.DistinctNontrivial++
			} else {
				k := kindOf(l) + "/" + oc
				if !seenReject[k] {
					seenReject[k] = true
					rep.DistinctNontrivial++
				}
			}
		}
		if model[i] == "unsupported" {
			rep.ImplOutcomes["(model: unsupported shape, skipped)"]++
			continue
		}
		ci, cm := canon(impl[i]), canon(model[i])
		if spec[i] != "" {
			rep.SpecDefined++
		}
		mm := mismatch{Index: i, Op: l, Impl: impl[i], Model: model[i], Spec: spec[i], ErrText: errTexts[i]}
		if what := leakCheck(l, errTexts[i]); what != "" {
			mm.Kind = "leak: error text contains " + what
			rep.Mismatches = append(rep.Mismatches, mm)
			rep.FailingInputFound = true
			continue
		}
		if ci != cm {
			mm.Kind = "impl-vs-model"
			if spec[i] != "" && !specAgrees(ci, spec[i]) {
				mm.Kind = "impl-vs-model+spec"
				rep.FailingInputFound = true
			}
			if strings.Contains(impl[i], "MUTATED-ARG") || strings.Contains(impl[i], "panic") || strings.Contains(impl[i], "timeout") ||
				strings.Contains(impl[i], "true-err") || strings.Contains(impl[i], "false-nil") || strings.Contains(impl[i], "STRING-MISMATCH") || strings.Contains(impl[i], "HISTORY-DEPENDENT") || strings.Contains(impl[i], "RESULT-OF-AN-EARLIER-CALL-CHANGED") {
				rep.FailingInputFound = true // the answer itself violates a property (C10, C12, C13, C15)
			}
			rep.Mismatches = append(rep.Mismatches, mm)
		} else if spec[i] != "" && !specAgrees(ci, spec[i]) {
			mm.Kind = "impl-vs-spec"
			rep.FailingInputFound = true
			rep.Mismatches = append(rep.Mismatches, mm)
		}
	}
	// C08: property-level verdict (Spec.judgeRandom in the Lean driver) on what the implementation answered
	var jl []string
	var jidx []int
	for i, l := range lines {
		if j := judgeLine(l, impl[i]); j != "" {
			jl = append(jl, j)
			jidx = append(jidx, i)
		}
	}
	if len(jl) > 0 {
		verdicts, _, jerr := runDriver(*driver, jl, 16)
		if jerr != nil {
			fmt.Fprintln(os.Stderr, "corr:", jerr)
			os.Exit(2)
		}
		rep.SpecDefined += len(jl)
		for k, v := range verdicts {
			if v != "ok" {
				i := jidx[k]
				rep.Mismatches = append(rep.Mismatches, mismatch{Index: i, Op: lines[i], Impl: impl[i], Model: model[i], Spec: v, Kind: "impl-vs-spec (judgement of the call history: " + v + ")"})
				rep.FailingInputFound = true
			}
		}
	}
	for _, k := range retained {
		if hx([]byte(k.s)) != k.hex {
			rep.Mismatches = append(rep.Mismatches, mismatch{Index: k.idx, Op: lines[k.idx], Impl: "ok " + hx([]byte(k.s)), Model: "ok " + k.hex, Kind: "retained-string-changed"})
			rep.FailingInputFound = true
		}
	}
	rep.Evaluations = len(lines)
	if len(lines) > 0 {
		rep.ConstantAnswerShare = float64(same) / float64(len(lines))
	}
	for i := 0; i < len(lines) && len(rep.Samples) < 6; i += 1 + len(lines)/6 {
		rep.Samples = append(rep.Samples, lines[i]+"  =>  impl: "+trunc(impl[i], 80)+" | model: "+trunc(model[i], 80))
	}

	// mismatches that violate the Spec / the property itself come first (they are the replay), model-only ones after
	prio := func(m mismatch) int {
		switch {
		case strings.Contains(m.Kind, "spec") || strings.HasPrefix(m.Kind, "leak") || strings.Contains(m.Kind, "crash") || m.Kind == "retained-string-changed":
			return 0
		case strings.Contains(m.Impl, "panic") || strings.Contains(m.Impl, "timeout") || strings.Contains(m.Impl, "MUTATED-ARG") ||
			strings.Contains(m.Impl, "true-err") || strings.Contains(m.Impl, "false-nil") || strings.Contains(m.Impl, "STRING-MISMATCH") || strings.Contains(m.Impl, "HISTORY-DEPENDENT") || strings.Contains(m.Impl, "RESULT-OF-AN-EARLIER-CALL-CHANGED"):
			return 0
		}
		return 1
	}
	sort.SliceStable(rep.Mismatches, func(a, b int) bool { return prio(rep.Mismatches[a]) < prio(rep.Mismatches[b]) })

	// shrink / classify the first few mismatches
	self, _ := os.Executable()
	for i := range rep.Mismatches {
		if i >= 5 {
			break
		}
		m := &rep.Mismatches[i]
		if m.Kind == "retained-string-changed" || strings.HasPrefix(m.Kind, "leak") || strings.Contains(m.Kind, "judgement") {
			continue
		}
		shrinkMismatch(self, *driver, m, lines)
	}
	if len(rep.Mismatches) > 40 {
		rep.Mismatches = rep.Mismatches[:40]
	}
	rep.WallS = time.Since(start).Seconds()
	data, _ := json.MarshalIndent(rep, "", " ")
	if *outPath != "" {
		os.WriteFile(*outPath, data, 0o644)
	} else {
		os.Stdout.Write(data)
	}
	if len(rep.Mismatches) > 0 {
		os.Exit(1)
	}
}

// buildLines: corpus first, then the generated ops of the property (or the replay file)
func buildLines(prop, tier string, seed uint64, nFlag int, corpus, replay string) ([]string, int) {
	r := &rng{s: seed}
	var lines []string
	ncorpus := 0
	if replay != "" {
		data, err := os.ReadFile(replay)
		if err != nil {
			fmt.Fprintln(os.Stderr, err)
			os.Exit(2)
		}
		lines = readOps(data)
	} else {
		if corpus != "" {
			ents, _ := os.ReadDir(corpus)
			for _, e := range ents {
				if strings.HasSuffix(e.Name(), ".ops") {
					data, _ := os.ReadFile(corpus + "/" + e.Name())
					ls := readOps(data)
					lines = append(lines, ls...)
					ncorpus += len(ls)
				}
			}
		}
		n := nFlag
		if n == 0 {
			n = 1500
			if tier == "thorough" {
				n = 40000
			}
		}
		for _, l := range genFor(prop, r, n) {
			if !hasInternal {
				switch kindOf(l) {
				case "parse", "trunc", "fmt.short", "fmt.long", "fmt.dec", "pad", "derive":
					continue
				}
			}
			lines = append(lines, l)
		}
		if prop == "C15" && tier == "thorough" {
			for _, s := range grammarEnum(1) {
				lines = append(lines, "suite "+hxs(s))
			}
		} else if prop == "C15" {
			for _, s := range grammarEnum(20) {
				lines = append(lines, "suite "+hxs(s))
			}
		}
	}

	return lines, ncorpus
}

// supervise re-runs this program as a worker.  An implementation that kills the process (runtime fatal error,
// os.Exit, stack exhaustion: none of which recover() can catch) would otherwise leave no report at all; the
// supervisor turns that into a reported failing input: the op that was executing when the worker died.
func supervise(prop, tier string, seed uint64, driver, outPath string) {
	self, _ := os.Executable()
	tmpOut := outPath
	if tmpOut == "" {
		f, _ := os.CreateTemp("", "corr-report-*.json")
		tmpOut = f.Name()
		f.Close()
		defer os.Remove(tmpOut)
	}
	os.Remove(tmpOut)
	prog := tmpOut + ".progress"
	defer os.Remove(prog)
	args := append([]string{}, os.Args[1:]...)
	args = append(args, "-worker", "-progress", prog, "-out", tmpOut)
	cmd := exec.Command(self, args...)
	var stderr strings.Builder
	cmd.Stderr = &stderr
	cmd.Stdout = os.Stdout
	err := cmd.Run()
	if data, rerr := os.ReadFile(tmpOut); rerr == nil && json.Valid(data) {
		if outPath == "" {
			os.Stdout.Write(data)
		}
		if err != nil {
			os.Exit(1)
		}
		return
	}
	// the worker died without a report
	pdata, _ := os.ReadFile(prog)
	done := readOps(pdata)
	rep := report{Property: prop, Seed: seed, Tier: tier, OpsByKind: map[string]int{}, ImplOutcomes: map[string]int{}, Mismatches: []mismatch{}, Samples: []string{}}
	rep.Rule = "worker process died; the op executing at that moment is reported"
	first := strings.SplitN(strings.TrimSpace(stderr.String()), "\n", 2)[0]
	if len(done) == 0 {
		fmt.Fprintln(os.Stderr, "corr: worker failed before the first op:", trunc(stderr.String(), 600))
		os.Exit(2)
	}
	op := done[len(done)-1]
	mm := mismatch{Index: len(done) - 1, Op: op, Impl: "process-crash: " + trunc(first, 200), Kind: "process-crash (runtime fatal error or exit inside the implementation; recover() cannot catch it)"}
	if m, sp, derr := runDriver(driver, []string{op}, 1); derr == nil {
		mm.Model, mm.Spec = m[0], sp[0]
	}
	if ia := execFresh(self, []string{op}); len(ia) == 1 {
		// alone it survives: look for a history that reproduces the crash
		found := false
		for k := 1; k <= len(done)-1; k *= 2 {
			prefix := done[len(done)-1-k : len(done)-1]
			if ib := execFresh(self, append(append([]string{}, prefix...), op)); len(ib) != k+1 {
				mm.History = append([]string{}, prefix...)
				mm.Kind += " (history-dependent: reproduces only after the listed earlier ops)"
				found = true
				break
			}
		}
		if !found {
			mm.History = append([]string{}, done[:len(done)-1]...)
			mm.Kind += " (history-dependent: reproduced in the run, not by a shorter history)"
		}
	}
	rep.Mismatches = append(rep.Mismatches, mm)
	rep.FailingInputFound = true
	rep.Evaluations = len(done)
	data, _ := json.MarshalIndent(rep, "", " ")
	if outPath != "" {
		os.WriteFile(outPath, data, 0o644)
	} else {
		os.Stdout.Write(data)
	}
	os.Exit(1)
}

// judgeLine builds the `rndjudge` op for an implementation answer to rnd / rndseq / rndpar ("" if not applicable).
func judgeLine(op, ans string) string {
	f := strings.Fields(op)
	if len(f) < 3 || strings.Contains(ans, "panic") || strings.Contains(ans, "timeout") || strings.Contains(ans, "bad-op") || strings.Contains(ans, "OVERRUN") {
		return ""
	}
	af := strings.Fields(ans)
	limit := -1
	var toks []string
	for _, t := range af {
		if strings.HasPrefix(t, "consumed=") {
			limit, _ = strconv.Atoi(strings.TrimPrefix(t, "consumed="))
		} else {
			toks = append(toks, t)
		}
	}
	var outs []string
	stream := f[2]
	switch f[0] {
	case "rndseq":
		as := strings.Split(f[1], ",")
		if len(toks) != len(as)+1 || toks[0] != "ok" {
			return ""
		}
		for i, a := range as {
			outs = append(outs, a+":"+toks[i+1])
		}
	default:
		// rnd / rndpar run inside the long-lived process with a per-op source: only the model is compared there
		return ""
	}
	if len(outs) == 0 {
		return ""
	}
	if limit < 0 || limit > len(stream)/2 {
		limit = len(stream) / 2
	}
	return fmt.Sprintf("rndjudge %s %d %s", stream, limit, strings.Join(outs, ","))
}

func readOps(data []byte) []string {
	var out []string
	for _, l := range strings.Split(string(data), "\n") {
		l = strings.TrimSpace(l)
		if l == "" || strings.HasPrefix(l, "#") {
			continue
		}
		out = append(out, l)
	}
	return out
}

func trunc(s string, n int) string {
	if len(s) > n {
		return s[:n] + "…"
	}
	return s
}

// specAgrees: token-wise comparison; a spec token "*" matches any one token, a trailing "*" matches the rest;
// "if-ok …" constrains the answer only when the implementation answered ok; error classes are not compared.
func specAgrees(implCanon, spec string) bool {
	sp := canon(spec)
	if strings.HasPrefix(sp, "if-ok ") {
		if !strings.HasPrefix(implCanon, "ok ") && implCanon != "ok" {
			return true
		}
		sp = "ok " + strings.TrimPrefix(sp, "if-ok ")
	}
	st, it := strings.Fields(sp), strings.Fields(implCanon)
	for i, t := range st {
		if t == "*" && i == len(st)-1 {
			return true
		}
		if i >= len(it) {
			return false
		}
		if t != "*" && t != it[i] {
			return false
		}
	}
	return len(st) == len(it)
}

// execFresh runs op lines in a fresh process (no history) and returns the implementation answers.
func execFresh(self string, ops []string) []string {
	f, err := os.CreateTemp("", "corr-ops-*.txt")
	if err != nil {
		return nil
	}
	defer os.Remove(f.Name())
	f.WriteString(strings.Join(ops, "\n") + "\n")
	f.Close()
	out, err := exec.Command(self, "-exec", f.Name()).Output()
	if err != nil && len(out) == 0 {
		return nil
	}
	return strings.Split(strings.TrimRight(string(out), "\n"), "\n")
}

func stillMismatch(self, driver string, prefix []string, op string) (bool, string, string) {
	ops := append(append([]string{}, prefix...), op)
	ia := execFresh(self, ops)
	if len(ia) != len(ops) {
		return false, "", ""
	}
	m, s, err := runDriver(driver, []string{op}, 1)
	if err != nil {
		return false, "", ""
	}
	ci := canon(ia[len(ia)-1])
	if m[0] == "unsupported" || m[0] == "bad-op" {
		return false, "", ""
	}
	bad := ci != canon(m[0]) || (s[0] != "" && !specAgrees(ci, s[0]))
	return bad, ia[len(ia)-1], m[0]
}

// shrinkMismatch: is the mismatch reproducible alone (fresh process)?  If not, find a short history
// that reproduces it.  Then simplify the op's fields while it still mismatches.
func shrinkMismatch(self, driver string, m *mismatch, lines []string) {
	if ok, _, _ := stillMismatch(self, driver, nil, m.Op); !ok {
		for k := 1; k <= 64 && k <= m.Index; k *= 2 {
			prefix := lines[m.Index-k : m.Index]
			if ok, _, _ := stillMismatch(self, driver, prefix, m.Op); ok {
				m.History = append([]string{}, prefix...)
				m.Kind += " (history-dependent: reproduces only after the listed earlier ops)"
				return
			}
		}
		m.Kind += " (not reproduced in a fresh process)"
		return
	}
	cur := m.Op
	for pass := 0; pass < 3; pass++ {
		f := strings.Fields(cur)
		changed := false
		for i := 1; i < len(f); i++ {
			for _, cand := range fieldCandidates(f[i]) {
				g := append([]string{}, f...)
				g[i] = cand
				c := strings.Join(g, " ")
				if ok, _, _ := stillMismatch(self, driver, nil, c); ok {
					f = g
					cur = c
					changed = true
					break
				}
			}
		}
		if !changed {
			break
		}
	}
	if cur != m.Op {
		m.Shrunk = cur
	}
}

func fieldCandidates(f string) []string {
	var out []string
	if f == "-" || f == "N" || f == "nil" {
		return nil
	}
	if isAllDigits(f) {
		for _, c := range []string{"0", "1", "2"} {
			if c != f {
				out = append(out, c)
			}
		}
		if len(f) > 2 {
			out = append(out, f[:len(f)/2])
		}
		return out
	}
	if isHex(f) && len(f) >= 4 {
		half := (len(f) / 4) * 2
		out = append(out, f[:half], f[len(f)-half:])
		out = append(out, strings.Repeat("00", len(f)/2))
		out = append(out, hxs(strings.TrimSpace(string(mustUnhex(f)))))
		return out
	}
	if strings.HasPrefix(f, "P:") {
		return []string{"N"}
	}
	return nil
}

func mustUnhex(s string) []byte { b, _ := unhex(s); return b }

func isAllDigits(s string) bool {
	for _, c := range s {
		if c < '0' || c > '9' {
			return false
		}
	}
	return len(s) > 0
}

func isHex(s string) bool {
	for _, c := range s {
		if !(c >= '0' && c <= '9' || c >= 'a' && c <= 'f') {
			return false
		}
	}
	return len(s)%2 == 0 && len(s) > 0
}
