package main

import (
	"fmt"
	"net/url"
	"strconv"

	"github.com/ja7ad/otp"
)

func showURLParam(p *otp.URLParam) string {
	return fmt.Sprintf("%s %s %s %d %d %d", hxs(p.Issuer), hxs(p.AccountName), hxs(p.Secret), uint8(p.Digits), uint8(p.Algorithm), p.Period)
}

// urlg kind issuer account secret digits algo period:
// Generate{TOTP,HOTP}URL -> String() -> url.Parse -> ParseOTPAuthURL
func implURLG(f []string) string {
	if len(f) != 7 {
		return "bad-op"
	}
	iss, ok1 := unhex(f[1])
	acc, ok2 := unhex(f[2])
	sec, ok3 := unhex(f[3])
	d, e1 := strconv.ParseUint(f[4], 10, 8)
	a, e2 := strconv.ParseUint(f[5], 10, 8)
	per, e3 := strconv.ParseUint(f[6], 10, 64)
	if !ok1 || !ok2 || !ok3 || e1 != nil || e2 != nil || e3 != nil {
		return "bad-op"
	}
	p := otp.URLParam{Issuer: string(iss), AccountName: string(acc), Secret: string(sec), Digits: otp.Digits(d), Algorithm: otp.Algorithm(a), Period: uint(per)}
	var u *url.URL
	var err error
	if f[0] == "totp" {
		u, err = otp.GenerateTOTPURL(p)
	} else {
		u, err = otp.GenerateHOTPURL(p)
	}
	if err != nil {
		lastErrText = err.Error()
		return "err gen"
	}
	text := u.String()
	u2, err := url.Parse(text)
	if err != nil {
		return "ok " + hxs(text) + " err parse-url"
	}
	q, err := otp.ParseOTPAuthURL(u2)
	if err != nil {
		lastErrText = err.Error()
		return "ok " + hxs(text) + " err parse-otp"
	}
	return "ok " + hxs(text) + " " + u2.Scheme + " " + u2.Host + " " + showURLParam(q)
}

func implURLP(f []string) string {
	if len(f) != 1 {
		return "bad-op"
	}
	if f[0] == "NIL" {
		q, err := otp.ParseOTPAuthURL(nil)
		if err != nil {
			return "err parse-otp"
		}
		return "ok " + showURLParam(q)
	}
	raw, ok := unhex(f[0])
	if !ok {
		return "bad-op"
	}
	u, err := url.Parse(string(raw))
	if err != nil {
		return "err parse-url"
	}
	q, err := otp.ParseOTPAuthURL(u)
	if err != nil {
		lastErrText = err.Error()
		return "err parse-otp"
	}
	return "ok " + showURLParam(q)
}

func genC16(r *rng, n int, hostile bool) []string { return nil }
