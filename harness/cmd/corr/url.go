package main

import (
	"fmt"
	"strings"
	"net/url"
	"strconv"

	"github.com/ja7ad/otp"
)

func showURLParam(p *otp.URLParam) string {
	return fmt.Sprintf("%s %s %s %d %d %d", hxs(p.Issuer), hxs(p.AccountName), hxs(p.Secret), uint8(p.Digits), uint8(p.Algorithm), p.Period)
}

// urlg kind issuer account secret digits algo period:
// Generate{TOTP,HOTP}URL -> String() -> url.Parse -> ParseOTPAuthURL
func implURLG(f []string) string {
	if len(f) != 7 {
		return "bad-op"
	}
	iss, ok1 := unhex(f[1])
	acc, ok2 := unhex(f[2])
	sec, ok3 := unhex(f[3])
	d, e1 := strconv.ParseUint(f[4], 10, 8)
	a, e2 := strconv.ParseUint(f[5], 10, 8)
	per, e3 := strconv.ParseUint(f[6], 10, 64)
	if !ok1 || !ok2 || !ok3 || e1 != nil || e2 != nil || e3 != nil {
		return "bad-op"
	}
	p := otp.URLParam{Issuer: string(iss), AccountName: string(acc), Secret: string(sec), Digits: otp.Digits(d), Algorithm: otp.Algorithm(a), Period: uint(per)}
	var u *url.URL
	var err error
	if f[0] == "totp" {
		u, err = otp.GenerateTOTPURL(p)
	} else {
		u, err = otp.GenerateHOTPURL(p)
	}
	if err != nil {
		lastErrText = err.Error()
		return "err gen"
	}
	text := u.String()
	u2, err := url.Parse(text)
	if err != nil {
		return "ok " + hxs(text) + " err parse-url"
	}
	q, err := otp.ParseOTPAuthURL(u2)
	if err != nil {
		lastErrText = err.Error()
		return "ok " + hxs(text) + " err parse-otp"
	}
	return "ok " + hxs(text) + " " + hxs(u2.Scheme) + " " + hxs(u2.Host) + " " + showURLParam(q)
}

func implURLP(f []string) string {
	if len(f) != 1 {
		return "bad-op"
	}
	if f[0] == "NIL" {
		q, err := otp.ParseOTPAuthURL(nil)
		if err != nil {
			return "err parse-otp"
		}
		return "ok " + showURLParam(q)
	}
	raw, ok := unhex(f[0])
	if !ok {
		return "bad-op"
	}
	u, err := url.Parse(string(raw))
	if err != nil {
		return "err parse-url"
	}
	q, err := otp.ParseOTPAuthURL(u)
	if err != nil {
		lastErrText = err.Error()
		return "err parse-otp"
	}
	return "ok " + showURLParam(q)
}


var urlChars = []string{" ", "%", "/", "?", "#", "&", "=", "+", "@", ":", ";", ",", "é", "日本", "%41", "%zz", "%", "..", ".", "\x00", "\n", "\x7f", "\xff", "\xc3", "a", "Z", "0", "-", "_", "~", "!", "*", "'", "(", ")", "$", "\"", "<", ">", "{", "|", "\\", "^", "`"}

// text that is already a canonical percent-encoding (what a caller holds after copying a label out of another URL):
// it must come back exactly as given, never decoded once more
var escLookalikes = []string{"%25", "%20", "%23", "%3F", "%2F", "%3B", "%2C", "%C3%A9", "%E6%97%A5", "%00", "%7F", "%22", "%3C", "%5C",
	"alice", "Example", "100", "x", "-", "_", ".", "~", "@", "&", "=", "+", "$"}

func urlText(r *rng, noColon bool) string {
	if r.intn(5) == 0 {
		var b strings.Builder
		for i, n := 0, 1+r.intn(5); i < n; i++ {
			b.WriteString(pick(r, escLookalikes))
		}
		return b.String()
	}
	n := 1 + r.intn(6)
	if r.intn(8) == 0 {
		n = 20 + r.intn(44)
	}
	var b strings.Builder
	for i := 0; i < n; i++ {
		switch r.intn(3) {
		case 0:
			if r.intn(5) == 0 {
				b.WriteString(dictStrs[r.intn(len(dictStrs))]) // a text the code itself mentions
				continue
			}
			b.WriteString(pick(r, []string{"Example", "alice", "user@example.com", "My Co", "ACME", "corp", "x"}))
		default:
			b.WriteString(pick(r, urlChars))
		}
	}
	s := b.String()
	if noColon {
		s = strings.ReplaceAll(s, ":", "")
		if s == "" {
			s = "I"
		}
	}
	return s
}

// queryShapes: the ways a query string can be put together besides key=value pairs joined by '&' — keys without '=' in every
// position, empty pairs, a leading / trailing / doubled '&', '=' alone, repeated keys, ';' inside pairs
func queryShapes() []string {
	var out []string
	base := []string{"secret=JBSWY3DPEHPK3PXP", "issuer=ACME", "digits=8", "period=45", "algorithm=SHA256"}
	for _, odd := range []string{"lock", "", "=", "=v", "k=", "a;b=c", "digits", "secret", "%zz", "x=%zz", "k=v=w"} {
		for pos := 0; pos <= len(base); pos++ {
			kv := append(append(append([]string(nil), base[:pos]...), odd), base[pos:]...)
			out = append(out, "urlp "+hxs("otpauth://totp/ACME:alice?"+strings.Join(kv, "&")))
		}
	}
	for _, q := range []string{"", "&", "&&", "?", "secret", "secret=", "=JBSWY3DPEHPK3PXP", "secret=A&secret=B", "&secret=JBSWY3DPEHPK3PXP", "secret=JBSWY3DPEHPK3PXP&"} {
		out = append(out, "urlp "+hxs("otpauth://totp/ACME:alice?"+q), "urlp "+hxs("otpauth://hotp/ACME:alice?"+q))
	}
	return out
}

func genC16(r *rng, n int, hostile bool) []string {
	var out []string
	out = append(out, "urlp NIL")
	out = append(out, queryShapes()...)
	for i := 0; i < n; i++ {
		switch r.intn(5) {
		case 0, 1, 2:
			kind := pick(r, []string{"totp", "hotp"})
			iss, acc, sec := urlText(r, true), urlText(r, false), urlText(r, false)
			if r.intn(4) == 0 {
				sec = "GEZDGNBVGY3TQOJQGEZDGNBVGY3TQOJQ"
			} else if r.intn(3) == 0 {
				sec = spell(r, genKey(r)) // the way users hold secrets: any spelling, white space of a copied line included
			}
			if r.intn(12) == 0 {
				iss = pick(r, []string{"", "a:b", iss})
			}
			if r.intn(20) == 0 {
				acc = ""
			}
			if r.intn(20) == 0 {
				sec = ""
			}
			d := pick(r, []int{0, 1, 6, 6, 8, 9, 10, 11, 255, r.intn(256)})
			a := pick(r, []int{0, 0, 1, 2, 2})
			if hostile && r.intn(4) == 0 {
				a = pick(r, []int{3, 255})
			}
			per := pick(r, []uint64{0, 1, 30, 30, 60, 1 << 31, uint64(r.intn(100000))})
			if hostile && r.intn(4) == 0 {
				per = pick(r, []uint64{1 << 62, 1<<63 - 1, 1 << 63, 1<<64 - 1})
			}
			out = append(out, fmt.Sprintf("urlg %s %s %s %s %d %d %d", kind, hxs(iss), hxs(acc), hxs(sec), d, a, per))
			if r.intn(6) == 0 {
				// the same text cut differently into fields: a token moved across the issuer / account / secret boundary
				sep := pick(r, []string{" ", " ", ",", "/", "|", "%20", "+", "\x00"})
				w := pick(r, []string{"Ltd", "30", "x", "alice", "6"})
				out = append(out, fmt.Sprintf("urlg %s %s %s %s %d %d %d", kind, hxs(iss+sep+w), hxs(acc), hxs(sec), d, a, per),
					fmt.Sprintf("urlg %s %s %s %s %d %d %d", kind, hxs(iss), hxs(w+sep+acc), hxs(sec), d, a, per),
					fmt.Sprintf("urlg %s %s %s %s %d %d %d", kind, hxs(iss), hxs(acc+sep+w), hxs(sec), d, a, per),
					fmt.Sprintf("urlg %s %s %s %s %d %d %d", kind, hxs(iss), hxs(acc), hxs(w+sep+sec), d, a, per))
			}
		default:
			// parse-only: otpauth://TYPE/LABEL?query with adversarial numbers
			typ := pick(r, []string{"totp", "hotp", "TOTP", "Hotp", "tOtP", "totp", "xotp", "totp2", ""})
			scheme := pick(r, []string{"otpauth", "otpauth", "otpauth", "OTPAUTH", "otpauths", "http"})
			label := pick(r, []string{"Iss:acc", "Iss%3Aacc", "Iss", "a:b:c", ":", "", "My%20Co:alice@x.com", "A/B:c", "bad%zz:x", "alice@example.com"})
			num := func() string {
				switch r.intn(10) {
				case 0:
					return pick(r, []string{"", "6", "8", "0", "255", "256", "262", "264", "1000", "-1", "-6", "+6", "06", " 6", "6 ", "6.0", "six", "4294967302", "18446744073709551622", "9223372036854775807", "9223372036854775808", "-9223372036854775808", "-9223372036854775809", "%36", "6%20"})
				case 1:
					return fmt.Sprintf("%d", int64(r.next()))
				case 2:
					return fmt.Sprintf("%d", r.next())
				}
				return fmt.Sprintf("%d", r.intn(300))
			}
			var kv []string
			if r.intn(8) != 0 {
				kv = append(kv, "secret="+pick(r, []string{"GEZDGNBVGY3TQOJQGEZDGNBVGY3TQOJQ", "ABC", "", "a%20b", "x+y"}))
			}
			if r.intn(3) != 0 {
				kv = append(kv, "digits="+num())
			}
			if r.intn(3) != 0 {
				kv = append(kv, "period="+num())
			}
			if r.intn(3) != 0 {
				kv = append(kv, "algorithm="+pick(r, []string{"SHA1", "SHA256", "SHA512", "sha1", "Sha256", "SHA384", "", "MD5", "ſha1", "SHA1 ", "%53HA1"}))
			}
			if r.intn(4) == 0 {
				kv = append(kv, pick(r, []string{"issuer=X", "digits=7", "a;b=c", "=v", "k", "%zz=1", "digits=%zz", "&", "period=45"}))
			}
			for j := len(kv) - 1; j > 0; j-- {
				k := r.intn(j + 1)
				kv[j], kv[k] = kv[k], kv[j]
			}
			raw := scheme + "://" + typ + "/" + label + "?" + strings.Join(kv, "&")
			if r.intn(10) == 0 {
				raw = scheme + "://" + typ + "/" + label
			}
			out = append(out, "urlp "+hxs(raw))
		}
	}
	return out
}
