package main

// ref.go: tiny independent helpers used only to *generate interesting candidates* (codes of
// neighbouring counters, base32 spellings).  They are never the oracle: verdicts come from the
// Lean model / spec.

import (
	"crypto/hmac"
	"crypto/sha1"
	"crypto/sha256"
	"crypto/sha512"
	"encoding/base32"
	"encoding/binary"
	"fmt"
	"hash"
	"strings"
)

func refHMAC(a int, k, m []byte) []byte {
	var h func() hash.Hash
	switch a {
	case 0:
		h = sha1.New
	case 1:
		h = sha256.New
	default:
		h = sha512.New
	}
	mac := hmac.New(h, k)
	mac.Write(m)
	return mac.Sum(nil)
}

func refTrunc(sum []byte) uint64 {
	o := sum[len(sum)-1] & 15
	return uint64(binary.BigEndian.Uint32(sum[o:o+4]) & 0x7fffffff)
}

func pow10(d int) uint64 {
	r := uint64(1)
	for i := 0; i < d; i++ {
		r *= 10
	}
	return r
}

// refHOTP: RFC 4226 value for digits 1..10, algo 0..2 ("" otherwise)
func refHOTP(key []byte, counter uint64, digits, algo int) string {
	if digits < 1 || digits > 10 || algo < 0 || algo > 2 {
		return ""
	}
	var c [8]byte
	binary.BigEndian.PutUint64(c[:], counter)
	v := refTrunc(refHMAC(algo, key, c[:])) % pow10(digits)
	return fmt.Sprintf("%0*d", digits, v)
}

func refOCRAMsgCode(key, msg []byte, digits, algo int) string {
	if digits < 1 || digits > 10 || algo < 0 || algo > 2 {
		return ""
	}
	v := refTrunc(refHMAC(algo, key, msg)) % pow10(digits)
	return fmt.Sprintf("%0*d", digits, v)
}

// spell returns a spelling of the base32 encoding of key chosen by r.
// every code point with the Unicode White_Space property
var unicodeSpaces = []string{"\t", "\n", "\v", "\f", "\r", " ", "\u0085", "\u00a0", "\u1680", "\u2000", "\u2001", "\u2002", "\u2003", "\u2004", "\u2005",
	"\u2006", "\u2007", "\u2008", "\u2009", "\u200a", "\u2028", "\u2029", "\u202f", "\u205f", "\u3000"}

func spell(r *rng, key []byte) string {
	e := base32.StdEncoding.EncodeToString(key)
	npad := len(e) - len(strings.TrimRight(e, "="))
	data := e[:len(e)-npad]
	keep := 0
	switch r.intn(4) {
	case 0:
		keep = npad
	case 1:
		keep = 0
	default:
		if npad > 0 {
			keep = r.intn(npad + 1)
		}
	}
	s := data + strings.Repeat("=", keep)
	switch r.intn(4) {
	case 0:
	case 1:
		s = strings.ToLower(s)
	default:
		b := []byte(s)
		for i := range b {
			if r.intn(2) == 0 && b[i] >= 'A' && b[i] <= 'Z' {
				b[i] += 32
			}
		}
		s = string(b)
	}
	ws := []string{"", "", " ", "\t", "\n", " \t\n", "\r\n", "  ", "\v", "\f"}
	if r.intn(6) == 0 {
		// the whole Unicode White_Space set (what strings.TrimSpace strips), not only its ASCII / Latin-1 part
		ws = unicodeSpaces
	}
	return ws[r.intn(len(ws))] + s + ws[r.intn(len(ws))]
}
