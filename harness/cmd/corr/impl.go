package main

// impl.go: runs ONE op line against the real library (in-process) and returns the canonical answer
// in the same format as the Lean driver.  Every call is wrapped in recover() and a watchdog.

import (
	"unsafe"
	"os"
	"bytes"
	"crypto/rand"
	"encoding/base32"
	"encoding/hex"
	"errors"
	"fmt"
	"io"
	"net/url"
	"runtime"
	"sort"
	"strconv"
	"strings"
	"sync"
	"time"

	"github.com/ja7ad/otp"
)

const callTimeout = 4 * time.Second

// registrySnapshot: what SuiteConfigFromRaws answered for every advertised name before this process executed any op
var registrySnapshot = map[string]otp.SuiteConfig{}

func unhex(s string) ([]byte, bool) {
	if s == "-" {
		return []byte{}, true
	}
	if s == "nil" {
		return nil, true
	}
	b, err := hex.DecodeString(s)
	return b, err == nil
}

func hx(b []byte) string {
	if len(b) == 0 {
		return "-"
	}
	return hex.EncodeToString(b)
}

func errClass(err error) string {
	switch {
	case errors.Is(err, otp.ErrInvalidSkew):
		return "invalidSkew"
	case errors.Is(err, otp.ErrInvalidCodeLength):
		return "invalidCodeLength"
	case errors.Is(err, otp.ErrInvalidCode):
		return "invalidCode"
	case errors.Is(err, otp.ErrUnsupportedAlgorithm):
		return "unsupportedAlgorithm"
	default:
		var ce base32.CorruptInputError
		if errors.As(err, &ce) {
			return "badSecret"
		}
		return "other"
	}
}

// lastErrText holds the text of the error returned by the most recent op (for the C13 leak predicate).
var lastErrText string

// lastOKString is the very string value the library returned from the last successful generation
// (kept without copying, so that a later overwrite of its backing memory is observable).
var lastOKString string
var lastOKSet bool

func showOut(s string, err error) string {
	if err != nil {
		lastErrText = err.Error()
		return "err " + errClass(err)
	}
	lastOKString, lastOKSet = s, true
	return "ok " + hx([]byte(s))
}

func showBytes(b []byte, err error) string {
	if err != nil {
		lastErrText = err.Error()
		return "err " + errClass(err)
	}
	if len(b) > 0 {
		retainedRes = append(retainedRes, retainedBytes{b: b, want: append([]byte(nil), b...), op: currentOp})
		if len(retainedRes) > 300 {
			retainedRes = retainedRes[len(retainedRes)-300:]
		}
	}
	return "ok " + hx(b)
}

func showVerdict(ok bool, err error) string {
	if err != nil {
		lastErrText = err.Error()
	}
	switch {
	case ok && err == nil:
		return "true"
	case !ok && err != nil:
		return "false-err " + errClass(err)
	case ok && err != nil:
		return "true-err"
	default:
		return "false-nil"
	}
}

func parseParam(s string) (*otp.Param, bool) {
	if s == "N" {
		return nil, true
	}
	f := strings.Split(s, ":")
	if len(f) != 5 || f[0] != "P" {
		return nil, false
	}
	d, e1 := strconv.ParseUint(f[1], 10, 8)
	p, e2 := strconv.ParseUint(f[2], 10, 64)
	k, e3 := strconv.ParseUint(f[3], 10, 64)
	a, e4 := strconv.ParseUint(f[4], 10, 8)
	if e1 != nil || e2 != nil || e3 != nil || e4 != nil {
		return nil, false
	}
	return &otp.Param{Digits: otp.Digits(d), Period: uint(p), Skew: uint(k), Algorithm: otp.Algorithm(a)}, true
}

func parseCfgFields(f []string) (otp.SuiteConfig, bool) {
	var c otp.SuiteConfig
	if len(f) != 8 {
		return c, false
	}
	raw, ok := unhex(f[1])
	h, e1 := strconv.ParseUint(f[2], 10, 8)
	d, e2 := strconv.ParseInt(f[3], 10, 64)
	ch, e3 := strconv.ParseInt(f[4], 10, 64)
	pw, e4 := strconv.ParseInt(f[6], 10, 64)
	ts, e5 := strconv.ParseInt(f[7], 10, 64)
	if !ok || e1 != nil || e2 != nil || e3 != nil || e4 != nil || e5 != nil || len(f[5]) != 5 {
		return c, false
	}
	c = otp.SuiteConfig{Raw: string(raw), Hash: otp.Algorithm(h), Digits: int(d), Challenge: otp.ChallengeFormat(ch),
		IncludeCounter: f[5][0] == '1', IncludeChallenge: f[5][1] == '1', IncludePassword: f[5][2] == '1',
		IncludeSession: f[5][3] == '1', IncludeTimestamp: f[5][4] == '1', PasswordHash: otp.PasswordHashAlgorithm(pw), TimeStep: int(ts)}
	return c, true
}

// parseSuite builds the Suite value: R = NewRawSuite, C = bare SuiteConfig, M = RawSuite literal, S = NewSuite.
// Returns (suite, "", true) or (nil, "suite-err", true) when the constructor refuses.
func parseSuite(s string) (otp.Suite, string, bool) {
	f := strings.Split(s, ":")
	switch f[0] {
	case "R":
		if len(f) != 2 {
			return nil, "", false
		}
		raw, ok := unhex(f[1])
		if !ok {
			return nil, "", false
		}
		su, err := otp.NewRawSuite(string(raw))
		if err != nil {
			lastErrText = err.Error()
			return nil, "suite-err", true
		}
		return su, "", true
	case "C", "M", "S", "X":
		c, ok := parseCfgFields(f)
		if !ok {
			return nil, "", false
		}
		switch f[0] {
		case "C":
			return c, "", true
		case "M":
			return otp.RawSuite{SuiteConfig: c}, "", true
		case "X":
			// a suite obtained from a constructor (for a registered name), then edited through its exported embedded
			// configuration: whatever the constructor established about the old fields says nothing about the new ones
			// when the edited configuration keeps a name a constructor accepts, that constructor is the base (so that anything
			// the constructor remembered about the suite — keyed by the name, say — still "matches" after the edit)
			if su, err := otp.NewRawSuite(c.Raw); err == nil {
				if rs, ok := su.(otp.RawSuite); ok {
					rs.SuiteConfig = c
					return rs, "", true
				}
			}
			names := otp.ListSuites()
			sort.Strings(names)
			if len(names) > 0 {
				if su, err := otp.NewRawSuite(names[len(c.Raw)%len(names)]); err == nil {
					if rs, ok := su.(otp.RawSuite); ok {
						rs.SuiteConfig = c
						return rs, "", true
					}
				}
			}
			return otp.RawSuite{SuiteConfig: c}, "", true
		default:
			su, err := otp.NewSuite(c)
			if err != nil {
				lastErrText = err.Error()
				return nil, "suite-err", true
			}
			return su, "", true
		}
	}
	return nil, "", false
}

// canary layout for slice arguments (C12): the slice is carved out of a larger array filled with a
// canary pattern; after the call the whole array (prefix, content, spare capacity) must be unchanged.
type guarded struct {
	arr    []byte
	before []byte
}

var guards []guarded
var layoutCounter int

func layoutSlice(b []byte) []byte {
	if b == nil {
		return nil
	}
	layoutCounter++
	var arr []byte
	var s []byte
	switch layoutCounter % 3 {
	case 0: // len == cap
		arr = make([]byte, len(b))
		copy(arr, b)
		s = arr[:len(b):len(b)]
	case 1: // spare capacity filled with canary bytes
		arr = bytes.Repeat([]byte{0xC5}, len(b)+160)
		copy(arr, b)
		s = arr[:len(b)]
	default: // sub-slice in the middle of a larger array
		arr = bytes.Repeat([]byte{0x5C}, len(b)+200)
		copy(arr[13:], b)
		s = arr[13 : 13+len(b)]
	}
	guards = append(guards, guarded{arr: arr, before: append([]byte(nil), arr...)})
	return s
}

// oldGuards: argument arrays of earlier calls, kept alive and re-checked after every later call: the library must not keep
// a caller's buffer and write to it afterwards (a pool that captures an argument, a deferred clean-up)
var oldGuards []guarded

func checkGuards() string {
	res := ""
	for _, g := range guards {
		if !bytes.Equal(g.arr, g.before) {
			res = " MUTATED-ARG"
		}
	}
	for i, g := range oldGuards {
		if g.arr != nil && !bytes.Equal(g.arr, g.before) {
			res += " MUTATED-ARG-OF-AN-EARLIER-CALL"
			oldGuards[i].arr = nil
		}
	}
	if res == "" {
		oldGuards = append(oldGuards, guards...)
		if len(oldGuards) > 400 {
			oldGuards = oldGuards[len(oldGuards)-400:]
		}
	}
	guards = guards[:0]
	return res
}

// retained results: byte slices the library returned stay the caller's; they are re-read after every later call
type retainedBytes struct {
	b, want []byte
	op      string
}

var retainedRes []retainedBytes
var currentOp string

func checkRetained() string {
	for i, k := range retainedRes {
		if k.b != nil && !bytes.Equal(k.b, k.want) {
			retainedRes[i].b = nil
			return " RESULT-OF-AN-EARLIER-CALL-CHANGED(" + k.op + ")"
		}
	}
	return ""
}

func parseInput(s string) (otp.OCRAInput, bool) {
	f := strings.Split(s, ":")
	var in otp.OCRAInput
	if len(f) != 6 || f[0] != "I" {
		return in, false
	}
	var bs [5][]byte
	for i := 0; i < 5; i++ {
		b, ok := unhex(f[i+1])
		if !ok {
			return in, false
		}
		bs[i] = layoutSlice(b)
	}
	in = otp.OCRAInput{Counter: bs[0], Challenge: bs[1], Password: bs[2], SessionInfo: bs[3], Timestamp: bs[4]}
	return in, true
}

func b2s(b bool) string {
	if b {
		return "1"
	}
	return "0"
}

func showCfg(c otp.SuiteConfig) string {
	return fmt.Sprintf("%s:%d:%d:%d:%s%s%s%s%s:%d:%d", hx([]byte(c.Raw)), uint8(c.Hash), c.Digits, int(c.Challenge),
		b2s(c.IncludeCounter), b2s(c.IncludeChallenge), b2s(c.IncludePassword), b2s(c.IncludeSession), b2s(c.IncludeTimestamp),
		int(c.PasswordHash), c.TimeStep)
}

// forgeMono returns the instant (s, n) carrying the current monotonic reading.  time.Time is {wall uint64; ext int64; loc};
// with a monotonic reading wall = 1<<63 | seconds since 1885 (33 bits) << 30 | nanoseconds and ext is the reading.  The
// result is checked through the public accessors, so a different layout makes the caller fall back to a wall-only time.
func forgeMono(s, n int64) (time.Time, bool) {
	const unixToInternal = (1969*365 + 1969/4 - 1969/100 + 1969/400) * 86400
	const wallToInternal = (1884*365 + 1884/4 - 1884/100 + 1884/400) * 86400
	w := s + unixToInternal - wallToInternal
	if w < 0 || w >= 1<<33 || n < 0 || n >= 1000000000 {
		return time.Time{}, false
	}
	t := time.Now()
	if unsafe.Sizeof(t) != 24 {
		return time.Time{}, false
	}
	p := (*struct {
		wall uint64
		ext  int64
		loc  *time.Location
	})(unsafe.Pointer(&t))
	if p.wall>>63 == 0 {
		return time.Time{}, false
	}
	p.wall = 1<<63 | uint64(w)<<30 | uint64(n)
	if t.Unix() != s || int64(t.Nanosecond()) != n || !strings.Contains(t.String(), " m=") {
		return time.Time{}, false
	}
	return t, true
}

func mkTime(sec, nsec, zone, mono string) (time.Time, bool) {
	s, e1 := strconv.ParseInt(sec, 10, 64)
	n, e2 := strconv.ParseInt(nsec, 10, 64)
	z, e3 := strconv.ParseInt(zone, 10, 64)
	if e1 != nil || e2 != nil || e3 != nil {
		return time.Time{}, false
	}
	var t time.Time
	if mono == "2" {
		// a wall clock that was stepped: the monotonic reading is the process's current one (it advances by microseconds
		// from call to call) while the wall part says `s` — what time.Now() returns before and after an NTP step or a
		// suspend.  Two such values compare by their monotonic readings (Before/After/Sub), not by their wall clocks.
		if ft, ok := forgeMono(s, n); ok {
			t = ft
		} else {
			t = time.Unix(s, n)
		}
	} else if mono == "1" {
		// a time carrying a monotonic reading: take Now() and shift it (Add keeps the monotonic part)
		now := time.Now()
		t = now.Add(time.Unix(s, n).Sub(now))
		if t.Unix() != s { // Sub saturates for far-away instants; fall back to a wall-only time
			t = time.Unix(s, n)
		}
	} else {
		t = time.Unix(s, n)
	}
	if mono != "0" && strings.Contains(t.String(), " m=") {
		return t, true // UTC / Local / In drop the monotonic reading: such an instant is passed as the clock gave it
	}
	switch {
	case z == 0:
		t = t.UTC()
	case z == 1:
		t = t.Local()
	default:
		t = t.In(time.FixedZone("Z", int(z)))
	}
	return t, true
}

// chunkReader delivers the bytes of `data` in chunks of at most `chunk` bytes and records how many
// bytes were taken; it stands in for crypto/rand.Reader (C08).
type chunkReader struct {
	mu    sync.Mutex
	data  []byte
	pos   int
	chunk int
	yield bool // give other goroutines a chance between the copy and the return (widens race windows)
	total int  // bytes handed out, including past the end of data (overrun)
	over  bool // continue past the end of data with a fixed filler instead of failing (the OS source never ends)
}

func (r *chunkReader) Read(p []byte) (int, error) {
	r.mu.Lock()
	defer r.mu.Unlock()
	if r.pos >= len(r.data) {
		if r.over {
			for i := range p {
				p[i] = byte(0x5A ^ (r.total + i))
			}
			r.total += len(p)
			return len(p), nil
		}
		return 0, io.ErrUnexpectedEOF
	}
	n := len(p)
	if r.chunk > 0 && n > r.chunk {
		n = r.chunk
	}
	if n > len(r.data)-r.pos {
		n = len(r.data) - r.pos
	}
	copy(p, r.data[r.pos:r.pos+n])
	r.pos += n
	r.total += n
	if r.yield {
		r.mu.Unlock()
		time.Sleep(200 * time.Microsecond)
		runtime.Gosched()
		r.mu.Lock()
	}
	return n, nil
}

// runImplRaw executes one op line; panics propagate to the caller.
func runImplRaw(line string) string {
	f := strings.Fields(line)
	if len(f) == 0 {
		return ""
	}
	bad := "bad-op"
	switch f[0] {
	case "ghotp":
		if len(f) != 4 {
			return bad
		}
		s, ok1 := unhex(f[1])
		c, e := strconv.ParseUint(f[2], 10, 64)
		p, ok2 := parseParam(f[3])
		if !ok1 || e != nil || !ok2 {
			return bad
		}
		var pc otp.Param
		if p != nil {
			pc = *p
		}
		r := showOut(otp.GenerateHOTP(string(s), c, p))
		if p != nil && *p != pc {
			r += " MUTATED-ARG"
		}
		return r
	case "vhotp":
		if len(f) != 5 {
			return bad
		}
		s, ok1 := unhex(f[1])
		code, ok3 := unhex(f[2])
		c, e := strconv.ParseUint(f[3], 10, 64)
		p, ok2 := parseParam(f[4])
		if !ok1 || e != nil || !ok2 || !ok3 {
			return bad
		}
		var pc otp.Param
		if p != nil {
			pc = *p
		}
		r := showVerdict(otp.ValidateHOTP(string(s), string(code), c, p))
		if p != nil && *p != pc {
			r += " MUTATED-ARG"
		}
		return r
	case "gtotp":
		if len(f) != 7 {
			return bad
		}
		s, ok1 := unhex(f[1])
		t, ok2 := mkTime(f[2], f[3], f[4], f[5])
		p, ok3 := parseParam(f[6])
		if !ok1 || !ok2 || !ok3 {
			return bad
		}
		var pc otp.Param
		if p != nil {
			pc = *p
		}
		r := showOut(otp.GenerateTOTP(string(s), t, p))
		if p != nil && *p != pc {
			r += " MUTATED-ARG"
		}
		return r
	case "vtotp":
		if len(f) != 8 {
			return bad
		}
		s, ok1 := unhex(f[1])
		code, ok4 := unhex(f[2])
		t, ok2 := mkTime(f[3], f[4], f[5], f[6])
		p, ok3 := parseParam(f[7])
		if !ok1 || !ok2 || !ok3 || !ok4 {
			return bad
		}
		var pc otp.Param
		if p != nil {
			pc = *p
		}
		r := showVerdict(otp.ValidateTOTP(string(s), string(code), t, p))
		if p != nil && *p != pc {
			r += " MUTATED-ARG"
		}
		return r
	case "gvhotp":
		if len(f) != 5 {
			return bad
		}
		s, ok1 := unhex(f[1])
		c1, e1 := strconv.ParseUint(f[2], 10, 64)
		c2, e2 := strconv.ParseUint(f[3], 10, 64)
		p, ok2 := parseParam(f[4])
		if !ok1 || e1 != nil || e2 != nil || !ok2 {
			return bad
		}
		code, err := otp.GenerateHOTP(string(s), c1, p)
		if err != nil {
			lastErrText = err.Error()
			return "gen-err " + errClass(err)
		}
		// the very string object returned by the library is submitted (no copy)
		return "gen-ok " + showVerdict(otp.ValidateHOTP(string(s), code, c2, p))
	case "gvtotp":
		if len(f) != 5 {
			return bad
		}
		s, ok1 := unhex(f[1])
		t1, ok3 := mkTime(f[2], "0", "0", "0")
		t2, ok4 := mkTime(f[3], "0", "0", "0")
		p, ok2 := parseParam(f[4])
		if !ok1 || !ok2 || !ok3 || !ok4 {
			return bad
		}
		code, err := otp.GenerateTOTP(string(s), t1, p)
		if err != nil {
			lastErrText = err.Error()
			return "gen-err " + errClass(err)
		}
		return "gen-ok " + showVerdict(otp.ValidateTOTP(string(s), code, t2, p))
	case "rndseq":
		// a history of RandomSecret calls against ONE source stream, in a FRESH process (so that read-ahead or
		// buffering inside the implementation starts empty): "rndseq a1,a2,… <stream> <chunk> <par>"
		if len(f) != 5 {
			return bad
		}
		if os.Getenv("CORR_FRESH") == "" {
			self, _ := os.Executable()
			os.Setenv("CORR_FRESH", "1")
			ans := execFresh(self, []string{line})
			os.Unsetenv("CORR_FRESH")
			if len(ans) != 1 {
				return "process-crash"
			}
			return ans[0]
		}
		st, ok := unhex(f[2])
		chunk, e1 := strconv.Atoi(f[3])
		par, e2 := strconv.Atoi(f[4])
		if !ok || e1 != nil || e2 != nil {
			return bad
		}
		var algos []uint64
		for _, as := range strings.Split(f[1], ",") {
			a, e := strconv.ParseUint(as, 10, 8)
			if e != nil {
				return bad
			}
			algos = append(algos, a)
		}
		old := rand.Reader
		if par > 1 {
			chunk = 0 // concurrent readers in short chunks would interleave one secret's bytes with another's: not what the OS source does
		}
		cr := &chunkReader{data: st, chunk: chunk, over: true, yield: par > 1}
		rand.Reader = cr
		res := make([]string, len(algos))
		call := func(i int) {
			defer func() {
				if recover() != nil {
					res[i] = "panic"
				}
			}()
			s, err := otp.RandomSecret(otp.Algorithm(algos[i]))
			if err != nil {
				res[i] = "err"
			} else {
				res[i] = hx([]byte(s))
			}
		}
		if par > 1 {
			var wg sync.WaitGroup
			sem := make(chan struct{}, par)
			for i := range algos {
				wg.Add(1)
				sem <- struct{}{}
				go func(i int) { defer wg.Done(); call(i); <-sem }(i)
			}
			wg.Wait()
		} else {
			for i := range algos {
				call(i)
			}
		}
		rand.Reader = old
		ov := ""
		if cr.total > len(st) {
			ov = " OVERRUN"
		}
		return "ok " + strings.Join(res, " ") + fmt.Sprintf(" consumed=%d", cr.total) + ov
	case "rndpar":
		if len(f) != 4 {
			return bad
		}
		a, e := strconv.ParseUint(f[1], 10, 8)
		st, ok := unhex(f[2])
		n, e2 := strconv.Atoi(f[3])
		if e != nil || !ok || e2 != nil {
			return bad
		}
		old := rand.Reader
		cr := &chunkReader{data: st, chunk: 0, yield: true, over: true}
		rand.Reader = cr
		res := make([]string, n)
		var wg sync.WaitGroup
		for i := 0; i < n; i++ {
			wg.Add(1)
			go func(i int) {
				defer wg.Done()
				defer func() {
					if recover() != nil {
						res[i] = "panic"
					}
				}()
				s, err := otp.RandomSecret(otp.Algorithm(a))
				if err != nil {
					res[i] = "err " + errClass(err)
				} else {
					res[i] = "ok " + hx([]byte(s))
				}
			}(i)
		}
		wg.Wait()
		rand.Reader = old
		sort.Strings(res)
		return strings.Join(res, " ")
	case "gocra", "vocra":
		n := 4
		if f[0] == "vocra" {
			n = 5
		}
		if len(f) != n {
			return bad
		}
		s, ok1 := unhex(f[1])
		var code []byte
		ok4 := true
		if f[0] == "vocra" {
			code, ok4 = unhex(f[2])
		}
		su, serr, ok2 := parseSuite(f[n-2])
		in, ok3 := parseInput(f[n-1])
		if !ok1 || !ok2 || !ok3 || !ok4 {
			return bad
		}
		if serr != "" {
			return serr
		}
		var r string
		if f[0] == "gocra" {
			r = showOut(otp.GenerateOCRA(string(s), su, in))
		} else {
			r = showVerdict(otp.ValidateOCRA(string(s), string(code), su, in))
		}
		return r + checkGuards()
	case "adm":
		if len(f) != 3 {
			return bad
		}
		c, ok1 := parseCfgFields(strings.Split(f[1], ":"))
		in, ok2 := parseInput(f[2])
		if !ok1 || !ok2 {
			return bad
		}
		sv, iv := "suite-ok", "input-ok"
		if err := c.Validate(); err != nil {
			lastErrText = err.Error()
			sv = "suite-err"
		}
		if err := in.Validate(c); err != nil {
			lastErrText = err.Error()
			iv = "input-err"
		}
		return sv + " " + iv + checkGuards()
	case "suite":
		if len(f) != 2 {
			return bad
		}
		raw, ok := unhex(f[1])
		if !ok {
			return bad
		}
		var m string
		before := otp.SuiteConfigFromRaws(string(raw))
		su, err := otp.NewRawSuite(string(raw))
		if err != nil {
			lastErrText = err.Error()
			m = "err other"
		} else {
			m = "ok " + showCfg(su.Config())
			if su.String() != su.Config().Raw {
				m += " STRING-MISMATCH"
			}
		}
		k := "unknown"
		if otp.IsKnownSuite(string(raw)) {
			k = "known"
		}
		after := otp.SuiteConfigFromRaws(string(raw))
		hd := ""
		if before != after {
			// the registry answer changed because of an unrelated call: results depend on the call history (C11)
			hd = " HISTORY-DEPENDENT"
		}
		if snap, ok := registrySnapshot[string(raw)]; ok && (before != snap || after != snap) {
			// lookup by name no longer returns what it returned when the process started: some earlier call of this run wrote
			// into the registry (C12, C15)
			hd += " HISTORY-DEPENDENT(REGISTRY-MODIFIED)"
		}
		return m + " " + k + " " + showCfg(before) + hd
	case "newsuite":
		if len(f) != 2 {
			return bad
		}
		c, ok := parseCfgFields(strings.Split(f[1], ":"))
		if !ok {
			return bad
		}
		su, err := otp.NewSuite(c)
		if err != nil {
			lastErrText = err.Error()
			return "err other"
		}
		return "ok " + showCfg(su.Config())
	case "dec":
		if len(f) != 2 {
			return bad
		}
		s, ok := unhex(f[1])
		if !ok {
			return bad
		}
		return showBytes(otp.DecodeSecret(string(s)))
	case "rnd":
		if len(f) < 3 {
			return bad
		}
		a, e := strconv.ParseUint(f[1], 10, 8)
		st, ok := unhex(f[2])
		if e != nil || !ok {
			return bad
		}
		chunk := 0
		if len(f) > 3 {
			chunk, _ = strconv.Atoi(f[3])
		}
		old := rand.Reader
		cr := &chunkReader{data: st, chunk: chunk, over: len(st) >= 64} // the OS source never ends: reading ahead must not look like a failure
		rand.Reader = cr
		s, err := otp.RandomSecret(otp.Algorithm(a))
		rand.Reader = old
		return showOut(s, err) + fmt.Sprintf(" consumed=%d", cr.total)
	case "help":
		if len(f) != 3 {
			return bad
		}
		a, ok := unhex(f[2])
		if !ok {
			return bad
		}
		switch f[1] {
		case "dec8":
			return showBytes(otp.ParseDecimalToBigEndian8(string(a)))
		case "dec64":
			return showBytes(otp.ParseDecimal64BigEndian(string(a)))
		case "hexts":
			return showBytes(otp.ParseHexTimestamp(string(a)))
		case "question":
			return showBytes(otp.ParseDecimalChallengeRFC6287(string(a)))
		}
		return bad
	case "to8":
		if len(f) != 2 {
			return bad
		}
		v, e := strconv.ParseUint(f[1], 10, 64)
		if e != nil {
			return bad
		}
		return "ok " + hx(otp.To8ByteBigEndian(v))
	case "leftpad":
		if len(f) != 3 {
			return bad
		}
		s, ok := unhex(f[1])
		w, e := strconv.ParseInt(f[2], 10, 64)
		if !ok || e != nil {
			return bad
		}
		return "ok " + hx([]byte(otp.LeftPadHex(string(s), int(w))))
	case "fromstr":
		if len(f) != 2 {
			return bad
		}
		t, ok := unhex(f[1])
		if !ok {
			return bad
		}
		return fmt.Sprintf("ok %d %d", otp.DigitsFromStr(string(t)), otp.AlgorithmFromStr(string(t)))
	case "musthex":
		if len(f) != 3 {
			return bad
		}
		s, ok := unhex(f[1])
		w, e := strconv.ParseInt(f[2], 10, 64)
		if !ok || e != nil {
			return bad
		}
		return "ok " + hx(otp.MustHexPadLeft(string(s), int(w)))
	case "hexinput":
		if len(f) != 6 {
			return bad
		}
		var a [5]string
		for i := 0; i < 5; i++ {
			b, ok := unhex(f[i+1])
			if !ok {
				return bad
			}
			a[i] = string(b)
		}
		in, err := otp.HexInputToOCRA(a[0], a[1], a[2], a[3], a[4])
		if err != nil {
			lastErrText = err.Error()
			return "err other"
		}
		return fmt.Sprintf("ok %s:%s:%s:%s:%s", hx(in.Counter), hx(in.Challenge), hx(in.Password), hx(in.SessionInfo), hx(in.Timestamp))
	case "parse", "trunc", "fmt", "pad", "derive":
		return runInternal(f)
	case "urlg":
		return implURLG(f[1:])
	case "urlp":
		return implURLP(f[1:])
	case "std.trim":
		b, ok := unhex(f[1])
		if !ok {
			return bad
		}
		return "ok " + hx([]byte(strings.TrimSpace(string(b))))
	case "std.b32dec":
		b, ok := unhex(f[1])
		if !ok {
			return bad
		}
		r, err := base32.StdEncoding.DecodeString(string(b))
		if err != nil {
			return "err"
		}
		return "ok " + hx(r)
	case "std.b32enc":
		b, _ := unhex(f[1])
		return "ok " + hx([]byte(base32.StdEncoding.EncodeToString(b)))
	case "std.b32encnp":
		b, _ := unhex(f[1])
		return "ok " + hx([]byte(base32.StdEncoding.WithPadding(base32.NoPadding).EncodeToString(b)))
	case "std.hexdec":
		b, _ := unhex(f[1])
		r, err := hex.DecodeString(string(b))
		if err != nil {
			return "err"
		}
		return "ok " + hx(r)
	case "std.parseuint":
		b, _ := unhex(f[1])
		v, err := strconv.ParseUint(string(b), 10, 64)
		if err != nil {
			return "err"
		}
		return fmt.Sprintf("ok %d", v)
	case "std.hmac":
		a, _ := strconv.Atoi(f[1])
		k, _ := unhex(f[2])
		m, _ := unhex(f[3])
		return "ok " + hx(refHMAC(a, k, m))
	}
	return bad
}

// runImpl wraps runImplRaw with recover and a watchdog.
func runImpl(line string) (ans string) {
	lastErrText = ""
	lastOKSet = false
	done := make(chan string, 1)
	go func() {
		defer func() {
			if r := recover(); r != nil {
				guards = guards[:0]
				done <- "panic"
			}
		}()
		done <- runImplRaw(line)
	}()
	currentOp = line
	if len(currentOp) > 120 {
		currentOp = currentOp[:120]
	}
	select {
	case a := <-done:
		return a + checkRetained()
	case <-time.After(callTimeout):
		return "timeout"
	}
}

var _ = url.Parse
