//go:build js && wasm && verif_internal

package main

import (
	"github.com/ja7ad/otp"
)

// Under the js/wasm build the library has a second derivation / validation pair (DeriveRFC4226Wasm, ValidateOTPWasm).  The
// `derive` op also runs them: same answer as the shared derivation on the supported domain, the key slice untouched, and a
// derived code validates — twice, so that a call that leaves something behind in its arguments is seen by the next one.
func init() {
	wasmVariantCheck = func(k []byte, c uint64, d int, a otp.Algorithm, native string, nativeErr error) string {
		key := layoutSlice(k)
		w, werr := otp.DeriveRFC4226Wasm(key, c, d, a)
		res := checkGuards()
		if (werr == nil) != (nativeErr == nil) || (werr == nil && w != native) {
			res += " WASM-VARIANT-DIFFERS(" + w + ")"
		}
		if werr == nil && d >= 0 && d <= 255 {
			key2 := layoutSlice(k)
			ok1, _ := otp.ValidateOTPWasm(w, key2, c, otp.Digits(d), a)
			ok2, _ := otp.ValidateOTPWasm(w, key2, c, otp.Digits(d), a)
			res += checkGuards()
			if !ok1 || !ok2 {
				res += " WASM-VALIDATE-REJECTS-ITS-OWN-CODE"
			}
		}
		return res
	}
}
