//go:build verif_internal

package main

// ops that go through the verif_internal wrappers of unexported helpers

import (
	"fmt"
	"strconv"

	"github.com/ja7ad/otp"
)

const hasInternal = true

func runInternal(f []string) string {
	bad := "bad-op"
	switch f[0] {
	case "parse":
		if len(f) != 2 {
			return bad
		}
		raw, ok := unhex(f[1])
		if !ok {
			return bad
		}
		c, err := otp.VerifParseRawSuite(string(raw))
		if err != nil {
			lastErrText = err.Error()
			return "err other"
		}
		return "ok " + showCfg(c)
	case "trunc":
		if len(f) != 3 {
			return bad
		}
		sum, ok := unhex(f[1])
		m, e := strconv.ParseUint(f[2], 10, 64)
		if !ok || e != nil {
			return bad
		}
		return fmt.Sprintf("ok %d", otp.VerifTruncate(sum, m))
	case "fmt":
		if len(f) != 4 {
			return bad
		}
		v, e1 := strconv.ParseUint(f[2], 10, 32)
		d, e2 := strconv.ParseUint(f[3], 10, 31)
		if e1 != nil || e2 != nil {
			return bad
		}
		switch f[1] {
		case "short":
			return "ok " + hx([]byte(otp.VerifShortDigit(uint32(v), int(d))))
		case "long":
			return "ok " + hx([]byte(otp.VerifLongDigit(uint32(v), int(d))))
		case "dec":
			return "ok " + hx([]byte(otp.VerifFormatDecimal(uint32(v), int(d))))
		}
		return bad
	case "pad":
		if len(f) != 3 {
			return bad
		}
		in, ok := unhex(f[1])
		w, e := strconv.ParseUint(f[2], 10, 31)
		if !ok || e != nil {
			return bad
		}
		in = layoutSlice(in)
		return "ok " + hx(otp.VerifPadBytes(in, int(w))) + checkGuards()
	case "derive":
		if len(f) != 5 {
			return bad
		}
		k, ok := unhex(f[1])
		c, e1 := strconv.ParseUint(f[2], 10, 64)
		d, e2 := strconv.ParseUint(f[3], 10, 31)
		a, e3 := strconv.ParseUint(f[4], 10, 8)
		if !ok || e1 != nil || e2 != nil || e3 != nil {
			return bad
		}
		code, err := otp.VerifDeriveRFC4226(k, c, int(d), otp.Algorithm(a))
		extra := ""
		if wasmVariantCheck != nil {
			extra = wasmVariantCheck(k, c, int(d), otp.Algorithm(a), code, err)
		}
		return showOut(code, err) + extra
	}
	return bad
}

// set by the js/wasm build only (wasmvariant_js.go)
var wasmVariantCheck func(k []byte, c uint64, d int, a otp.Algorithm, native string, nativeErr error) string
