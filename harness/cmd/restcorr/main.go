// restcorr: correspondence + liveness check of the REST service (C18, C19).
// It builds internal/app/cmd from the working tree, starts the real binary on a free loopback port, sends
// request sequences (sequentially on keep-alive connections, on fresh connections, and from concurrent
// clients), decodes each request body with the real encoding/json into mirror DTOs (so that JSON decoding is
// exercised, not modelled), hands the decoded request to the Lean model through the driver, and compares
// status + canonical payload.  For C19 it also enforces a latency bound, complete responses, and that probe
// requests interleaved with hostile ones are still answered correctly.
package main

import (
	"bufio"
	"bytes"
	"crypto/hmac"
	"crypto/sha1"
	"encoding/base32"
	"encoding/binary"
	"encoding/hex"
	"encoding/json"
	"flag"
	"fmt"
	"io"
	"net"
	"net/http"
	"net/url"
	"os"
	"os/exec"
	"path/filepath"
	"sort"
	"strings"
	"sync"
	"time"
	"unicode"
	"unicode/utf8"
)

// ---- mirror DTOs (internal/app/api/dto.go) ----
type otpReq struct {
	Secret    string `json:"secret"`
	Timestamp int64  `json:"timestamp,omitempty"`
	Counter   uint64 `json:"counter,omitempty"`
	Code      string `json:"code"`
	Digits    string `json:"digits,omitempty"`
	Period    uint   `json:"period,omitempty"`
	Skew      uint   `json:"skew,omitempty"`
	Algorithm string `json:"algorithm,omitempty"`
}
type otpGenReq struct {
	Secret    string `json:"secret"`
	Timestamp int64  `json:"timestamp,omitempty"`
	Counter   uint64 `json:"counter,omitempty"`
	Digits    string `json:"digits,omitempty"`
	Period    uint   `json:"period,omitempty"`
	Algorithm string `json:"algorithm,omitempty"`
}
type ocraGenReq struct {
	Secret   string       `json:"secret"`
	RawSuite string       `json:"raw_suite,omitempty"`
	Suite    *suiteConfig `json:"suite,omitempty"`
	Input    *ocraInput   `json:"input"`
}
type suiteConfig struct {
	HashFunction     string `json:"hash_function"`
	CodeDigits       int    `json:"code_digits"`
	ChallengeFormat  int    `json:"challenge_format"`
	IncludeCounter   bool   `json:"include_counter"`
	IncludeChallenge bool   `json:"include_challenge"`
	IncludePassword  bool   `json:"include_password"`
	IncludeSession   bool   `json:"include_session"`
	IncludeTimestamp bool   `json:"include_timestamp"`
	PasswordHash     int    `json:"password_hash,omitempty"`
	Timestep         int    `json:"timestep,omitempty"`
}
type ocraInput struct {
	CounterHex     string `json:"counter_hex,omitempty"`
	ChallengeHex   string `json:"challenge_hex,omitempty"`
	PasswordHex    string `json:"password_hex,omitempty"`
	SessionInfoHex string `json:"session_info_hex,omitempty"`
	TimestampHex   string `json:"timestamp_hex,omitempty"`
}
type ocraReq struct {
	Secret   string       `json:"secret"`
	Code     string       `json:"code"`
	RawSuite string       `json:"raw_suite,omitempty"`
	Suite    *suiteConfig `json:"suite,omitempty"`
	Input    *ocraInput   `json:"input"`
}
type urlReq struct {
	Type        string `json:"type"`
	Secret      string `json:"secret"`
	Issuer      string `json:"issuer"`
	AccountName string `json:"account_name"`
	Period      uint   `json:"period,omitempty"`
	Digits      string `json:"digits,omitempty"`
	Algorithm   string `json:"algorithm,omitempty"`
}
type suiteCfgReq struct {
	RawSuite string `json:"raw_suite"`
}

func hx(s string) string {
	if s == "" {
		return "-"
	}
	return hex.EncodeToString([]byte(s))
}
func b2(b bool) string {
	if b {
		return "1"
	}
	return "0"
}

type request struct {
	method, path, query string
	body                []byte
	probe               bool // a well-formed request whose answer must be right (C19)
	nowDependent        bool
	framing             int // 0: Content-Length + application/json; 1: chunked transfer encoding; 2: content type with a charset parameter; 3: no content type; 4: Expect: 100-continue
}

// bodyFields decodes the body as the DTO of the endpoint and renders the driver's body fields.
func bodyFields(path string, body []byte) string {
	switch path {
	case "/totp/generate", "/hotp/generate":
		var g otpGenReq
		if err := json.Unmarshal(body, &g); err != nil {
			return "undecodable"
		}
		return fmt.Sprintf("otp %s - %d %d %s %s %d 0", hx(g.Secret), g.Timestamp, g.Counter, hx(g.Digits), hx(g.Algorithm), g.Period)
	case "/totp/validate", "/hotp/validate":
		var r otpReq
		if err := json.Unmarshal(body, &r); err != nil {
			return "undecodable"
		}
		return fmt.Sprintf("otp %s %s %d %d %s %s %d %d", hx(r.Secret), hx(r.Code), r.Timestamp, r.Counter, hx(r.Digits), hx(r.Algorithm), r.Period, r.Skew)
	case "/ocra/generate", "/ocra/validate":
		var r ocraReq
		if path == "/ocra/generate" {
			var g ocraGenReq
			if err := json.Unmarshal(body, &g); err != nil {
				return "undecodable"
			}
			r = ocraReq{Secret: g.Secret, RawSuite: g.RawSuite, Suite: g.Suite, Input: g.Input}
		} else if err := json.Unmarshal(body, &r); err != nil {
			return "undecodable"
		}
		su, in := "-", "-"
		if r.Suite != nil {
			s := r.Suite
			su = fmt.Sprintf("S:%s:%d:%d:%s%s%s%s%s:%d:%d", hx(s.HashFunction), s.CodeDigits, s.ChallengeFormat, b2(s.IncludeCounter), b2(s.IncludeChallenge),
				b2(s.IncludePassword), b2(s.IncludeSession), b2(s.IncludeTimestamp), s.PasswordHash, s.Timestep)
		}
		if r.Input != nil {
			i := r.Input
			in = fmt.Sprintf("I:%s:%s:%s:%s:%s", hx(i.CounterHex), hx(i.ChallengeHex), hx(i.PasswordHex), hx(i.SessionInfoHex), hx(i.TimestampHex))
		}
		return fmt.Sprintf("ocra %s %s %s %s %s", hx(r.Secret), hx(r.Code), hx(r.RawSuite), su, in)
	case "/otp/url":
		var r urlReq
		if err := json.Unmarshal(body, &r); err != nil {
			return "undecodable"
		}
		return fmt.Sprintf("url %s %s %s %s %d %s %s", hx(r.Type), hx(r.Secret), hx(r.Issuer), hx(r.AccountName), r.Period, hx(r.Digits), hx(r.Algorithm))
	case "/ocra/suite":
		var r suiteCfgReq
		if err := json.Unmarshal(body, &r); err != nil {
			return "undecodable"
		}
		return "suitecfg " + hx(r.RawSuite)
	}
	return "undecodable"
}

func opLine(rq request, now int64) string {
	m := rq.method
	if m != "GET" && m != "POST" {
		m = "OTHER"
	}
	alg := ""
	if v, err := url.ParseQuery(rq.query); err == nil {
		alg = v.Get("algorithm")
	}
	return fmt.Sprintf("rest %s %s %s %d %s", m, hx(rq.path), hx(alg), now, bodyFields(rq.path, rq.body))
}

// canonical rendering of a real response, in the driver's format
func canonResp(path string, status int, body []byte) string {
	if status != 200 {
		return fmt.Sprintf("%d", status)
	}
	var m map[string]any
	dec := json.NewDecoder(bytes.NewReader(body))
	dec.UseNumber()
	if err := dec.Decode(&m); err != nil {
		if strings.HasPrefix(path, "/docs/") {
			return "200"
		}
		return fmt.Sprintf("200 unparsable-body %q", string(body))
	}
	num := func(k string) string {
		if v, ok := m[k]; ok {
			return fmt.Sprint(v)
		}
		return "0"
	}
	str := func(k string) string {
		if v, ok := m[k].(string); ok {
			return v
		}
		return ""
	}
	switch path {
	case "/totp/generate", "/hotp/generate", "/ocra/generate":
		return fmt.Sprintf("200 code %s %s %s %s", hx(str("code")), num("timestamp"), num("counter"), hx(str("suite")))
	case "/totp/validate", "/hotp/validate", "/ocra/validate":
		return fmt.Sprintf("200 valid %v", m["valid"])
	case "/otp/url":
		return "200 url " + hx(str("url"))
	case "/otp/secret":
		return "200 secret " + hx(str("algorithm"))
	case "/ocra/suites":
		var names []string
		if l, ok := m["suites"].([]any); ok {
			for _, x := range l {
				names = append(names, fmt.Sprint(x))
			}
		}
		sort.Strings(names)
		return fmt.Sprintf("200 suites %d %s", len(names), hx(strings.Join(names, ",")+","))
	case "/ocra/suite":
		c, _ := m["config"].(map[string]any)
		g := func(k string) string {
			if v, ok := c[k]; ok {
				return fmt.Sprint(v)
			}
			return "0"
		}
		bb := func(k string) string {
			if v, ok := c[k].(bool); ok && v {
				return "1"
			}
			return "0"
		}
		hash := map[string]string{"SHA1": "0", "SHA256": "1", "SHA512": "2"}[fmt.Sprint(c["hash_function"])]
		return fmt.Sprintf("200 suitecfg %s %s:%s:%s:%s%s%s%s%s:%s:%s", hx(str("raw")), hash, g("code_digits"), g("challenge_format"),
			bb("include_counter"), bb("include_challenge"), bb("include_password"), bb("include_session"), bb("include_timestamp"), g("password_hash"), g("timestep"))
	case "/":
		return "200 home"
	}
	return "200"
}

type rng struct{ s uint64 }

func (r *rng) next() uint64 {
	r.s += 0x9E3779B97F4A7C15
	z := r.s
	z = (z ^ (z >> 30)) * 0xBF58476D1CE4E5B9
	z = (z ^ (z >> 27)) * 0x94D049BB133111EB
	return z ^ (z >> 31)
}
func (r *rng) intn(n int) int      { return int(r.next() % uint64(n)) }
func pick[T any](r *rng, xs []T) T { return xs[r.intn(len(xs))] }

const b32 = "ABCDEFGHIJKLMNOPQRSTUVWXYZ234567"

func genSecret(r *rng) string {
	n := pick(r, []int{8, 16, 16, 32, 32, 56, 104})
	b := make([]byte, n)
	for i := range b {
		b[i] = b32[r.intn(32)]
	}
	s := string(b)
	switch r.intn(5) {
	case 0:
		s = strings.ToLower(s)
	case 1:
		s = " " + s + "\n"
	}
	return s
}

func jsonObj(fields map[string]any) []byte {
	b, _ := json.Marshal(fields)
	return b
}

var registered []string

func genWellFormed(r *rng) request {
	digits := pick(r, []any{nil, "6", "8", "9", "10", "6", "8", "10", "7", "", "six", "08", "+8", "010", "264", "266", "-248", " 8", "8 "})
	algo := pick(r, []any{nil, "SHA1", "SHA256", "SHA512", "sha1", "MD5", ""})
	f := map[string]any{"secret": genSecret(r)}
	if digits != nil {
		f["digits"] = digits
	}
	if algo != nil {
		f["algorithm"] = algo
	}
	code := func() string {
		n := 6
		if d, ok := digits.(string); ok {
			switch d {
			case "8":
				n = 8
			case "9":
				n = 9
			case "10":
				n = 10
			}
		}
		b := make([]byte, n)
		for i := range b {
			b[i] = '0' + byte(r.intn(10))
		}
		return string(b)
	}
	switch r.intn(12) {
	case 0, 1:
		f["timestamp"] = int64(1 + r.intn(2000000000))
		if r.intn(2) == 0 {
			f["period"] = pick(r, []int{0, 1, 30, 60, 3600})
		}
		return request{method: "POST", path: "/totp/generate", body: jsonObj(f)}
	case 2:
		f["timestamp"] = int64(1 + r.intn(2000000000))
		f["code"] = code()
		if r.intn(2) == 0 {
			f["skew"] = pick(r, []uint64{0, 1, 2, 10, 11, 1000})
		}
		if r.intn(2) == 0 {
			f["period"] = pick(r, []int{0, 30, 60})
		}
		return request{method: "POST", path: "/totp/validate", body: jsonObj(f)}
	case 3, 4:
		f["counter"] = pick(r, []uint64{0, 1, 2, 1 << 32, 1<<63 + 5, 1<<64 - 1, r.next() >> uint(r.intn(64)), dictInt(r) + uint64(r.intn(5)) - 2})
		return request{method: "POST", path: "/hotp/generate", body: jsonObj(f)}
	case 5:
		f["counter"] = pick(r, []uint64{0, 1, 2, 7, 1 << 32, r.next() >> uint(r.intn(64)), dictInt(r) + uint64(r.intn(5)) - 2})
		f["code"] = code()
		if r.intn(2) == 0 {
			f["skew"] = pick(r, []uint64{0, 1, 2, 10, 11})
		}
		return request{method: "POST", path: "/hotp/validate", body: jsonObj(f)}
	case 6, 7:
		name := pick(r, registered)
		o := map[string]any{"secret": f["secret"], "raw_suite": name}
		in := map[string]any{}
		if strings.Contains(name, ":C") {
			in["counter_hex"] = fmt.Sprintf("%016x", r.next())
		}
		if strings.Contains(name, "Q") {
			in["challenge_hex"] = hex.EncodeToString([]byte(fmt.Sprintf("%010d", r.intn(1000000000))))
		}
		if strings.Contains(name, "PSHA1") {
			in["password_hex"] = strings.Repeat("ab", 20)
		} else if strings.Contains(name, "PSHA256") {
			in["password_hex"] = strings.Repeat("cd", 32)
		} else if strings.Contains(name, "PSHA512") {
			in["password_hex"] = strings.Repeat("ef", 64)
		}
		if strings.Contains(name, "-S") {
			in["session_info_hex"] = hex.EncodeToString([]byte("session"))
		}
		if strings.Contains(name, "-T") {
			in["timestamp_hex"] = fmt.Sprintf("%016x", r.next()>>20)
		}
		if r.intn(8) == 0 {
			in["challenge_hex"] = "zz"
		}
		o["input"] = in
		if r.intn(6) == 0 {
			o["suite"] = map[string]any{"hash_function": "SHA1", "code_digits": 6, "challenge_format": 1, "include_challenge": true}
			switch r.intn(4) {
			case 0, 1:
				delete(o, "raw_suite")
				o["input"] = map[string]any{"challenge_hex": "3132333435363738"}
			case 2:
				// contradictory request: a blank (white-space) raw suite next to a suite object — validate() lets it through
				// and the handler hands the blank text to MustRawSuite
				o["raw_suite"] = pick(r, []string{" ", "\t", "  \n", "\u00a0"})
				o["input"] = map[string]any{"challenge_hex": "3132333435363738"}
			}
		}
		if r.intn(2) == 0 {
			o["code"] = code()
			return request{method: "POST", path: "/ocra/validate", body: jsonObj(o)}
		}
		return request{method: "POST", path: "/ocra/generate", body: jsonObj(o)}
	case 8:
		u := map[string]any{"type": pick(r, []string{"totp", "hotp", "totp", "TOTP", "x"}), "secret": strings.TrimSpace(f["secret"].(string)),
			"issuer": pick(r, []string{"Example", "My Co", "A/B?c#d%41", "ACME"}), "account_name": pick(r, []string{"alice@example.com", "bob", "x y"})}
		if digits != nil {
			u["digits"] = digits
		}
		if algo != nil {
			u["algorithm"] = algo
		}
		if r.intn(2) == 0 {
			u["period"] = pick(r, []int{0, 30, 60})
		}
		return request{method: "POST", path: "/otp/url", body: jsonObj(u)}
	case 9:
		return request{method: "POST", path: "/ocra/suite", body: jsonObj(map[string]any{"raw_suite": pick(r, append(registered, "OCRA-1:HOTP-SHA1-6:QN99", ""))})}
	case 10:
		return pick(r, []request{{method: "GET", path: "/ocra/suites"}, {method: "GET", path: "/"}, {method: "GET", path: "/otp/secret", query: "algorithm=" + pick(r, []string{"SHA1", "SHA256", "SHA512", "x", ""})}})
	default:
		return request{method: "POST", path: "/totp/generate", body: jsonObj(f), nowDependent: true}
	}
}

func genHostile(r *rng) request {
	paths := []string{"/totp/generate", "/totp/validate", "/hotp/generate", "/hotp/validate", "/ocra/generate", "/ocra/validate", "/ocra/suites", "/ocra/suite", "/otp/url", "/otp/secret", "/", "/nope", "/docs", "/totp/generate/", "/TOTP/generate"}
	p := pick(r, paths)
	switch r.intn(11) {
	case 0:
		return request{method: pick(r, []string{"GET", "PUT", "DELETE", "PATCH", "HEAD", "OPTIONS"}), path: p, body: []byte(`{"secret":"GEZDGNBVGY3TQOJQ"}`)}
	case 1:
		return request{method: "POST", path: p, body: pick(r, [][]byte{[]byte(`{`), []byte(``), []byte(`[]`), []byte(`null`), []byte(`"x"`), []byte(`{"secret":}`), []byte(`{"secret":"a"`), []byte("\x00\xff"), []byte(`{"secret":"GEZDGNBVGY3TQOJQ","x":{"y":[1,2,{"z":null}]}}`)})}
	case 2:
		vals := []string{`null`, `true`, `1`, `-1`, `1.5`, `"str"`, `[]`, `{}`, `18446744073709551615`, `18446744073709551616`, `9223372036854775808`, `-9223372036854775809`, `1e400`, `""`, `" "`}
		keys := []string{"secret", "code", "timestamp", "counter", "digits", "period", "skew", "algorithm", "raw_suite", "suite", "input", "type", "issuer", "account_name"}
		var parts []string
		for i := 0; i < 1+r.intn(4); i++ {
			parts = append(parts, fmt.Sprintf("%q:%s", pick(r, keys), pick(r, vals)))
		}
		if r.intn(2) == 0 {
			parts = append(parts, `"secret":"GEZDGNBVGY3TQOJQGEZDGNBVGY3TQOJQ"`, `"code":"123456"`)
		}
		return request{method: "POST", path: p, body: []byte("{" + strings.Join(parts, ",") + "}")}
	case 3:
		f := map[string]any{"secret": "GEZDGNBVGY3TQOJQGEZDGNBVGY3TQOJQ", "code": "000000", "timestamp": 2000000000,
			"skew": pick(r, []uint64{11, 1000, 30000000, 1 << 40, 1<<64 - 1}), "period": pick(r, []uint64{0, 1, 1 << 40, 1<<64 - 1})}
		return request{method: "POST", path: pick(r, []string{"/totp/validate", "/hotp/validate"}), body: jsonObj(f)}
	case 4:
		f := map[string]any{"secret": pick(r, []string{strings.Repeat("A", 100000), strings.Repeat(" ", 50000), "!!!", "ıııııııı"}), "code": strings.Repeat("9", 1+r.intn(2000)),
			"counter": uint64(1<<64 - 1), "timestamp": int64(1<<63 - 1)}
		return request{method: "POST", path: pick(r, paths[:4]), body: jsonObj(f)}
	case 5:
		o := map[string]any{"secret": "GEZDGNBVGY3TQOJQ", "raw_suite": pick(r, []string{" ", "\t", "OCRA-1:HOTP-SHA1-6:QN08 ", "nope", strings.Repeat("OCRA-1:", 1000)}),
			"suite": map[string]any{"hash_function": pick(r, []string{"SHA1", "x"}), "code_digits": pick(r, []int{-1, 0, 3, 6, 11, 1 << 40}), "challenge_format": pick(r, []int{-1, 0, 1, 7}),
				"include_challenge": true, "include_password": r.intn(2) == 0, "password_hash": pick(r, []int{0, 1, 9}), "include_timestamp": r.intn(2) == 0, "timestep": pick(r, []int{-1, 0, 60})},
			"input": map[string]any{"challenge_hex": pick(r, []string{"", "zz", "3132333435363738", strings.Repeat("ab", 200)})}, "code": "123456"}
		if r.intn(3) == 0 {
			delete(o, "input")
		}
		if r.intn(3) == 0 {
			delete(o, "suite")
		}
		return request{method: "POST", path: pick(r, []string{"/ocra/generate", "/ocra/validate"}), body: jsonObj(o)}
	case 8:
		// contradictory but individually valid parts: a usable suite object next to a blank / unusable raw suite text
		o := map[string]any{"secret": "GEZDGNBVGY3TQOJQGEZDGNBVGY3TQOJQ", "raw_suite": pick(r, []string{" ", "\t", " \n ", "\u00a0", "\u3000"}),
			"suite": map[string]any{"hash_function": pick(r, []string{"SHA1", "SHA256", "SHA512"}), "code_digits": pick(r, []int{6, 8, 10}), "challenge_format": 1, "include_challenge": true},
			"input": map[string]any{"challenge_hex": "3132333435363738"}, "code": "123456"}
		return request{method: "POST", path: pick(r, []string{"/ocra/generate", "/ocra/validate"}), body: jsonObj(o)}
	case 6:
		return request{method: "POST", path: p, body: bytes.Repeat([]byte(`{"secret":"GEZDGNBVGY3TQOJQ","a":"`+strings.Repeat("x", 1000)+`"}`), 1)}
	case 7:
		big := `{"secret":"` + strings.Repeat("A", 900*1024) + `"}`
		return request{method: "POST", path: pick(r, paths[:4]), body: []byte(big)}
	default:
		rq := genWellFormed(r)
		rq.path = p
		return rq
	}
}

// unicodeClassRequests: for every Unicode property and general category known to the standard library (Bidi_Control,
// White_Space, Join_Control, Noncharacter_Code_Point, …; Cf, Zl, Mn, Co, …) the first, the last and one other code point,
// percent-encoded in the request path (alone and inside a route name), in the query and as text inside a JSON body.  Whatever
// the service does with such text (routing, logging, decoding), it has to answer.
func unicodeClassRequests(r *rng) []request {
	var names []string
	tables := map[string]*unicode.RangeTable{}
	for n, t := range unicode.Properties {
		names = append(names, "A:"+n)
		tables["A:"+n] = t
	}
	for n, t := range unicode.Categories {
		names = append(names, "C:"+n)
		tables["C:"+n] = t
	}
	sort.Strings(names)
	seen := map[rune]bool{}
	var out []request
	for _, n := range names {
		t := tables[n]
		var cand []rune
		if len(t.R16) > 0 {
			cand = append(cand, rune(t.R16[0].Lo), rune(t.R16[len(t.R16)-1].Hi))
			x := t.R16[r.intn(len(t.R16))]
			cand = append(cand, rune(x.Lo)+rune(r.intn(int(x.Hi-x.Lo)/int(x.Stride)+1))*rune(x.Stride))
		}
		if len(t.R32) > 0 {
			cand = append(cand, rune(t.R32[0].Lo), rune(t.R32[len(t.R32)-1].Hi))
		}
		for _, c := range cand {
			if seen[c] || !utf8.ValidRune(c) || c < 0x80 {
				continue
			}
			seen[c] = true
			esc := url.PathEscape(string(c))
			switch len(out) % 4 {
			case 0:
				out = append(out, request{method: "GET", path: "/" + esc})
			case 1:
				out = append(out, request{method: pick(r, []string{"GET", "POST"}), path: "/totp/" + esc + "etareneg", body: []byte(`{"secret":"GEZDGNBVGY3TQOJQ"}`)})
			case 2:
				out = append(out, request{method: "GET", path: "/otp/secret", query: "algorithm=" + url.QueryEscape("SHA1"+string(c))})
			default:
				out = append(out, request{method: "POST", path: "/hotp/generate", body: jsonObj(map[string]any{"secret": "GEZDGNBV" + string(c) + "GY3TQOJQ", "counter": 1})})
			}
		}
	}
	return out
}

type result struct {
	status  int
	body    []byte
	latency time.Duration
	err     string
	now     int64
}

func send(client *http.Client, base string, rq request) result {
	u := base + rq.path
	if rq.query != "" {
		u += "?" + rq.query
	}
	var body io.Reader
	if rq.body != nil {
		body = bytes.NewReader(rq.body)
		if rq.framing == 1 {
			// a reader of unknown length: net/http then frames the body with Transfer-Encoding: chunked (what streaming
			// clients and re-framing proxies send); the service must read the same JSON out of it
			body = struct{ io.Reader }{bytes.NewReader(rq.body)}
		}
	}
	req, err := http.NewRequest(rq.method, u, body)
	if err != nil {
		return result{err: err.Error()}
	}
	if rq.body != nil {
		switch rq.framing {
		case 2:
			req.Header.Set("Content-Type", "application/json; charset=utf-8")
		case 3:
		case 4:
			req.Header.Set("Content-Type", "application/json")
			req.Header.Set("Expect", "100-continue")
		default:
			req.Header.Set("Content-Type", "application/json")
		}
	}
	now := time.Now().Unix()
	t0 := time.Now()
	resp, err := client.Do(req)
	if err != nil {
		return result{err: err.Error(), latency: time.Since(t0), now: now}
	}
	defer resp.Body.Close()
	b, err := io.ReadAll(resp.Body)
	res := result{status: resp.StatusCode, body: b, latency: time.Since(t0), now: now}
	if err != nil {
		res.err = "incomplete body: " + err.Error()
	}
	return res
}

func runDriver(driver string, lines []string) ([]string, error) {
	cmd := exec.Command(driver)
	cmd.Stdin = strings.NewReader(strings.Join(lines, "\n") + "\n")
	var out bytes.Buffer
	cmd.Stdout = &out
	cmd.Stderr = os.Stderr
	if err := cmd.Run(); err != nil {
		return nil, err
	}
	sc := bufio.NewScanner(&out)
	sc.Buffer(make([]byte, 1<<20), 1<<26)
	var res []string
	for sc.Scan() {
		res = append(res, strings.SplitN(sc.Text(), "\t", 2)[0])
	}
	if len(res) != len(lines) {
		return nil, fmt.Errorf("driver answered %d of %d", len(res), len(lines))
	}
	return res, nil
}

type violation struct {
	Kind  string `json:"kind"`
	Op    string `json:"op"`
	Impl  string `json:"impl"`
	Model string `json:"model"`
	HTTP  string `json:"http_request"`
}

// retype restores the Go types the request builder uses after a JSON round trip (numbers come back as float64)
// refHOTP6: the six-digit SHA-1 HOTP value (RFC 4226), computed here so that follow-up validations can carry a right code
func refHOTP6(key []byte, c uint64) string {
	var b [8]byte
	binary.BigEndian.PutUint64(b[:], c)
	m := hmac.New(sha1.New, key)
	m.Write(b[:])
	h := m.Sum(nil)
	o := h[len(h)-1] & 15
	v := (uint32(h[o])&0x7f)<<24 | uint32(h[o+1])<<16 | uint32(h[o+2])<<8 | uint32(h[o+3])
	return fmt.Sprintf("%06d", v%1000000)
}

func retype(m map[string]any) map[string]any {
	for k, v := range m {
		if x, ok := v.(float64); ok {
			switch k {
			case "timestamp":
				m[k] = int64(x)
			case "period":
				m[k] = int(x)
			default:
				m[k] = uint64(x)
			}
		}
	}
	return m
}

var exitWith = os.Exit

func main() {
	prop := flag.String("prop", "C18", "C18 or C19")
	seed := flag.Uint64("seed", 1, "")
	n := flag.Int("n", 400, "requests")
	driver := flag.String("driver", "/verif/lean/.lake/build/bin/driver", "")
	repo := flag.String("repo", "/repo", "")
	flag.Parse()
	buildDict()
	tmp, err := os.MkdirTemp("", "restcorr")
	if err != nil {
		fmt.Println(`{"error":"mktemp"}`)
		os.Exit(2)
	}
	defer os.RemoveAll(tmp)
	bin := filepath.Join(tmp, "otp-api")
	build := exec.Command("go", "build", "-o", bin, "./cmd")
	build.Dir = filepath.Join(*repo, "internal", "app")
	var env []string
	for _, kv := range os.Environ() {
		if strings.HasPrefix(kv, "GOFLAGS=") || strings.HasPrefix(kv, "GOWORK=") {
			continue
		}
		env = append(env, kv)
	}
	build.Env = append(env, "GOPROXY=off")
	if out, err := build.CombinedOutput(); err != nil {
		fmt.Printf(`{"error":"REST binary does not build: %s"}`+"\n", strings.ReplaceAll(strings.ReplaceAll(string(out), `"`, `'`), "\n", " "))
		os.Exit(3)
	}
	ln, _ := net.Listen("tcp", "127.0.0.1:0")
	port := ln.Addr().(*net.TCPAddr).Port
	ln.Close()
	addr := fmt.Sprintf("127.0.0.1:%d", port)
	srv := exec.Command(bin, "-serve", addr)
	srv.Stdout, srv.Stderr = io.Discard, io.Discard
	if err := srv.Start(); err != nil {
		fmt.Println(`{"error":"cannot start server"}`)
		os.Exit(3)
	}
	defer func() { srv.Process.Kill(); srv.Wait() }()
	exitWith = func(code int) { srv.Process.Kill(); srv.Wait(); os.RemoveAll(tmp); os.Exit(code) }
	base := "http://" + addr
	for i := 0; i < 100; i++ {
		if c, err := net.DialTimeout("tcp", addr, 100*time.Millisecond); err == nil {
			c.Close()
			break
		}
		time.Sleep(50 * time.Millisecond)
	}
	keep := &http.Client{Timeout: 8 * time.Second, CheckRedirect: func(*http.Request, []*http.Request) error { return http.ErrUseLastResponse }}
	fresh := func() *http.Client {
		return &http.Client{Timeout: 8 * time.Second, Transport: &http.Transport{DisableKeepAlives: true}, CheckRedirect: func(*http.Request, []*http.Request) error { return http.ErrUseLastResponse }}
	}
	// registered suites from the service itself
	if res := send(keep, base, request{method: "GET", path: "/ocra/suites"}); res.status == 200 {
		var m struct{ Suites []string }
		json.Unmarshal(res.body, &m)
		registered = m.Suites
		sort.Strings(registered)
	}
	if len(registered) == 0 {
		registered = []string{"OCRA-1:HOTP-SHA1-6:QN08"}
	}
	r := &rng{s: *seed}
	aged := &http.Client{Timeout: 8 * time.Second, Transport: &http.Transport{MaxIdleConnsPerHost: 1}, CheckRedirect: func(*http.Request, []*http.Request) error { return http.ErrUseLastResponse }}
	agedSecret := strings.TrimSpace(genSecret(r))
	agedAt := time.Now()
	agedFirst := request{method: "POST", path: "/totp/generate", body: jsonObj(map[string]any{"secret": agedSecret, "period": 1}), probe: true}
	agedFirstRes := send(aged, base, agedFirst)
	var reqs []request
	for i := 0; i < *n; i++ {
		if *prop == "C19" && i%5 != 4 {
			reqs = append(reqs, genHostile(r))
		} else {
			rq := genWellFormed(r)
			rq.probe = true
			reqs = append(reqs, rq)
		}
	}
	if *prop == "C19" {
		uc := unicodeClassRequests(r)
		if *n < 3000 && len(uc) > 120 {
			// quick tier: the properties in full (they are the classes software treats specially), a sample of the categories
			var keepU []request
			for i, q := range uc {
				if i < 90 || i%6 == 0 {
					keepU = append(keepU, q)
				}
			}
			uc = keepU
		}
		for i := range uc {
			uc[i].probe = true
		}
		reqs = append(uc, reqs...)
	}
	results := make([]result, len(reqs))
	// first third: sequential keep-alive; second third: fresh connections; last third: 8 concurrent clients
	a, b := len(reqs)/3, 2*len(reqs)/3
	for i := 0; i < a; i++ {
		results[i] = send(keep, base, reqs[i])
	}
	for i := a; i < b; i++ {
		results[i] = send(fresh(), base, reqs[i])
	}
	var wg sync.WaitGroup
	for w := 0; w < 8; w++ {
		wg.Add(1)
		go func(w int) {
			defer wg.Done()
			c := &http.Client{Timeout: 8 * time.Second, CheckRedirect: func(*http.Request, []*http.Request) error { return http.ErrUseLastResponse }}
			for i := b + w; i < len(reqs); i += 8 {
				results[i] = send(c, base, reqs[i])
			}
		}(w)
	}
	wg.Wait()
	// large answers under concurrency: 16 keep-alive clients, each asking for the provisioning URL of its own long issuer
	// and account (answers of 3-6 KiB); an answer assembled from anything shared between requests shows up as another
	// client's URL, a splice of two, or unparsable JSON
	{
		per := 12
		if *n >= 3000 {
			per = 120
		}
		nb := len(reqs)
		for w := 0; w < 16; w++ {
			for j := 0; j < per; j++ {
				long := func(tag string, k int) string {
					var sb strings.Builder
					for sb.Len() < k {
						fmt.Fprintf(&sb, "%s%d.%d-", tag, w, j)
					}
					return sb.String()
				}
				u := map[string]any{"type": pick(r, []string{"totp", "hotp"}), "secret": strings.TrimSpace(genSecret(r)),
					"issuer": long("iss", 900+r.intn(1400)), "account_name": long("acct", 900+r.intn(1400))}
				reqs = append(reqs, request{method: "POST", path: "/otp/url", body: jsonObj(u), probe: true})
			}
		}
		results = append(results, make([]result, len(reqs)-nb)...)
		for w := 0; w < 16; w++ {
			wg.Add(1)
			go func(w int) {
				defer wg.Done()
				c := &http.Client{Timeout: 8 * time.Second, Transport: &http.Transport{}, CheckRedirect: func(*http.Request, []*http.Request) error { return http.ErrUseLastResponse }}
				for j := 0; j < per; j++ {
					i := nb + w*per + j
					results[i] = send(c, base, reqs[i])
				}
				c.CloseIdleConnections()
			}(w)
		}
		wg.Wait()
	}
	// refusal -> omission chains: a request that is REFUSED (ill-typed member after well-typed ones, missing / bad secret,
	// refused skew, syntax error or garbage after complete members) but names every optional member with a non-default
	// value, immediately followed on the same connection by a well-formed request for the same endpoint that omits the
	// optional members.  The answer to the second one must not depend on the first (stateless handlers): anything a decoder
	// or a recycled request object kept from the refused body shows as the wrong digit count / hash / period / skew.
	{
		nb := len(reqs)
		sec := "GEZDGNBVGY3TQOJQGEZDGNBVGY3TQOJQ"
		optional := `"digits":"8","algorithm":"SHA256","period":60,"skew":2`
		type refusal struct{ pre, post string }
		refusals := []refusal{
			{`{"secret":"` + sec + `",` + optional + `,"digits":8}`, ""},    // a number where text is expected
			{`{"secret":"` + sec + `",` + optional + `,"period":"60"}`, ""}, // text where a number is expected
			{`{"secret":"` + sec + `",` + optional + `,"skew":"1","code":"123456"}`, ""},
			{`{"secret":"` + sec + `",` + optional + `,"counter":"5"}`, ""},
			{`{"secret":"` + sec + `",` + optional + `,"timestamp":"now"}`, ""},
			{`{"secret":"` + sec + `",` + optional + `,"code":123456}`, ""},
			{`{` + optional + `,"code":"123456","counter":9,"timestamp":59}`, ""},                                                               // no secret
			{`{"secret":"!!!",` + optional + `,"code":"123456","counter":9,"timestamp":59}`, ""},                                                // bad secret
			{`{"secret":"` + sec + `","digits":"8","algorithm":"SHA512","period":60,"skew":11,"code":"123456","counter":9,"timestamp":59}`, ""}, // refused skew
			{`{"secret":"` + sec + `",` + optional + `,`, ""},                                                                                   // syntax error after complete members
			{`{"secret":"` + sec + `",` + optional + `} trailing`, ""},
			{`{"secret":"` + sec + `",` + optional + `,"secret":7}`, ""},
		}
		follow := func(path string) request {
			f := map[string]any{"secret": strings.TrimSpace(genSecret(r))}
			switch path {
			case "/totp/generate":
				f["timestamp"] = int64(1 + r.intn(2000000000))
			case "/hotp/generate":
				f["counter"] = uint64(r.intn(1000))
			case "/totp/validate":
				f["timestamp"] = int64(1 + r.intn(2000000000))
				f["code"] = fmt.Sprintf("%06d", r.intn(1000000))
			case "/hotp/validate":
				f["counter"] = uint64(1 + r.intn(1000))
				f["code"] = fmt.Sprintf("%06d", r.intn(1000000))
			}
			return request{method: "POST", path: path, body: jsonObj(f), probe: true}
		}
		rounds := 2
		if *n >= 3000 {
			rounds = 12
		}
		for k := 0; k < rounds; k++ {
			for _, path := range []string{"/totp/generate", "/hotp/generate", "/totp/validate", "/hotp/validate"} {
				for _, rf := range refusals {
					reqs = append(reqs, request{method: "POST", path: path, body: []byte(rf.pre)}, follow(path))
				}
			}
		}
		// validation follow-ups that carry the RIGHT code of the default configuration: a stale digit count, hash, period or
		// skew turns an acceptance into a refusal (and, with a neighbouring counter's code, a refusal into an acceptance)
		for k := 0; k < rounds*6; k++ {
			rf := refusals[r.intn(len(refusals))]
			key := make([]byte, 20)
			for i := range key {
				key[i] = byte(r.next())
			}
			ks := base32.StdEncoding.WithPadding(base32.NoPadding).EncodeToString(key)
			c := uint64(5 + r.intn(1000))
			dist := uint64(r.intn(5)) - 2
			code := refHOTP6(key, c+dist)
			if r.intn(2) == 0 {
				reqs = append(reqs, request{method: "POST", path: "/hotp/validate", body: []byte(rf.pre)},
					request{method: "POST", path: "/hotp/validate", body: jsonObj(map[string]any{"secret": ks, "counter": c, "code": code}), probe: true})
			} else {
				reqs = append(reqs, request{method: "POST", path: "/totp/validate", body: []byte(rf.pre)},
					request{method: "POST", path: "/totp/validate", body: jsonObj(map[string]any{"secret": ks, "timestamp": int64(c*30 + 7), "code": code}), probe: true})
			}
		}
		results = append(results, make([]result, len(reqs)-nb)...)
		for i := nb; i < len(reqs); i++ {
			results[i] = send(keep, base, reqs[i])
		}
	}
	// framing variants: the same well-formed requests under the other ways HTTP lets a client frame a JSON body (chunked
	// transfer encoding, a charset parameter, no content type, Expect: 100-continue); the answer is a function of the body
	{
		nb := len(reqs)
		k := 0
		for i := 0; i < nb && k < 48; i++ {
			if !reqs[i].probe || reqs[i].body == nil || reqs[i].method != "POST" || usesClockPath(reqs[i]) || results[i].status != 200 {
				continue
			}
			rq := reqs[i]
			rq.framing = 1 + k%4
			if k%2 == 0 {
				rq.framing = 1
			}
			reqs = append(reqs, rq)
			k++
		}
		results = append(results, make([]result, len(reqs)-nb)...)
		for i := nb; i < len(reqs); i++ {
			results[i] = send(fresh(), base, reqs[i])
		}
	}
	// generate -> validate chains: the code one endpoint returns must validate at the matching endpoint
	chains := 0
	for i := 0; i < len(reqs) && chains < 60; i++ {
		rq := reqs[i]
		if results[i].status != 200 || usesClockPath(rq) || !(rq.path == "/totp/generate" || rq.path == "/hotp/generate" || rq.path == "/ocra/generate") {
			continue
		}
		var resp struct{ Code string }
		var f map[string]any
		if json.Unmarshal(results[i].body, &resp) != nil || json.Unmarshal(rq.body, &f) != nil || resp.Code == "" {
			continue
		}
		f["code"] = resp.Code
		if chains%3 == 1 {
			f["code"] = resp.Code[:len(resp.Code)-1] + string('0'+(resp.Code[len(resp.Code)-1]-'0'+1)%10)
		}
		if chains%5 == 3 {
			f["code"] = pick(r, []string{" " + resp.Code, resp.Code + "\n", "\t" + resp.Code + "\r\n", resp.Code + " "})
		}
		if rq.path != "/ocra/generate" && chains%4 == 2 {
			f["skew"] = 1 + r.intn(3)
		}
		vr := request{method: "POST", path: strings.Replace(rq.path, "generate", "validate", 1), body: jsonObj(f), probe: true}
		reqs = append(reqs, vr)
		results = append(results, send(keep, base, vr))
		if rq.path != "/ocra/generate" {
			// neighbouring steps: first with an explicit skew that covers the distance, then the same distance with the skew
			// omitted (default 0: must be refused) — a server that remembers anything of the previous request answers wrongly
			shift := func(g map[string]any, d int64) {
				if rq.path == "/hotp/generate" {
					c, _ := g["counter"].(uint64)
					g["counter"] = c + uint64(d)
				} else {
					per := int64(30)
					switch p := g["period"].(type) {
					case int:
						if p > 0 {
							per = int64(p)
						}
					}
					ts, _ := g["timestamp"].(int64)
					g["timestamp"] = ts + d*per
				}
			}
			var g1, g2 map[string]any
			json.Unmarshal(rq.body, &g1)
			json.Unmarshal(rq.body, &g2)
			g1, g2 = retype(g1), retype(g2)
			d := int64(1 + r.intn(3))
			if r.intn(2) == 0 {
				d = -d
			}
			g1["code"], g2["code"] = resp.Code, resp.Code
			shift(g1, d)
			shift(g2, d)
			g1["skew"] = uint64(3)
			delete(g2, "skew")
			ok1, ok2 := true, true
			if rq.path == "/totp/generate" {
				t1, _ := g1["timestamp"].(int64)
				ok1, ok2 = t1 > 0, t1 > 0
			}
			if ok1 && ok2 {
				for _, g := range []map[string]any{g1, g2} {
					v2 := request{method: "POST", path: strings.Replace(rq.path, "generate", "validate", 1), body: jsonObj(g), probe: true}
					reqs = append(reqs, v2)
					results = append(results, send(keep, base, v2))
				}
			}
		}
		chains++
	}
	// aged connection: the dedicated keep-alive connection opened before the first phase has by now been open for a
	// while; requests that leave the instant to the server must be answered for the instant of the request, not for
	// anything remembered from when the connection (or an earlier request on it) arrived
	if d := 2300*time.Millisecond - time.Since(agedAt); d > 0 {
		time.Sleep(d)
	}
	for k := 0; k < 6; k++ {
		f := map[string]any{"secret": agedSecret, "period": 1 + k%3}
		if k >= 3 {
			f["timestamp"] = pick(r, []int64{0, -1, -1 << 40})
		}
		rq := request{method: "POST", path: "/totp/generate", body: jsonObj(f), probe: true}
		reqs = append(reqs, rq)
		results = append(results, send(aged, base, rq))
		if k == 2 {
			time.Sleep(1100 * time.Millisecond)
		}
	}
	reqs = append(reqs, agedFirst)
	results = append(results, agedFirstRes)
	aged.CloseIdleConnections()
	alive := send(fresh(), base, request{method: "GET", path: "/"}).status == 200

	// model answers; requests that make the server read its clock (no positive timestamp on /totp/*) are
	// evaluated at the recorded clock and the following 3 seconds, any of which is accepted
	usesClock := func(rq request) bool {
		if !strings.HasPrefix(rq.path, "/totp/") {
			return false
		}
		f := strings.Fields(bodyFields(rq.path, rq.body))
		return len(f) > 3 && f[0] == "otp" && (strings.HasPrefix(f[3], "-") || f[3] == "0")
	}
	var lines []string
	nalt := make([]int, len(reqs))
	for i, rq := range reqs {
		k := 1
		if usesClock(rq) {
			k = 4
		}
		nalt[i] = k
		for d := 0; d < k; d++ {
			lines = append(lines, opLine(rq, results[i].now+int64(d)))
		}
	}
	model, err := runDriver(*driver, lines)
	if err != nil {
		fmt.Printf(`{"error":"driver: %v"}`+"\n", err)
		exitWith(2)
	}
	var viol []violation
	statuses := map[int]int{}
	endpoints := map[string]int{}
	maxLat := time.Duration(0)
	compared := 0
	distinct := map[string]bool{}
	var samples []string
	li := 0
	for i, rq := range reqs {
		res := results[i]
		alts := model[li : li+nalt[i]]
		li += nalt[i]
		m1 := alts[0]
		statuses[res.status]++
		endpoints[rq.method+" "+rq.path]++
		if res.latency > maxLat {
			maxLat = res.latency
		}
		httpReq := fmt.Sprintf("%s %s?%s %s", rq.method, rq.path, rq.query, trunc(string(rq.body), 300))
		if res.err != "" {
			viol = append(viol, violation{"no complete response: " + res.err, lines[0], "-", m1, httpReq})
			continue
		}
		if res.latency > 3*time.Second {
			viol = append(viol, violation{fmt.Sprintf("slow response: %v", res.latency), opLine(rq, res.now), fmt.Sprint(res.status), m1, httpReq})
		}
		impl := canonResp(rq.path, res.status, res.body)
		distinct[opLine(rq, 0)] = true
		if strings.HasPrefix(rq.path, "/docs/") || m1 == "bad-op" {
			continue
		}
		compared++
		if len(samples) < 5 && i%(len(reqs)/5+1) == 0 {
			samples = append(samples, httpReq+"  =>  "+trunc(impl, 100))
		}
		matched := false
		for _, a := range alts {
			if impl == a {
				matched = true
			}
		}
		if !matched {
			viol = append(viol, violation{"impl-vs-model", opLine(rq, res.now), impl, m1, httpReq})
		}
	}
	if !alive {
		viol = append(viol, violation{"server no longer answers after the run", "GET /", "dead", "200 home", "GET /"})
	}
	if len(viol) > 20 {
		viol = viol[:20]
	}
	out := map[string]any{
		"coverage": map[string]any{"requests": len(reqs), "compared_with_model": compared, "distinct_requests": len(distinct), "status_histogram": statuses, "endpoint_histogram": endpoints,
			"max_latency_ms": maxLat.Milliseconds(), "phases": "sequential keep-alive / fresh connections / 8 concurrent clients / 16 concurrent clients with 3-6 KiB answers / clock-reading requests on a connection aged >= 2.3 s", "alive_at_end": alive, "generate_validate_chains": chains, "samples": samples},
		"violations": viol,
	}
	json.NewEncoder(os.Stdout).Encode(out)
	if len(viol) > 0 {
		exitWith(1)
	}
}

func usesClockPath(rq request) bool {
	if !strings.HasPrefix(rq.path, "/totp/") {
		return false
	}
	f := strings.Fields(bodyFields(rq.path, rq.body))
	return len(f) > 3 && f[0] == "otp" && (strings.HasPrefix(f[3], "-") || f[3] == "0")
}

func trunc(s string, n int) string {
	if len(s) > n {
		return s[:n] + "…"
	}
	return s
}
