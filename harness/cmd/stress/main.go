// stress: concurrency / history search for C11 (and C12 canaries under concurrency).
// 1..64 goroutines issue mixed HOTP/TOTP/OCRA/suite calls, runtime.GC() at random points, an adversary
// goroutine takes buffers from the library's pools (verif hook), scribbles over them and puts them back.
// Every result is compared with an independent sequential reference, and returned code strings are kept
// (not copied) and re-checked after later calls.  Built with -race when the toolchain allows it.
// This run *supports* the pool/ownership abstraction of the Lean model; it is not the proof.
package main

import (
	"strings"
	"sort"
	"os/exec"
	"crypto/hmac"
	"crypto/sha1"
	"crypto/sha256"
	"crypto/sha512"
	"encoding/base32"
	"encoding/binary"
	"encoding/json"
	"flag"
	"fmt"
	"hash"
	"os"
	"runtime"
	"sync"
	"sync/atomic"
	"time"

	"github.com/ja7ad/otp"
)

type rng struct{ s uint64 }

func (r *rng) next() uint64 {
	r.s += 0x9E3779B97F4A7C15
	z := r.s
	z = (z ^ (z >> 30)) * 0xBF58476D1CE4E5B9
	z = (z ^ (z >> 27)) * 0x94D049BB133111EB
	return z ^ (z >> 31)
}
func (r *rng) intn(n int) int { return int(r.next() % uint64(n)) }

func refHMAC(a int, k, m []byte) []byte {
	var h func() hash.Hash
	switch a {
	case 0:
		h = sha1.New
	case 1:
		h = sha256.New
	default:
		h = sha512.New
	}
	mac := hmac.New(h, k)
	mac.Write(m)
	return mac.Sum(nil)
}

func code(sum []byte, digits int) string {
	o := sum[len(sum)-1] & 15
	v := uint64(binary.BigEndian.Uint32(sum[o:o+4]) & 0x7fffffff)
	m := uint64(1)
	for i := 0; i < digits; i++ {
		m *= 10
	}
	return fmt.Sprintf("%0*d", digits, v%m)
}

type violation struct {
	Kind string `json:"kind"`
	Op   string `json:"op"`
	Impl string `json:"impl"`
	Want string `json:"model"`
}

func main() {
	seed := flag.Uint64("seed", 1, "")
	dur := flag.Duration("dur", 4*time.Second, "")
	cold := flag.String("cold", "", "internal: cold-start child; the argument is the file with the expected answers")
	coldRuns := flag.Int("coldruns", 12, "number of cold-start child processes")
	flag.Parse()
	if *cold != "" {
		runCold(*cold)
		return
	}
	var mu sync.Mutex
	var viol []violation
	var calls, kept int64
	report := func(v violation) {
		mu.Lock()
		if len(viol) < 20 {
			viol = append(viol, v)
		}
		mu.Unlock()
	}
	suites := otp.ListSuites()
	defaultsH, defaultsT := *otp.DefaultHOTPParam, *otp.DefaultTOTPParam
	deadline := time.Now().Add(*dur)
	p1, p2 := otp.VerifPools()
	msgCap := 256
	if b, ok := p2.Get().(*[]byte); ok && b != nil {
		if cap(*b) > 0 {
			msgCap = cap(*b) // capacity of the pooled OCRA message buffer of this tree
		}
		p2.Put(b)
	}
	configs := []struct{ g, procs int }{{64, 16}, {8, 4}, {2, 2}, {16, 1}, {1, 1}} // high concurrency first: first-use effects (lazy initialisation) must happen under contention
	per := *dur / time.Duration(len(configs))
	for ci, cf := range configs {
		runtime.GOMAXPROCS(cf.procs)
		stop := time.Now().Add(per)
		if stop.After(deadline) {
			stop = deadline
		}
		var wg sync.WaitGroup
		var done int32
		// adversary
		wg.Add(1)
		go func() {
			defer wg.Done()
			r := &rng{s: *seed*31 + uint64(ci)}
			for atomic.LoadInt32(&done) == 0 {
				if b, ok := p1.Get().(*[8]byte); ok && b != nil {
					for i := range b {
						b[i] = byte(r.next())
					}
					p1.Put(b)
				}
				if b, ok := p2.Get().(*[]byte); ok && b != nil {
					s := (*b)[:cap(*b)]
					for i := range s {
						s[i] = byte(r.next())
					}
					*b = s[:r.intn(len(s)+1)]
					p2.Put(b)
				}
				if r.intn(50) == 0 {
					runtime.GC()
				}
				runtime.Gosched()
			}
		}()
		for g := 0; g < cf.g; g++ {
			wg.Add(1)
			go func(g int) {
				defer wg.Done()
				r := &rng{s: *seed*1000003 + uint64(ci*100+g)}
				type keptT struct{ s, want, op string }
				var keep []keptT
				for time.Now().Before(stop) {
					key := make([]byte, 1+r.intn(70))
					for i := range key {
						key[i] = byte(r.next())
					}
					secret := base32.StdEncoding.WithPadding(base32.NoPadding).EncodeToString(key)
					digits := 1 + r.intn(10)
					algo := r.intn(3)
					atomic.AddInt64(&calls, 1)
					switch r.intn(5) {
					case 0, 1:
						c := r.next() >> uint(r.intn(64))
						var cb [8]byte
						binary.BigEndian.PutUint64(cb[:], c)
						want := code(refHMAC(algo, key, cb[:]), digits)
						got, err := otp.GenerateHOTP(secret, c, &otp.Param{Digits: otp.Digits(digits), Algorithm: otp.Algorithm(algo)})
						op := fmt.Sprintf("GenerateHOTP key=%x counter=%d digits=%d algo=%d", key, c, digits, algo)
						if err != nil || got != want {
							report(violation{"concurrent-result", op, got, want})
						}
						if len(keep) < 64 {
							keep = append(keep, keptT{got, want, op})
						}
						ok, _ := otp.ValidateHOTP(secret, want, c, &otp.Param{Digits: otp.Digits(digits), Algorithm: otp.Algorithm(algo), Skew: uint(r.intn(3))})
						if !ok {
							report(violation{"concurrent-validate", op, "false", "true"})
						}
					case 2:
						sec := int64(r.next() >> uint(2+r.intn(40)))
						per := uint(1 + r.intn(90))
						var cb [8]byte
						binary.BigEndian.PutUint64(cb[:], uint64(sec)/uint64(per))
						want := code(refHMAC(algo, key, cb[:]), digits)
						got, err := otp.GenerateTOTP(secret, time.Unix(sec, 0), &otp.Param{Digits: otp.Digits(digits), Algorithm: otp.Algorithm(algo), Period: per})
						op := fmt.Sprintf("GenerateTOTP key=%x sec=%d period=%d digits=%d algo=%d", key, sec, per, digits, algo)
						if err != nil || got != want {
							report(violation{"concurrent-result", op, got, want})
						}
						if len(keep) < 64 {
							keep = append(keep, keptT{got, want, op})
						}
					case 3:
						name := suites[r.intn(len(suites))]
						su, err := otp.NewRawSuite(name)
						if err != nil {
							report(violation{"suite", name, err.Error(), "ok"})
							continue
						}
						cfg := su.Config()
						if r.intn(3) == 0 {
							// a configuration built by the program (any Raw text is allowed there): its length is chosen so that
							// the HMAC message ends exactly at, just below or just above the capacity of the pooled message
							// buffer (and at a few other powers of two) — the lengths at which "did append reallocate" flips
							c := otp.SuiteConfig{Hash: otp.Algorithm(algo), Digits: 4 + r.intn(7), Challenge: otp.ChallengeFormat(1 + r.intn(6)), PasswordHash: otp.PasswordHashAlgorithm(1 + r.intn(3)), TimeStep: 1 + r.intn(60)}
							c.IncludeCounter, c.IncludeChallenge, c.IncludePassword, c.IncludeSession, c.IncludeTimestamp = r.intn(2) == 0, r.intn(3) != 0, r.intn(3) == 0, r.intn(3) == 0, r.intn(2) == 0
							fixed := 1
							if c.IncludeCounter {
								fixed += 8
							}
							if c.IncludeChallenge {
								fixed += 128
							}
							if c.IncludePassword {
								fixed += []int{0, 20, 32, 64}[c.PasswordHash]
							}
							if c.IncludeSession {
								fixed += 128
							}
							if c.IncludeTimestamp {
								fixed += 8
							}
							target := []int{msgCap, msgCap, msgCap - 1, msgCap + 1, 2 * msgCap, 128, 64, 512}[r.intn(8)] - fixed
							if target < 1 {
								target = 1 + r.intn(40)
							}
							raw := make([]byte, target)
							for i := range raw {
								raw[i] = "OCRA-1:HTPSQN08"[r.intn(15)]
							}
							c.Raw = string(raw)
							name = c.Raw
							if r.intn(2) == 0 {
								su = c
							} else {
								su = otp.RawSuite{SuiteConfig: c}
							}
							cfg = c
						}
						in := otp.OCRAInput{}
						msg := append([]byte(name), 0)
						fill := func(n int) []byte {
							b := make([]byte, n)
							for i := range b {
								b[i] = byte(r.next())
							}
							return b
						}
						pad := func(b []byte, n int) []byte { o := make([]byte, n); copy(o, b); return o }
						if cfg.IncludeCounter {
							in.Counter = fill(8)
							msg = append(msg, in.Counter...)
						}
						if cfg.IncludeChallenge {
							in.Challenge = fill(10 + r.intn(119))
							msg = append(msg, pad(in.Challenge, 128)...)
						}
						if cfg.IncludePassword {
							in.Password = fill([]int{0, 20, 32, 64}[cfg.PasswordHash])
							msg = append(msg, in.Password...)
						}
						if cfg.IncludeSession {
							in.SessionInfo = fill(r.intn(129))
							msg = append(msg, pad(in.SessionInfo, 128)...)
						}
						if cfg.IncludeTimestamp {
							in.Timestamp = fill(8)
							msg = append(msg, in.Timestamp...)
						}
						want := code(refHMAC(int(cfg.Hash), key, msg), cfg.Digits)
						got, err := otp.GenerateOCRA(secret, su, in)
						op := fmt.Sprintf("GenerateOCRA key=%x suite=%s cfg=%+v message-bytes=%d", key, name, cfg, len(msg))
						if err != nil || got != want {
							report(violation{"concurrent-result", op, got, want})
						}
					default:
						n := suites[r.intn(len(suites))]
						if !otp.IsKnownSuite(n) || otp.SuiteConfigFromRaws(n).Digits == 0 {
							report(violation{"registry", n, "unknown", "known"})
						}
						_ = otp.ListSuites()
					}
					if r.intn(200) == 0 {
						runtime.GC()
					}
				}
				for _, k := range keep {
					atomic.AddInt64(&kept, 1)
					if k.s != k.want {
						report(violation{"retained-string-changed", k.op, k.s, k.want})
					}
				}
			}(g)
		}
		time.Sleep(time.Until(stop))
		atomic.StoreInt32(&done, 1)
		wg.Wait()
	}
	// cold starts: fresh processes whose very first library calls happen concurrently (lazy initialisation, first use of
	// the pools and tables under contention).  This (warm) process supplies the expected answers.
	coldViol, coldRaces := coldStarts(*coldRuns, *seed)
	for _, v := range coldViol {
		report(v)
	}
	if coldRaces != "" {
		fmt.Fprintln(os.Stderr, coldRaces)
	}
	if *otp.DefaultHOTPParam != defaultsH || *otp.DefaultTOTPParam != defaultsT {
		report(violation{"defaults-changed", "Default*Param", fmt.Sprint(*otp.DefaultHOTPParam, *otp.DefaultTOTPParam), fmt.Sprint(defaultsH, defaultsT)})
	}
	out := map[string]any{
		"coverage": map[string]any{"concurrent_calls": calls, "retained_strings_rechecked": kept, "configs": "goroutines x GOMAXPROCS: 64x16, 8x4, 2x2, 16x1, 1x1; adversary on both pools; random GCs", "race_detector": raceEnabled, "cold_start_processes": *coldRuns},
		"violations": viol,
	}
	json.NewEncoder(os.Stdout).Encode(out)
	if len(viol) > 0 {
		os.Exit(1)
	}
}


// ---- cold starts ----

type coldCase struct {
	Op   string `json:"op"`
	Want string `json:"want"`
}

func coldAnswer(op string) string {
	f := strings.SplitN(op, " ", 3)
	key := "GEZDGNBVGY3TQOJQGEZDGNBVGY3TQOJQ"
	switch f[0] {
	case "list":
		l := otp.ListSuites()
		sort.Strings(l)
		return strings.Join(l, ",")
	case "known":
		return fmt.Sprint(otp.IsKnownSuite(f[1]))
	case "cfg":
		return fmt.Sprintf("%+v", otp.SuiteConfigFromRaws(f[1]))
	case "newraw":
		s, err := otp.NewRawSuite(f[1])
		if err != nil {
			return "err"
		}
		return fmt.Sprintf("%s %+v", s.String(), s.Config())
	case "hotp":
		c, err := otp.GenerateHOTP(key, 7, nil)
		return fmt.Sprint(c, err)
	case "hotp8":
		c, err := otp.GenerateHOTP(key, 7, &otp.Param{Digits: 8, Algorithm: otp.SHA512})
		return fmt.Sprint(c, err)
	case "totp":
		c, err := otp.GenerateTOTP(key, time.Unix(59, 0), nil)
		return fmt.Sprint(c, err)
	case "vhotp":
		ok, err := otp.ValidateHOTP(key, "162583", 7, nil)
		return fmt.Sprint(ok, err)
	case "ocra":
		s, err := otp.NewRawSuite(f[1])
		if err != nil {
			return "err"
		}
		c, err := otp.GenerateOCRA(key, s, otp.OCRAInput{Counter: otp.To8ByteBigEndian(3), Challenge: []byte("12345678"), Password: make([]byte, 20), SessionInfo: []byte("s"), Timestamp: otp.To8ByteBigEndian(99)})
		return fmt.Sprint(c, err != nil)
	case "dec":
		b, err := otp.DecodeSecret(f[1])
		return fmt.Sprint(b, err != nil)
	case "fromstr":
		return fmt.Sprint(otp.DigitsFromStr(f[1]), otp.AlgorithmFromStr(f[1]), otp.Algorithm(1).String())
	case "rnd":
		s, err := otp.RandomSecret(otp.SHA1)
		return fmt.Sprint(len(s), err)
	case "url":
		u, err := otp.GenerateTOTPURL(otp.URLParam{Issuer: "My Co", AccountName: "a@b", Secret: key})
		if err != nil {
			return "err"
		}
		return u.String()
	}
	return "?"
}

func coldOps() []string {
	return []string{"list", "list", "known OCRA-1:HOTP-SHA1-6:QN08", "known nope", "cfg OCRA-1:HOTP-SHA256-8:C-QN08-PSHA1", "newraw OCRA-1:HOTP-SHA1-6:QN08",
		"newraw OCRA-1:HOTP-SHA512-7:QN10-T5M", "newraw OCRA-1:HOTP-SHA1-6:C", "hotp", "hotp8", "totp", "vhotp", "ocra OCRA-1:HOTP-SHA1-6:QN08",
		"ocra OCRA-1:HOTP-SHA512-8:C-QN08-PSHA1-S064-T1M", "dec gezdgnbvgy3tqojq", "fromstr 8", "fromstr SHA256", "rnd", "url"}
}

// runCold: the child.  Nothing of the library has run yet in this process; all operations start together.
func runCold(expectFile string) {
	data, _ := os.ReadFile(expectFile)
	var cases []coldCase
	json.Unmarshal(data, &cases)
	n := len(cases) * 3
	res := make([]string, n)
	start := make(chan struct{})
	var wg sync.WaitGroup
	for i := 0; i < n; i++ {
		wg.Add(1)
		go func(i int) {
			defer wg.Done()
			defer func() {
				if e := recover(); e != nil {
					res[i] = fmt.Sprint("panic: ", e)
				}
			}()
			<-start
			res[i] = coldAnswer(cases[i%len(cases)].Op)
		}(i)
	}
	close(start)
	wg.Wait()
	bad := 0
	for i, r := range res {
		if c := cases[i%len(cases)]; r != c.Want {
			fmt.Printf("COLD-MISMATCH %q got %q want %q\n", c.Op, r, c.Want)
			bad++
		}
	}
	if bad > 0 {
		os.Exit(1)
	}
}

func coldStarts(runs int, seed uint64) (viol []violation, races string) {
	self, err := os.Executable()
	if err != nil || runs <= 0 {
		return nil, ""
	}
	var cases []coldCase
	for _, op := range coldOps() {
		cases = append(cases, coldCase{op, coldAnswer(op)})
	}
	f, err := os.CreateTemp("", "stress-cold-*.json")
	if err != nil {
		return nil, ""
	}
	defer os.Remove(f.Name())
	data, _ := json.Marshal(cases)
	f.Write(data)
	f.Close()
	for k := 0; k < runs; k++ {
		cmd := exec.Command(self, "-cold", f.Name())
		cmd.Env = append(os.Environ(), fmt.Sprintf("GOMAXPROCS=%d", []int{16, 8, 4, 2}[k%4]))
		out, err := cmd.CombinedOutput()
		text := string(out)
		if strings.Contains(text, "DATA RACE") && races == "" {
			i := strings.Index(text, "WARNING: DATA RACE")
			if i < 0 {
				i = 0
			}
			races = text[i:]
			if len(races) > 3000 {
				races = races[:3000]
			}
		}
		for _, l := range strings.Split(text, "\n") {
			if strings.HasPrefix(l, "COLD-MISMATCH") && len(viol) < 5 {
				viol = append(viol, violation{"cold-start: first concurrent use of the library gives a different answer", l, "", ""})
			}
		}
		if err != nil && !strings.Contains(text, "COLD-MISMATCH") && !strings.Contains(text, "DATA RACE") && len(viol) < 5 {
			viol = append(viol, violation{"cold-start child failed", trimTo(text, 300), "", ""})
		}
	}
	return viol, races
}

func trimTo(s string, n int) string {
	if len(s) > n {
		return s[:n]
	}
	return s
}
