#!/bin/bash
# Offline setup: regenerate Gen from /repo, build the Lean project (library, all Props, driver) and the Go harness.
set -e
cd "$(dirname "$0")"
export GOFLAGS=-mod=mod GOPROXY=off GOWORK=off
mkdir -p harness/bin evidence/replays
( cd harness && ( go build -tags verif,verif_internal -o bin/corr ./cmd/corr && go build -tags verif,verif_internal -o bin/extract ./cmd/extract ) \
   || ( go build -tags verif -o bin/corr ./cmd/corr && go build -tags verif -o bin/extract ./cmd/extract ) )
./harness/bin/extract lean/OtpVerif/Gen || true
( cd harness && go build -o bin/ssafacts ./cmd/ssafacts && mkdir -p /verif/lean/.lake && VERIF_VC_OUT=/verif/lean/.lake/PanicVC.candidates ./bin/ssafacts /verif/lean/OtpVerif/Gen/Sites.lean && python3 /verif/tools/vcfilter.py /verif/lean/.lake/PanicVC.candidates /verif/lean/OtpVerif/Gen/PanicVC.lean /verif/lean || true )
( cd harness && go build -o bin/restcorr ./cmd/restcorr && go build -o bin/wasmcorr ./cmd/wasmcorr && ( GOFLAGS= GOWORK= ./bin/wasmcorr -exports /verif/lean/OtpVerif/Gen/JsExports.lean || true ) || true )
( cd harness && go build -race -tags verif -o bin/stress ./cmd/stress || go build -tags verif -o bin/stress ./cmd/stress || true )
cd lean
lake build OtpVerif driver 2>&1 | tail -5
