#!/bin/bash
# Offline setup: regenerate Gen from /repo, build the Lean project (library, all Props, driver) and the Go harness.
set -e
cd "$(dirname "$0")"
export GOFLAGS=-mod=mod GOPROXY=off GOWORK=off
mkdir -p harness/bin evidence/replays
[ -f /repo/go.sum ] && cp /repo/go.sum harness/go.sum
( cd harness && ( go build -tags verif,verif_internal -o bin/corr ./cmd/corr && go build -tags verif,verif_internal -o bin/extract ./cmd/extract ) \
   || ( go build -tags verif -o bin/corr ./cmd/corr && go build -tags verif -o bin/extract ./cmd/extract ) )
./harness/bin/extract lean/OtpVerif/Gen || true
( cd harness && for t in $(ls cmd | grep -v -e '^corr$' -e '^extract$'); do go build -tags verif -o bin/$t ./cmd/$t || true; done )
cd lean
lake build OtpVerif driver 2>&1 | tail -5
