#!/usr/bin/env python3
"""writes MANIFEST.json from checklib.PROPS + manifest_text.py (kept in one place so they cannot drift)"""
import json, sys
sys.path.insert(0, "/verif")
from checklib import PROPS
from manifest_text import LEVEL, NOT_APPLICABLE, HOOK_COMMITS
allp = [json.loads(l)["id"] for l in open("/verif/properties.jsonl")]
checks = []
for pid in allp:
    if pid not in PROPS:
        continue
    t = LEVEL[pid]
    checks.append({
        "property_id": pid,
        "quick_cmd": "./check %s --tier quick" % pid,
        "thorough_cmd": "./check %s --tier thorough" % pid,
        "replay_cmd_template": "./check %s --replay {path}" % pid,
        "evidence_file": "evidence/%s.json" % pid,
        "engine": "lean-proofs+go-corr",
        "level_claimed": {"category": "proof", "text": t["text"], "design_ref": "DESIGN.md §4 " + pid},
        "level_note": t["note"],
        "technique": t["technique"],
    })
na = [{"property_id": p, "reason": NOT_APPLICABLE.get(p, "check not built yet in this session; see DESIGN.md")} for p in allp if p not in PROPS]
m = {
    "version": 1,
    "setup_cmd": "./setup.sh",
    "hooks": {"guard": "verif", "enable": "go build -tags verif,verif_internal (harness module with replace github.com/ja7ad/otp => /repo)",
              "baseline_off_cmd": "cd /repo && GOPROXY=off go test -vet=off -count=1 ./... && cd internal/app && GOPROXY=off go test -vet=off -count=1 ./...",
              "source_commits": HOOK_COMMITS, "add_only": True},
    "engines": [
        {"name": "lean-proofs", "path": "lean/", "serves_properties": sorted(PROPS), "kind_free_text": "Lean 4 project: Spec, Model, regenerated Gen tables, Lemmas, Props/Cxx.lean with the property theorems; kernel-checked on every run, axioms audited"},
        {"name": "go-extract", "path": "harness/cmd/extract", "serves_properties": sorted(PROPS), "kind_free_text": "regenerates lean/OtpVerif/Gen/*.lean from /repo's working tree (hooks + exported API)"},
        {"name": "go-corr", "path": "harness/cmd/corr", "serves_properties": sorted(PROPS), "kind_free_text": "in-process differential run: implementation vs compiled Lean model/spec driver on generated op lines; shrinking; corpus"},
    ],
    "checks": checks,
    "not_applicable": na,
    "notes": "VERIF_SEED seeds the single PRNG of the correspondence generators; VERIF_TIER is honoured. Every check rebuilds the harness from /repo's working tree, regenerates the Gen facts, re-checks the theorems and re-runs the correspondence.",
}
json.dump(m, open("/verif/MANIFEST.json", "w"), indent=1)
print("MANIFEST.json:", len(checks), "checks,", len(na), "not_applicable")
