#!/usr/bin/env python3
"""Rewrites the detection table of DESIGN.md §8.5 from seeded/RESULTS.tsv and seeded/*/notes.md."""
import os, re
V = os.path.dirname(os.path.dirname(os.path.abspath(__file__)))
rows = []
for line in open(os.path.join(V, "seeded", "RESULTS.tsv")):
    f = line.rstrip("\n").split("\t")
    if len(f) < 3: continue
    name, pid, verdict = f[0], f[1], f[2]
    first = f[3] if len(f) > 3 else ""
    title = ""
    try:
        for l in open(os.path.join(V, "seeded", name, "notes.md")):
            if l.startswith("# "):
                title = re.sub(r"^#\s*C\d+\s*[/ -]*\s*(seed)?\s*[ab]\s*[—:-]*\s*", "", l.strip(), flags=re.I); break
    except OSError: pass
    how = first.split("|")[0].strip()
    if how.startswith("BROKEN:"):
        m = re.match(r"BROKEN:\s*(\S+)", how)
        if "verif_internal" in how: how = "internal hook wrappers no longer compile (helper signature changed) + search"
        else: how = "proof obligation `%s` + search" % m.group(1).rstrip(":") if m else how
    elif how.startswith("WITNESS:"):
        how = how[len("WITNESS:"):].strip()
    rows.append("| %s | %s | %s | %s |" % (name, title.replace("|", "/"), verdict.replace("detected", "yes").replace("(with failing input)", ", failing input"), how.replace("|", "/")[:110]))
tbl = "| change | what it does | detected | first signal (quick tier) |\n|---|---|---|---|\n" + "\n".join(rows) + "\n"
p = os.path.join(V, "DESIGN.md"); s = open(p).read()
a = s.index("<!-- MATRIX-BEGIN -->") + len("<!-- MATRIX-BEGIN -->"); b = s.index("<!-- MATRIX-END -->")
open(p, "w").write(s[:a] + "\n" + tbl + s[b:])
print(len(rows), "rows")
