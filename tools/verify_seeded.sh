#!/bin/bash
# verify_seeded.sh <src dir with <id>/<a|b>/{patch.diff,demo…,notes.md}> : confirms each seeded change in a scratch
# worktree of /repo (builds, passes the existing tests, demo fails with / passes without) and archives it under
# /verif/seeded/<id>-<x>/ with meta.json.  Worktrees are removed afterwards.
SRC=${1:-/tmp/seed}
export GOPROXY=off
unset GOFLAGS GOWORK
for d in $SRC/[A-Z]*/[a-z]; do
  id=$(basename $(dirname $d)); x=$(basename $d); name=$id-$x
  [ -f $d/patch.diff ] || continue
  wt=/tmp/wt-verify-$name
  git -C /repo worktree add -q --detach $wt HEAD || continue
  status=ok; notes=""
  ( cd $wt && git apply $d/patch.diff ) || { status="patch-does-not-apply"; }
  if [ $status = ok ]; then
    ( cd $wt && go build ./... && (cd internal/app && go build ./...) && GOOS=js GOARCH=wasm go build -o /dev/null ./wasm/main.go ) >/dev/null 2>&1 || status="does-not-build"
  fi
  if [ $status = ok ]; then
    ( cd $wt && go test -vet=off -count=1 ./... && (cd internal/app && go test -vet=off -count=1 ./...) ) >/dev/null 2>&1 || status="existing-tests-fail"
  fi
  demo_with="n/a"; demo_without="n/a"
  harmless=no; case $x in h|p|q|v|y|x) harmless=yes;; esac
  if [ $status = ok ] && [ $harmless = yes ]; then
    # harmless rewrite: the equivalence test must pass with and without the change
    if [ -f $d/equiv_test.go ]; then
      cp $d/equiv_test.go $wt/zz_seed_equiv_test.go
      ( cd $wt && go test -vet=off -count=1 -timeout 300s -run TestSeedEquiv . ) >/dev/null 2>&1 && demo_with=pass || demo_with=fail
      ( cd $wt && git checkout -q -- . && go test -vet=off -count=1 -timeout 300s -run TestSeedEquiv . ) >/dev/null 2>&1 && demo_without=pass || demo_without=fail
      rm -f $wt/zz_seed_equiv_test.go
    elif [ -f $d/equiv.sh ]; then
      ( cd $d && bash ./equiv.sh $wt ) >/dev/null 2>&1 && demo_with=pass || demo_with=fail
      ( cd $wt && git checkout -q -- . ); ( cd $d && bash ./equiv.sh $wt ) >/dev/null 2>&1 && demo_without=pass || demo_without=fail
    fi
  elif [ $status = ok ] && [ -f $d/demo_test.go ]; then
    cp $d/demo_test.go $wt/zz_seed_demo_test.go
    ( cd $wt && go test -vet=off -count=1 -timeout 120s -run TestSeedDemo . ) >/dev/null 2>&1 && demo_with=pass || demo_with=fail
    ( cd $wt && git checkout -q -- . && go test -vet=off -count=1 -timeout 120s -run TestSeedDemo . ) >/dev/null 2>&1 && demo_without=pass || demo_without=fail
    rm -f $wt/zz_seed_demo_test.go
  elif [ $status = ok ] && [ -f $d/run.sh ]; then
    sh $d/run.sh $wt >/dev/null 2>&1 && demo_with=pass || demo_with=fail
    ( cd $wt && git checkout -q -- . ); sh $d/run.sh $wt >/dev/null 2>&1 && demo_without=pass || demo_without=fail
  elif [ $status = ok ] && [ -f $d/demo.sh ]; then
    bash $d/demo.sh $wt >/dev/null 2>&1 && demo_with=pass || demo_with=fail
    ( cd $wt && git checkout -q -- . ); bash $d/demo.sh $wt >/dev/null 2>&1 && demo_without=pass || demo_without=fail
  fi
  git -C /repo worktree remove --force $wt
  echo "$name status=$status demo_with_change=$demo_with demo_without=$demo_without"
  keep=no
  [ $status = ok ] && [ $harmless = no ] && [ $demo_with = fail ] && [ $demo_without = pass ] && keep=yes
  [ $status = ok ] && [ $harmless = yes ] && [ $demo_with = pass ] && [ $demo_without = pass ] && keep=yes
  if [ $keep = yes ]; then
    mkdir -p /verif/seeded/$name
    cp $d/patch.diff /verif/seeded/$name/
    for f in api_equiv_test.go equiv_wasm_test.go driver.js demo_test.go demo.js run.sh demo.sh notes.md extra_conc_test.go demo_wasm_test.go equiv_test.go equiv.sh driver.js driver.py expected.jsonl expected.json golden.json property.txt; do [ -f $d/$f ] && cp $d/$f /verif/seeded/$name/; done
    python3 - "$name" "$id" "$d" <<'PY'
import json,sys,os
name,pid,d=sys.argv[1:4]
notes=open(os.path.join(d,'notes.md')).read() if os.path.exists(os.path.join(d,'notes.md')) else ''
harmless = name.endswith(("-h","-p","-q","-v","-y","-x"))
json.dump({"id":name,("anchored_in_property" if harmless else "breaks_property"):pid,"kind":("harmless-rewrite" if harmless else "breaking"),"author":"independent sub-agent (given only the property text and a scratch worktree)",
  "needs_to_manifest":notes.strip()[:1500],
  "confirmed":{"applies_to":"/repo HEAD at archive time","builds":"go build ./... + internal/app + GOOS=js GOARCH=wasm wasm/main.go","existing_tests":"go test -vet=off -count=1 ./... (root and internal/app) pass with the change",
               "demo":("equivalence test passes with and without the change" if harmless else "fails with the change, passes without (tools/verify_seeded.sh)")}},
  open('/verif/seeded/%s/meta.json'%name,'w'),indent=1)
PY
  fi
done
