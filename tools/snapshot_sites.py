#!/usr/bin/env python3
"""Snapshot the current lean/OtpVerif/Gen/Sites.lean tables into lean/OtpVerif/Model/Justified.lean.
Run by hand after reviewing every new entry: the file it writes is the hand-maintained list of
potential-panic / store sites that have been examined and justified (the justification is the comment).
It is NOT run by the checks."""
import re, sys
src = open('/verif/lean/OtpVerif/Gen/Sites.lean').read()
def table(name):
    m = re.search(r'def %s : [^\n]*:= \[\n(.*?)\n\]\n' % name, src, re.S)
    body = m.group(1)
    out = []
    lines = body.split('\n')
    for i in range(0, len(lines) - 1, 2):
        out.append((lines[i].strip()[3:], lines[i+1].strip().rstrip(',')))
    return out
def why_panic(c):
    cfg, fn, kind, expr, guards = [x.strip() for x in c.split('¦')]
    if 'Must' in fn: return 'documented Must* helper (excluded by the property)'
    if kind.startswith('typeassert') and 'Pool' in expr: return 'the pool only ever holds values of this type (New and Put both use it)'
    if fn.endswith('truncate'): return 'sum is an HMAC output (>= 20 bytes, offset <= 15); mod is a table entry 10^d > 0 (lemma truncate_eq / mod10_eq_pow)'
    if 'mod10[digits]' in expr or 'hmacPools[algo]' in expr: return 'dominating range check (guards listed) keeps the index inside the table'
    if 'deriveRFC6287' in fn and ('hmacPools' in expr or 'mod10' in expr): return 'Suite.Validate() ran first: hash in 0..2, digits in 4..10 (theorem C14_suite); user-defined Suite implementations are excluded by the property'
    if 'shortDigit' in fn: return 'called only with 1 <= digits <= 8 (deriveRFC4226: range check, then digits <= 8); i starts at digits-1 and decreases to 0'
    if kind.startswith('makeslice'): return 'length is a validated digit count / a constant size / a non-negative width'
    if 'init$' in fn and kind.startswith('div'): return 'TimeCounterFunc: callers pass a non-zero period (GenerateTOTP/ValidateTOTP default 0 to 30; wasm checks period > 0)'
    if 'crypto[' in expr and kind.startswith('slice'): return 'HasPrefix(ToUpper(crypto), "HOTP-SHA") holds on this path and the string is ASCII (checked in parseRawSuite), so len(crypto) >= 8'
    if 'parseDataInputTokens' in fn and 'rangeindex' in expr and kind.strip().startswith(('slice','index')) and '][' in expr: return 'the token was tested with HasPrefix / len on its upper-case form (ASCII, same length), so it is long enough for this constant bound'
    if 'LeftPadHex' in fn: return 'guard len(s) >= totalLen; negative widths are excluded by the property (0..2^20)'
    if guards: return 'guarded: ' + guards
    return 'loop index bounded by the loop condition / constant index checked by the dominating length test'
items = table('panicSites')
with open('/verif/lean/OtpVerif/Model/Justified.lean', 'w') as f:
    f.write('/-\nHand-maintained: the potential-panic sites and the store / return / unsafe-view sites of the library that have been\nexamined, each with the reason why it cannot fire (panic sites) or why it is harmless (store sites).\nSnapshot helper: /verif/tools/snapshot_sites.py (never run by a check).  A site that the extractor finds and that is\nnot listed here - a new index, divisor, slice bound, a guard that changed or disappeared, a write through a\nparameter - breaks C10_sites / C12_stores.\n-/\nnamespace OtpVerif.Model\n\n')
    f.write('def justifiedPanicSites : List (Nat × List Nat × List Nat × List Nat × List (List Nat)) := [\n')
    for i, (c, t) in enumerate(items):
        f.write('  -- %s\n  --   why: %s\n  %s%s\n' % (c, why_panic(c), t, ',' if i < len(items)-1 else ''))
    f.write(']\n\n')
    items = table('storeSites')
    def why_store(c):
        cfg, fn, kind, expr, guards = [x.strip() for x in c.split('¦')]
        if 'parseDataInputTokens' in fn: return 'unexported; its only caller parseRawSuite passes the address of a local SuiteConfig'
        if 'padBytes' in fn: return 'unexported; the returned prefix of the input is only read (appended into the pooled message buffer) by deriveRFC6287'
        if 'recovered' in fn: return 'named result of the enclosing closure (a local of that call)'
        return 'REVIEW'
    f.write('def justifiedStoreSites : List (Nat × List Nat × List Nat × List Nat × List (List Nat)) := [\n')
    for i, (c, t) in enumerate(items):
        f.write('  -- %s\n  --   why: %s\n  %s%s\n' % (c, why_store(c), t, ',' if i < len(items)-1 else ''))
    f.write(']\n\n')
    items = table('poolSites')
    f.write('/-- the pool protocol of each function that uses a sync.Pool, as reviewed -/\ndef expectedPoolSites : List (Nat × List Nat × List Nat × List Nat × List (List Nat)) := [\n')
    for i, (c, t) in enumerate(items):
        f.write('  -- %s\n  %s%s\n' % (c, t, ',' if i < len(items)-1 else ''))
    f.write(']\n\nend OtpVerif.Model\n')
print('wrote Justified.lean')
