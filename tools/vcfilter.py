#!/usr/bin/env python3
"""vcfilter.py <candidates> <out.lean> <lean project dir>

The extractor (harness/cmd/ssafacts, vc.go) writes one candidate theorem per potentially panicking instruction and
per way of arguing (own guards / what holds at every call site).  This script lets Lean try them (omega), keeps for
every site the first candidate that is proved together with its table entry, drops the others, and writes
Gen/PanicVC.lean.  It decides nothing: the file it writes is checked again by `lake build`, and a site whose condition
was not proved must be covered by the reviewed list or `C10_sites` fails."""
import os, re, shutil, subprocess, sys
cand, out, proj = sys.argv[1:4]
trial = os.path.join(proj, ".lake", "PanicVCTrial.lean")
os.makedirs(os.path.dirname(trial), exist_ok=True)
new = open(cand).read()
if os.path.exists(trial) and os.path.exists(out) and open(trial).read() == new and os.path.exists(trial + ".ok"):
    print("vcfilter: candidates unchanged")
    sys.exit(0)
open(trial, "w").write(new)
if os.path.exists(trial + ".ok"):
    os.remove(trial + ".ok")
src = new.split("\n")
r = subprocess.run(["lake", "env", "lean", "-DmaxErrors=1000000", trial], cwd=proj, capture_output=True, text=True)
failed = set()
for m in re.finditer(r"^%s:(\d+):\d+: error" % re.escape(trial), r.stdout + r.stderr, re.M):
    failed.add(int(m.group(1)))
keep = {}
for i, l in enumerate(src, 1):
    m = re.search(r"-- VC (\d+)\.([ab]) ", l)
    if m and i not in failed:
        keep.setdefault(int(m.group(1)), m.group(2))
res, nthm, seen = [], 0, set()
for i, l in enumerate(src, 1):
    m = re.search(r"-- VC(ENTRY)? (\d+)\.([ab])", l)
    if m:
        k, v = int(m.group(2)), m.group(3)
        seen.add(k)
        if keep.get(k) != v:
            continue
        if not m.group(1):
            nthm += 1
    res.append(l)
text = "\n".join(res)
if not (os.path.exists(out) and open(out).read() == text):
    open(out, "w").write(text)
open(trial + ".ok", "w").write("ok")
print("vcfilter: %d sites, %d proved, %d left to the reviewed list" % (len(seen), nthm, len(seen) - nthm))
