#!/bin/bash
# seed_sweep.sh <seeds…>: quick check of all 20 properties on the unchanged tree for each VERIF_SEED; prints every run that is not OK
cd /verif
for sd in "$@"; do
  for i in $(seq -w 1 20); do
    out=$(VERIF_SEED=$sd ./check C$i 2>&1); rc=$?
    if [ $rc -ne 0 ]; then echo "seed=$sd C$i rc=$rc: $(echo "$out" | grep -E '^(BROKEN|WITNESS|VIOLATION)' | head -3 | cut -c1-300 | tr '\n' ';')"; fi
  done
  echo "seed=$sd done"
done
