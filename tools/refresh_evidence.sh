#!/bin/bash
# runs the quick check of all 20 properties on the current /repo tree (must be the unchanged tree) and prints anything that is not OK
cd /verif
git -C /repo status --short | grep -q . && { echo "/repo has local modifications"; exit 2; }
bad=0
for i in $(seq -w 1 20); do
  out=$(./check C$i 2>&1 | tail -1)
  case "$out" in OK*) ;; *) echo "C$i: $out"; bad=1;; esac
done
exit $bad
