#!/bin/bash
# diag_sites.sh <seeded name>: applies the change, regenerates the site tables and lists the potential panic sites that are
# neither proved by omega nor on the reviewed list (what makes C10_sites fail); restores /repo.
n=$1
git -C /repo apply /verif/seeded/$n/patch.diff || exit 1
export GOFLAGS=-mod=mod GOPROXY=off GOWORK=off
( cd /verif/harness && go build -o bin/ssafacts ./cmd/ssafacts && VERIF_VC_OUT=/verif/lean/.lake/PanicVC.candidates ./bin/ssafacts /verif/lean/OtpVerif/Gen/Sites.lean >/dev/null && python3 /verif/tools/vcfilter.py /verif/lean/.lake/PanicVC.candidates /verif/lean/OtpVerif/Gen/PanicVC.lean /verif/lean )
git -C /repo checkout -- . && git -C /repo clean -fdq
rm -f /verif/lean/.lake/sites.digest
cd /verif/lean && lake build OtpVerif.Gen.Sites OtpVerif.Gen.PanicVC OtpVerif.Model.Justified 2>&1 | grep -E "error" | head -5
lake env lean /verif/tools/unaccounted.lean 2>&1 | tr ',' '\n' | grep -v "^\[\]" | head -40
