#!/bin/bash
# diag_stores.sh <seeded name>: lists the store / return / view sites with a non-local root that are not on the reviewed list
n=$1
git -C /repo apply /verif/seeded/$n/patch.diff || exit 1
export GOFLAGS=-mod=mod GOPROXY=off GOWORK=off
( cd /verif/harness && go build -o bin/ssafacts ./cmd/ssafacts && VERIF_VC_OUT=/verif/lean/.lake/PanicVC.candidates ./bin/ssafacts /verif/lean/OtpVerif/Gen/Sites.lean >/dev/null )
git -C /repo checkout -- . && git -C /repo clean -fdq
rm -f /verif/lean/.lake/sites.digest
cd /verif/lean && lake build OtpVerif.Gen.Sites OtpVerif.Model.Justified 2>&1 | grep -E "error" | head -5
lake env lean /verif/tools/unaccounted_stores.lean 2>&1 | tr ',' '\n' | head -40
