#!/bin/bash
# ns_run.sh <tag> <command…>: runs a command against private copies of /verif and /repo (bind-mounted over the real paths in a
# mount namespace of its own), so that long runs — the thorough tier of all checks, seed sweeps — do not disturb the working
# copies and are not disturbed by edits.  Output on stdout; the copies are removed afterwards.
tag=$1; shift
d=/tmp/ns-$tag
rm -rf $d; mkdir -p $d
rsync -a --exclude .git --exclude 'evidence/replays' /verif/ $d/verif/
mkdir -p $d/verif/evidence/replays
cp -a /repo $d/repo
unshare -m bash -c "mount --bind $d/verif /verif && mount --bind $d/repo /repo && cd /verif && $*"
rc=$?
rm -rf $d
exit $rc
