#!/bin/bash
# run_harmless.sh [names…]: applies each archived harmless rewrite (seeded/*-h) to /repo, runs the quick check of ALL 20
# properties, lists every check that raised an alarm, and restores /repo.
cd /verif
export VERIF_EVIDENCE_DIR=$(mktemp -d /tmp/seeded-evidence.XXXXXX); trap 'rm -rf "$VERIF_EVIDENCE_DIR"' EXIT
names="$@"; [ -z "$names" ] && names=$(ls seeded | grep -E '^(C[0-9]+-[hvyx]|H[0-9]+-[pq])$')
for n in $names; do
  git -C /repo apply /verif/seeded/$n/patch.diff 2>/dev/null || { echo -e "$n\tapply-failed"; continue; }
  alarms=""
  for i in ${VERIF_HARMLESS_CHECKS:-$(seq -w 1 20)}; do
    out=$(./check C$i 2>&1); rc=$?
    if [ $rc -ne 0 ]; then
      b=$(echo "$out" | grep -E "^BROKEN" | head -2 | cut -c1-160 | tr '\n' ';')
      v=$(echo "$out" | grep -E "^VIOLATION" | head -1 | grep -q no-failing-input-found && echo nfi || echo witness)
      alarms="$alarms C$i[$v: $b]"
    fi
  done
  git -C /repo checkout -- . && git -C /repo clean -fdq
  [ -z "$alarms" ] && alarms="quiet on all ${VERIF_HARMLESS_CHECKS:-20}"
  echo -e "$n\t$alarms"
done
