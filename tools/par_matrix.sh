#!/bin/bash
# par_matrix.sh <workers> <seeded|harmless> [names…]
# Runs tools/run_seeded.sh (each change against the check of its own property) or tools/run_harmless.sh (each change
# against all 20 checks) over the archive with several workers at once.  Every worker gets private copies of /verif and
# /repo under /tmp/par/<k>, bind-mounted over /verif and /repo in a mount namespace of its own (unshare -m), so the
# unchanged scripts and checks run in it exactly as they do sequentially; /repo itself is never touched.  The copies are
# removed afterwards.  Output: the concatenated result lines on stdout.
W=${1:-4}; MODE=${2:-seeded}; shift 2
names="$@"
if [ -z "$names" ]; then
  if [ $MODE = seeded ]; then names=$(ls /verif/seeded | grep -E '^C[0-9]+-[a-z]$' | grep -vE -- '-[hvyx]$')
  else names=$(ls /verif/seeded | grep -E '^(C[0-9]+-[hvyx]|H[0-9]+-[pq])$'); fi
fi
git -C /repo status --short | grep -q . && { echo "/repo has local modifications" >&2; exit 2; }
rm -rf /tmp/par; mkdir -p /tmp/par
i=0
for n in $names; do k=$((i % W)); echo $n >> /tmp/par/names.$k; i=$((i+1)); done
for k in $(seq 0 $((W-1))); do
  [ -f /tmp/par/names.$k ] || continue
  mkdir -p /tmp/par/$k
  rsync -a --exclude .git --exclude 'evidence/replays' /verif/ /tmp/par/$k/verif/
  mkdir -p /tmp/par/$k/verif/evidence/replays
  cp -a /repo /tmp/par/$k/repo
  script=run_seeded.sh; [ $MODE = harmless ] && script=run_harmless.sh
  ( unshare -m bash -c "mount --bind /tmp/par/$k/verif /verif && mount --bind /tmp/par/$k/repo /repo && cd /verif && ./tools/$script $(tr '\n' ' ' < /tmp/par/names.$k)" > /tmp/par/out.$k 2>&1 ) &
done
wait
cat /tmp/par/out.* | sort
rm -rf /tmp/par
