import OtpVerif.Gen.Sites
import OtpVerif.Gen.PanicVC
import OtpVerif.Model.Justified
open OtpVerif
def str (l : List Nat) : String := String.mk (l.map Char.ofNat)
def poolTyped (s : Nat × List Nat × List Nat × List Nat × List (List Nat)) : Bool :=
  s.2.2.1 == [116,121,112,101,97,115,115,101,114,116,40,112,111,111,108,45,116,121,112,101,100,41]
#eval (Gen.panicSites.filter (fun s => !(Gen.PanicVC.proved.any (fun p => p.site == s) || poolTyped s || Model.justifiedPanicKinds.contains (s.2.1, s.2.2.1)))).map
  (fun s => s!"cfg{s.1} {str s.2.1} | {str s.2.2.1} | {str s.2.2.2.1} | guards: {s.2.2.2.2.map str}")
