import OtpVerif.Gen.Sites
import OtpVerif.Model.Justified
open OtpVerif
def str' (l : List Nat) : String := String.ofList (l.map Char.ofNat)
#eval (Gen.storeSites.filter (fun s => !(Model.justifiedStoreSites.contains s))).map
  (fun s => s!"cfg{s.1} {str' s.2.1} | {str' s.2.2.1} | {str' s.2.2.2.1}")
