#!/bin/bash
# run_seeded.sh [names…]: applies each archived seeded change to /repo, runs the quick check of the property it breaks,
# (names ending in -h are harmless rewrites: the check must stay quiet)
# records the verdict in /verif/seeded/RESULTS.tsv, and restores /repo (git checkout -- .).
cd /verif
export VERIF_EVIDENCE_DIR=$(mktemp -d /tmp/seeded-evidence.XXXXXX); trap 'rm -rf "$VERIF_EVIDENCE_DIR"' EXIT
names="$@"; [ -z "$names" ] && names=$(ls seeded | grep -E '^C[0-9]+-[a-z]$')
for n in $names; do
  pid=${n%%-*}
  git -C /repo apply /verif/seeded/$n/patch.diff 2>/dev/null || { echo -e "$n\t$pid\tapply-failed"; continue; }
  out=$(./check $pid 2>&1); rc=$?
  git -C /repo checkout -- . && git -C /repo clean -fdq
  v=$(echo "$out" | grep -E "^VIOLATION" | head -1)
  kind="MISSED"
  case $n in *-h|*-v|*-y|*-x) kind="quiet(ok)";; esac
  if [ $rc -ne 0 ] && [ -n "$v" ]; then
    if echo "$v" | grep -q "no-failing-input-found"; then kind="detected(no-failing-input-found)"; else kind="detected(with failing input)"; fi
    case $n in *-h|*-v|*-y|*-x) kind="ALARM-ON-HARMLESS:$kind";; esac
  fi
  w=$(echo "$out" | grep -E "^(WITNESS|BROKEN)" | head -1 | cut -c1-220 | tr '\t' ' ')
  echo -e "$n\t$pid\t$kind\t$w"
done
