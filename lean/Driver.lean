/-
Line-protocol driver: one operation per input line, one answer line per operation.
It runs the *model* (and, where one exists, the *spec*) on exactly the op lines the Go harness
ran the implementation on.  Core Lean only (compiled as a `lean_exe`).

Fields are space-separated; byte strings are lower-case hex (`-` = empty); integers decimal.
Answers: `ok <hex>` | `err <class>` | `panic` for value-returning calls,
         `true` | `false-err <class>` | `true-err` | `false-nil` | `panic` for validators.
When a spec answer exists it follows after a tab.
-/
import OtpVerif.Std.Sha
import OtpVerif.Model.Ocra
import OtpVerif.Model.Utils
import OtpVerif.Model.Url
import OtpVerif.Model.Rest
import OtpVerif.Model.Wasm
import OtpVerif.Spec.All
import OtpVerif.Spec.Random

open OtpVerif OtpVerif.Model

namespace Drv

def hexVal (c : Char) : Option Nat :=
  if '0' ≤ c ∧ c ≤ '9' then some (c.toNat - 48)
  else if 'a' ≤ c ∧ c ≤ 'f' then some (c.toNat - 87)
  else if 'A' ≤ c ∧ c ≤ 'F' then some (c.toNat - 55)
  else none

def unhexList : List Char → Option Bytes
  | [] => some []
  | [_] => none
  | h :: l :: rest =>
    match hexVal h, hexVal l, unhexList rest with
    | some a, some b, some r => some ((a * 16 + b).toUInt8 :: r)
    | _, _, _ => none

/-- `-` and `nil` are the empty byte string -/
def unhex (s : String) : Option Bytes :=
  if s = "-" ∨ s = "nil" then some [] else unhexList s.toList

def hexNib (n : Nat) : Char := if n < 10 then Char.ofNat (48 + n) else Char.ofNat (87 + n)
def hex (b : Bytes) : String :=
  if b.isEmpty then "-" else String.ofList (b.foldr (fun x acc => hexNib (x.toNat / 16) :: hexNib (x.toNat % 16) :: acc) [])

def showOut (o : Out Bytes) : String :=
  match o with
  | .ok b => "ok " ++ hex b
  | .err e => "err " ++ e.name
  | .panic => "panic"

def showVerdict (o : Out Verdict) : String :=
  match o with
  | .ok (true, none) => "true"
  | .ok (false, some e) => "false-err " ++ e.name
  | .ok (true, some _) => "true-err"
  | .ok (false, none) => "false-nil"
  | .err e => "err " ++ e.name
  | .panic => "panic"

def toBA (b : Bytes) : ByteArray := ByteArray.mk b.toArray

/-- the executable HMAC used by the driver -/
def hmacFn (a : Nat) (k m : Bytes) : Bytes := (Sha.hmac a (toBA k) (toBA m)).toList

/-- The driver's oracle.  `len_ok` is not needed for *running* the model; theorems never use this
instance (they quantify over all oracles), so the proof obligation is discharged by clamping the
output to the required length, which is the identity for a correct HMAC. -/
def oracle : HashOracle where
  hmac a k m :=
    let r := hmacFn a k m
    if a < 3 then (r ++ List.replicate (hashLen a - r.length) 0).take (hashLen a) else r
  len_ok := by
    intro a k m h
    simp only [h, if_true, List.length_take, List.length_append, List.length_replicate]
    omega

def parseParam (s : String) : Option (Option Param) :=
  if s = "N" then some none
  else match s.splitOn ":" with
    | ["P", d, p, k, a] =>
      match d.toNat?, p.toNat?, k.toNat?, a.toNat? with
      | some d, some p, some k, some a => some (some ⟨d, p, k, a⟩)
      | _, _, _, _ => none
    | _ => none

def parseBool (s : String) : Option Bool := if s = "1" then some true else if s = "0" then some false else none

/-- `C:<rawHex>:<hash>:<digits>:<challenge>:<c><q><p><s><t>:<pwHash>:<timeStep>` -/
def parseCfg (s : String) : Option SuiteConfig :=
  match s.splitOn ":" with
  | ["C", raw, h, d, ch, fl, pw, ts] =>
    match unhex raw, h.toNat?, d.toInt?, ch.toInt?, fl.toList, pw.toInt?, ts.toInt? with
    | some raw, some h, some d, some ch, [c, q, p, s, t], some pw, some ts =>
      match parseBool (String.singleton c), parseBool (String.singleton q), parseBool (String.singleton p),
            parseBool (String.singleton s), parseBool (String.singleton t) with
      | some c, some q, some p, some s, some t =>
        some { raw := raw, hash := h, digits := d, challenge := ch, incC := c, incQ := q, incP := p, incS := s, incT := t,
               pwHash := pw, timeStep := ts }
      | _, _, _, _, _ => none
    | _, _, _, _, _, _, _ => none
  | _ => none

/-- how a suite is obtained: `R:<rawHex>` NewRawSuite; `C:…` config used as is (bare SuiteConfig or RawSuite literal);
`S:…` (same fields as C) NewSuite; `X:…` a RawSuite returned by a constructor for a registered suite, its (exported,
embedded) SuiteConfig then overwritten with these fields: what it means is what its fields say now -/
def parseSuite (s : String) : Option (Out SuiteConfig) :=
  match s.splitOn ":" with
  | ["R", raw] => (unhex raw).map newRawSuite
  | "C" :: _ => (parseCfg s).map .ok
  | "M" :: rest => (parseCfg (":".intercalate ("C" :: rest))).map .ok
  | "S" :: rest => (parseCfg (":".intercalate ("C" :: rest))).map newSuite
  | "X" :: rest => (parseCfg (":".intercalate ("C" :: rest))).map .ok   -- a RawSuite from a constructor whose exported fields were then set to these
  | _ => none

/-- `I:<counter>:<challenge>:<password>:<session>:<timestamp>` -/
def parseInput (s : String) : Option OCRAInput :=
  match s.splitOn ":" with
  | ["I", a, b, c, d, e] =>
    match unhex a, unhex b, unhex c, unhex d, unhex e with
    | some a, some b, some c, some d, some e => some ⟨a, b, c, d, e⟩
    | _, _, _, _, _ => none
  | _ => none

def showCfg (c : SuiteConfig) : String :=
  let b (x : Bool) := if x then "1" else "0"
  s!"{hex c.raw}:{c.hash}:{c.digits}:{c.challenge}:{b c.incC}{b c.incQ}{b c.incP}{b c.incS}{b c.incT}:{c.pwHash}:{c.timeStep}"

def showInput (i : OCRAInput) : String :=
  s!"{hex i.counter}:{hex i.challenge}:{hex i.password}:{hex i.session}:{hex i.timestamp}"

namespace RestDrv
open OtpVerif.Model.Rest

def parseSuiteReq (s : String) : Option (Option SuiteReq) :=
  if s = "-" then some none
  else match s.splitOn ":" with
    | ["S", h, d, ch, fl, pw, ts] =>
      match unhex h, d.toInt?, ch.toInt?, fl.toList, pw.toInt?, ts.toInt? with
      | some h, some d, some ch, [c, q, p, s, t], some pw, some ts =>
        some (some { hashFunction := h, codeDigits := d, challengeFormat := ch, c := c == '1', q := q == '1', p := p == '1',
                     s := s == '1', t := t == '1', passwordHash := pw, timestep := ts })
      | _, _, _, _, _, _ => none
    | _ => none

def parseInputReq (s : String) : Option (Option InputReq) :=
  if s = "-" then some none
  else match s.splitOn ":" with
    | ["I", a, b, c, d, e] =>
      match unhex a, unhex b, unhex c, unhex d, unhex e with
      | some a, some b, some c, some d, some e => some (some ⟨a, b, c, d, e⟩)
      | _, _, _, _, _ => none
    | _ => none

def parseBody (f : List String) : Option Body :=
  match f with
  | ["undecodable"] => some .undecodable
  | ["otp", sec, code, ts, ctr, dg, al, per, skew] =>
    match unhex sec, unhex code, ts.toInt?, ctr.toNat?, unhex dg, unhex al, per.toNat?, skew.toNat? with
    | some sec, some code, some ts, some ctr, some dg, some al, some per, some skew =>
      some (.otp { secret := sec, code := code, timestamp := ts, counter := ctr, digits := dg, algorithm := al, period := per, skew := skew })
    | _, _, _, _, _, _, _, _ => none
  | ["ocra", sec, code, raw, su, inp] =>
    match unhex sec, unhex code, unhex raw, parseSuiteReq su, parseInputReq inp with
    | some sec, some code, some raw, some su, some inp => some (.ocra { secret := sec, code := code, rawSuite := raw, suite := su, input := inp })
    | _, _, _, _, _ => none
  | ["url", ty, sec, iss, acc, per, dg, al] =>
    match unhex ty, unhex sec, unhex iss, unhex acc, per.toNat?, unhex dg, unhex al with
    | some ty, some sec, some iss, some acc, some per, some dg, some al =>
      some (.url { type := ty, secret := sec, issuer := iss, account := acc, period := per, digits := dg, algorithm := al })
    | _, _, _, _, _, _, _ => none
  | ["suitecfg", raw] => (unhex raw).map .suiteCfg
  | _ => none

def showResp (r : Resp) : String :=
  let p := match r.payload with
    | .none => ""
    | .code c ts ctr su => s!" code {hex c} {ts} {ctr} {hex su}"
    | .valid v => s!" valid {v}"
    | .url u => s!" url {hex u}"
    | .secret a => s!" secret {hex a}"
    | .suites ns => s!" suites {ns.length} {hex (ns.foldl (fun acc n => acc ++ n ++ [44]) [])}"
    | .suiteConfig raw cfg => s!" suitecfg {hex raw} {cfg.hash}:{cfg.digits}:{cfg.challenge}:{if cfg.incC then 1 else 0}{if cfg.incQ then 1 else 0}{if cfg.incP then 1 else 0}{if cfg.incS then 1 else 0}{if cfg.incT then 1 else 0}:{cfg.pwHash}:{cfg.timeStep}"
    | .home => " home"
  s!"{r.status}{p}"

/-- `rest <GET|POST|OTHER> <pathHex> <algorithmArgHex> <now> <body…>` -/
def run (O : HashOracle) (f : List String) : String :=
  match f with
  | m :: path :: alg :: now :: body =>
    match unhex path, unhex alg, now.toInt?, parseBody body with
    | some path, some alg, some now, some b =>
      let meth := if m = "GET" then Method.get else if m = "POST" then Method.post else Method.other
      showResp (handle O meth path b alg now)
    | _, _, _, _ => "bad-op"
  | _ => "bad-op"
end RestDrv

namespace WasmDrv
open OtpVerif.Model.Wasm

def parseJs (t : String) : Option JsVal :=
  if t = "u" then some .undefined else if t = "n" then some .null else if t = "huge" then some .hugeNum
  else if t = "sym" then some .symbol else if t = "fn" then some .function else if t = "obj" then some .object
  else if t = "big" then some .bigint
  else match t.splitOn ":" with
    | ["b", v] => some (.bool (v = "1"))
    | ["i", z] => z.toInt?.map .int
    | ["s", h] => (unhex h).map .str
    | _ => none

def showRes : JsRes → String
  | .str s => "str:" ++ hex s
  | .error => "err"
  | .bool b => s!"bool:{b}"

/-- what the *native* library answers for the same call, on the common domain (C20's reference) -/
def nativeSpec (O : HashOracle) (fn : String) (args : List JsVal) : Option String :=
  let inDom (z : Int) : Bool := 0 ≤ z && z ≤ 2 ^ 53
  match fn, args with
  | "generateHOTP", [.str s, .int c, .str d, .str a] =>
    if s.isEmpty ∨ d.isEmpty ∨ a.isEmpty ∨ !inDom c then none else
    (match generateHOTP O s c.toNat (some ⟨Rest.digitsFromStr d, 0, 0, Rest.algoFromStr a⟩) with
      | .ok code => some ("str:" ++ hex code) | _ => some "err")
  | "generateTOTP", [.str s, .int t, .str d, .str a, .int per] =>
    if s.isEmpty ∨ d.isEmpty ∨ a.isEmpty ∨ !inDom t ∨ per < 1 ∨ per > 3600 then none else
    (match generateTOTP O s t (some ⟨Rest.digitsFromStr d, per.toNat, 0, Rest.algoFromStr a⟩) with
      | .ok code => some ("str:" ++ hex code) | _ => some "err")
  | "validateHOTP", [.str s, .str code, .int c, .str d, .str a, .int k] =>
    if s.isEmpty ∨ code.isEmpty ∨ d.isEmpty ∨ a.isEmpty ∨ !inDom c ∨ k < 0 ∨ k > 10 then none else
    (match decodeSecret s, validateHOTP O s code c.toNat (some ⟨Rest.digitsFromStr d, 0, k.toNat, Rest.algoFromStr a⟩) with
      | .ok _, .ok (v, _) => some s!"bool:{v}"
      | _, _ => some "err")
  | "validateTOTP", [.str s, .str code, .int t, .str d, .str a, .int k, .int per] =>
    if s.isEmpty ∨ code.isEmpty ∨ d.isEmpty ∨ a.isEmpty ∨ !inDom t ∨ k < 0 ∨ k > 10 ∨ per < 1 ∨ per > 3600 ∨ t / per < k then none else
    (match decodeSecret s, validateTOTP O s code t (some ⟨Rest.digitsFromStr d, per.toNat, k.toNat, Rest.algoFromStr a⟩) with
      | .ok _, .ok (v, _) => some s!"bool:{v}"
      | _, _ => some "err")
  | _, _ => none

def run (O : HashOracle) (f : List String) : String :=
  match f with
  | fn :: rest =>
    match rest.mapM parseJs with
    | some args =>
      let r := if fn = "generateHOTP" then some (jsGenerateHOTP O args)
        else if fn = "generateTOTP" then some (jsGenerateTOTP O args)
        else if fn = "validateHOTP" then some (jsValidateHOTP O args)
        else if fn = "validateTOTP" then some (jsValidateTOTP O args)
        else if fn = "generateOTPURL" then some (jsGenerateOTPURL args)
        else none
      (match r with
        | some r => (match nativeSpec O fn args with | some sp => showRes r ++ "\t" ++ sp | none => showRes r)
        | none => "bad-op")
    | none => "bad-op"
  | _ => "bad-op"
end WasmDrv

def withSpec (m : String) (s : Option String) : String :=
  match s with
  | some s => m ++ "\t" ++ s
  | none => m

def step (line : String) : String :=
  let O := oracle
  match (line.trimAscii.toString.splitOn " ").filter (· ≠ "") with
  | ["ghotp", s, c, p] =>
    match unhex s, c.toNat?, parseParam p with
    | some s, some c, some p => withSpec (showOut (generateHOTP O s c p)) (Spec.Run.ghotp O s c p)
    | _, _, _ => "bad-op"
  | ["vhotp", s, code, c, p] =>
    match unhex s, unhex code, c.toNat?, parseParam p with
    | some s, some code, some c, some p => withSpec (showVerdict (validateHOTP O s code c p)) (Spec.Run.vhotp O s code c p)
    | _, _, _, _ => "bad-op"
  | ["gtotp", s, sec, _nsec, _zone, _mono, p] =>
    match unhex s, sec.toInt?, parseParam p with
    | some s, some sec, some p => withSpec (showOut (generateTOTP O s sec p)) (Spec.Run.gtotp O s sec p)
    | _, _, _ => "bad-op"
  | ["vtotp", s, code, sec, _nsec, _zone, _mono, p] =>
    match unhex s, unhex code, sec.toInt?, parseParam p with
    | some s, some code, some sec, some p => withSpec (showVerdict (validateTOTP O s code sec p)) (Spec.Run.vtotp O s code sec p)
    | _, _, _, _ => "bad-op"
  | ["gvhotp", s, c1, c2, p] =>
    -- generate at counter c1, then validate that very string at counter c2
    match unhex s, c1.toNat?, c2.toNat?, parseParam p with
    | some s, some c1, some c2, some p =>
      withSpec (match generateHOTP O s c1 p with
        | .ok code => "gen-ok " ++ showVerdict (validateHOTP O s code c2 p)
        | .err e => "gen-err " ++ e.name
        | .panic => "panic") (Spec.Run.gvhotp O s c1 c2 p)
    | _, _, _, _ => "bad-op"
  | ["gvtotp", s, t1, t2, p] =>
    match unhex s, t1.toInt?, t2.toInt?, parseParam p with
    | some s, some t1, some t2, some p =>
      withSpec (match generateTOTP O s t1 p with
        | .ok code => "gen-ok " ++ showVerdict (validateTOTP O s code t2 p)
        | .err e => "gen-err " ++ e.name
        | .panic => "panic") (Spec.Run.gvtotp O s t1 t2 p)
    | _, _, _, _ => "bad-op"
  | ["rndseq", as, stream, _chunk, par] =>
    -- a history of calls against one source: the model reads consecutive segments (concurrent histories have no
    -- single model answer: they are judged by `rndjudge` only)
    match unhex stream, (as.splitOn ",").mapM String.toNat? with
    | some st, some al =>
      if par != "1" then "unsupported" else
      let (rs, rest) := al.foldl (fun (acc : List String × Bytes) a =>
        let (r, rest) := randomSecret a acc.2
        ((match r with | .ok t => hex t | _ => "err") :: acc.1, rest)) ([], st)
      s!"ok {" ".intercalate rs.reverse} consumed={st.length - rest.length}"
    | _, _ => "bad-op"
  | ["rndjudge", stream, limit, outs] =>
    -- property-level verdict on what the implementation answered: outs = "a:hex|err,…"
    match unhex stream, limit.toNat?, (outs.splitOn ",").mapM (fun (o : String) =>
        match o.splitOn ":" with
        | [a, "err"] => a.toNat?.map (fun a => (a, (none : Option Bytes)))
        | [a, h] => (match a.toNat?, unhex h with | some a, some t => some (a, some t) | _, _ => none)
        | _ => none) with
    | some st, some lim, some os => Spec.judgeRandom st lim os
    | _, _, _ => "bad-op"
  | ["rndpar", a, stream, n] =>
    -- n concurrent calls: the multiset of results is the encodings of n consecutive segments
    match a.toNat?, unhex stream, n.toNat? with
    | some a, some st, some n =>
      let (rs, _) := (List.range n).foldl (fun (acc : List String × Bytes) _ =>
        let (r, rest) := randomSecret a acc.2
        (showOut r :: acc.1, rest)) ([], st)
      withSpec (" ".intercalate (rs.toArray.qsort (· < ·)).toList) none
    | _, _, _ => "bad-op"
  | ["gocra", s, suite, inp] =>
    match unhex s, parseSuite suite, parseInput inp with
    | some s, some (.ok cfg), some i => withSpec (showOut (generateOCRA O s cfg i)) (Spec.Run.gocra O s cfg i)
    | some _, some (.err e), some _ => "suite-err " ++ e.name
    | some _, some .panic, some _ => "panic"
    | _, _, _ => "bad-op"
  | ["vocra", s, code, suite, inp] =>
    match unhex s, unhex code, parseSuite suite, parseInput inp with
    | some s, some code, some (.ok cfg), some i => withSpec (showVerdict (validateOCRA O s code cfg i)) (Spec.Run.vocra O s code cfg i)
    | some _, some _, some (.err e), some _ => "suite-err " ++ e.name
    | some _, some _, some .panic, some _ => "panic"
    | _, _, _, _ => "bad-op"
  | ["adm", cfg, inp] =>
    match parseCfg cfg, parseInput inp with
    | some cfg, some i =>
      let sv := if (suiteValidate cfg).isNone then "suite-ok" else "suite-err"
      let iv := if (inputValidate i cfg).isNone then "input-ok" else "input-err"
      withSpec s!"{sv} {iv}" (Spec.Run.adm cfg i)
    | _, _ => "bad-op"
  | ["suite", raw] =>
    match unhex raw with
    | some raw =>
      let m := match newRawSuite raw with
        | .ok cfg => "ok " ++ showCfg cfg
        | .err e => "err " ++ e.name
        | .panic => "panic"
      let k := if isKnownSuite raw then "known" else "unknown"
      withSpec s!"{m} {k} {showCfg (suiteConfigFromRaws raw)}" (Spec.Run.suite raw)
    | none => "bad-op"
  | ["newsuite", cfg] =>
    match parseCfg cfg with
    | some cfg => (match newSuite cfg with
        | .ok c => "ok " ++ showCfg c
        | .err e => "err " ++ e.name
        | .panic => "panic")
    | none => "bad-op"
  | ["parse", raw] =>
    match unhex raw with
    | some raw => (match parseRawSuite raw with
        | .ok cfg => "ok " ++ showCfg cfg
        | .err e => "err " ++ e.name
        | .panic => "panic")
    | none => "bad-op"
  | ["dec", s] =>
    match unhex s with
    | some s => withSpec (showOut (decodeSecret s)) (Spec.Run.dec s)
    | none => "bad-op"
  | ["rnd", a, stream, _chunk] =>
    match a.toNat?, unhex stream with
    | some a, some st =>
      let (r, rest) := randomSecret a st
      -- no per-call Spec answer: the property-level verdict is `rndjudge` (Spec.judgeRandom) on the implementation's answer
      withSpec s!"{showOut r} consumed={st.length - rest.length}" none
    | _, _ => "bad-op"
  | ["trunc", sum, m] =>
    match unhex sum, m.toNat? with
    | some sum, some m => (match truncate sum m with
        | .ok v => s!"ok {v}"
        | .err e => "err " ++ e.name
        | .panic => "panic")
    | _, _ => "bad-op"
  | ["fmt", fn, v, d] =>
    match v.toNat?, d.toNat? with
    | some v, some d =>
      if fn = "short" then withSpec (showOut (shortDigit v d)) (some ("ok " ++ hex (zeroPad d v)))
      else if fn = "long" then withSpec (showOut (.ok (longDigit v d))) (some ("ok " ++ hex (zeroPad d v)))
      else if fn = "dec" then withSpec (showOut (.ok (formatDecimal v d))) (some ("ok " ++ hex (zeroPad d v)))
      else "bad-op"
    | _, _ => "bad-op"
  | ["pad", inp, w] =>
    match unhex inp, w.toNat? with
    | some inp, some w => "ok " ++ hex (padBytes inp w)
    | _, _ => "bad-op"
  | ["derive", k, c, d, a] =>
    match unhex k, c.toNat?, d.toNat?, a.toNat? with
    | some k, some c, some d, some a => withSpec (showOut (deriveRFC4226 O k c d a)) (Spec.Run.derive O k c d a)
    | _, _, _, _ => "bad-op"
  | ["to8", v] =>
    match v.toNat? with
    | some v => withSpec (showOut (.ok (to8ByteBigEndian v))) (some ("ok " ++ hex (be8 v)))
    | none => "bad-op"
  | ["help", fn, a] =>
    match unhex a with
    | some a =>
      if fn = "dec8" then withSpec (showOut (parseDecimalToBE8 a)) (Spec.Run.dec8 a)
      else if fn = "dec64" then withSpec (showOut (parseDecimalToBE8 a)) (Spec.Run.dec8 a)
      else if fn = "hexts" then withSpec (showOut (parseHexTimestamp a)) (Spec.Run.hexts a)
      else if fn = "question" then withSpec (showOut (parseDecimalChallenge a)) (Spec.Run.question a)
      else "bad-op"
    | none => "bad-op"
  | ["leftpad", s, w] =>
    match unhex s, w.toInt? with
    | some s, some w => withSpec (showOut (leftPadHex s w)) (Spec.Run.leftpad s w)
    | _, _ => "bad-op"
  | ["fromstr", t] =>
    match unhex t with
    | some t => let a := s!"ok {Rest.digitsFromStr t} {Rest.algoFromStr t}"; withSpec a (some a)
    | none => "bad-op"
  | ["musthex", s, w] =>
    match unhex s, w.toInt? with
    | some s, some w => withSpec (showOut (mustHexPadLeft s w)) (Spec.Run.musthex s w)
    | _, _ => "bad-op"
  | ["hexinput", a, b, c, d, e] =>
    match unhex a, unhex b, unhex c, unhex d, unhex e with
    | some a, some b, some c, some d, some e =>
      (match hexInputToOCRA a b c d e with
        | .ok i => "ok " ++ showInput i
        | .err er => "err " ++ er.name
        | .panic => "panic")
    | _, _, _, _, _ => "bad-op"
  | "rest" :: rest => RestDrv.run O rest
  | "js" :: rest => WasmDrv.run O rest
  | ["wderive", k, c, d, a] =>
    match unhex k, c.toNat?, d.toNat?, a.toNat? with
    | some k, some c, some d, some a => withSpec (showOut (Wasm.deriveWasm O k c d a)) (Spec.Run.derive O k c d a)
    | _, _, _, _ => "bad-op"
  | "urlg" :: rest => Url.Run.urlg rest
  | "urlp" :: rest => Url.Run.urlp rest
  | "std.trim" :: [s] => (match unhex s with | some s => "ok " ++ hex (Std.trimSpace s) | none => "bad-op")
  | "std.b32dec" :: [s] =>
    (match unhex s with
      | some s => (match Std.B32.decode (s.map UInt8.toNat) with
          | some b => "ok " ++ hex (b.map Nat.toUInt8)
          | none => "err")
      | none => "bad-op")
  | "std.b32enc" :: [s] => (match unhex s with | some s => "ok " ++ hex ((Std.B32.enc (s.map UInt8.toNat)).map Nat.toUInt8) | none => "bad-op")
  | "std.b32encnp" :: [s] => (match unhex s with | some s => "ok " ++ hex ((Std.B32.encNoPad (s.map UInt8.toNat)).map Nat.toUInt8) | none => "bad-op")
  | "std.hexdec" :: [s] => (match unhex s with | some s => (match hexDecode s with | some b => "ok " ++ hex b | none => "err") | none => "bad-op")
  | "std.parseuint" :: [s] => (match unhex s with | some s => (match parseUint64 s with | some v => s!"ok {v}" | none => "err") | none => "bad-op")
  | "std.hmac" :: [a, k, m] =>
    (match a.toNat?, unhex k, unhex m with
      | some a, some k, some m => "ok " ++ hex (hmacFn a k m)
      | _, _, _ => "bad-op")
  | [] => ""
  | _ => "bad-op"

end Drv

/-- known-answer tests run at start-up (labelled tests, not proofs) -/
def selfTest : IO Bool := do
  let k := "12345678901234567890".toUTF8.toList
  let exp := ["755224", "287082", "359152", "969429", "338314", "254676", "287922", "162583", "399871", "520489"]
  let mut ok := true
  for i in [0:10] do
    match deriveRFC4226 Drv.oracle k i 6 0 with
    | .ok c => if String.ofList (c.map (fun b => Char.ofNat b.toNat)) ≠ exp[i]! then ok := false
    | _ => ok := false
  if OtpVerif.Sha.hexOf (OtpVerif.Sha.sha256 "abc".toUTF8) ≠ "ba7816bf8f01cfea414140de5dae2223b00361a396177a9cb410ff61f20015ad" then ok := false
  if OtpVerif.Sha.hexOf (OtpVerif.Sha.sha512 "abc".toUTF8) ≠ "ddaf35a193617abacc417349ae20413112e6fa4e89a97ea20a9eeee64b55d39a2192992a274fc1a836ba3c23a3feebbd454d4423643ce80e2a9ac94fa54ca49f" then ok := false
  return ok

partial def loop (hin : IO.FS.Stream) (hout : IO.FS.Stream) : IO Unit := do
  let line ← hin.getLine
  if line.isEmpty then return ()
  hout.putStrLn (Drv.step line)
  loop hin hout

def main (args : List String) : IO UInt32 := do
  if !(← selfTest) then
    IO.eprintln "driver self-test (RFC 4226 / FIPS 180 vectors) FAILED"
    return 2
  if args.contains "--selftest" then
    IO.println "selftest ok"
    return 0
  let hin ← IO.getStdin
  let hout ← IO.getStdout
  loop hin hout
  hout.flush
  return 0
