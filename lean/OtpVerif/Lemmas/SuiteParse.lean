/-
The library's suite-string parser (model) is sound w.r.t. the Spec reader `denote`:
whatever it accepts, it reads exactly as the naming scheme says.
-/
import OtpVerif.Model.Suite
import OtpVerif.Spec.SuiteGrammar

namespace OtpVerif.Lemmas
open OtpVerif OtpVerif.Std OtpVerif.Model

theorem splitOn_ne_nil (sep : UInt8) (s : Bytes) : splitOn sep s ≠ [] := by
  induction s with
  | nil => simp [splitOn]
  | cons c rest ih =>
    unfold splitOn
    split
    · simp
    · split
      · simp
      · simp

theorem splitOn_cons_ne (sep c : UInt8) (rest : Bytes) (h : c ≠ sep) :
    ∃ p ps, splitOn sep rest = p :: ps ∧ splitOn sep (c :: rest) = (c :: p) :: ps := by
  cases hs : splitOn sep rest with
  | nil => exact absurd hs (splitOn_ne_nil sep rest)
  | cons p ps =>
    refine ⟨p, ps, rfl, ?_⟩
    show splitOn sep (c :: rest) = _
    unfold splitOn
    rw [if_neg h, hs]

theorem splitOn_cons_eq (sep : UInt8) (rest : Bytes) : splitOn sep (sep :: rest) = [] :: splitOn sep rest := by
  conv => lhs; unfold splitOn
  rw [if_pos rfl]

theorem parseSuiteNumber_numeral (s : Bytes) (n : Nat) (h : parseSuiteNumber s = some n) : Spec.numeral s = some n := by
  unfold parseSuiteNumber at h
  unfold Spec.numeral
  by_cases hl : s.length = 0 ∨ s.length > 3
  · rw [if_pos hl] at h; cases h
  · rw [if_neg hl] at h
    by_cases hd : s.all isDigitChar = true
    · rw [if_pos hd] at h
      rw [if_pos ⟨by omega, by omega, hd⟩]
      exact h
    · rw [if_neg hd] at h; cases h

theorem upperAscii_eq_dash (c : UInt8) (h : upperAscii c = 45) : c = 45 := by
  unfold upperAscii at h
  by_cases hc : 97 ≤ c.toNat ∧ c.toNat ≤ 122
  · rw [if_pos hc] at h
    have : (c - 32).toNat = 45 := by rw [h]; rfl
    rw [UInt8.toNat_sub] at this
    have e : UInt8.toNat 32 = 32 := by decide
    rw [e] at this; omega
  · rw [if_neg hc] at h; exact h

theorem upperAscii_ne_dash (c : UInt8) (u : UInt8) (h : upperAscii c = u) (hu : u ≠ 45) : c ≠ 45 := by
  intro e; subst e
  have : upperAscii 45 = 45 := by decide
  rw [this] at h; exact hu h.symm

theorem hashName_spec (hU : Bytes) (h : Nat)
    (hh : (if hU = sSHA1 then some 0 else if hU = sSHA256 then some 1 else if hU = sSHA512 then some 2 else none) = some h) :
    Spec.hashOfName hU = some h := by
  unfold Spec.hashOfName
  unfold sSHA1 sSHA256 sSHA512 at hh
  exact hh

/-- the crypto part: whatever `parseCryptoFunction` accepts is `HOTP-<hash>-<digits>` as the Spec reads it -/
theorem parseCrypto_spec (crypto : Bytes) (h d : Nat) (hp : parseCryptoFunction crypto = some (h, d)) :
    ∃ w0 w1 w2, splitOn 45 crypto = [w0, w1, w2] ∧ toUpperAscii w0 = [72, 79, 84, 80] ∧
      Spec.hashOfName (toUpperAscii w1) = some h ∧ Spec.numeral w2 = some d := by
  unfold parseCryptoFunction at hp
  by_cases hpre : hasPrefix sHOTP_SHA (toUpperAscii crypto) = true
  · simp only [hpre, Bool.not_true, Bool.false_eq_true, if_false] at hp
    -- crypto = c0 c1 c2 c3 c4 ++ rest with upper-case "HOTP-"
    unfold hasPrefix sHOTP_SHA toUpperAscii at hpre
    match crypto, hpre, hp with
    | c0 :: c1 :: c2 :: c3 :: c4 :: rest, hpre, hp =>
      simp only [List.map_cons, List.isPrefixOf, Bool.and_eq_true, beq_iff_eq] at hpre
      obtain ⟨e0, e1, e2, e3, e4, _⟩ := hpre
      have d4 : c4 = 45 := upperAscii_eq_dash c4 e4.symm
      have n0 : c0 ≠ 45 := upperAscii_ne_dash c0 72 e0.symm (by decide)
      have n1 : c1 ≠ 45 := upperAscii_ne_dash c1 79 e1.symm (by decide)
      have n2 : c2 ≠ 45 := upperAscii_ne_dash c2 84 e2.symm (by decide)
      have n3 : c3 ≠ 45 := upperAscii_ne_dash c3 80 e3.symm (by decide)
      subst d4
      simp only [List.drop_succ_cons, List.drop_zero] at hp
      cases hs : splitOn 45 rest with
      | nil => exact absurd hs (splitOn_ne_nil 45 rest)
      | cons hashPart tl =>
        rw [hs] at hp
        match tl, hp with
        | [digPart], hp =>
          simp only at hp
          cases hh : (if toUpperAscii hashPart = sSHA1 then some 0 else if toUpperAscii hashPart = sSHA256 then some 1
              else if toUpperAscii hashPart = sSHA512 then some 2 else (none : Option Nat)) with
          | none => rw [hh] at hp; cases hp
          | some h' =>
            rw [hh] at hp
            cases hn : parseSuiteNumber digPart with
            | none => rw [hn] at hp; cases hp
            | some d' =>
              rw [hn] at hp
              simp only [Option.some.injEq, Prod.mk.injEq] at hp
              obtain ⟨rfl, rfl⟩ := hp
              refine ⟨[c0, c1, c2, c3], hashPart, digPart, ?_, ?_, hashName_spec _ _ hh, parseSuiteNumber_numeral _ _ hn⟩
              · -- splitOn on "c0c1c2c3-rest"
                have s4 : splitOn 45 (45 :: rest) = [] :: [hashPart, digPart] := by rw [splitOn_cons_eq, hs]
                obtain ⟨p3, ps3, h3a, h3b⟩ := splitOn_cons_ne 45 c3 (45 :: rest) n3
                rw [s4] at h3a; injection h3a with e1 e2; subst e1; subst e2
                obtain ⟨p2, ps2, h2a, h2b⟩ := splitOn_cons_ne 45 c2 (c3 :: 45 :: rest) n2
                rw [h3b] at h2a; injection h2a with e1 e2; subst e1; subst e2
                obtain ⟨p1, ps1, h1a, h1b⟩ := splitOn_cons_ne 45 c1 (c2 :: c3 :: 45 :: rest) n1
                rw [h2b] at h1a; injection h1a with e1 e2; subst e1; subst e2
                obtain ⟨p0, ps0, h0a, h0b⟩ := splitOn_cons_ne 45 c0 (c1 :: c2 :: c3 :: 45 :: rest) n0
                rw [h1b] at h0a; injection h0a with e1 e2; subst e1; subst e2
                exact h0b
              · simp only [toUpperAscii, List.map_cons, List.map_nil, ← e0, ← e1, ← e2, ← e3]
  · have : hasPrefix sHOTP_SHA (toUpperAscii crypto) = false := by
      cases h' : hasPrefix sHOTP_SHA (toUpperAscii crypto) with
      | false => rfl
      | true => exact absurd h' hpre
    simp only [this, Bool.not_false, if_true] at hp
    cases hp


theorem prefix2 (a b : UInt8) (s : Bytes) (h : hasPrefix [a, b] s = true) : ∃ x, s = a :: b :: x := by
  unfold hasPrefix at h
  match s, h with
  | [], h => simp [List.isPrefixOf] at h
  | [_], h => simp [List.isPrefixOf] at h
  | c0 :: c1 :: x, h =>
    simp only [List.isPrefixOf, Bool.and_eq_true, beq_iff_eq] at h
    exact ⟨x, by rw [h.1, h.2.1]⟩

theorem prefix1 (a : UInt8) (s : Bytes) (h : hasPrefix [a] s = true) : ∃ x, s = a :: x := by
  unfold hasPrefix at h
  match s, h with
  | [], h => simp [List.isPrefixOf] at h
  | c0 :: x, h =>
    simp only [List.isPrefixOf, Bool.and_eq_true, beq_iff_eq] at h
    exact ⟨x, by rw [h.1]⟩

theorem parseSuiteNumber_digits3 (d1 d2 d3 : UInt8) (h : (parseSuiteNumber [d1, d2, d3]).isNone = false) :
    isDigitChar d1 = true ∧ isDigitChar d2 = true ∧ isDigitChar d3 = true := by
  unfold parseSuiteNumber at h
  simp only [List.length_cons, List.length_nil] at h
  rw [if_neg (by omega)] at h
  by_cases hd : [d1, d2, d3].all isDigitChar = true
  · simpa [List.all_cons] using hd
  · rw [if_neg hd] at h; simp at h

/-- what the library's `switch` does to one token, in Spec terms: either the Spec classifies the token
identically, or it is a challenge token whose format the library does not record (QA…, QH…, QN with a
length other than 4 characters) -/
theorem tokenEffect_spec (cfg cfg' : SuiteConfig) (tok : Bytes) (c : UInt8) (x : Bytes)
    (hU : toUpperAscii tok = c :: x) (h : tokenEffect cfg tok (c :: x) = some cfg') :
    (∃ t, Spec.classify tok = some t ∧ t.rank = tokenRank c ∧ cfg' = Spec.applyTok cfg t) ∨
    (tokenRank c = 2 ∧ cfg' = { cfg with incQ := true }) := by
  unfold tokenEffect at h
  by_cases h1 : c :: x = [67]
  · rw [if_pos h1] at h
    injection h1 with hc hx; subst hc; subst hx
    left; refine ⟨.c, ?_, rfl, ?_⟩
    · unfold Spec.classify; rw [hU]; rfl
    · injection h with h; exact h.symm
  rw [if_neg h1] at h
  by_cases h2 : hasPrefix [81, 78] (c :: x) = true
  · rw [if_pos h2] at h
    obtain ⟨y, hy⟩ := prefix2 81 78 _ h2
    injection hy with hc hx; subst hc; subst hx
    by_cases hl : (81 :: 78 :: y).length = 4
    · rw [if_pos hl] at h
      simp only [List.drop_succ_cons, List.drop_zero] at h
      by_cases n1 : y = [48, 56]
      · rw [if_pos n1] at h; subst n1
        left; refine ⟨.q 1, ?_, rfl, ?_⟩
        · unfold Spec.classify; rw [hU]; rfl
        · injection h with h; exact h.symm
      · rw [if_neg n1] at h
        by_cases n2 : y = [49, 48]
        · rw [if_pos n2] at h; subst n2
          left; refine ⟨.q 2, ?_, rfl, ?_⟩
          · unfold Spec.classify; rw [hU]; rfl
          · injection h with h; exact h.symm
        · rw [if_neg n2] at h; cases h
    · rw [if_neg hl] at h
      right; exact ⟨rfl, by injection h with h; exact h.symm⟩
  rw [if_neg h2] at h
  by_cases h3 : hasPrefix [81, 65] (c :: x) = true
  · rw [if_pos h3] at h
    obtain ⟨y, hy⟩ := prefix2 81 65 _ h3
    injection hy with hc hx; subst hc
    right; exact ⟨rfl, by injection h with h; exact h.symm⟩
  rw [if_neg h3] at h
  by_cases h4 : hasPrefix [81, 72] (c :: x) = true
  · rw [if_pos h4] at h
    obtain ⟨y, hy⟩ := prefix2 81 72 _ h4
    injection hy with hc hx; subst hc
    right; exact ⟨rfl, by injection h with h; exact h.symm⟩
  rw [if_neg h4] at h
  by_cases h5 : hasPrefix [80, 83, 72, 65] (c :: x) = true
  · rw [if_pos h5] at h
    by_cases p1 : c :: x = 80 :: sSHA1
    · rw [if_pos p1] at h
      injection p1 with hc hx; subst hc; subst hx
      left; refine ⟨.p 1, ?_, rfl, ?_⟩
      · unfold Spec.classify; rw [hU]; rfl
      · injection h with h; exact h.symm
    rw [if_neg p1] at h
    by_cases p2 : c :: x = 80 :: sSHA256
    · rw [if_pos p2] at h
      injection p2 with hc hx; subst hc; subst hx
      left; refine ⟨.p 2, ?_, rfl, ?_⟩
      · unfold Spec.classify; rw [hU]; rfl
      · injection h with h; exact h.symm
    rw [if_neg p2] at h
    by_cases p3 : c :: x = 80 :: sSHA512
    · rw [if_pos p3] at h
      injection p3 with hc hx; subst hc; subst hx
      left; refine ⟨.p 3, ?_, rfl, ?_⟩
      · unfold Spec.classify; rw [hU]; rfl
      · injection h with h; exact h.symm
    rw [if_neg p3] at h; cases h
  rw [if_neg h5] at h
  by_cases h6 : hasPrefix [84] (c :: x) = true
  · rw [if_pos h6] at h
    obtain ⟨y, hy⟩ := prefix1 84 _ h6
    injection hy with hc hx; subst hc
    cases hg : parseTimeGranularity (tok.drop 1) with
    | none => rw [hg] at h; cases h
    | some secs =>
      rw [hg] at h
      left; refine ⟨.t secs, ?_, rfl, ?_⟩
      · unfold parseTimeGranularity at hg
        by_cases hl2 : (tok.drop 1).length < 2
        · rw [if_pos hl2] at hg; cases hg
        · rw [if_neg hl2] at hg
          unfold Spec.classify; rw [hU]
          simp only
          cases hlast : (tok.drop 1).getLast? with
          | none => rw [hlast] at hg; cases hg
          | some u =>
            rw [hlast] at hg
            cases hnum : parseSuiteNumber (tok.drop 1).dropLast with
            | none => rw [hnum] at hg; cases hg
            | some val =>
              rw [hnum] at hg
              simp only at hg ⊢
              rw [parseSuiteNumber_numeral _ _ hnum]
              by_cases u1 : u = 83
              · rw [if_pos u1] at hg ⊢; injection hg with hg; subst hg; rfl
              rw [if_neg u1] at hg ⊢
              by_cases u2 : u = 77
              · rw [if_pos u2] at hg ⊢; injection hg with hg; subst hg; rfl
              rw [if_neg u2] at hg ⊢
              by_cases u3 : u = 72
              · rw [if_pos u3] at hg ⊢; injection hg with hg; subst hg; rfl
              rw [if_neg u3] at hg; cases hg
      · injection h with h; exact h.symm
  rw [if_neg h6] at h
  by_cases h7 : hasPrefix [83] (c :: x) = true
  · rw [if_pos h7] at h
    obtain ⟨y, hy⟩ := prefix1 83 _ h7
    injection hy with hc hx; subst hc; subst hx
    by_cases hl1 : (83 :: x).length ≠ 1
    · rw [if_pos hl1] at h
      by_cases hb : (parseSuiteNumber ((83 :: x).drop 1)).isNone = true ∨ (83 :: x).length ≠ 4
      · rw [if_pos hb] at h; cases h
      · rw [if_neg hb] at h
        have hlen : (83 :: x).length = 4 := Classical.byContradiction fun hn => hb (Or.inr hn)
        match x, hlen, hb, hU, h with
        | [d1, d2, d3], _, hb, hU, h =>
          have hnn : (parseSuiteNumber [d1, d2, d3]).isNone = false := by
            cases hq : (parseSuiteNumber [d1, d2, d3]).isNone with
            | false => rfl
            | true => exact absurd (Or.inl hq) hb
          obtain ⟨a1, a2, a3⟩ := parseSuiteNumber_digits3 d1 d2 d3 hnn
          left; refine ⟨.s, ?_, rfl, ?_⟩
          · unfold Spec.classify; rw [hU]; simp only [a1, a2, a3, and_self, if_true]
          · injection h with h; exact h.symm
    · rw [if_neg hl1] at h
      have : x = [] := by
        cases x with
        | nil => rfl
        | cons _ _ => simp at hl1
      subst this
      left; refine ⟨.s, ?_, rfl, ?_⟩
      · unfold Spec.classify; rw [hU]; rfl
      · injection h with h; exact h.symm
  rw [if_neg h7] at h; cases h


theorem parseToken_inv (cfg cfg' : SuiteConfig) (last r : Nat) (tok : Bytes) (h : parseToken cfg last tok = some (cfg', r)) :
    ∃ c x, toUpperAscii tok = c :: x ∧ tokenEffect cfg tok (c :: x) = some cfg' ∧ r = tokenRank c ∧ last < r := by
  unfold parseToken at h
  cases hU : toUpperAscii tok with
  | nil => rw [hU] at h; simp at h
  | cons c x =>
    rw [hU] at h
    cases he : tokenEffect cfg tok (c :: x) with
    | none => rw [he] at h; simp at h
    | some cfg1 =>
      rw [he] at h
      simp only at h
      by_cases hr : tokenRank c ≤ last
      · rw [if_pos hr] at h; cases h
      · rw [if_neg hr] at h
        injection h with h; injection h with h1 h2
        exact ⟨c, x, rfl, h1 ▸ he, h2.symm, by omega⟩

theorem applyTok_keepsQ (cfg : SuiteConfig) (t : Spec.Tok) (h : 3 ≤ t.rank) :
    (Spec.applyTok cfg t).incQ = cfg.incQ ∧ (Spec.applyTok cfg t).challenge = cfg.challenge := by
  cases t <;> simp [Spec.Tok.rank] at h <;> simp [Spec.applyTok]

theorem applyTok_keeps (cfg : SuiteConfig) (t : Spec.Tok) :
    (Spec.applyTok cfg t).hash = cfg.hash ∧ (Spec.applyTok cfg t).digits = cfg.digits ∧ (Spec.applyTok cfg t).raw = cfg.raw := by
  cases t <;> simp [Spec.applyTok]

/-- after the challenge position, later tokens never touch the challenge fields -/
theorem parseTokens_keepsQ : ∀ (toks : List Bytes) (cfg cfg' : SuiteConfig) (last : Nat),
    parseTokens cfg last toks = some cfg' → 2 ≤ last → cfg'.incQ = cfg.incQ ∧ cfg'.challenge = cfg.challenge := by
  intro toks
  induction toks with
  | nil => intro cfg cfg' last h _; unfold parseTokens at h; injection h with h; subst h; exact ⟨rfl, rfl⟩
  | cons tok rest ih =>
    intro cfg cfg' last h hl
    unfold parseTokens at h
    cases hp : parseToken cfg last tok with
    | none => rw [hp] at h; cases h
    | some pr =>
      obtain ⟨cfg1, r⟩ := pr
      rw [hp] at h
      simp only at h
      obtain ⟨c, x, hU, he, hr, hlt⟩ := parseToken_inv cfg cfg1 last r tok hp
      have ih' := ih cfg1 cfg' r h (by omega)
      rcases tokenEffect_spec cfg cfg1 tok c x hU he with ⟨t, _, htr, hcfg⟩ | ⟨h2, _⟩
      · have := applyTok_keepsQ cfg t (by omega)
        rw [hcfg] at ih'
        exact ⟨ih'.1.trans this.1, ih'.2.trans this.2⟩
      · omega

/-- the token loop agrees with the Spec reader whenever the result records a challenge format for a selected challenge -/
theorem parseTokens_spec : ∀ (toks : List Bytes) (cfg cfg' : SuiteConfig) (last : Nat),
    parseTokens cfg last toks = some cfg' →
    (last < 2 → cfg.incQ = false ∧ cfg.challenge = 0) →
    (cfg'.incQ = true → cfg'.challenge ≠ 0) →
    Spec.denoteTokens cfg last toks = some cfg' := by
  intro toks
  induction toks with
  | nil => intro cfg cfg' last h _ _; unfold parseTokens at h; unfold Spec.denoteTokens; exact h
  | cons tok rest ih =>
    intro cfg cfg' last h hpre hgood
    unfold parseTokens at h
    cases hp : parseToken cfg last tok with
    | none => rw [hp] at h; cases h
    | some pr =>
      obtain ⟨cfg1, r⟩ := pr
      rw [hp] at h
      simp only at h
      obtain ⟨c, x, hU, he, hr, hlt⟩ := parseToken_inv cfg cfg1 last r tok hp
      rcases tokenEffect_spec cfg cfg1 tok c x hU he with ⟨t, hcl, htr, hcfg⟩ | ⟨h2, hcfg⟩
      · unfold Spec.denoteTokens
        rw [hcl]
        simp only
        rw [if_neg (by omega)]
        rw [htr, ← hr, ← hcfg]
        apply ih cfg1 cfg' r h ?_ hgood
        intro hr2
        have hl2 : last < 2 := by omega
        obtain ⟨q0, c0⟩ := hpre hl2
        -- r < 2 means the token is C
        have : t.rank = 1 := by omega
        cases t <;> simp [Spec.Tok.rank] at this
        rw [hcfg]; simp [Spec.applyTok, q0, c0]
      · -- a challenge token without recorded format: the final configuration cannot be "good"
        exfalso
        have hl2 : last < 2 := by omega
        obtain ⟨_, c0⟩ := hpre hl2
        have keep := parseTokens_keepsQ rest cfg1 cfg' r h (by omega)
        rw [hcfg] at keep
        simp only at keep
        exact hgood keep.1 (by rw [keep.2]; exact c0)

theorem denoteTokens_keeps : ∀ (toks : List Bytes) (cfg cfg' : SuiteConfig) (last : Nat),
    Spec.denoteTokens cfg last toks = some cfg' → cfg'.hash = cfg.hash ∧ cfg'.digits = cfg.digits := by
  intro toks
  induction toks with
  | nil => intro cfg cfg' last h; unfold Spec.denoteTokens at h; injection h with h; subst h; exact ⟨rfl, rfl⟩
  | cons tok rest ih =>
    intro cfg cfg' last h
    unfold Spec.denoteTokens at h
    cases hc : Spec.classify tok with
    | none => rw [hc] at h; cases h
    | some t =>
      rw [hc] at h
      simp only at h
      by_cases hr : t.rank ≤ last
      · rw [if_pos hr] at h; cases h
      · rw [if_neg hr] at h
        have := ih _ _ _ h
        have k := applyTok_keeps cfg t
        exact ⟨this.1.trans k.1, this.2.trans k.2.1⟩

/-- **soundness of the library's parser**: whatever `parseRawSuite` accepts, the naming scheme reads the same way -/
theorem parseRawSuite_sound (raw : Bytes) (cfg : SuiteConfig) (h : parseRawSuite raw = .ok cfg) :
    Spec.denote raw = some cfg := by
  unfold parseRawSuite at h
  unfold Spec.denote
  by_cases hA : raw.any (fun c => decide (c.toNat ≥ 128)) = true
  · rw [if_pos hA] at h; cases h
  rw [if_neg hA] at h ⊢
  cases hs : splitOn 58 raw with
  | nil => exact absurd hs (splitOn_ne_nil 58 raw)
  | cons version tl =>
    rw [hs] at h
    match tl, h with
    | [], h => cases h
    | [_], h => cases h
    | _ :: _ :: _ :: _, h => cases h
    | [crypto, dataInput], h =>
      simp only at h ⊢
      by_cases hv : version ≠ sOCRA1
      · rw [if_pos hv] at h; cases h
      rw [if_neg hv] at h
      have hv' : ¬ version ≠ [79, 67, 82, 65, 45, 49] := hv
      rw [if_neg hv']
      cases hc : parseCryptoFunction crypto with
      | none => rw [hc] at h; cases h
      | some hd =>
        obtain ⟨hh, d⟩ := hd
        rw [hc] at h
        simp only at h
        obtain ⟨w0, w1, w2, hsp, hw0, hw1, hw2⟩ := parseCrypto_spec crypto hh d hc
        rw [hsp]
        simp only
        rw [if_neg (by rw [hw0]; simp), hw1, hw2]
        simp only
        cases ht : parseTokens { zeroCfg with hash := hh, digits := d } 0 (splitOn 45 dataInput) with
        | none => rw [ht] at h; cases h
        | some cfg0 =>
          rw [ht] at h
          simp only at h
          cases hval : suiteValidate { cfg0 with raw := raw } with
          | some e => rw [hval] at h; cases h
          | none =>
            rw [hval] at h
            injection h with h
            -- what validation tells us
            unfold suiteValidate at hval
            simp only at hval
            by_cases v1 : cfg0.digits < 4 ∨ cfg0.digits > 10
            · rw [if_pos v1] at hval; cases hval
            rw [if_neg v1] at hval
            by_cases v2 : cfg0.hash ≠ 0 ∧ cfg0.hash ≠ 1 ∧ cfg0.hash ≠ 2
            · rw [if_pos v2] at hval; cases hval
            rw [if_neg v2] at hval
            by_cases v3 : cfg0.incP = true ∧ cfg0.pwHash = 0
            · rw [if_pos v3] at hval; cases hval
            rw [if_neg v3] at hval
            by_cases v4 : cfg0.incT = true ∧ cfg0.timeStep ≤ 0
            · rw [if_pos v4] at hval; cases hval
            rw [if_neg v4] at hval
            by_cases v5 : cfg0.incQ = true ∧ cfg0.challenge = 0
            · rw [if_pos v5] at hval; cases hval
            have hgood : cfg0.incQ = true → cfg0.challenge ≠ 0 := fun hq hz => v5 ⟨hq, hz⟩
            have hden := parseTokens_spec (splitOn 45 dataInput) _ cfg0 0 ht (fun _ => ⟨rfl, rfl⟩) hgood
            have hkeep := denoteTokens_keeps _ _ _ _ hden
            simp only [zeroCfg] at hkeep
            have hdig : ¬ (d < 4 ∨ d > 10) := by
              have : cfg0.digits = (d : Int) := hkeep.2
              rw [this] at v1; omega
            rw [if_neg hdig]
            have he : ({ Spec.emptyCfg with hash := hh, digits := (d : Int) } : SuiteConfig) = { zeroCfg with hash := hh, digits := (d : Int) } := rfl
            rw [he, hden]
            simp only
            rw [if_neg v4, h]

end OtpVerif.Lemmas
