/-
The `-skew..+skew` loops of ValidateHOTP / ValidateTOTP as written (Int index, underflow guard,
wrapping uint64 addition, first match wins, explicit fuel) accept exactly the window set.
-/
import OtpVerif.Model.Otp

namespace OtpVerif.Lemmas
open OtpVerif OtpVerif.Model

/-- if the probe never panics / errs, the loop is a pure search -/
theorem windowLoop_iff (probe : Int → Out Bool) (pb : Int → Bool) (hp : ∀ i, probe i = .ok (pb i)) (hi : Int) :
    ∀ (fuel : Nat) (i : Int), (hi - i + 1).toNat ≤ fuel →
      (windowLoop probe hi fuel i = .ok true ↔ ∃ j : Int, i ≤ j ∧ j ≤ hi ∧ pb j = true) ∧
      (windowLoop probe hi fuel i = .ok true ∨ windowLoop probe hi fuel i = .ok false) := by
  intro fuel
  induction fuel with
  | zero =>
    intro i hf
    have e : windowLoop probe hi 0 i = .ok false := rfl
    rw [e]
    refine ⟨⟨fun h => (by cases h), ?_⟩, Or.inr rfl⟩
    rintro ⟨j, h1, h2, _⟩; omega
  | succ n ih =>
    intro i hf
    have e : windowLoop probe hi (n + 1) i =
        (if i > hi then .ok false
         else match probe i with
           | .ok true => .ok true
           | .ok false => windowLoop probe hi n (i + 1)
           | .err e => .err e
           | .panic => .panic) := rfl
    rw [e]
    by_cases hgt : i > hi
    · rw [if_pos hgt]
      refine ⟨⟨fun h => (by cases h), ?_⟩, Or.inr rfl⟩
      rintro ⟨j, h1, h2, _⟩; omega
    · rw [if_neg hgt, hp i]
      cases hb : pb i with
      | true =>
        exact ⟨⟨fun _ => ⟨i, by omega, by omega, hb⟩, fun _ => rfl⟩, Or.inl rfl⟩
      | false =>
        have ih' := ih (i + 1) (by omega)
        refine ⟨⟨?_, ?_⟩, ih'.2⟩
        · intro h
          obtain ⟨j, h1, h2, h3⟩ := ih'.1.mp h
          exact ⟨j, by omega, h2, h3⟩
        · rintro ⟨j, h1, h2, h3⟩
          have hne : j ≠ i := by intro e; subst e; rw [hb] at h3; cases h3
          exact ih'.1.mpr ⟨j, by omega, h2, h3⟩

/-- the HOTP loop body with a total check: which counter is examined -/
theorem hotpProbe_ok (chk : Nat → Bool) (counter : Nat) (i : Int) :
    hotpProbe (fun c => .ok (chk c)) counter i =
      .ok (if i < 0 then (if counter < (-i).toNat then false else chk (counter - (-i).toNat))
           else chk ((counter + i.toNat) % 2 ^ 64)) := by
  unfold hotpProbe
  by_cases h : i < 0
  · simp only [h, if_true]; split <;> rfl
  · simp only [h, if_false]

/-- HOTP window: the loop accepts iff some counter c' with c - s ≤ c' ≤ c + s (natural subtraction, i.e.
max(0, c-s)) passes the check – under c + s < 2^64 -/
theorem hotpWindow_iff (chk : Nat → Bool) (c s : Nat) (hov : c + s < 2 ^ 64) :
    (windowLoop (hotpProbe (fun c => .ok (chk c)) c) (s : Int) (2 * s + 1) (-(s : Int)) = .ok true ↔
      ∃ c', c - s ≤ c' ∧ c' ≤ c + s ∧ chk c' = true) ∧
    (windowLoop (hotpProbe (fun c => .ok (chk c)) c) (s : Int) (2 * s + 1) (-(s : Int)) = .ok true ∨
     windowLoop (hotpProbe (fun c => .ok (chk c)) c) (s : Int) (2 * s + 1) (-(s : Int)) = .ok false) := by
  have h := windowLoop_iff (hotpProbe (fun c => .ok (chk c)) c) _ (hotpProbe_ok chk c) (s : Int) (2 * s + 1) (-(s : Int)) (by omega)
  refine ⟨?_, h.2⟩
  rw [h.1]
  constructor
  · rintro ⟨j, h1, h2, h3⟩
    by_cases hneg : j < 0
    · simp only [hneg, if_true] at h3
      by_cases hu : c < (-j).toNat
      · simp [hu] at h3
      · simp only [hu, if_false] at h3
        exact ⟨c - (-j).toNat, by omega, by omega, h3⟩
    · simp only [hneg, if_false] at h3
      have hlt : c + j.toNat < 2 ^ 64 := by omega
      rw [Nat.mod_eq_of_lt hlt] at h3
      exact ⟨c + j.toNat, by omega, by omega, h3⟩
  · rintro ⟨c', h1, h2, h3⟩
    refine ⟨(c' : Int) - c, by omega, by omega, ?_⟩
    by_cases hneg : (c' : Int) - c < 0
    · simp only [hneg, if_true]
      have hu : ¬ c < (-((c' : Int) - c)).toNat := by omega
      simp only [hu, if_false]
      have : c - (-((c' : Int) - c)).toNat = c' := by omega
      rw [this]; exact h3
    · simp only [hneg, if_false]
      have : (c + ((c' : Int) - c).toNat) % 2 ^ 64 = c' := by
        have e : c + ((c' : Int) - c).toNat = c' := by omega
        rw [e]; exact Nat.mod_eq_of_lt (by omega)
      rw [this]; exact h3

theorem toU64_nonneg (i : Int) (h : 0 ≤ i) (h2 : i < 2 ^ 64) : toU64 i = i.toNat := by
  unfold toU64; omega

theorem toU64_neg (i : Int) (h : i < 0) (h2 : -(2 ^ 64 : Int) ≤ i) : toU64 i = (2 ^ 64 - (-i).toNat) := by
  unfold toU64; omega

/-- TOTP window: `counter + uint64(i)` with wrap-around is `n + i` whenever the whole window lies in
[0, 2^64) -/
theorem totpWindow_iff (chk : Nat → Bool) (n s : Nat) (hlo : s ≤ n) (hov : n + s < 2 ^ 64) :
    (windowLoop (totpProbe (fun c => .ok (chk c)) n) (s : Int) (2 * s + 1) (-(s : Int)) = .ok true ↔
      ∃ n', n - s ≤ n' ∧ n' ≤ n + s ∧ chk n' = true) ∧
    (windowLoop (totpProbe (fun c => .ok (chk c)) n) (s : Int) (2 * s + 1) (-(s : Int)) = .ok true ∨
     windowLoop (totpProbe (fun c => .ok (chk c)) n) (s : Int) (2 * s + 1) (-(s : Int)) = .ok false) := by
  have hp : ∀ i, totpProbe (fun c => .ok (chk c)) n i = .ok (chk ((n + toU64 i) % 2 ^ 64)) := fun i => rfl
  have h := windowLoop_iff (totpProbe (fun c => .ok (chk c)) n) _ hp (s : Int) (2 * s + 1) (-(s : Int)) (by omega)
  refine ⟨?_, h.2⟩
  rw [h.1]
  have key : ∀ j : Int, -(s : Int) ≤ j → j ≤ s → (n + toU64 j) % 2 ^ 64 = ((n : Int) + j).toNat := by
    intro j h1 h2
    by_cases hneg : j < 0
    · rw [toU64_neg j hneg (by omega)]
      have e : n + (2 ^ 64 - (-j).toNat) = ((n : Int) + j).toNat + 2 ^ 64 := by omega
      rw [e, Nat.add_mod_right]
      exact Nat.mod_eq_of_lt (by omega)
    · rw [toU64_nonneg j (by omega) (by omega)]
      have e : n + j.toNat = ((n : Int) + j).toNat := by omega
      rw [e]; exact Nat.mod_eq_of_lt (by omega)
  constructor
  · rintro ⟨j, h1, h2, h3⟩
    rw [key j h1 h2] at h3
    exact ⟨((n : Int) + j).toNat, by omega, by omega, h3⟩
  · rintro ⟨n', h1, h2, h3⟩
    refine ⟨(n' : Int) - n, by omega, by omega, ?_⟩
    rw [key _ (by omega) (by omega)]
    have : ((n : Int) + ((n' : Int) - n)).toNat = n' := by omega
    rw [this]; exact h3

/-- the counter the TOTP loop examines at offset `j`, for every `j` of a window of at most 2^63 steps:
`(n + j) mod 2^64` — below step 0 the window continues at the top of the 64-bit range, above 2^64-1 at 0 -/
theorem totp_counter_wrap (n : Nat) (hn : n < 2 ^ 64) (j : Int) (h1 : -(2 ^ 63 : Int) ≤ j) (h2 : j < 2 ^ 63) :
    (n + toU64 j) % 2 ^ 64 = (((n : Int) + j) % (2 ^ 64 : Int)).toNat := by
  by_cases hneg : j < 0
  · rw [toU64_neg j hneg (by omega)]
    by_cases hlow : (n : Int) + j < 0
    · have e1 : n + (2 ^ 64 - (-j).toNat) < 2 ^ 64 := by omega
      rw [Nat.mod_eq_of_lt e1]
      have e2 : ((n : Int) + j) % (2 ^ 64 : Int) = (n : Int) + j + 2 ^ 64 := by omega
      rw [e2]; omega
    · have e1 : n + (2 ^ 64 - (-j).toNat) = ((n : Int) + j).toNat + 2 ^ 64 := by omega
      rw [e1, Nat.add_mod_right, Nat.mod_eq_of_lt (by omega)]
      have e2 : ((n : Int) + j) % (2 ^ 64 : Int) = (n : Int) + j := by omega
      rw [e2]
  · rw [toU64_nonneg j (by omega) (by omega)]
    by_cases hhi : n + j.toNat < 2 ^ 64
    · rw [Nat.mod_eq_of_lt hhi]
      have e2 : ((n : Int) + j) % (2 ^ 64 : Int) = (n : Int) + j := by omega
      rw [e2]; omega
    · have e1 : n + j.toNat = (n + j.toNat - 2 ^ 64) + 2 ^ 64 := by omega
      rw [e1, Nat.add_mod_right, Nat.mod_eq_of_lt (by omega)]
      have e2 : ((n : Int) + j) % (2 ^ 64 : Int) = (n : Int) + j - 2 ^ 64 := by omega
      rw [e2]; omega

/-- TOTP window without any side condition on where the window lies: the loop accepts iff the check passes at
`(n + j) mod 2^64` for some offset `-s ≤ j ≤ s` (this is what `counter + uint64(i)` computes) -/
theorem totpWindow_wrap_iff (chk : Nat → Bool) (n s : Nat) (hn : n < 2 ^ 64) (hs : s < 2 ^ 63) :
    (windowLoop (totpProbe (fun c => .ok (chk c)) n) (s : Int) (2 * s + 1) (-(s : Int)) = .ok true ↔
      ∃ j : Int, -(s : Int) ≤ j ∧ j ≤ s ∧ chk ((((n : Int) + j) % (2 ^ 64 : Int)).toNat) = true) ∧
    (windowLoop (totpProbe (fun c => .ok (chk c)) n) (s : Int) (2 * s + 1) (-(s : Int)) = .ok true ∨
     windowLoop (totpProbe (fun c => .ok (chk c)) n) (s : Int) (2 * s + 1) (-(s : Int)) = .ok false) := by
  have hp : ∀ i, totpProbe (fun c => .ok (chk c)) n i = .ok (chk ((n + toU64 i) % 2 ^ 64)) := fun i => rfl
  have h := windowLoop_iff (totpProbe (fun c => .ok (chk c)) n) _ hp (s : Int) (2 * s + 1) (-(s : Int)) (by omega)
  refine ⟨?_, h.2⟩
  rw [h.1]
  constructor
  · rintro ⟨j, h1, h2, h3⟩
    rw [totp_counter_wrap n hn j (by omega) (by omega)] at h3
    exact ⟨j, h1, h2, h3⟩
  · rintro ⟨j, h1, h2, h3⟩
    refine ⟨j, h1, h2, ?_⟩
    rw [totp_counter_wrap n hn j (by omega) (by omega)]; exact h3

/-- HOTP window without the side condition `c + s < 2^64`: below 0 the window is cut off, above 2^64-1 it wraps -/
theorem hotpWindow_wrap_iff (chk : Nat → Bool) (c s : Nat) (hc : c < 2 ^ 64) (hs : s < 2 ^ 63) :
    (windowLoop (hotpProbe (fun c => .ok (chk c)) c) (s : Int) (2 * s + 1) (-(s : Int)) = .ok true ↔
      ∃ j : Int, -(s : Int) ≤ j ∧ j ≤ s ∧ 0 ≤ (c : Int) + j ∧ chk ((((c : Int) + j) % (2 ^ 64 : Int)).toNat) = true) ∧
    (windowLoop (hotpProbe (fun c => .ok (chk c)) c) (s : Int) (2 * s + 1) (-(s : Int)) = .ok true ∨
     windowLoop (hotpProbe (fun c => .ok (chk c)) c) (s : Int) (2 * s + 1) (-(s : Int)) = .ok false) := by
  have h := windowLoop_iff (hotpProbe (fun c => .ok (chk c)) c) _ (hotpProbe_ok chk c) (s : Int) (2 * s + 1) (-(s : Int)) (by omega)
  refine ⟨?_, h.2⟩
  rw [h.1]
  constructor
  · rintro ⟨j, h1, h2, h3⟩
    by_cases hneg : j < 0
    · simp only [hneg, if_true] at h3
      by_cases hu : c < (-j).toNat
      · simp [hu] at h3
      · simp only [hu, if_false] at h3
        refine ⟨j, h1, h2, by omega, ?_⟩
        have e : (((c : Int) + j) % (2 ^ 64 : Int)).toNat = c - (-j).toNat := by
          have : ((c : Int) + j) % (2 ^ 64 : Int) = (c : Int) + j := by omega
          rw [this]; omega
        rw [e]; exact h3
    · simp only [hneg, if_false] at h3
      refine ⟨j, h1, h2, by omega, ?_⟩
      have e : (((c : Int) + j) % (2 ^ 64 : Int)).toNat = (c + j.toNat) % 2 ^ 64 := by
        omega
      rw [e]; exact h3
  · rintro ⟨j, h1, h2, h0, h3⟩
    refine ⟨j, h1, h2, ?_⟩
    by_cases hneg : j < 0
    · simp only [hneg, if_true]
      have hu : ¬ c < (-j).toNat := by omega
      simp only [hu, if_false]
      have e : (((c : Int) + j) % (2 ^ 64 : Int)).toNat = c - (-j).toNat := by
        have : ((c : Int) + j) % (2 ^ 64 : Int) = (c : Int) + j := by omega
        rw [this]; omega
      rw [← e]; exact h3
    · simp only [hneg, if_false]
      have e : (((c : Int) + j) % (2 ^ 64 : Int)).toNat = (c + j.toNat) % 2 ^ 64 := by
        omega
      rw [← e]; exact h3

end OtpVerif.Lemmas
