/-
The acceptance domain of the stdlib decoder model on inputs whose length is a multiple of 8 (which is
what `DecodeSecret` always passes after re-padding): the text is accepted iff it is a run of alphabet
symbols followed by 0, 1, 3, 4 or 6 '=' and nothing else.
-/
import OtpVerif.Std.Base32

namespace OtpVerif.Lemmas.B32
open OtpVerif.Std.B32

def isSym (c : Nat) : Bool := (sym c).isSome

/-- symbols, then only '=', and the number of '=' is one a 5-byte quantum can end with -/
def accShape (s : List Nat) : Bool :=
  let p := s.dropWhile isSym
  p.all (· == PAD) && (p.length == 0 || p.length == 1 || p.length == 3 || p.length == 4 || p.length == 6)

theorem sym_pad : sym PAD = none := by decide

theorem readQ_mid : ∀ (n j : Nat) (q rest acc : List Nat), q.length = n → 8 ≤ rest.length →
    readQ n j (q ++ rest) acc = if q.all isSym then some (acc ++ q.filterMap sym, rest, false) else none := by
  intro n
  induction n with
  | zero =>
    intro j q rest acc hq _
    have : q = [] := List.eq_nil_of_length_eq_zero hq
    subst this
    simp [readQ]
  | succ n ih =>
    intro j q rest acc hq hr
    match q, hq with
    | c :: q', hq =>
      have hq' : q'.length = n := by simpa using hq
      have hlen : ¬ ((q' ++ rest).length < 8) := by simp; omega
      simp only [List.cons_append, readQ]
      rw [if_neg (by intro h; exact hlen h.2.2)]
      cases hs : sym c with
      | none => simp [isSym, hs]
      | some v =>
        simp only []
        rw [ih (j + 1) q' rest (acc ++ [v]) hq' hr]
        simp [isSym, hs, List.filterMap_cons]
