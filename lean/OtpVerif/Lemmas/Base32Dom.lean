/-
The acceptance domain of the stdlib decoder model on inputs whose length is a multiple of 8 (which is
what `DecodeSecret` always passes after re-padding): the text is accepted iff it is a run of alphabet
symbols followed by 0, 1, 3, 4 or 6 '=' and nothing else.
-/
import OtpVerif.Std.Base32

namespace OtpVerif.Lemmas.B32
open OtpVerif.Std.B32

def isSym (c : Nat) : Bool := (sym c).isSome

/-- symbols, then only '=', and the number of '=' is one a 5-byte quantum can end with -/
def accShape (s : List Nat) : Bool :=
  let p := s.dropWhile isSym
  p.all (· == PAD) && (p.length == 0 || p.length == 1 || p.length == 3 || p.length == 4 || p.length == 6)

theorem sym_pad : sym PAD = none := by decide

theorem readQ_mid : ∀ (n j : Nat) (q rest acc : List Nat), q.length = n → 8 ≤ rest.length →
    readQ n j (q ++ rest) acc = if q.all isSym then some (acc ++ q.filterMap sym, rest, false) else none := by
  intro n
  induction n with
  | zero =>
    intro j q rest acc hq _
    have : q = [] := List.eq_nil_of_length_eq_zero hq
    subst this
    simp [readQ]
  | succ n ih =>
    intro j q rest acc hq hr
    match q, hq with
    | c :: q', hq =>
      have hq' : q'.length = n := by simpa using hq
      have hlen : ¬ ((q' ++ rest).length < 8) := by simp; omega
      simp only [List.cons_append, readQ]
      rw [if_neg (by intro h; exact hlen h.2.2)]
      cases hs : sym c with
      | none => simp [isSym, hs]
      | some v =>
        simp only []
        rw [ih (j + 1) q' rest (acc ++ [v]) hq' hr]
        simp [isSym, hs]

theorem isSym_ne_pad (c : Nat) (h : isSym c = true) : c ≠ PAD := by
  intro hc; subst hc; simp [isSym, sym_pad] at h

def okLen (n : Nat) : Bool := n == 2 || n == 4 || n == 5 || n == 7 || n == 8

theorem pack_isSome (d : List Nat) : (pack d).isSome = okLen d.length := by
  rcases d with _ | ⟨a0, _ | ⟨a1, _ | ⟨a2, _ | ⟨a3, _ | ⟨a4, _ | ⟨a5, _ | ⟨a6, _ | ⟨a7, _ | ⟨a8, r⟩⟩⟩⟩⟩⟩⟩⟩⟩ <;>
    simp [pack, okLen]

/-- the inner loop on the last quantum (exactly `n = 8 - j` characters left) -/
theorem readQ_lastq : ∀ (n j : Nat) (q acc : List Nat), q.length = n → j + n = 8 →
    readQ n j q acc =
      (if q.dropWhile isSym = [] then some (acc ++ (q.takeWhile isSym).filterMap sym, [], false)
       else if (q.dropWhile isSym).all (· == PAD) ∧ 2 ≤ j + (q.takeWhile isSym).length ∧
               j + (q.takeWhile isSym).length ≠ 3 ∧ j + (q.takeWhile isSym).length ≠ 6
            then some (acc ++ (q.takeWhile isSym).filterMap sym, (q.dropWhile isSym).tail, true) else none) := by
  intro n
  induction n with
  | zero =>
    intro j q acc hq _
    have : q = [] := List.eq_nil_of_length_eq_zero hq
    subst this; simp [readQ]
  | succ n ih =>
    intro j q acc hq hj
    match q, hq with
    | c :: q', hq =>
      have hq' : q'.length = n := by simpa using hq
      cases hs : sym c with
      | some v =>
        have hS : isSym c = true := by simp [isSym, hs]
        have hne := isSym_ne_pad c hS
        simp only [readQ, hs]
        rw [if_neg (by intro h; exact hne h.1)]
        rw [ih (j + 1) q' (acc ++ [v]) hq' (by omega)]
        simp only [List.takeWhile_cons, List.dropWhile_cons, hS, if_true, List.filterMap_cons, hs, List.length_cons,
          List.append_assoc, List.singleton_append]
        have e : j + 1 + (List.takeWhile isSym q').length = j + ((List.takeWhile isSym q').length + 1) := by omega
        rw [e]
      | none =>
        have hS : isSym c = false := by simp [isSym, hs]
        simp only [readQ, hs, List.takeWhile_cons, List.dropWhile_cons, hS, List.tail_cons, List.all_cons]
        by_cases hp : c = PAD
        · subst hp
          by_cases hj2 : 2 ≤ j
          · rw [if_pos ⟨rfl, hj2, by omega⟩]
            rw [if_neg (by omega)]
            have ht : List.take (7 - j) q' = q' := List.take_of_length_le (by omega)
            rw [ht]
            by_cases hall : q'.all (fun x => decide (x = PAD)) = true
            · have hall' : q'.all (fun x => x == PAD) = true := by simpa using hall
              simp [hall, hall', hj2]
              by_cases h3 : j = 3
              · simp [h3]
              · by_cases h6 : j = 6
                · simp [h6]
                · have : ¬ (j = 1 ∨ j = 3 ∨ j = 6) := by omega
                  simp [this, h3, h6]; omega
            · have hall' : ¬ (q'.all (fun x => x == PAD) = true) := by simpa using hall
              simp [hall, hall']
          · rw [if_neg (by intro h; exact hj2 h.2.1)]
            simp [hj2]
        · rw [if_neg (by intro h; exact hp h.1)]
          simp [hp]

theorem takeWhile_length_add (q : List Nat) : (q.takeWhile isSym).length + (q.dropWhile isSym).length = q.length := by
  rw [← List.length_append, List.takeWhile_append_dropWhile]

theorem filterMap_sym_length (d : List Nat) (h : ∀ c ∈ d, isSym c = true) : (d.filterMap sym).length = d.length := by
  induction d with
  | nil => rfl
  | cons c d ih =>
    have hc := h c (by simp)
    simp only [isSym, Option.isSome_iff_exists] at hc
    obtain ⟨v, hv⟩ := hc
    simp [hv, ih (fun x hx => h x (by simp [hx]))]

theorem decodeLoop_last (c : Nat) (q' : List Nat) (hq : (c :: q').length = 8) (f : Nat) :
    (decodeLoop (f + 2) (c :: q')).isSome = accShape (c :: q') := by
  have hd := takeWhile_length_add (c :: q')
  have hfl := filterMap_sym_length ((c :: q').takeWhile isSym) (fun x hx => List.all_eq_true.mp List.all_takeWhile x hx)
  unfold accShape
  rw [decodeLoop]
  simp only []
  rw [readQ_lastq 8 0 (c :: q') [] hq (by omega)]
  simp only [List.nil_append, Nat.zero_add]
  by_cases hp : (c :: q').dropWhile isSym = []
  · rw [if_pos hp]
    simp only [hp, List.length_nil, Nat.add_zero] at hd ⊢
    have : (pack (List.filterMap sym (List.takeWhile isSym (c :: q')))).isSome = true := by
      rw [pack_isSome]; simp [hfl, hd, hq, okLen]
    obtain ⟨bytes, hb⟩ := Option.isSome_iff_exists.mp this
    simp [hb, decodeLoop]
  · rw [if_neg hp]
    have hpl : 1 ≤ ((c :: q').dropWhile isSym).length := by
      cases h : (c :: q').dropWhile isSym with
      | nil => exact absurd h hp
      | cons _ _ => simp
    by_cases hc : ((c :: q').dropWhile isSym).all (· == PAD) ∧ 2 ≤ ((c :: q').takeWhile isSym).length ∧
             ((c :: q').takeWhile isSym).length ≠ 3 ∧ ((c :: q').takeWhile isSym).length ≠ 6
    · rw [if_pos hc]
      have : (pack (List.filterMap sym (List.takeWhile isSym (c :: q')))).isSome = true := by
        rw [pack_isSome]; simp only [hfl, okLen]
        simp only [Bool.or_eq_true, beq_iff_eq]; omega
      obtain ⟨bytes, hb⟩ := Option.isSome_iff_exists.mp this
      simp only [hb, if_true, Option.isSome_some]
      rw [hc.1]
      simp only [Bool.true_and, Bool.or_eq_true, beq_iff_eq]
      symm
      simp only [Bool.or_eq_true, beq_iff_eq]
      have hq8 : (c :: q').length = 8 := hq
      omega
    · rw [if_neg hc]
      simp only [Option.isSome_none]
      symm
      cases hall : ((c :: q').dropWhile isSym).all (· == PAD) with
      | false => simp
      | true =>
        simp only [Bool.true_and, Bool.or_eq_false_iff, beq_eq_false_iff_ne]
        have : ¬ (2 ≤ ((c :: q').takeWhile isSym).length ∧
             ((c :: q').takeWhile isSym).length ≠ 3 ∧ ((c :: q').takeWhile isSym).length ≠ 6) := fun h => hc ⟨hall, h⟩
        omega
  · intro h; cases h

theorem dropWhile_append_all (q rest : List Nat) (h : q.all isSym = true) :
    (q ++ rest).dropWhile isSym = rest.dropWhile isSym := by
  induction q with
  | nil => rfl
  | cons c q ih =>
    simp only [List.all_cons, Bool.and_eq_true] at h
    simp only [List.cons_append, List.dropWhile_cons, h.1, if_true]
    exact ih h.2

theorem dropWhile_append_notall (q rest : List Nat) (h : q.all isSym = false) :
    rest.length + 1 ≤ ((q ++ rest).dropWhile isSym).length := by
  induction q with
  | nil => simp at h
  | cons c q ih =>
    simp only [List.cons_append, List.dropWhile_cons]
    cases hc : isSym c with
    | true =>
      simp only [if_true]
      simp only [List.all_cons, hc, Bool.true_and] at h
      exact ih h
    | false => simp

/-- on inputs of 8k characters the decoder model accepts exactly the texts of the shape `accShape` -/
theorem decodeLoop_isSome : ∀ (fuel : Nat) (s : List Nat), s.length % 8 = 0 → s.length / 8 + 2 ≤ fuel →
    (decodeLoop fuel s).isSome = accShape s := by
  intro fuel
  induction fuel with
  | zero => intro s _ hf; omega
  | succ fuel ih =>
    intro s h8 hf
    match s with
    | [] => simp [decodeLoop, accShape]
    | c :: s' =>
      by_cases hl : (c :: s').length = 8
      · obtain ⟨f, rfl⟩ : ∃ f, fuel = f + 1 := ⟨fuel - 1, by rw [hl] at hf; omega⟩
        exact decodeLoop_last c s' hl f
      · have hlen : 16 ≤ (c :: s').length := by
          have : 1 ≤ (c :: s').length := by simp
          omega
        have hsplit : c :: s' = (c :: s').take 8 ++ (c :: s').drop 8 := (List.take_append_drop 8 _).symm
        have hq : ((c :: s').take 8).length = 8 := by rw [List.length_take]; omega
        have hr : 8 ≤ ((c :: s').drop 8).length := by rw [List.length_drop]; omega
        have hr8 : ((c :: s').drop 8).length % 8 = 0 := by rw [List.length_drop]; omega
        have hrf : ((c :: s').drop 8).length / 8 + 2 ≤ fuel := by rw [List.length_drop]; omega
        rw [decodeLoop]
        · rw [hsplit, readQ_mid 8 0 _ _ [] hq hr]
          cases hall : ((c :: s').take 8).all isSym with
          | true =>
            simp only [if_true, List.nil_append]
            have hfl := filterMap_sym_length ((c :: s').take 8) (fun x hx => List.all_eq_true.mp hall x hx)
            have : (pack (List.filterMap sym ((c :: s').take 8))).isSome = true := by
              rw [pack_isSome, hfl, hq]; rfl
            obtain ⟨bytes, hb⟩ := Option.isSome_iff_exists.mp this
            simp only [hb, Bool.false_eq_true, if_false, Option.isSome_map]
            rw [ih _ hr8 hrf]
            unfold accShape
            rw [dropWhile_append_all _ _ hall]
          | false =>
            simp only [Bool.false_eq_true, if_false, Option.isSome_none]
            have := dropWhile_append_notall _ ((c :: s').drop 8) hall
            unfold accShape
            symm
            simp only [Bool.and_eq_false_iff, Bool.or_eq_false_iff, beq_eq_false_iff_ne]
            right; omega
        · intro h; cases h

end OtpVerif.Lemmas.B32
