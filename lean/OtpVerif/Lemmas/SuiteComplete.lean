/-
Completeness of the library's suite-string parser (model) w.r.t. the Spec reader `denote`, on the
sub-grammar a `SuiteConfig` produced by the library can represent: every data-input token is one the
Spec classifies, except challenge formats other than QN08 / QN10 and a time step without a unit.
Together with `parseRawSuite_sound` this says: on representable strings the parser accepts exactly
what the naming scheme gives a meaning to, and reads it the same way.
-/
import OtpVerif.Lemmas.SuiteParse

namespace OtpVerif.Lemmas
open OtpVerif OtpVerif.Std OtpVerif.Model

/-- a data-input token the library's parser can represent: any token the Spec classifies, except challenge formats other
than QN08 / QN10 and a time step without a unit -/
def representableTok (tok : Bytes) : Bool :=
  match Spec.classify tok with
  | some (.q f) => f == 1 || f == 2
  | some (.t _) => match (tok.drop 1).getLast? with
                   | some u => u == 83 || u == 77 || u == 72
                   | none => false
  | _ => true

/-- the data-input part of a three-part suite string consists of representable tokens -/
def representable (raw : Bytes) : Prop :=
  ∀ v c d, splitOn 58 raw = [v, c, d] → (splitOn 45 d).all representableTok = true

/-! ### numbers -/

theorem numeral_parseSuiteNumber (s : Bytes) (n : Nat) (h : Spec.numeral s = some n) : parseSuiteNumber s = some n := by
  unfold Spec.numeral at h
  unfold parseSuiteNumber
  by_cases hc : 1 ≤ s.length ∧ s.length ≤ 3 ∧ s.all isDigitChar = true
  · rw [if_pos hc] at h
    rw [if_neg (by omega), if_pos hc.2.2]; exact h
  · rw [if_neg hc] at h; cases h

theorem numeral_length (s : Bytes) (n : Nat) (h : Spec.numeral s = some n) : 1 ≤ s.length := by
  unfold Spec.numeral at h
  by_cases hc : 1 ≤ s.length ∧ s.length ≤ 3 ∧ s.all isDigitChar = true
  · exact hc.1
  · rw [if_neg hc] at h; cases h

/-! ### one token -/

/-- what the final `Validate` needs from a token: a recorded challenge format, a non-zero password hash -/
def goodTok : Spec.Tok → Prop
  | .q f => f = 1 ∨ f = 2
  | .p h => h ≠ 0
  | _ => True

theorem hashOfName_cases (u : Bytes) (h : Nat) (hh : Spec.hashOfName u = some h) :
    (u = sSHA1 ∧ h = 0) ∨ (u = sSHA256 ∧ h = 1) ∨ (u = sSHA512 ∧ h = 2) := by
  unfold Spec.hashOfName at hh
  unfold sSHA1 sSHA256 sSHA512
  by_cases h1 : u = [83, 72, 65, 49]
  · rw [if_pos h1] at hh; injection hh with hh; exact Or.inl ⟨h1, hh.symm⟩
  rw [if_neg h1] at hh
  by_cases h2 : u = [83, 72, 65, 50, 53, 54]
  · rw [if_pos h2] at hh; injection hh with hh; exact Or.inr (Or.inl ⟨h2, hh.symm⟩)
  rw [if_neg h2] at hh
  by_cases h3 : u = [83, 72, 65, 53, 49, 50]
  · rw [if_pos h3] at hh; injection hh with hh; exact Or.inr (Or.inr ⟨h3, hh.symm⟩)
  rw [if_neg h3] at hh; cases hh

theorem timeGranularity_complete (g : Bytes) (u : UInt8) (n : Nat) (hlast : g.getLast? = some u)
    (hn : Spec.numeral g.dropLast = some n) :
    parseTimeGranularity g =
      (if u = 83 then some n else if u = 77 then some (n * 60) else if u = 72 then some (n * 3600) else none) := by
  unfold parseTimeGranularity
  have hl := numeral_length _ _ hn
  rw [List.length_dropLast] at hl
  rw [if_neg (by omega), hlast, numeral_parseSuiteNumber _ _ hn]

theorem tokenEffect_T (cfg : SuiteConfig) (tok y : Bytes) (secs : Nat)
    (hg : parseTimeGranularity (tok.drop 1) = some secs) :
    tokenEffect cfg tok (84 :: y) = some { cfg with incT := true, timeStep := secs } := by
  unfold tokenEffect
  simp [hasPrefix, List.isPrefixOf, -List.drop_one, hg]

/-- on a representable token the library's `switch` does exactly what the Spec says -/
theorem tokenEffect_complete (cfg : SuiteConfig) (tok : Bytes) (t : Spec.Tok)
    (hc : Spec.classify tok = some t) (hr : representableTok tok = true) :
    ∃ c x, toUpperAscii tok = c :: x ∧ tokenEffect cfg tok (c :: x) = some (Spec.applyTok cfg t) ∧
      tokenRank c = t.rank ∧ goodTok t := by
  unfold representableTok at hr
  rw [hc] at hr
  unfold Spec.classify at hc
  split at hc
  · -- "C"
    rename_i hU
    injection hc with hc; subst hc
    exact ⟨67, [], hU, by simp [tokenEffect, Spec.applyTok], rfl, trivial⟩
  · -- "Q" f l1 l2
    rename_i f l1 l2 hU
    simp only at hc
    have hf : f = 78 := by
      by_cases f1 : f = 78
      · exact f1
      · exfalso
        rw [if_neg f1] at hc
        by_cases f2 : f = 65 <;> by_cases f3 : f = 72 <;> by_cases o1 : l1 = 48 ∧ l2 = 56 <;>
          by_cases o2 : l1 = 49 ∧ l2 = 48 <;> simp [f2, f3, o1, o2] at hc <;> (subst hc; simp at hr)
    subst hf
    rw [if_pos rfl] at hc
    by_cases o1 : l1 = 48 ∧ l2 = 56
    · obtain ⟨rfl, rfl⟩ := o1
      simp at hc
      subst hc
      exact ⟨81, [78, 48, 56], hU, by simp [tokenEffect, Spec.applyTok, hasPrefix, List.isPrefixOf], rfl, Or.inl rfl⟩
    · rw [if_neg o1] at hc
      by_cases o2 : l1 = 49 ∧ l2 = 48
      · obtain ⟨rfl, rfl⟩ := o2
        simp at hc
        subst hc
        exact ⟨81, [78, 49, 48], hU, by simp [tokenEffect, Spec.applyTok, hasPrefix, List.isPrefixOf], rfl, Or.inr rfl⟩
      · rw [if_neg o2] at hc; simp at hc
  · -- "P" rest
    rename_i rest hU
    cases hh : Spec.hashOfName rest with
    | none => rw [hh] at hc; cases hc
    | some h =>
      rw [hh] at hc
      injection hc with hc; subst hc
      rcases hashOfName_cases rest h hh with ⟨rfl, rfl⟩ | ⟨rfl, rfl⟩ | ⟨rfl, rfl⟩
      · exact ⟨80, sSHA1, hU, by simp [tokenEffect, Spec.applyTok, hasPrefix, List.isPrefixOf, sSHA1],
          rfl, by simp [goodTok]⟩
      · exact ⟨80, sSHA256, hU, by simp [tokenEffect, Spec.applyTok, hasPrefix, List.isPrefixOf, sSHA1, sSHA256],
          rfl, by simp [goodTok]⟩
      · exact ⟨80, sSHA512, hU, by simp [tokenEffect, Spec.applyTok, hasPrefix, List.isPrefixOf, sSHA1, sSHA256, sSHA512],
          rfl, by simp [goodTok]⟩
  · -- "S"
    rename_i hU
    injection hc with hc; subst hc
    exact ⟨83, [], hU, by simp [tokenEffect, Spec.applyTok, hasPrefix, List.isPrefixOf], rfl, trivial⟩
  · -- "S" d1 d2 d3
    rename_i d1 d2 d3 hU
    by_cases hd : isDigitChar d1 = true ∧ isDigitChar d2 = true ∧ isDigitChar d3 = true
    · rw [if_pos hd] at hc; injection hc with hc; subst hc
      have hn : (parseSuiteNumber [d1, d2, d3]).isNone = false := by
        unfold parseSuiteNumber; simp [hd.1, hd.2.1, hd.2.2]
      exact ⟨83, [d1, d2, d3], hU, by simp [tokenEffect, Spec.applyTok, hasPrefix, List.isPrefixOf, hn], rfl, trivial⟩
    · rw [if_neg hd] at hc; cases hc
  · -- "T" …
    rename_i y hU
    simp only at hc
    cases hlast : (tok.drop 1).getLast? with
    | none => rw [hlast] at hc; cases hc
    | some u =>
      rw [hlast] at hc
      simp only at hc
      by_cases hu : u = 83 ∨ u = 77 ∨ u = 72
      · cases hn : Spec.numeral (tok.drop 1).dropLast with
        | none => rw [hn] at hc; rcases hu with rfl | rfl | rfl <;> simp at hc
        | some n =>
          rw [hn] at hc
          have hg := timeGranularity_complete _ u n hlast hn
          rcases hu with rfl | rfl | rfl
          · simp [-List.drop_one] at hc hg; subst hc
            exact ⟨84, y, hU, tokenEffect_T cfg tok y _ hg, rfl, trivial⟩
          · simp [-List.drop_one] at hc hg; subst hc
            exact ⟨84, y, hU, tokenEffect_T cfg tok y _ hg, rfl, trivial⟩
          · simp [-List.drop_one] at hc hg; subst hc
            exact ⟨84, y, hU, tokenEffect_T cfg tok y _ hg, rfl, trivial⟩
      · exfalso
        have h1 : u ≠ 83 := fun e => hu (Or.inl e)
        have h2 : u ≠ 77 := fun e => hu (Or.inr (Or.inl e))
        have h3 : u ≠ 72 := fun e => hu (Or.inr (Or.inr e))
        rw [if_neg h1, if_neg h2, if_neg h3] at hc
        cases hn : Spec.numeral (tok.drop 1) with
        | none => rw [hn] at hc; cases hc
        | some n =>
          rw [hn] at hc
          simp only [Option.map_some] at hc
          injection hc with hc; subst hc
          simp [-List.drop_one, hlast, h1, h2, h3] at hr
  · cases hc

theorem parseToken_complete (cfg : SuiteConfig) (last : Nat) (tok : Bytes) (t : Spec.Tok)
    (hc : Spec.classify tok = some t) (hr : representableTok tok = true) (hlt : ¬ t.rank ≤ last) :
    parseToken cfg last tok = some (Spec.applyTok cfg t, t.rank) ∧ goodTok t := by
  obtain ⟨c, x, hU, he, hrk, hg⟩ := tokenEffect_complete cfg tok t hc hr
  refine ⟨?_, hg⟩
  unfold parseToken
  rw [hU, he]
  simp only
  rw [hrk, if_neg hlt]

/-! ### the token loop -/

/-- what the final `Validate` asks of the password-hash and challenge fields -/
def cfgGood (cfg : SuiteConfig) : Prop :=
  (cfg.incP = true → cfg.pwHash ≠ 0) ∧ (cfg.incQ = true → cfg.challenge ≠ 0)

theorem applyTok_good (cfg : SuiteConfig) (t : Spec.Tok) (hg : cfgGood cfg) (ht : goodTok t) :
    cfgGood (Spec.applyTok cfg t) := by
  obtain ⟨g1, g2⟩ := hg
  cases t with
  | c => exact ⟨g1, g2⟩
  | q f =>
    refine ⟨g1, fun _ => ?_⟩
    show f ≠ 0
    rcases ht with rfl | rfl <;> decide
  | p h => exact ⟨fun _ => ht, g2⟩
  | s => exact ⟨g1, g2⟩
  | t n => exact ⟨g1, g2⟩

theorem parseTokens_complete : ∀ (toks : List Bytes) (cfg cfg' : SuiteConfig) (last : Nat),
    Spec.denoteTokens cfg last toks = some cfg' → toks.all representableTok = true → cfgGood cfg →
    parseTokens cfg last toks = some cfg' ∧ cfgGood cfg' := by
  intro toks
  induction toks with
  | nil =>
    intro cfg cfg' last h _ hg
    unfold Spec.denoteTokens at h
    injection h with h; subst h
    exact ⟨rfl, hg⟩
  | cons tok rest ih =>
    intro cfg cfg' last h hall hg
    rw [List.all_cons, Bool.and_eq_true] at hall
    unfold Spec.denoteTokens at h
    cases hc : Spec.classify tok with
    | none => rw [hc] at h; cases h
    | some t =>
      rw [hc] at h
      simp only at h
      by_cases hr : t.rank ≤ last
      · rw [if_pos hr] at h; cases h
      · rw [if_neg hr] at h
        obtain ⟨hp, hgt⟩ := parseToken_complete cfg last tok t hc hall.1 hr
        unfold parseTokens
        rw [hp]
        exact ih _ _ _ h hall.2 (applyTok_good cfg t hg hgt)

/-! ### the crypto part -/

theorem splitOn_cons_inv (sep : UInt8) : ∀ (s p : Bytes) (ps : List Bytes), splitOn sep s = p :: ps →
    (ps = [] ∧ s = p) ∨ (∃ rest, s = p ++ sep :: rest ∧ splitOn sep rest = ps) := by
  intro s
  induction s with
  | nil =>
    intro p ps h
    unfold splitOn at h
    injection h with h1 h2
    exact Or.inl ⟨h2.symm, h1⟩
  | cons c rest ih =>
    intro p ps h
    by_cases hc : c = sep
    · subst hc
      rw [splitOn_cons_eq] at h
      injection h with h1 h2
      subst h1
      exact Or.inr ⟨rest, rfl, h2⟩
    · obtain ⟨p', ps', h1, h2⟩ := splitOn_cons_ne sep c rest hc
      rw [h2] at h
      injection h with e1 e2
      subst e1; subst e2
      rcases ih p' ps' h1 with ⟨a, b⟩ | ⟨r, a, b⟩
      · exact Or.inl ⟨a, by rw [b]⟩
      · exact Or.inr ⟨r, by rw [a]; rfl, b⟩

/-- the crypto part: `HOTP-<hash>-<digits>` as the Spec reads it is accepted by `parseCryptoFunction`, with the same reading -/
theorem parseCrypto_complete (crypto w0 w1 w2 : Bytes) (h d : Nat) (hs : splitOn 45 crypto = [w0, w1, w2])
    (hw0 : toUpperAscii w0 = [72, 79, 84, 80]) (hw1 : Spec.hashOfName (toUpperAscii w1) = some h)
    (hw2 : Spec.numeral w2 = some d) : parseCryptoFunction crypto = some (h, d) := by
  rcases splitOn_cons_inv 45 crypto w0 [w1, w2] hs with ⟨hh, _⟩ | ⟨r1, hc1, hs1⟩
  · cases hh
  rcases splitOn_cons_inv 45 r1 w1 [w2] hs1 with ⟨hh, _⟩ | ⟨r2, hc2, _⟩
  · cases hh
  have hdrop : crypto.drop 5 = r1 := by
    have hl : w0.length = 4 := by
      have := congrArg List.length hw0
      simpa [toUpperAscii] using this
    match w0, hl, hc1 with
    | [a, b, c, e], _, hc1 => rw [hc1]; rfl
  have e45 : upperAscii 45 = 45 := by decide
  have hU : toUpperAscii crypto = [72, 79, 84, 80] ++ 45 :: (toUpperAscii w1 ++ 45 :: toUpperAscii r2) := by
    rw [hc1, hc2]
    simp only [toUpperAscii, List.map_append, List.map_cons, e45] at hw0 ⊢
    rw [hw0]
  have hpre : hasPrefix sHOTP_SHA (toUpperAscii crypto) = true := by
    rw [hU]
    rcases hashOfName_cases _ _ hw1 with ⟨e, _⟩ | ⟨e, _⟩ | ⟨e, _⟩ <;> rw [e] <;>
      simp [hasPrefix, sHOTP_SHA, sSHA1, sSHA256, sSHA512, List.isPrefixOf]
  have hh' : (if toUpperAscii w1 = sSHA1 then some 0 else if toUpperAscii w1 = sSHA256 then some 1
      else if toUpperAscii w1 = sSHA512 then some 2 else (none : Option Nat)) = some h := hw1
  unfold parseCryptoFunction
  rw [hpre]
  simp only [Bool.not_true, Bool.false_eq_true, if_false]
  rw [hdrop, hs1]
  simp only
  rw [hh', numeral_parseSuiteNumber _ _ hw2]

/-! ### the whole string -/

/-- **completeness of the library's parser** on the representable sub-grammar: whatever the naming scheme gives a
meaning to, with data inputs the library can represent, `parseRawSuite` accepts and reads the same way -/
theorem parseRawSuite_complete (raw : Bytes) (cfg : SuiteConfig)
    (h : Spec.denote raw = some cfg) (hrep : representable raw) : parseRawSuite raw = .ok cfg := by
  unfold Spec.denote at h
  unfold parseRawSuite
  by_cases hA : raw.any (fun c => decide (c.toNat ≥ 128)) = true
  · rw [if_pos hA] at h; cases h
  rw [if_neg hA] at h ⊢
  cases hs : splitOn 58 raw with
  | nil => exact absurd hs (splitOn_ne_nil 58 raw)
  | cons version tl =>
    rw [hs] at h
    match tl, hs, h with
    | [], _, h => cases h
    | [_], _, h => cases h
    | _ :: _ :: _ :: _, _, h => cases h
    | [crypto, dataInput], hs, h =>
      have hall := hrep version crypto dataInput hs
      simp only at h ⊢
      by_cases hv : version ≠ [79, 67, 82, 65, 45, 49]
      · rw [if_pos hv] at h; cases h
      rw [if_neg hv] at h
      have hv' : ¬ version ≠ sOCRA1 := hv
      rw [if_neg hv']
      cases hsc : splitOn 45 crypto with
      | nil => exact absurd hsc (splitOn_ne_nil 45 crypto)
      | cons w0 tl2 =>
        rw [hsc] at h
        match tl2, hsc, h with
        | [], _, h => cases h
        | [_], _, h => cases h
        | _ :: _ :: _ :: _, _, h => cases h
        | [w1, w2], hsc, h =>
          simp only at h
          by_cases hw0 : toUpperAscii w0 ≠ [72, 79, 84, 80]
          · rw [if_pos hw0] at h; cases h
          rw [if_neg hw0] at h
          have hw0' : toUpperAscii w0 = [72, 79, 84, 80] := Classical.byContradiction hw0
          cases hw1 : Spec.hashOfName (toUpperAscii w1) with
          | none => rw [hw1] at h; cases h
          | some hh =>
            cases hw2 : Spec.numeral w2 with
            | none => rw [hw1, hw2] at h; cases h
            | some d =>
              rw [hw1, hw2] at h
              simp only at h
              by_cases hdig : d < 4 ∨ d > 10
              · rw [if_pos hdig] at h; cases h
              rw [if_neg hdig] at h
              rw [parseCrypto_complete crypto w0 w1 w2 hh d hsc hw0' hw1 hw2]
              simp only
              have he : ({ Spec.emptyCfg with hash := hh, digits := (d : Int) } : SuiteConfig) =
                  { zeroCfg with hash := hh, digits := (d : Int) } := rfl
              rw [he] at h
              cases hden : Spec.denoteTokens { zeroCfg with hash := hh, digits := (d : Int) } 0 (splitOn 45 dataInput) with
              | none => rw [hden] at h; cases h
              | some cfg0 =>
                rw [hden] at h
                simp only at h
                by_cases v4 : cfg0.incT = true ∧ cfg0.timeStep ≤ 0
                · rw [if_pos v4] at h; cases h
                rw [if_neg v4] at h
                injection h with h
                have hkeep := denoteTokens_keeps _ _ _ _ hden
                simp only at hkeep
                obtain ⟨hpt, hgood⟩ := parseTokens_complete _ _ _ _ hden hall
                  ⟨fun hp => by simp [zeroCfg] at hp, fun hq => by simp [zeroCfg] at hq⟩
                rw [hpt]
                simp only
                have hhash : hh = 0 ∨ hh = 1 ∨ hh = 2 := by
                  rcases hashOfName_cases _ _ hw1 with ⟨_, e⟩ | ⟨_, e⟩ | ⟨_, e⟩
                  · exact Or.inl e
                  · exact Or.inr (Or.inl e)
                  · exact Or.inr (Or.inr e)
                have hval : suiteValidate { cfg0 with raw := raw } = none := by
                  unfold suiteValidate
                  simp only
                  rw [if_neg (by rw [hkeep.2]; omega), if_neg (by rw [hkeep.1]; omega),
                    if_neg (fun hp => hgood.1 hp.1 hp.2), if_neg v4, if_neg (fun hq => hgood.2 hq.1 hq.2)]
                rw [hval, h]

/-! ### examples -/

/-- the parser's verdict as an option, to compare with `Spec.denote` -/
def parseRawSuite_toOption (raw : Bytes) : Option SuiteConfig :=
  match parseRawSuite raw with
  | .ok cfg => some cfg
  | _ => none

/-- a representable, non-registered suite string: the data-input part of `OCRA-1:HOTP-SHA256-7:C-QN10-PSHA1-S064-T5M` -/
example : (splitOn 45 [67, 45, 81, 78, 49, 48, 45, 80, 83, 72, 65, 49, 45, 83, 48, 54, 52, 45, 84, 53, 77]).all
    representableTok = true := by decide

/-- the whole string `OCRA-1:HOTP-SHA256-7:C-QN10-PSHA1-S064-T5M` (not a registered name) -/
def exampleSuite : Bytes :=
  [79, 67, 82, 65, 45, 49, 58, 72, 79, 84, 80, 45, 83, 72, 65, 50, 53, 54, 45, 55, 58,
   67, 45, 81, 78, 49, 48, 45, 80, 83, 72, 65, 49, 45, 83, 48, 54, 52, 45, 84, 53, 77]

example : representable exampleSuite := by
  intro v c d h
  have hs : splitOn 58 exampleSuite =
      [[79, 67, 82, 65, 45, 49], [72, 79, 84, 80, 45, 83, 72, 65, 50, 53, 54, 45, 55],
       [67, 45, 81, 78, 49, 48, 45, 80, 83, 72, 65, 49, 45, 83, 48, 54, 52, 45, 84, 53, 77]] := by decide
  rw [hs] at h
  injection h with _ h; injection h with _ h; injection h with h _
  subst h
  decide

example : isKnownSuite exampleSuite = false := by decide

example : (Spec.denote exampleSuite).isSome = true ∧ Spec.denote exampleSuite = parseRawSuite_toOption exampleSuite := by
  decide

/-- `QA08` (alphanumeric challenge) is not representable -/
example : representableTok [81, 65, 48, 56] = false := by decide

/-- `T1` (a time step without a unit) is not representable -/
example : representableTok [84, 49] = false := by decide

end OtpVerif.Lemmas

#print axioms OtpVerif.Lemmas.parseRawSuite_complete
