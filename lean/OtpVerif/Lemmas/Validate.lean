/-
`validate` / `validateRFC4226` characterised: with supported parameters a counter is accepted iff the
submitted string is byte-for-byte its RFC 4226 code; with unsupported parameters nothing is accepted.
-/
import OtpVerif.Props.C01

namespace OtpVerif.Lemmas
open OtpVerif OtpVerif.Model OtpVerif.Props.C01

theorem ctEq_iff (x y : Bytes) : ctEq x y = true ↔ x = y := by
  unfold ctEq; exact beq_iff_eq

/-- unsupported length or hash: the derivation answers with an error (never a code, never a panic) -/
theorem derive_unsupported (O : HashOracle) (k : Bytes) (c d a : Nat) (h : d = 0 ∨ 10 < d ∨ 3 ≤ a) :
    ∃ e, deriveRFC4226 O k c d a = .err e := by
  unfold deriveRFC4226
  by_cases ha : a ≥ Gen.nHash
  · rw [if_pos ha]; exact ⟨_, rfl⟩
  · rw [if_neg ha]
    rw [nHash_eq] at ha
    have hd : d < 1 ∨ d ≥ Gen.mod10.length := by rw [mod10_length]; omega
    rw [if_pos hd]; exact ⟨_, rfl⟩

theorem accepted_validate_supported (O : HashOracle) (code key : Bytes) (c d a : Nat)
    (hd1 : 1 ≤ d) (hd2 : d ≤ 10) (ha : a < 3) :
    accepted (validateRFC4226 O code key c d a) = .ok (decide (code = Spec.hotp O.hmac a key c d)) := by
  unfold validateRFC4226 validate
  rw [C01_derive_eq_rfc O key c d a hd1 hd2 ha]
  have hlen : (Spec.hotp O.hmac a key c d).length = d := (C01_shape O a key c d).1
  by_cases hl : (code.length : Int) ≠ (d : Int)
  · rw [if_pos hl]
    have : code ≠ Spec.hotp O.hmac a key c d := by
      intro e; apply hl; rw [e, hlen]
    simp [accepted, this]
  · rw [if_neg hl]
    simp only
    by_cases he : code = Spec.hotp O.hmac a key c d
    · rw [if_pos ((ctEq_iff _ _).mpr he)]; simp [accepted, he]
    · have : ctEq code (Spec.hotp O.hmac a key c d) = false := by
        cases h : ctEq code (Spec.hotp O.hmac a key c d) with
        | false => rfl
        | true => exact absurd ((ctEq_iff _ _).mp h) he
      rw [this]; simp [accepted, he]

theorem accepted_validate_unsupported (O : HashOracle) (code key : Bytes) (c d a : Nat)
    (h : d = 0 ∨ 10 < d ∨ 3 ≤ a) :
    accepted (validateRFC4226 O code key c d a) = .ok false := by
  unfold validateRFC4226 validate
  obtain ⟨e, he⟩ := derive_unsupported O key c d a h
  rw [he]
  split <;> rfl

/-- in every case the per-counter check is total: it answers `.ok b` -/
theorem accepted_validate_total (O : HashOracle) (code key : Bytes) (c d a : Nat) :
    ∃ b, accepted (validateRFC4226 O code key c d a) = .ok b := by
  by_cases h : d = 0 ∨ 10 < d ∨ 3 ≤ a
  · exact ⟨_, accepted_validate_unsupported O code key c d a h⟩
  · exact ⟨_, accepted_validate_supported O code key c d a (by omega) (by omega) (by omega)⟩

theorem decodeSecret_no_panic (s : Bytes) : decodeSecret s ≠ .panic := by
  unfold decodeSecret
  simp only
  split
  · intro h; cases h
  · split <;> (intro h; cases h)

end OtpVerif.Lemmas
