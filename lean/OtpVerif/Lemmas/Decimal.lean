/-
`strconv.FormatUint` + left padding (the js/wasm formatter) equals the positional zero-padded decimal
(`zeroPad`) that the native formatters produce, for every value below 10^d.
-/
import OtpVerif.Model.Wasm
import OtpVerif.Lemmas.Digits

namespace OtpVerif.Lemmas
open OtpVerif OtpVerif.Std.Url OtpVerif.Model.Wasm

theorem digitChar_small (n : Nat) (h : n < 10) : (48 + n).toUInt8 = digitChar n := by
  unfold digitChar; rw [Nat.mod_eq_of_lt h]

theorem digitChar_mod (n : Nat) : (48 + n % 10).toUInt8 = digitChar n := rfl

theorem decDigits_acc : ∀ (fuel n : Nat) (acc : Bytes), n < fuel → decDigits fuel n acc = decDigits fuel n [] ++ acc := by
  intro fuel
  induction fuel with
  | zero => intro n acc h; omega
  | succ f ih =>
    intro n acc h
    unfold decDigits
    by_cases hlt : n < 10
    · simp [hlt]
    · simp only [hlt, if_false]
      rw [ih (n / 10) _ (by omega), ih (n / 10) [(48 + n % 10).toUInt8] (by omega)]
      simp

theorem decDigits_fuel : ∀ (f1 f2 n : Nat) (acc : Bytes), n < f1 → n < f2 → decDigits f1 n acc = decDigits f2 n acc := by
  intro f1
  induction f1 with
  | zero => intro f2 n acc h; omega
  | succ f ih =>
    intro f2 n acc h1 h2
    obtain ⟨g, rfl⟩ : ∃ g, f2 = g + 1 := ⟨f2 - 1, by omega⟩
    unfold decDigits
    by_cases hlt : n < 10
    · simp [hlt]
    · simp only [hlt, if_false]
      exact ih g (n / 10) _ (by omega) (by omega)

theorem itoa_small (v : Nat) (h : v < 10) : itoa v = [digitChar v] := by
  unfold itoa decDigits
  rw [if_pos h, digitChar_small v h]

theorem itoa_snoc (v : Nat) (h : ¬ v < 10) : itoa v = itoa (v / 10) ++ [digitChar v] := by
  unfold itoa
  conv => lhs; unfold decDigits
  rw [if_neg h, decDigits_acc v (v / 10) _ (by omega), decDigits_fuel v (v / 10 + 1) (v / 10) [] (by omega) (by omega)]
  rfl

theorem zeroPad_succ (d v : Nat) : zeroPad (d + 1) v = zeroPad d (v / 10) ++ [digitChar v] := by
  unfold zeroPad
  rw [List.range_succ, List.map_append]
  congr 1
  · apply List.map_congr_left
    intro j hj
    have hj' : j < d := List.mem_range.mp hj
    have e1 : d + 1 - 1 - j = (d - 1 - j) + 1 := by omega
    rw [e1, Nat.pow_succ, Nat.mul_comm, ← Nat.div_div_eq_div_mul]
  · simp

theorem zeroPad_zero (d : Nat) : zeroPad d 0 = List.replicate d 48 := by
  unfold zeroPad
  apply List.ext_getElem?
  intro j
  by_cases hj : j < d
  · simp [hj, digitChar_zero]
  · simp [hj]

/-- the js/wasm formatter = the native formatters, for every d ≥ 1 and every v < 10^d -/
theorem formatPad_eq : ∀ (d v : Nat), 1 ≤ d → v < 10 ^ d → formatPad v d = zeroPad d v := by
  intro d
  induction d with
  | zero => intro v h; omega
  | succ d ih =>
    intro v _ hv
    rw [zeroPad_succ]
    by_cases hlt : v < 10
    · unfold formatPad
      rw [itoa_small v hlt]
      have : v / 10 = 0 := by omega
      rw [this, zeroPad_zero]
      simp
    · have hd : 1 ≤ d := by
        cases d with
        | zero => simp at hv; omega
        | succ _ => omega
      have hv' : v / 10 < 10 ^ d := by
        rw [Nat.pow_succ] at hv
        exact Nat.div_lt_of_lt_mul (by rw [Nat.mul_comm]; exact hv)
      have := ih (v / 10) hd hv'
      unfold formatPad at this ⊢
      simp only at this ⊢
      rw [itoa_snoc v hlt, List.length_append, List.length_singleton, ← this]
      have e : d + 1 - ((itoa (v / 10)).length + 1) = d - (itoa (v / 10)).length := by omega
      rw [e, List.append_assoc]

theorem pow10Wasm_eq : ∀ d, d ≤ 19 → pow10Wasm d = 10 ^ d := by
  intro d h
  have : d = 0 ∨ d = 1 ∨ d = 2 ∨ d = 3 ∨ d = 4 ∨ d = 5 ∨ d = 6 ∨ d = 7 ∨ d = 8 ∨ d = 9 ∨ d = 10 ∨ d = 11 ∨ d = 12 ∨ d = 13 ∨ d = 14 ∨
      d = 15 ∨ d = 16 ∨ d = 17 ∨ d = 18 ∨ d = 19 := by omega
  rcases this with h|h|h|h|h|h|h|h|h|h|h|h|h|h|h|h|h|h|h|h <;> subst h <;> decide

end OtpVerif.Lemmas
