/-
The digit formatters of derive.go equal the positional zero-padded decimal (`zeroPad`), for every
value and every digit count (shortDigit: d ≤ 8, the size of its array).
-/
import OtpVerif.Model.Derive

namespace OtpVerif.Lemmas
open OtpVerif OtpVerif.Model

theorem digitChar_zero : digitChar 0 = 48 := by decide

theorem digitChar_toNat (n : Nat) : (digitChar n).toNat = 48 + n % 10 := by
  unfold digitChar
  have h : n % 10 < 10 := Nat.mod_lt _ (by omega)
  simp only [Nat.toUInt8_eq, UInt8.toNat_ofNat']
  omega

theorem zeroPad_getElem? (d n j : Nat) (h : j < d) :
    (zeroPad d n)[j]? = some (digitChar (n / 10 ^ (d - 1 - j))) := by
  simp [zeroPad, h]

/-- state invariant of `shortDigit`'s loops: cells i..d-1 hold the right digits, `otp` is `v` with the
processed digits removed -/
def Good (v d i otp : Nat) (pad : List UInt8) : Prop :=
  pad.length = 8 ∧ otp = v / 10 ^ (d - i) ∧ ∀ j, i ≤ j → j < d → pad[j]? = some (digitChar (v / 10 ^ (d - 1 - j)))

theorem pow_step (d n : Nat) (h : n < d) : 10 ^ (d - n) = 10 ^ (d - (n + 1)) * 10 := by
  rw [← Nat.pow_succ]; congr 1; omega

theorem shortLoop2_good (v d : Nat) (hd : d ≤ 8) : ∀ (i : Nat) (pad : List UInt8), i ≤ d →
    Good v d i 0 pad → Good v d 0 0 (shortLoop2 i pad) := by
  intro i
  induction i with
  | zero => intro pad _ h; simpa [shortLoop2] using h
  | succ n ih =>
    intro pad hi ⟨hl, ho, hg⟩
    unfold shortLoop2
    apply ih _ (by omega)
    refine ⟨by simp [hl], ?_, ?_⟩
    · have h0 : v / 10 ^ (d - (n + 1)) = 0 := ho.symm
      rw [pow_step d n (by omega), ← Nat.div_div_eq_div_mul, h0]
    · intro j hj hjd
      by_cases e : j = n
      · subst e
        rw [List.getElem?_set_self (by omega)]
        have h0 : v / 10 ^ (d - (j + 1)) = 0 := ho.symm
        have : d - 1 - j = d - (j + 1) := by omega
        rw [this, h0, digitChar_zero]
      · rw [List.getElem?_set_ne (by omega)]
        exact hg j (by omega) hjd

theorem shortLoop1_good (v d : Nat) (hd : d ≤ 8) : ∀ (i otp : Nat) (pad : List UInt8), i ≤ d →
    Good v d i otp pad →
    let r := shortLoop1 i otp pad
    r.1 ≤ d ∧ Good v d r.1 (if r.1 = 0 then v / 10 ^ d else 0) r.2 ∧ (r.1 ≠ 0 → v / 10 ^ (d - r.1) = 0) := by
  intro i
  induction i with
  | zero =>
    intro otp pad _ ⟨hl, ho, hg⟩
    simp only [shortLoop1]
    refine ⟨by omega, ⟨hl, by simp, hg⟩, by simp⟩
  | succ n ih =>
    intro otp pad hi ⟨hl, ho, hg⟩
    unfold shortLoop1
    by_cases hpos : otp > 0
    · rw [if_pos hpos]
      apply ih _ _ (by omega)
      refine ⟨by simp [hl], ?_, ?_⟩
      · rw [pow_step d n (by omega), ← Nat.div_div_eq_div_mul, ← ho]
      · intro j hj hjd
        by_cases e : j = n
        · subst e
          rw [List.getElem?_set_self (by omega)]
          have : d - 1 - j = d - (j + 1) := by omega
          rw [this, ← ho]
        · rw [List.getElem?_set_ne (by omega)]
          exact hg j (by omega) hjd
    · rw [if_neg hpos]
      have h0 : otp = 0 := by omega
      refine ⟨hi, ⟨hl, by simp; rw [← ho]; exact h0.symm, hg⟩, fun _ => by rw [← ho]; exact h0⟩

/-- `shortDigit` = zero-padded decimal, for every value and every `d ≤ 8` -/
theorem shortDigit_eq (v d : Nat) (hd : d ≤ 8) : shortDigit v d = .ok (zeroPad d v) := by
  unfold shortDigit
  rw [if_neg (by omega)]
  show Out.ok ((shortLoop2 (shortLoop1 d v (List.replicate 8 0)).1 (shortLoop1 d v (List.replicate 8 0)).2).take d) = _
  refine congrArg Out.ok ?_
  have hinit : Good v d d v (List.replicate 8 0) := by
    refine ⟨by simp, by simp, ?_⟩
    intro j h1 h2; omega
  have h1 := shortLoop1_good v d hd d v _ (Nat.le_refl d) hinit
  simp only at h1
  obtain ⟨hle, hgood, hz⟩ := h1
  generalize hr : shortLoop1 d v (List.replicate 8 0) = r at hle hgood hz
  have hfin : Good v d 0 0 (shortLoop2 r.1 r.2) ∨ (r.1 = 0 ∧ Good v d 0 (v / 10 ^ d) r.2) := by
    by_cases hr0 : r.1 = 0
    · right; refine ⟨hr0, ?_⟩; rw [hr0] at hgood; simpa using hgood
    · left
      have hg' : Good v d r.1 0 r.2 := ⟨hgood.1, (hz hr0).symm, hgood.2.2⟩
      exact shortLoop2_good v d hd r.1 r.2 hle hg'
  apply List.ext_getElem?
  intro j
  by_cases hj : j < d
  · rw [zeroPad_getElem? d v j hj, List.getElem?_take_of_lt hj]
    rcases hfin with hg | ⟨hr0, hg⟩
    · exact hg.2.2 j (by omega) hj
    · rw [hr0]; simp only [shortLoop2]; exact hg.2.2 j (by omega) hj
  · have hlen : ((shortLoop2 r.1 r.2).take d).length = d := by
      have : (shortLoop2 r.1 r.2).length = 8 := by
        rcases hfin with hg | ⟨hr0, hg⟩
        · exact hg.1
        · rw [hr0]; simp only [shortLoop2]; exact hg.1
      simp [this]; omega
    rw [List.getElem?_eq_none (by omega), List.getElem?_eq_none (by simp; omega)]

/-- invariant of `longLoop`: cells i..d-1 are final, `otp` is `v` with those digits removed -/
theorem longLoop_spec (v d : Nat) : ∀ (i otp : Nat) (out : List UInt8), i ≤ d → out.length = d →
    otp = v / 10 ^ (d - i) → (∀ j, i ≤ j → j < d → out[j]? = some (digitChar (v / 10 ^ (d - 1 - j)))) →
    longLoop i otp out = zeroPad d v := by
  intro i
  induction i with
  | zero =>
    intro otp out _ hl _ hg
    simp only [longLoop]
    apply List.ext_getElem?
    intro j
    by_cases hj : j < d
    · rw [zeroPad_getElem? d v j hj]; exact hg j (by omega) hj
    · rw [List.getElem?_eq_none (by omega), List.getElem?_eq_none (by simp; omega)]
  | succ n ih =>
    intro otp out hi hl ho hg
    unfold longLoop
    apply ih _ _ (by omega) (by simp [hl])
    · rw [pow_step d n (by omega), ← Nat.div_div_eq_div_mul, ← ho]
    · intro j hj hjd
      by_cases e : j = n
      · subst e
        rw [List.getElem?_set_self (by omega)]
        have : d - 1 - j = d - (j + 1) := by omega
        rw [this, ← ho]
      · rw [List.getElem?_set_ne (by omega)]
        exact hg j (by omega) hjd

theorem longDigit_eq (v d : Nat) : longDigit v d = zeroPad d v := by
  unfold longDigit
  exact longLoop_spec v d d v _ (Nat.le_refl d) (by simp) (by simp) (by intro j h1 h2; omega)

theorem formatDecimal_eq (v d : Nat) : formatDecimal v d = zeroPad d v := by
  unfold formatDecimal
  exact longLoop_spec v d d v _ (Nat.le_refl d) (by simp) (by simp) (by intro j h1 h2; omega)

/-- every character of a rendered code is an ASCII digit -/
theorem zeroPad_all_digits (d n : Nat) : (zeroPad d n).all isDigitChar = true := by
  simp only [zeroPad, List.all_map, List.all_eq_true]
  intro j _
  simp only [Function.comp, isDigitChar, digitChar_toNat]
  have h : (n / 10 ^ (d - 1 - j)) % 10 < 10 := Nat.mod_lt _ (by omega)
  simp; omega

end OtpVerif.Lemmas
