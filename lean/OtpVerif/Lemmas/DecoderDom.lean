/-
The acceptance domain of `DecodeSecret`: which trimmed texts decode, and that everything else is `badSecret`.
-/
import OtpVerif.Lemmas.Base32Dom
import OtpVerif.Model.Decoder

namespace OtpVerif.Lemmas.Dec
open OtpVerif OtpVerif.Std OtpVerif.Model OtpVerif.Lemmas.B32 OtpVerif.Std.B32

/-- a base32 data character in either case -/
def isDataChar (c : UInt8) : Bool :=
  (65 ≤ c.toNat && c.toNat ≤ 90) || (97 ≤ c.toNat && c.toNat ≤ 122) || (50 ≤ c.toNat && c.toNat ≤ 55)

/-- what the stdlib decoder sees of one character -/
def f (c : UInt8) : Nat := (upperAscii c).toNat

/-- number of '=' that `repad` appends to a text of length `n` -/
def padAmt (n : Nat) : Nat := if n % 8 ≠ 0 then 8 - n % 8 else 0

theorem ok_split (c : UInt8) : secretCharOk c = (isDataChar c || decide (c.toNat = 61)) := by
  unfold secretCharOk isDataChar; rfl

theorem sub32_toNat (c : UInt8) (h : 97 ≤ c.toNat) : (c - 32).toNat = c.toNat - 32 := by
  rw [UInt8.toNat_sub_of_le]
  · rfl
  · show (32 : UInt8).toNat ≤ c.toNat
    have : (32 : UInt8).toNat = 32 := by decide
    omega

theorem f_data (c : UInt8) (h : isDataChar c = true) : isSym (f c) = true := by
  unfold isDataChar at h
  unfold f upperAscii isSym sym
  simp only [Bool.or_eq_true, Bool.and_eq_true, decide_eq_true_eq] at h
  by_cases hl : 97 ≤ c.toNat ∧ c.toNat ≤ 122
  · rw [if_pos hl, sub32_toNat c hl.1]
    rw [if_pos (by omega)]; rfl
  · rw [if_neg hl]
    by_cases hu : 65 ≤ c.toNat ∧ c.toNat ≤ 90
    · rw [if_pos hu]; rfl
    · rw [if_neg hu, if_pos (by omega)]; rfl

theorem f_pad_iff (c : UInt8) (h : secretCharOk c = true) : f c = PAD ↔ c.toNat = 61 := by
  unfold secretCharOk at h
  simp only [Bool.or_eq_true, Bool.and_eq_true, decide_eq_true_eq] at h
  unfold f upperAscii PAD
  by_cases hl : 97 ≤ c.toNat ∧ c.toNat ≤ 122
  · rw [if_pos hl, sub32_toNat c hl.1]; omega
  · rw [if_neg hl]

theorem f_nonl (c : UInt8) (h : secretCharOk c = true) : f c ≠ 10 ∧ f c ≠ 13 := by
  unfold secretCharOk at h
  simp only [Bool.or_eq_true, Bool.and_eq_true, decide_eq_true_eq] at h
  unfold f upperAscii
  by_cases hl : 97 ≤ c.toNat ∧ c.toNat ≤ 122
  · rw [if_pos hl, sub32_toNat c hl.1]; omega
  · rw [if_neg hl]; omega

/-- the text handed to the stdlib decoder -/
theorem decoder_input (t : Bytes) :
    (toUpperAscii (repad t)).map UInt8.toNat = t.map f ++ List.replicate (padAmt t.length) PAD := by
  unfold repad toUpperAscii padAmt
  by_cases h : t.length % 8 ≠ 0
  · rw [if_pos h, if_pos h]
    simp only [List.map_append, List.map_map, List.map_replicate]
    congr 1
  · rw [if_neg h, if_neg h]
    simp only [List.map_map, List.replicate_zero, List.append_nil]
    rfl

theorem decoder_input_len (t : Bytes) : (t.map f ++ List.replicate (padAmt t.length) PAD).length % 8 = 0 := by
  simp only [List.length_append, List.length_map, List.length_replicate, padAmt]
  split <;> omega

theorem filter_nonl (t : Bytes) (hok : t.all secretCharOk = true) :
    (t.map f ++ List.replicate (padAmt t.length) PAD).filter (fun c => decide (c ≠ 10 ∧ c ≠ 13)) =
      t.map f ++ List.replicate (padAmt t.length) PAD := by
  apply List.filter_eq_self.mpr
  intro c hc
  rcases List.mem_append.mp hc with h | h
  · obtain ⟨x, hx, rfl⟩ := List.mem_map.mp h
    have := f_nonl x (List.all_eq_true.mp hok x hx)
    simp [this.1, this.2]
  · have := List.eq_of_mem_replicate h; subst this; decide

/-- the decoder's input for the trimmed text `t` -/
def decIn (t : Bytes) : List Nat := t.map f ++ List.replicate (padAmt t.length) PAD

/-- `DecodeSecret` succeeds exactly when every character is in the alphabet and the re-padded text has the
accepted shape; every failure is `badSecret` -/
theorem decodeSecret_ok_iff (s : Bytes) :
    (∃ b, decodeSecret s = .ok b) ↔ ((trimSpace s).all secretCharOk = true ∧ accShape (decIn (trimSpace s)) = true) := by
  unfold decodeSecret
  simp only []
  cases hall : (trimSpace s).all secretCharOk with
  | false => simp
  | true =>
    simp only [Bool.true_eq_false, if_false, true_and]
    rw [decoder_input]
    have hsome : (B32.decode ((trimSpace s).map f ++ List.replicate (padAmt (trimSpace s).length) PAD)).isSome
        = accShape (decIn (trimSpace s)) := by
      unfold B32.decode
      simp only []
      rw [filter_nonl _ hall]
      exact decodeLoop_isSome _ _ (decoder_input_len _) (Nat.le_refl _)
    rw [← hsome]
    cases hd : B32.decode ((trimSpace s).map f ++ List.replicate (padAmt (trimSpace s).length) PAD) with
    | none => simp
    | some bs => simp

theorem decodeSecret_err_or_ok (s : Bytes) : decodeSecret s = .err .badSecret ∨ ∃ b, decodeSecret s = .ok b := by
  unfold decodeSecret
  simp only []
  split
  · left; rfl
  · split
    · right; exact ⟨_, rfl⟩
    · left; rfl

theorem dropWhile_replicate_pad (k : Nat) : (List.replicate k PAD).dropWhile isSym = List.replicate k PAD := by
  cases k with
  | zero => rfl
  | succ k => simp [List.replicate_succ, List.dropWhile_cons, isSym, sym_pad]

theorem dropWhile_map_f (t : Bytes) (pads : List Nat) (hok : ∀ c ∈ t, secretCharOk c = true)
    (hp : pads.dropWhile isSym = pads) :
    (t.map f ++ pads).dropWhile isSym = (t.dropWhile isDataChar).map f ++ pads := by
  induction t with
  | nil => simpa using hp
  | cons c t ih =>
    have ih' := ih (fun x hx => hok x (by simp [hx]))
    cases hd : isDataChar c with
    | true =>
      simp only [List.map_cons, List.cons_append, List.dropWhile_cons, f_data c hd, hd, if_true]
      exact ih'
    | false =>
      have hc := hok c (by simp)
      rw [ok_split, hd, Bool.false_or, decide_eq_true_eq] at hc
      have hf : f c = PAD := (f_pad_iff c (hok c (by simp))).mpr hc
      simp [List.dropWhile_cons, hd, hf, isSym, sym_pad]

/-- the texts `DecodeSecret` accepts after trimming: data characters (either case) followed by '=' signs, where the
number of data characters is possible for whole bytes (≡ 0, 2, 4, 5, 7 mod 8) and the '=' signs do not exceed
the canonical padding -/
def Accept (t : Bytes) : Prop :=
  ∃ (data : Bytes) (j : Nat), t = data ++ List.replicate j 61 ∧ (∀ c ∈ data, isDataChar c = true) ∧
    ((data.length % 8 = 0 ∧ j = 0) ∨
     ((data.length % 8 = 2 ∨ data.length % 8 = 4 ∨ data.length % 8 = 5 ∨ data.length % 8 = 7) ∧ j ≤ 8 - data.length % 8))

theorem toNat_61 (c : UInt8) (h : c.toNat = 61) : c = 61 := UInt8.toNat_inj.mp h

theorem all_pad_iff (p : Bytes) (hok : ∀ c ∈ p, secretCharOk c = true) (k : Nat) :
    (p.map f ++ List.replicate k PAD).all (· == PAD) = true ↔ p = List.replicate p.length 61 := by
  rw [List.all_append]
  have hr : (List.replicate k PAD).all (· == PAD) = true := by simp
  rw [hr, Bool.and_true]
  constructor
  · intro h
    apply List.eq_replicate_iff.mpr
    refine ⟨rfl, fun c hc => ?_⟩
    have := List.all_eq_true.mp h (f c) (List.mem_map.mpr ⟨c, hc, rfl⟩)
    exact toNat_61 c ((f_pad_iff c (hok c hc)).mp (by simpa using this))
  · intro h
    apply List.all_eq_true.mpr
    intro x hx
    obtain ⟨c, hc, rfl⟩ := List.mem_map.mp hx
    rw [h] at hc
    have := List.eq_of_mem_replicate hc
    subst this
    decide

theorem accShape_iff (t : Bytes) (hok : t.all secretCharOk = true) : accShape (decIn t) = true ↔ Accept t := by
  have hok' := List.all_eq_true.mp hok
  unfold accShape decIn
  simp only []
  rw [dropWhile_map_f t _ hok' (dropWhile_replicate_pad _)]
  have hsplit : t.takeWhile isDataChar ++ t.dropWhile isDataChar = t := List.takeWhile_append_dropWhile
  have hlen : (t.takeWhile isDataChar).length + (t.dropWhile isDataChar).length = t.length := by
    rw [← List.length_append, hsplit]
  have hokp : ∀ c ∈ t.dropWhile isDataChar, secretCharOk c = true := fun c hc =>
    hok' c (by rw [← hsplit]; exact List.mem_append_right _ hc)
  rw [Bool.and_eq_true, all_pad_iff _ hokp]
  simp only [List.length_append, List.length_map, List.length_replicate, Bool.or_eq_true, beq_iff_eq]
  constructor
  · rintro ⟨hp, hl⟩
    refine ⟨t.takeWhile isDataChar, (t.dropWhile isDataChar).length, ?_, ?_, ?_⟩
    · rw [← hp]; exact hsplit.symm
    · exact fun c hc => List.all_eq_true.mp List.all_takeWhile c hc
    · unfold padAmt at hl
      split at hl <;> omega
  · rintro ⟨data, j, rfl, hdata, hj⟩
    have hdw : (data ++ List.replicate j 61).dropWhile isDataChar = List.replicate j 61 := by
      clear hj hok hok' hsplit hlen hokp
      induction data with
      | nil =>
        cases j with
        | zero => rfl
        | succ j =>
          have h61 : isDataChar 61 = false := by decide
          simp [List.replicate_succ, List.dropWhile_cons, h61]
      | cons c d ih =>
        simp only [List.cons_append, List.dropWhile_cons, hdata c (by simp), if_true]
        exact ih (fun x hx => hdata x (by simp [hx]))
    rw [hdw]
    refine ⟨by simp, ?_⟩
    simp only [List.length_replicate, List.length_append]
    unfold padAmt
    split <;> omega

theorem accept_all_ok (t : Bytes) (h : Accept t) : t.all secretCharOk = true := by
  obtain ⟨data, j, rfl, hd, -⟩ := h
  apply List.all_eq_true.mpr
  intro c hc
  rcases List.mem_append.mp hc with h | h
  · rw [ok_split, hd c h]; rfl
  · have := List.eq_of_mem_replicate h; subst this; decide

/-- `DecodeSecret` succeeds iff the trimmed text has the accepted shape -/
theorem decodeSecret_accept_iff (s : Bytes) : (∃ b, decodeSecret s = .ok b) ↔ Accept (trimSpace s) := by
  rw [decodeSecret_ok_iff]
  constructor
  · rintro ⟨hok, hs⟩; exact (accShape_iff _ hok).mp hs
  · intro h
    have hok := accept_all_ok _ h
    exact ⟨hok, (accShape_iff _ hok).mpr h⟩

theorem takeWhile_data (data : Bytes) (j : Nat) (hd : ∀ c ∈ data, isDataChar c = true) :
    (data ++ List.replicate j 61).takeWhile isDataChar = data := by
  induction data with
  | nil =>
    cases j with
    | zero => rfl
    | succ j =>
      have h61 : isDataChar 61 = false := by decide
      simp [List.replicate_succ, List.takeWhile_cons, h61]
  | cons c d ih =>
    simp only [List.cons_append, List.takeWhile_cons, hd c (by simp), if_true]
    rw [ih (fun x hx => hd x (by simp [hx]))]

theorem mem_dropWhile_after (a rest : Bytes) (x : UInt8) (hx : isDataChar x = false) :
    ∀ y ∈ x :: rest, y ∈ (a ++ x :: rest).dropWhile isDataChar := by
  induction a with
  | nil => intro y hy; simpa [List.dropWhile_cons, hx] using hy
  | cons c a ih =>
    intro y hy
    simp only [List.cons_append, List.dropWhile_cons]
    split
    · exact ih y hy
    · exact List.mem_cons_of_mem _ (List.mem_append_right _ hy)

end OtpVerif.Lemmas.Dec
