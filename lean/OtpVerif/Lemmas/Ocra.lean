/-
Lemmas about the OCRA model: suite validation ⇔ `usable`, input validation ⇔ `admissible`,
`padBytes` under admission, message layout = the documented layout.
-/
import OtpVerif.Model.Ocra
import OtpVerif.Spec.Rfc
import OtpVerif.Props.C01

namespace OtpVerif.Lemmas
open OtpVerif OtpVerif.Model

theorem suiteValidate_iff (cfg : SuiteConfig) : suiteValidate cfg = none ↔ Spec.usable cfg := by
  unfold suiteValidate Spec.usable
  by_cases h1 : cfg.digits < 4 ∨ cfg.digits > 10
  · rw [if_pos h1]; constructor
    · intro h; cases h
    · intro h; omega
  · rw [if_neg h1]
    by_cases h2 : cfg.hash ≠ 0 ∧ cfg.hash ≠ 1 ∧ cfg.hash ≠ 2
    · rw [if_pos h2]; constructor
      · intro h; cases h
      · intro h; omega
    · rw [if_neg h2]
      by_cases h3 : cfg.incP = true ∧ cfg.pwHash = 0
      · rw [if_pos h3]; constructor
        · intro h; cases h
        · intro h; exact absurd h3.2 (h.2.2.2.1 h3.1)
      · rw [if_neg h3]
        by_cases h4 : cfg.incT = true ∧ cfg.timeStep ≤ 0
        · rw [if_pos h4]; constructor
          · intro h; cases h
          · intro h; have := h.2.2.2.2.1 h4.1; omega
        · rw [if_neg h4]
          by_cases h5 : cfg.incQ = true ∧ cfg.challenge = 0
          · rw [if_pos h5]; constructor
            · intro h; cases h
            · intro h; exact absurd h5.2 (h.2.2.2.2.2 h5.1)
          · rw [if_neg h5]
            refine ⟨fun _ => ⟨by omega, by omega, by omega, ?_, ?_, ?_⟩, fun _ => rfl⟩
            · intro hp hz; exact h3 ⟨hp, hz⟩
            · intro ht; have : ¬ cfg.timeStep ≤ 0 := fun hz => h4 ⟨ht, hz⟩; omega
            · intro hq hz; exact h5 ⟨hq, hz⟩

/-- the regenerated `challengeLength` table is the documented one on the enumeration's range -/
theorem challengeLength_eq (f : Int) (h0 : 0 ≤ f) (h6 : f ≤ 6) : challengeLength f = Spec.minQ f := by
  have : f = 0 ∨ f = 1 ∨ f = 2 ∨ f = 3 ∨ f = 4 ∨ f = 5 ∨ f = 6 := by omega
  rcases this with h|h|h|h|h|h|h <;> subst h <;> decide

theorem inputValidate_iff (cfg : SuiteConfig) (i : OCRAInput) (hr : Spec.enumsInRange cfg) :
    inputValidate i cfg = none ↔ Spec.admissible cfg i := by
  obtain ⟨r0, r6, rp⟩ := hr
  unfold inputValidate Spec.admissible
  rw [challengeLength_eq cfg.challenge r0 r6]
  by_cases hC : cfg.incC = true ∧ i.counter.length ≠ 8
  · rw [if_pos hC]; exact ⟨fun h => (by cases h), fun h => absurd (h.1 hC.1) hC.2⟩
  rw [if_neg hC]
  by_cases hQ1 : cfg.incQ = true ∧ i.challenge.length < Spec.minQ cfg.challenge
  · rw [if_pos hQ1]; exact ⟨fun h => (by cases h), fun h => by have := (h.2.1 hQ1.1).1; omega⟩
  rw [if_neg hQ1]
  by_cases hQ2 : cfg.incQ = true ∧ i.challenge.length > 128
  · rw [if_pos hQ2]; exact ⟨fun h => (by cases h), fun h => by have := (h.2.1 hQ2.1).2; omega⟩
  rw [if_neg hQ2]
  by_cases hP0 : cfg.incP = true ∧ i.password.length = 0
  · rw [if_pos hP0]
    refine ⟨fun h => (by cases h), fun h => ?_⟩
    have := h.2.2.1 hP0.1
    unfold Spec.pwLen at this
    split at this <;> (try split at this) <;> omega
  rw [if_neg hP0]
  by_cases hP1 : cfg.incP = true ∧ cfg.pwHash = 1 ∧ i.password.length ≠ 20
  · rw [if_pos hP1]
    refine ⟨fun h => (by cases h), fun h => ?_⟩
    have := h.2.2.1 hP1.1
    simp [Spec.pwLen, hP1.2.1] at this; exact absurd this hP1.2.2
  rw [if_neg hP1]
  by_cases hP2 : cfg.incP = true ∧ cfg.pwHash = 2 ∧ i.password.length ≠ 32
  · rw [if_pos hP2]
    refine ⟨fun h => (by cases h), fun h => ?_⟩
    have := h.2.2.1 hP2.1
    simp [Spec.pwLen, hP2.2.1] at this; exact absurd this hP2.2.2
  rw [if_neg hP2]
  by_cases hP3 : cfg.incP = true ∧ cfg.pwHash = 3 ∧ i.password.length ≠ 64
  · rw [if_pos hP3]
    refine ⟨fun h => (by cases h), fun h => ?_⟩
    have := h.2.2.1 hP3.1
    simp [Spec.pwLen, hP3.2.1] at this; exact absurd this hP3.2.2
  rw [if_neg hP3]
  by_cases hS : cfg.incS = true ∧ i.session.length > 128
  · rw [if_pos hS]; exact ⟨fun h => (by cases h), fun h => by have := h.2.2.2.1 hS.1; omega⟩
  rw [if_neg hS]
  by_cases hT : cfg.incT = true ∧ i.timestamp.length ≠ 8
  · rw [if_pos hT]; exact ⟨fun h => (by cases h), fun h => absurd (h.2.2.2.2 hT.1) hT.2⟩
  rw [if_neg hT]
  refine ⟨fun _ => ⟨?_, ?_, ?_, ?_, ?_⟩, fun _ => rfl⟩
  · intro h; exact Classical.byContradiction fun hn => hC ⟨h, hn⟩
  · intro h
    constructor
    · exact Nat.le_of_not_lt fun hn => hQ1 ⟨h, hn⟩
    · exact Nat.le_of_not_lt fun hn => hQ2 ⟨h, hn⟩
  · intro h
    have hp := rp h
    have : cfg.pwHash = 1 ∨ cfg.pwHash = 2 ∨ cfg.pwHash = 3 := by omega
    rcases this with e | e | e
    · simp only [Spec.pwLen, e]; exact Classical.byContradiction fun hn => hP1 ⟨h, e, hn⟩
    · simp only [Spec.pwLen, e]; exact Classical.byContradiction fun hn => hP2 ⟨h, e, hn⟩
    · simp only [Spec.pwLen, e]; exact Classical.byContradiction fun hn => hP3 ⟨h, e, hn⟩
  · intro h; exact Nat.le_of_not_lt fun hn => hS ⟨h, hn⟩
  · intro h; exact Classical.byContradiction fun hn => hT ⟨h, hn⟩

theorem padBytes_exact (b : Bytes) (w : Nat) (h : b.length = w) : padBytes b w = b := by
  unfold padBytes; rw [if_pos (by omega), ← h, List.take_length]

theorem padBytes_le (b : Bytes) (w : Nat) (h : b.length ≤ w) : padBytes b w = Spec.padR w b := by
  unfold padBytes Spec.padR
  by_cases e : b.length ≥ w
  · rw [if_pos e]
    have : b.length = w := by omega
    rw [← this, List.take_length]; simp
  · rw [if_neg e]

/-- the message `deriveRFC6287` assembles is the documented layout, for every admitted input -/
theorem ocraMessage_eq (cfg : SuiteConfig) (i : OCRAInput) (h : inputValidate i cfg = none) :
    ocraMessage cfg i = Spec.ocraMsg cfg i := by
  unfold inputValidate at h
  unfold ocraMessage Spec.ocraMsg
  rw [separator_eq]
  have hC : cfg.incC = true → i.counter.length = 8 := by
    intro hc; exact Classical.byContradiction fun hn => by simp [hc, hn] at h
  have hQ : cfg.incQ = true → i.challenge.length ≤ 128 := by
    intro hq; exact Nat.le_of_not_lt fun hn => by
      have : ¬ (i.challenge.length ≤ 128) := by omega
      simp [hq, this] at h
      split at h <;> simp_all
  have hS : cfg.incS = true → i.session.length ≤ 128 := by
    intro hs; exact Nat.le_of_not_lt fun hn => by
      have : ¬ (i.session.length ≤ 128) := by omega
      simp [hs, this] at h
      repeat (first | (split at h; simp_all) | simp_all)
  have hT : cfg.incT = true → i.timestamp.length = 8 := by
    intro ht; exact Classical.byContradiction fun hn => by
      simp [ht, hn] at h
      repeat (first | (split at h; simp_all) | simp_all)
  congr 1
  · congr 1
    · congr 1
      · congr 1
        · congr 1
          by_cases hc : cfg.incC = true
          · rw [if_pos hc, if_pos hc, padBytes_exact _ _ (hC hc)]
          · rw [if_neg hc, if_neg hc]
        · by_cases hq : cfg.incQ = true
          · rw [if_pos hq, if_pos hq, padBytes_le _ _ (hQ hq)]
          · rw [if_neg hq, if_neg hq]
    · by_cases hs : cfg.incS = true
      · rw [if_pos hs, if_pos hs, padBytes_le _ _ (hS hs)]
      · rw [if_neg hs, if_neg hs]
  · by_cases ht : cfg.incT = true
    · rw [if_pos ht, if_pos ht, padBytes_exact _ _ (hT ht)]
    · rw [if_neg ht, if_neg ht]

end OtpVerif.Lemmas
