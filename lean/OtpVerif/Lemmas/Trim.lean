/-
`strings.TrimSpace` model: white space at both ends of a text whose core consists of base32
characters is removed, and nothing else.
-/
import OtpVerif.Model.Decoder

namespace OtpVerif.Lemmas
open OtpVerif OtpVerif.Std OtpVerif.Model

theorem secretCharOk_ascii (c : UInt8) (h : secretCharOk c = true) : isAsciiSpace c = false ∧ c.toNat < 128 := by
  unfold secretCharOk at h
  simp only [Bool.or_eq_true, Bool.and_eq_true, decide_eq_true_eq] at h
  have hn : c.toNat ≠ 9 ∧ c.toNat ≠ 10 ∧ c.toNat ≠ 11 ∧ c.toNat ≠ 12 ∧ c.toNat ≠ 13 ∧ c.toNat ≠ 32 ∧ c.toNat < 128 := by omega
  refine ⟨?_, hn.2.2.2.2.2.2⟩
  unfold isAsciiSpace
  have ne (k : UInt8) (hk : c.toNat ≠ k.toNat) : (c == k) = false := by
    cases hck : c == k with
    | false => rfl
    | true => exact absurd (congrArg UInt8.toNat (beq_iff_eq.mp hck)) hk
  simp only [Bool.or_eq_false_iff, decide_eq_false_iff_not]
  refine ⟨⟨⟨⟨⟨?_, ?_⟩, ?_⟩, ?_⟩, ?_⟩, ?_⟩ <;> (intro e; subst e; revert hn; decide)

theorem uniSpaces_heads : uniSpaces.all (fun w =>
    match w, w.reverse with
    | h :: _, h' :: _ => decide (h.toNat ≥ 128 ∧ h'.toNat ≥ 128)
    | _, _ => false) = true := by decide

/-- every non-ASCII white-space encoding starts *and* ends with a byte ≥ 0x80 -/
theorem uniSpaces_bytes : ∀ w ∈ uniSpaces, (∃ h t, w = h :: t ∧ h.toNat ≥ 128) ∧ (∃ h t, w.reverse = h :: t ∧ h.toNat ≥ 128) := by
  intro w hw
  have := List.all_eq_true.mp uniSpaces_heads w hw
  cases hw1 : w with
  | nil => rw [hw1] at this; simp at this
  | cons h t =>
    cases hw2 : w.reverse with
    | nil => rw [hw1] at hw2; simp at hw2
    | cons h' t' =>
      rw [hw1] at this hw2
      rw [hw2] at this
      simp only [decide_eq_true_eq] at this
      exact ⟨⟨h, t, rfl, this.1⟩, ⟨h', t', hw2, this.2⟩⟩

theorem not_prefix_of_head_ne (h c : UInt8) (t rest : Bytes) (hne : h ≠ c) : (h :: t).isPrefixOf (c :: rest) = false := by
  simp [List.isPrefixOf, hne]

/-- an ASCII byte that is not white space -/
def plainChar (c : UInt8) : Prop := isAsciiSpace c = false ∧ c.toNat < 128

theorem spacePrefixLen_ok (c : UInt8) (rest : Bytes) (h : plainChar c) : spacePrefixLen (c :: rest) = 0 := by
  obtain ⟨hs, ha⟩ := h
  unfold spacePrefixLen
  simp only [hs]
  have : uniSpaces.find? (fun w => w.isPrefixOf (c :: rest)) = none := by
    rw [List.find?_eq_none]
    intro w hw
    obtain ⟨⟨hd, t, e, hge⟩, _⟩ := uniSpaces_bytes w hw
    rw [e, not_prefix_of_head_ne hd c t rest (by intro e2; subst e2; omega)]
    simp
  rw [this]; rfl

theorem spaceSuffixLenRev_ok (c : UInt8) (rest : Bytes) (h : plainChar c) : spaceSuffixLenRev (c :: rest) = 0 := by
  obtain ⟨hs, ha⟩ := h
  unfold spaceSuffixLenRev
  simp only [hs]
  have : uniSpaces.find? (fun w => w.reverse.isPrefixOf (c :: rest)) = none := by
    rw [List.find?_eq_none]
    intro w hw
    obtain ⟨_, ⟨hd, t, e, hge⟩⟩ := uniSpaces_bytes w hw
    rw [e, not_prefix_of_head_ne hd c t rest (by intro e2; subst e2; omega)]
    simp
  rw [this]; rfl

theorem spacePrefixLen_space (c : UInt8) (rest : Bytes) (h : isAsciiSpace c = true) : spacePrefixLen (c :: rest) = 1 := by
  unfold spacePrefixLen; simp [h]

theorem spaceSuffixLenRev_space (c : UInt8) (rest : Bytes) (h : isAsciiSpace c = true) : spaceSuffixLenRev (c :: rest) = 1 := by
  unfold spaceSuffixLenRev; simp [h]

/-- stripping from the left: ASCII white space `ws`, then a text that is empty or starts with a base32 character -/
theorem trimLeft_strip (ws rest : Bytes) (hws : ∀ c ∈ ws, isAsciiSpace c = true)
    (hrest : rest = [] ∨ ∃ c t, rest = c :: t ∧ plainChar c) :
    ∀ fuel, ws.length + 1 ≤ fuel → trimLeft fuel (ws ++ rest) = rest := by
  induction ws with
  | nil =>
    intro fuel hf
    obtain ⟨f, rfl⟩ : ∃ f, fuel = f + 1 := ⟨fuel - 1, by simp at hf; omega⟩
    rcases hrest with rfl | ⟨c, t, rfl, hc⟩
    · simp [trimLeft, spacePrefixLen]
    · simp [trimLeft, spacePrefixLen_ok c t hc]
  | cons w ws ih =>
    intro fuel hf
    obtain ⟨f, rfl⟩ : ∃ f, fuel = f + 1 := ⟨fuel - 1, by simp at hf; omega⟩
    have hw := hws w (by simp)
    simp only [List.cons_append, trimLeft, spacePrefixLen_space w _ hw]
    simp only [Nat.succ_ne_zero, if_false, List.drop_succ_cons, List.drop_zero]
    exact ih (fun c hc => hws c (by simp [hc])) f (by simp at hf ⊢; omega)

theorem trimLeftRev_strip (ws rest : Bytes) (hws : ∀ c ∈ ws, isAsciiSpace c = true)
    (hrest : rest = [] ∨ ∃ c t, rest = c :: t ∧ plainChar c) :
    ∀ fuel, ws.length + 1 ≤ fuel → trimLeftRev fuel (ws ++ rest) = rest := by
  induction ws with
  | nil =>
    intro fuel hf
    obtain ⟨f, rfl⟩ : ∃ f, fuel = f + 1 := ⟨fuel - 1, by simp at hf; omega⟩
    rcases hrest with rfl | ⟨c, t, rfl, hc⟩
    · simp [trimLeftRev, spaceSuffixLenRev]
    · simp [trimLeftRev, spaceSuffixLenRev_ok c t hc]
  | cons w ws ih =>
    intro fuel hf
    obtain ⟨f, rfl⟩ : ∃ f, fuel = f + 1 := ⟨fuel - 1, by simp at hf; omega⟩
    have hw := hws w (by simp)
    simp only [List.cons_append, trimLeftRev, spaceSuffixLenRev_space w _ hw]
    simp only [Nat.succ_ne_zero, if_false, List.drop_succ_cons, List.drop_zero]
    exact ih (fun c hc => hws c (by simp [hc])) f (by simp at hf ⊢; omega)

/-- `TrimSpace (ws₁ ++ core ++ ws₂) = core` for ASCII white space around a core of base32 characters -/
theorem trimSpace_strip_plain (ws1 core ws2 : Bytes) (h1 : ∀ c ∈ ws1, isAsciiSpace c = true) (h2 : ∀ c ∈ ws2, isAsciiSpace c = true)
    (hc : ∀ c ∈ core, plainChar c) : trimSpace (ws1 ++ core ++ ws2) = core := by
  unfold trimSpace
  cases core with
  | nil =>
    simp only [List.append_nil]
    have e : ws1 ++ ws2 = (ws1 ++ ws2) ++ [] := by simp
    have hl : trimLeft (ws1 ++ ws2).length (ws1 ++ ws2) = [] := by
      have := trimLeft_strip (ws1 ++ ws2) [] (by intro c hc'; rcases List.mem_append.mp hc' with h | h; exact h1 c h; exact h2 c h)
        (Or.inl rfl) ((ws1 ++ ws2).length + 1) (by omega)
      -- fuel = length suffices as well: prove directly
      clear this
      have gen : ∀ (ws : Bytes), (∀ c ∈ ws, isAsciiSpace c = true) → ∀ fuel, ws.length ≤ fuel → trimLeft fuel ws = [] := by
        intro ws
        induction ws with
        | nil => intro _ fuel _; cases fuel <;> simp [trimLeft, spacePrefixLen]
        | cons w ws ih =>
          intro hws fuel hf
          obtain ⟨f, rfl⟩ : ∃ f, fuel = f + 1 := ⟨fuel - 1, by simp at hf; omega⟩
          simp only [trimLeft, spacePrefixLen_space w _ (hws w (by simp))]
          simp only [Nat.succ_ne_zero, if_false, List.drop_succ_cons, List.drop_zero]
          exact ih (fun c hc => hws c (by simp [hc])) f (by simp at hf; omega)
      exact gen _ (by intro c hc'; rcases List.mem_append.mp hc' with h | h; exact h1 c h; exact h2 c h) _ (Nat.le_refl _)
    simp only [hl]
    simp [trimLeftRev]
  | cons c0 core' =>
    have hrest : (c0 :: core') ++ ws2 = [] ∨ ∃ c t, (c0 :: core') ++ ws2 = c :: t ∧ plainChar c :=
      Or.inr ⟨c0, core' ++ ws2, rfl, hc c0 (by simp)⟩
    have hl : trimLeft (ws1 ++ (c0 :: core') ++ ws2).length (ws1 ++ (c0 :: core') ++ ws2) = (c0 :: core') ++ ws2 := by
      rw [List.append_assoc]
      exact trimLeft_strip ws1 _ h1 hrest _ (by simp; try omega)
    simp only [hl]
    -- now from the right
    have hrev : ((c0 :: core') ++ ws2).reverse = ws2.reverse ++ (c0 :: core').reverse := by simp
    have hlast : (c0 :: core').reverse = [] ∨ ∃ c t, (c0 :: core').reverse = c :: t ∧ plainChar c := by
      right
      cases hr : (c0 :: core').reverse with
      | nil => simp at hr
      | cons c t =>
        refine ⟨c, t, rfl, hc c ?_⟩
        have : c ∈ (c0 :: core').reverse := by rw [hr]; simp
        exact List.mem_reverse.mp this
    rw [hrev]
    rw [trimLeftRev_strip ws2.reverse _ (by intro c hc'; exact h2 c (List.mem_reverse.mp hc')) hlast _ (by simp; try omega)]
    simp

/-- the instance used for secrets: base32 characters are plain -/
theorem trimSpace_strip (ws1 core ws2 : Bytes) (h1 : ∀ c ∈ ws1, isAsciiSpace c = true) (h2 : ∀ c ∈ ws2, isAsciiSpace c = true)
    (hc : ∀ c ∈ core, secretCharOk c = true) : trimSpace (ws1 ++ core ++ ws2) = core :=
  trimSpace_strip_plain ws1 core ws2 h1 h2 (fun c h => secretCharOk_ascii c (hc c h))

/-- a text of plain characters is untouched by TrimSpace -/
theorem trimSpace_plain (s : Bytes) (h : ∀ c ∈ s, plainChar c) : trimSpace s = s := by
  have := trimSpace_strip_plain [] s [] (by simp) (by simp) h
  simpa using this

end OtpVerif.Lemmas
