/-
The stdlib decoder model inverts the padded RFC 4648 encoder, for every byte string
(induction over 5-byte chunks); plus shape facts about encodings (alphabet, length, padding).
-/
import OtpVerif.Std.Base32

namespace OtpVerif.Lemmas.B32
open OtpVerif.Std.B32

theorem sym_alpha (n : Nat) (h : n < 32) : sym (alpha n) = some n := by
  unfold sym alpha
  by_cases hn : n < 26
  · rw [if_pos hn, if_pos (by omega)]; congr 1; omega
  · rw [if_neg hn, if_neg (by omega), if_pos (by omega)]; congr 1; omega
theorem alpha_ne_pad (n : Nat) (h : n < 32) : alpha n ≠ PAD := by
  unfold alpha PAD; split <;> omega

theorem quantum (b0 b1 b2 b3 b4 : Nat) (h0 : b0 < 256) (h1 : b1 < 256) (h2 : b2 < 256) (h3 : b3 < 256) (h4 : b4 < 256) :
    ((s0 b0 * 8) % 256 + s1 b0 b1 / 4 = b0) ∧
    ((s1 b0 b1 * 64) % 256 + (s2 b1 * 2) % 256 + s3 b1 b2 / 16 = b1) ∧
    ((s3 b1 b2 * 16) % 256 + s4 b2 b3 / 2 = b2) ∧
    ((s4 b2 b3 * 128) % 256 + (s5 b3 * 4) % 256 + s6 b3 b4 / 8 = b3) ∧
    ((s6 b3 b4 * 32) % 256 + s7 b4 = b4) := by
  unfold s0 s1 s2 s3 s4 s5 s6 s7
  refine ⟨?_, ?_, ?_, ?_, ?_⟩ <;> omega

theorem sym_lt (b0 b1 b2 b3 b4 : Nat) (h0 : b0 < 256) (h1 : b1 < 256) (h2 : b2 < 256) (h3 : b3 < 256) (h4 : b4 < 256) :
    s0 b0 < 32 ∧ s1 b0 b1 < 32 ∧ s2 b1 < 32 ∧ s3 b1 b2 < 32 ∧ s4 b2 b3 < 32 ∧ s5 b3 < 32 ∧ s6 b3 b4 < 32 ∧ s7 b4 < 32 := by
  unfold s0 s1 s2 s3 s4 s5 s6 s7
  refine ⟨?_, ?_, ?_, ?_, ?_, ?_, ?_, ?_⟩ <;> omega

theorem readQ_full (v0 v1 v2 v3 v4 v5 v6 v7 : Nat) (rest : List Nat)
    (h0 : v0 < 32) (h1 : v1 < 32) (h2 : v2 < 32) (h3 : v3 < 32) (h4 : v4 < 32) (h5 : v5 < 32) (h6 : v6 < 32) (h7 : v7 < 32) :
    readQ 8 0 (alpha v0 :: alpha v1 :: alpha v2 :: alpha v3 :: alpha v4 :: alpha v5 :: alpha v6 :: alpha v7 :: rest) []
      = some ([v0, v1, v2, v3, v4, v5, v6, v7], rest, false) := by
  simp [readQ, sym_alpha, alpha_ne_pad, *]

/-- the decoder loop inverts the padded encoder for every byte string -/
theorem decodeLoop_enc : ∀ (b : List Nat), (∀ x ∈ b, x < 256) → ∀ fuel, b.length / 5 + 2 ≤ fuel → decodeLoop fuel (enc b) = some b := by
  intro b
  induction b using enc.induct with
  | case1 b0 b1 b2 b3 b4 rest ih =>
    intro hb fuel hf
    have h0 := hb b0 (by simp); have h1 := hb b1 (by simp); have h2 := hb b2 (by simp)
    have h3 := hb b3 (by simp); have h4 := hb b4 (by simp)
    have hs := sym_lt b0 b1 b2 b3 b4 h0 h1 h2 h3 h4
    have hq := quantum b0 b1 b2 b3 b4 h0 h1 h2 h3 h4
    obtain ⟨fuel', rfl⟩ : ∃ f, fuel = f + 1 := ⟨fuel - 1, by simp at hf; omega⟩
    have ih' := ih (fun x hx => hb x (by simp [hx])) fuel' (by simp at hf ⊢; omega)
    unfold enc decodeLoop
    simp only [readQ_full _ _ _ _ _ _ _ _ _ hs.1 hs.2.1 hs.2.2.1 hs.2.2.2.1 hs.2.2.2.2.1 hs.2.2.2.2.2.1 hs.2.2.2.2.2.2.1 hs.2.2.2.2.2.2.2,
      pack, ih', hq.1, hq.2.1, hq.2.2.1, hq.2.2.2.1, hq.2.2.2.2]
    simp
  | case2 b0 b1 b2 b3 =>
    intro hb fuel hf
    have h0 := hb b0 (by simp); have h1 := hb b1 (by simp); have h2 := hb b2 (by simp); have h3 := hb b3 (by simp)
    have hs := sym_lt b0 b1 b2 b3 0 h0 h1 h2 h3 (by omega)
    have hq := quantum b0 b1 b2 b3 0 h0 h1 h2 h3 (by omega)
    obtain ⟨fuel', rfl⟩ : ∃ f, fuel = f + 1 := ⟨fuel - 1, by simp at hf; omega⟩
    obtain ⟨a0, a1, a2, a3, a4, a5, a6, -⟩ := hs
    simp [enc, decodeLoop, readQ, sym_alpha, alpha_ne_pad, pack, a0, a1, a2, a3, a4, a5, a6, hq.1, hq.2.1, hq.2.2.1, hq.2.2.2.1]
  | case3 b0 b1 b2 =>
    intro hb fuel hf
    have h0 := hb b0 (by simp); have h1 := hb b1 (by simp); have h2 := hb b2 (by simp)
    have hs := sym_lt b0 b1 b2 0 0 h0 h1 h2 (by omega) (by omega)
    have hq := quantum b0 b1 b2 0 0 h0 h1 h2 (by omega) (by omega)
    obtain ⟨fuel', rfl⟩ : ∃ f, fuel = f + 1 := ⟨fuel - 1, by simp at hf; omega⟩
    obtain ⟨a0, a1, a2, a3, a4, -⟩ := hs
    simp [enc, decodeLoop, readQ, sym_alpha, alpha_ne_pad, pack, a0, a1, a2, a3, a4, hq.1, hq.2.1, hq.2.2.1]
  | case4 b0 b1 =>
    intro hb fuel hf
    have h0 := hb b0 (by simp); have h1 := hb b1 (by simp)
    have hs := sym_lt b0 b1 0 0 0 h0 h1 (by omega) (by omega) (by omega)
    have hq := quantum b0 b1 0 0 0 h0 h1 (by omega) (by omega) (by omega)
    obtain ⟨fuel', rfl⟩ : ∃ f, fuel = f + 1 := ⟨fuel - 1, by simp at hf; omega⟩
    obtain ⟨a0, a1, a2, a3, -⟩ := hs
    simp [enc, decodeLoop, readQ, sym_alpha, alpha_ne_pad, pack, a0, a1, a2, a3, hq.1, hq.2.1]
  | case5 b0 =>
    intro hb fuel hf
    have h0 := hb b0 (by simp)
    have hs := sym_lt b0 0 0 0 0 h0 (by omega) (by omega) (by omega) (by omega)
    have hq := quantum b0 0 0 0 0 h0 (by omega) (by omega) (by omega) (by omega)
    obtain ⟨fuel', rfl⟩ : ∃ f, fuel = f + 1 := ⟨fuel - 1, by simp at hf; omega⟩
    obtain ⟨a0, a1, -⟩ := hs
    simp [enc, decodeLoop, readQ, sym_alpha, alpha_ne_pad, pack, a0, a1, hq.1]
  | case6 => intro _ fuel hf; obtain ⟨f, rfl⟩ : ∃ f, fuel = f + 1 := ⟨fuel - 1, by omega⟩; simp [enc, decodeLoop]

/-- an encoding character: upper-case letter, digit 2..7, or '=' -/
def isEncChar (c : Nat) : Prop := (65 ≤ c ∧ c ≤ 90) ∨ (50 ≤ c ∧ c ≤ 55) ∨ c = 61

theorem alpha_enc (n : Nat) (h : n < 32) : isEncChar (alpha n) := by
  unfold isEncChar alpha; split <;> omega

theorem enc_chars : ∀ (b : List Nat), (∀ x ∈ b, x < 256) → ∀ c ∈ enc b, isEncChar c := by
  intro b
  induction b using enc.induct with
  | case1 b0 b1 b2 b3 b4 rest ih =>
    intro hb c hc
    have hs := sym_lt b0 b1 b2 b3 b4 (hb b0 (by simp)) (hb b1 (by simp)) (hb b2 (by simp)) (hb b3 (by simp)) (hb b4 (by simp))
    unfold enc at hc
    simp only [List.mem_cons] at hc
    rcases hc with h|h|h|h|h|h|h|h|h
    all_goals first
      | (subst h; apply alpha_enc; first | exact hs.1 | exact hs.2.1 | exact hs.2.2.1 | exact hs.2.2.2.1 | exact hs.2.2.2.2.1 | exact hs.2.2.2.2.2.1 | exact hs.2.2.2.2.2.2.1 | exact hs.2.2.2.2.2.2.2)
      | exact ih (fun x hx => hb x (by simp [hx])) c h
  | case2 b0 b1 b2 b3 =>
    intro hb c hc
    have hs := sym_lt b0 b1 b2 b3 0 (hb b0 (by simp)) (hb b1 (by simp)) (hb b2 (by simp)) (hb b3 (by simp)) (by omega)
    simp only [enc, List.mem_cons, List.not_mem_nil, or_false] at hc
    rcases hc with h|h|h|h|h|h|h|h
    all_goals first
      | (subst h; apply alpha_enc; first | exact hs.1 | exact hs.2.1 | exact hs.2.2.1 | exact hs.2.2.2.1 | exact hs.2.2.2.2.1 | exact hs.2.2.2.2.2.1 | exact hs.2.2.2.2.2.2.1 | exact hs.2.2.2.2.2.2.2)
      | (subst h; right; right; rfl)
  | case3 b0 b1 b2 =>
    intro hb c hc
    have hs := sym_lt b0 b1 b2 0 0 (hb b0 (by simp)) (hb b1 (by simp)) (hb b2 (by simp)) (by omega) (by omega)
    simp only [enc, List.mem_cons, List.not_mem_nil, or_false] at hc
    rcases hc with h|h|h|h|h|h|h|h
    all_goals first
      | (subst h; apply alpha_enc; first | exact hs.1 | exact hs.2.1 | exact hs.2.2.1 | exact hs.2.2.2.1 | exact hs.2.2.2.2.1 | exact hs.2.2.2.2.2.1 | exact hs.2.2.2.2.2.2.1 | exact hs.2.2.2.2.2.2.2)
      | (subst h; right; right; rfl)
  | case4 b0 b1 =>
    intro hb c hc
    have hs := sym_lt b0 b1 0 0 0 (hb b0 (by simp)) (hb b1 (by simp)) (by omega) (by omega) (by omega)
    simp only [enc, List.mem_cons, List.not_mem_nil, or_false] at hc
    rcases hc with h|h|h|h|h|h|h|h
    all_goals first
      | (subst h; apply alpha_enc; first | exact hs.1 | exact hs.2.1 | exact hs.2.2.1 | exact hs.2.2.2.1 | exact hs.2.2.2.2.1 | exact hs.2.2.2.2.2.1 | exact hs.2.2.2.2.2.2.1 | exact hs.2.2.2.2.2.2.2)
      | (subst h; right; right; rfl)
  | case5 b0 =>
    intro hb c hc
    have hs := sym_lt b0 0 0 0 0 (hb b0 (by simp)) (by omega) (by omega) (by omega) (by omega)
    simp only [enc, List.mem_cons, List.not_mem_nil, or_false] at hc
    rcases hc with h|h|h|h|h|h|h|h
    all_goals first
      | (subst h; apply alpha_enc; first | exact hs.1 | exact hs.2.1 | exact hs.2.2.1 | exact hs.2.2.2.1 | exact hs.2.2.2.2.1 | exact hs.2.2.2.2.2.1 | exact hs.2.2.2.2.2.2.1 | exact hs.2.2.2.2.2.2.2)
      | (subst h; right; right; rfl)
  | case6 => intro _ c hc; simp [enc] at hc

theorem enc_length (b : List Nat) : (enc b).length = 8 * ((b.length + 4) / 5) := by
  induction b using enc.induct with
  | case1 b0 b1 b2 b3 b4 rest ih => unfold enc; simp only [List.length_cons, ih]; omega
  | case2 => simp [enc]
  | case3 => simp [enc]
  | case4 => simp [enc]
  | case5 => simp [enc]
  | case6 => simp [enc]

/-- `DecodeString` of an encoding returns the bytes -/
theorem decode_enc (b : List Nat) (hb : ∀ x ∈ b, x < 256) : decode (enc b) = some b := by
  unfold decode
  have hf : (enc b).filter (fun c => decide (c ≠ 10 ∧ c ≠ 13)) = enc b := by
    rw [List.filter_eq_self]
    intro c hc
    have := enc_chars b hb c hc
    unfold isEncChar at this
    simp; omega
  simp only [hf]
  apply decodeLoop_enc b hb
  rw [enc_length]; omega

end OtpVerif.Lemmas.B32
