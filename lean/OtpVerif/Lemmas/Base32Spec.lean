/-
The bit-wise RFC 4648 encoder of the Spec layer (`Spec.b32NoPad`: bits most significant first, groups of five, last group
zero-extended) and the 5-byte-quantum encoder that models Go's `encoding/base32` (`B32.encNoPad`) are the same function.
-/
import OtpVerif.Spec.Base32
import OtpVerif.Std.Base32
namespace OtpVerif.Lemmas.B32Spec
open OtpVerif OtpVerif.Spec OtpVerif.Std

theorem bit_ite (m : Nat) (h : m < 2) : (if decide (m = 1) = true then 1 else 0) = m := by
  have : m = 0 ∨ m = 1 := by omega
  rcases this with h | h <;> subst h <;> rfl

/-- the eight bits of a byte -/
theorem bits_byte (x : UInt8) : (List.range 8).map (fun i => decide ((x.toNat / 2 ^ (7 - i)) % 2 = 1)) =
    [decide (x.toNat / 128 % 2 = 1), decide (x.toNat / 64 % 2 = 1), decide (x.toNat / 32 % 2 = 1), decide (x.toNat / 16 % 2 = 1),
     decide (x.toNat / 8 % 2 = 1), decide (x.toNat / 4 % 2 = 1), decide (x.toNat / 2 % 2 = 1), decide (x.toNat / 1 % 2 = 1)] := by
  simp [List.range, List.range.loop]

theorem bitsOf_cons (x : UInt8) (rest : Bytes) : bitsOf (x :: rest) =
    [decide (x.toNat / 128 % 2 = 1), decide (x.toNat / 64 % 2 = 1), decide (x.toNat / 32 % 2 = 1), decide (x.toNat / 16 % 2 = 1),
     decide (x.toNat / 8 % 2 = 1), decide (x.toNat / 4 % 2 = 1), decide (x.toNat / 2 % 2 = 1), decide (x.toNat / 1 % 2 = 1)] ++ bitsOf rest := by
  unfold bitsOf
  rw [List.flatMap_cons, bits_byte]

/-- value of five explicit bits -/
theorem nat5 (a b c d e : Nat) (ha : a < 2) (hb : b < 2) (hc : c < 2) (hd : d < 2) (he : e < 2) :
    natOfBits [decide (a = 1), decide (b = 1), decide (c = 1), decide (d = 1), decide (e = 1)] = 16 * a + 8 * b + 4 * c + 2 * d + e := by
  unfold natOfBits
  simp only [List.foldl_cons, List.foldl_nil, bit_ite _ ha, bit_ite _ hb, bit_ite _ hc, bit_ite _ hd, bit_ite _ he]
  omega

theorem natOfBits_false5 : natOfBits [false, false, false, false, false] = 0 := rfl


theorem groups5_step (fuel : Nat) (a b c d e : Bool) (tail : List Bool) :
    groups5 (fuel + 1) (a :: b :: c :: d :: e :: tail) = [a, b, c, d, e] :: groups5 fuel tail := by
  simp [groups5]

theorem groups5_chunk (fuel : Nat) (x0 x1 x2 x3 x4 x5 x6 x7 x8 x9 x10 x11 x12 x13 x14 x15 x16 x17 x18 x19 x20 x21 x22 x23 x24 x25 x26 x27 x28 x29 x30 x31 x32 x33 x34 x35 x36 x37 x38 x39 : Bool) (tail : List Bool) :
    groups5 (fuel + 8) (x0 :: x1 :: x2 :: x3 :: x4 :: x5 :: x6 :: x7 :: x8 :: x9 :: x10 :: x11 :: x12 :: x13 :: x14 :: x15 :: x16 :: x17 :: x18 :: x19 :: x20 :: x21 :: x22 :: x23 :: x24 :: x25 :: x26 :: x27 :: x28 :: x29 :: x30 :: x31 :: x32 :: x33 :: x34 :: x35 :: x36 :: x37 :: x38 :: x39 :: tail) = [x0, x1, x2, x3, x4] :: [x5, x6, x7, x8, x9] :: [x10, x11, x12, x13, x14] :: [x15, x16, x17, x18, x19] :: [x20, x21, x22, x23, x24] :: [x25, x26, x27, x28, x29] :: [x30, x31, x32, x33, x34] :: [x35, x36, x37, x38, x39] :: groups5 fuel tail := by
  rw [show fuel + 8 = fuel + 7 + 1 from rfl, groups5_step, show fuel + 7 = fuel + 6 + 1 from rfl, groups5_step,
      show fuel + 6 = fuel + 5 + 1 from rfl, groups5_step, show fuel + 5 = fuel + 4 + 1 from rfl, groups5_step,
      show fuel + 4 = fuel + 3 + 1 from rfl, groups5_step, show fuel + 3 = fuel + 2 + 1 from rfl, groups5_step,
      show fuel + 2 = fuel + 1 + 1 from rfl, groups5_step, groups5_step]


def bv (b : Bool) : Nat := if b then 1 else 0
theorem bitv_of_decide (m : Nat) (h : m < 2) : bv (decide (m = 1)) = m := by
  have : m = 0 ∨ m = 1 := by omega
  rcases this with h | h <;> subst h <;> rfl
theorem bv_false : bv false = 0 := rfl

theorem natOfBits5 (p q r s t : Bool) : natOfBits [p, q, r, s, t] = 16 * bv p + 8 * bv q + 4 * bv r + 2 * bv s + bv t := by
  unfold natOfBits bv
  simp only [List.foldl_cons, List.foldl_nil]
  omega

theorem alphaChar_eq (v : Nat) : alphaChar v = Nat.toUInt8 (B32.alpha v) := by
  unfold alphaChar B32.alpha; split <;> rfl

theorem groups5_nil (fuel : Nat) : groups5 fuel [] = [] := by
  cases fuel <;> simp [groups5]

theorem bitsOf_nil : bitsOf [] = [] := rfl

-- the arithmetic of one group: bits of the bytes ↦ the RFC 4648 symbol value
macro "bits_arith" : tactic => `(tactic| (
  simp only [natOfBits5, bv_false]
  repeat rw [bitv_of_decide _ (Nat.mod_lt _ (by omega))]
  simp only [B32.s0, B32.s1, B32.s2, B32.s3, B32.s4, B32.s5, B32.s6, B32.s7]
  omega))

/-- the bit-wise RFC 4648 encoder of the Spec layer and the 5-byte-quantum encoder of the stdlib model agree -/
theorem groups_eq : ∀ (b : Bytes) (fuel : Nat), 8 * b.length ≤ fuel →
    (groups5 fuel (bitsOf b)).map (fun g => alphaChar (natOfBits g)) = (B32.encNoPad (b.map UInt8.toNat)).map Nat.toUInt8
  | [], fuel, _ => by simp [bitsOf, groups5_nil, B32.encNoPad]
  | [b0], fuel, hf => by
    obtain ⟨f, rfl⟩ : ∃ f, fuel = f + 2 := ⟨fuel - 2, by simp at hf; omega⟩
    have h0 := b0.toNat_lt
    rw [bitsOf_cons, bitsOf_nil]
    simp only [List.append_nil, List.cons_append, List.nil_append, List.map_cons, List.map_nil, B32.encNoPad]
    rw [show f + 2 = f + 1 + 1 from rfl, groups5_step]
    simp only [groups5, List.isEmpty_cons, Bool.false_eq_true, if_false, List.take, List.drop, List.length_cons, List.length_nil,
      List.replicate, List.cons_append, List.nil_append, List.map_cons, List.map_nil, groups5_nil, alphaChar_eq, Nat.add_zero]
    simp only [List.cons.injEq, and_true]
    refine ⟨?_, ?_⟩ <;> (congr 2; bits_arith)
  | [b0, b1], fuel, hf => by
    obtain ⟨f, rfl⟩ : ∃ f, fuel = f + 4 := ⟨fuel - 4, by simp at hf; omega⟩
    have h0 := b0.toNat_lt
    have h1 := b1.toNat_lt
    rw [bitsOf_cons, bitsOf_cons, bitsOf_nil]
    simp only [List.append_nil, List.cons_append, List.nil_append, List.map_cons, List.map_nil, B32.encNoPad]
    rw [show f + 4 = f + 3 + 1 from rfl, groups5_step, show f + 3 = f + 2 + 1 from rfl, groups5_step, show f + 2 = f + 1 + 1 from rfl, groups5_step]
    simp only [groups5, List.isEmpty_cons, Bool.false_eq_true, if_false, List.take, List.drop, List.length_cons, List.length_nil,
      List.replicate, List.cons_append, List.nil_append, List.map_cons, List.map_nil, groups5_nil, alphaChar_eq, Nat.add_zero]
    simp only [List.cons.injEq, and_true]
    refine ⟨?_, ?_, ?_, ?_⟩ <;> (congr 2; bits_arith)
  | [b0, b1, b2], fuel, hf => by
    obtain ⟨f, rfl⟩ : ∃ f, fuel = f + 5 := ⟨fuel - 5, by simp at hf; omega⟩
    have h0 := b0.toNat_lt
    have h1 := b1.toNat_lt
    have h2 := b2.toNat_lt
    rw [bitsOf_cons, bitsOf_cons, bitsOf_cons, bitsOf_nil]
    simp only [List.append_nil, List.cons_append, List.nil_append, List.map_cons, List.map_nil, B32.encNoPad]
    rw [show f + 5 = f + 4 + 1 from rfl, groups5_step, show f + 4 = f + 3 + 1 from rfl, groups5_step, show f + 3 = f + 2 + 1 from rfl, groups5_step, show f + 2 = f + 1 + 1 from rfl, groups5_step]
    simp only [groups5, List.isEmpty_cons, Bool.false_eq_true, if_false, List.take, List.drop, List.length_cons, List.length_nil,
      List.replicate, List.cons_append, List.nil_append, List.map_cons, List.map_nil, groups5_nil, alphaChar_eq, Nat.add_zero]
    simp only [List.cons.injEq, and_true]
    refine ⟨?_, ?_, ?_, ?_, ?_⟩ <;> (congr 2; bits_arith)
  | [b0, b1, b2, b3], fuel, hf => by
    obtain ⟨f, rfl⟩ : ∃ f, fuel = f + 7 := ⟨fuel - 7, by simp at hf; omega⟩
    have h0 := b0.toNat_lt
    have h1 := b1.toNat_lt
    have h2 := b2.toNat_lt
    have h3 := b3.toNat_lt
    rw [bitsOf_cons, bitsOf_cons, bitsOf_cons, bitsOf_cons, bitsOf_nil]
    simp only [List.append_nil, List.cons_append, List.nil_append, List.map_cons, List.map_nil, B32.encNoPad]
    rw [show f + 7 = f + 6 + 1 from rfl, groups5_step, show f + 6 = f + 5 + 1 from rfl, groups5_step, show f + 5 = f + 4 + 1 from rfl, groups5_step, show f + 4 = f + 3 + 1 from rfl, groups5_step, show f + 3 = f + 2 + 1 from rfl, groups5_step, show f + 2 = f + 1 + 1 from rfl, groups5_step]
    simp only [groups5, List.isEmpty_cons, Bool.false_eq_true, if_false, List.take, List.drop, List.length_cons, List.length_nil,
      List.replicate, List.cons_append, List.nil_append, List.map_cons, List.map_nil, groups5_nil, alphaChar_eq, Nat.add_zero]
    simp only [List.cons.injEq, and_true]
    refine ⟨?_, ?_, ?_, ?_, ?_, ?_, ?_⟩ <;> (congr 2; bits_arith)
  | b0 :: b1 :: b2 :: b3 :: b4 :: rest, fuel, hf => by
    obtain ⟨f, rfl⟩ : ∃ f, fuel = f + 8 := ⟨fuel - 8, by simp only [List.length_cons] at hf; omega⟩
    have h0 := b0.toNat_lt
    have h1 := b1.toNat_lt
    have h2 := b2.toNat_lt
    have h3 := b3.toNat_lt
    have h4 := b4.toNat_lt
    have ih := groups_eq rest f (by simp only [List.length_cons] at hf; omega)
    rw [bitsOf_cons, bitsOf_cons, bitsOf_cons, bitsOf_cons, bitsOf_cons]
    simp only [List.cons_append, List.nil_append, List.map_cons, B32.encNoPad]
    rw [groups5_chunk]
    simp only [List.map_cons, ih]
    simp only [alphaChar_eq]
    simp only [List.cons.injEq, and_true]
    refine ⟨?_, ?_, ?_, ?_, ?_, ?_, ?_, ?_⟩ <;> (congr 2; bits_arith)

theorem b32NoPad_eq (b : Bytes) : b32NoPad b = (B32.encNoPad (b.map UInt8.toNat)).map Nat.toUInt8 :=
  groups_eq b _ (Nat.le_refl _)

end OtpVerif.Lemmas.B32Spec
