/-
Percent-encoding and query-string round trips for the `net/url` model, and `strconv` round trips.
-/
import OtpVerif.Std.Url

namespace OtpVerif.Lemmas.Url
open OtpVerif OtpVerif.Std OtpVerif.Std.Url

theorem unhex_hexDigit (n : Nat) (h : n < 16) : unhex (hexDigit n) = some n := by
  have : n = 0 ∨ n = 1 ∨ n = 2 ∨ n = 3 ∨ n = 4 ∨ n = 5 ∨ n = 6 ∨ n = 7 ∨ n = 8 ∨ n = 9 ∨ n = 10 ∨ n = 11 ∨ n = 12 ∨ n = 13 ∨ n = 14 ∨ n = 15 := by omega
  rcases this with h|h|h|h|h|h|h|h|h|h|h|h|h|h|h|h <;> subst h <;> decide

theorem byte_recompose (c : UInt8) : ((c.toNat / 16) * 16 + c.toNat % 16).toUInt8 = c := by
  have : (c.toNat / 16) * 16 + c.toNat % 16 = c.toNat := by omega
  rw [this]; exact UInt8.ofNat_toNat

theorem se_pct (m : Mode) : shouldEscape m 37 = true := by cases m <;> decide
theorem se_plus_query : shouldEscape .query 43 = true := by decide

/-- `unescape (escape s) = s` for every byte string, in path and in query-component mode -/
theorem unescape_escape (m : Mode) : ∀ s : Bytes, unescape m (escape m s) = some s := by
  intro s
  induction s with
  | nil => simp [escape, unescape]
  | cons c cs ih =>
    unfold escape
    by_cases hq : m = .query ∧ c = 32
    · rw [if_pos hq]
      have h43 : ¬ ((43 : UInt8) = 37) := by decide
      unfold unescape
      rw [if_neg h43, if_pos ⟨hq.1, rfl⟩, ih, hq.2]; rfl
    · rw [if_neg hq]
      by_cases hse : shouldEscape m c = true
      · rw [if_pos hse]
        have hlt := c.toNat_lt
        unfold unescape
        rw [if_pos rfl]
        simp only [unhex_hexDigit _ (show c.toNat / 16 < 16 by omega),
          unhex_hexDigit _ (show c.toNat % 16 < 16 by omega), ih, byte_recompose]
      · rw [if_neg hse]
        have hne37 : ¬ (c = 37) := by intro e; subst e; exact hse (se_pct m)
        have hne43 : ¬ (m = .query ∧ c = 43) := by
          rintro ⟨hm, e⟩; subst e; subst hm; exact hse se_plus_query
        unfold unescape
        rw [if_neg hne37, if_neg hne43, ih]; rfl

theorem hexDigit_alnum (n : Nat) (h : n < 16) : isAlnum (hexDigit n) = true := by
  have : n = 0 ∨ n = 1 ∨ n = 2 ∨ n = 3 ∨ n = 4 ∨ n = 5 ∨ n = 6 ∨ n = 7 ∨ n = 8 ∨ n = 9 ∨ n = 10 ∨ n = 11 ∨ n = 12 ∨ n = 13 ∨ n = 14 ∨ n = 15 := by omega
  rcases this with h|h|h|h|h|h|h|h|h|h|h|h|h|h|h|h <;> subst h <;> decide

/-- characters that can occur in an escaped text: those that need no escaping, '%', and '+' in query mode -/
def EscOut (m : Mode) (c : UInt8) : Prop := shouldEscape m c = false ∨ c = 37 ∨ (m = .query ∧ c = 43)

theorem alnum_not_escaped (m : Mode) (c : UInt8) (h : isAlnum c = true) : shouldEscape m c = false := by
  unfold shouldEscape; rw [if_pos h]

theorem escape_chars (m : Mode) : ∀ (s : Bytes) (c : UInt8), c ∈ escape m s → EscOut m c := by
  intro s
  induction s with
  | nil => intro c hc; simp [escape] at hc
  | cons x xs ih =>
    intro c hc
    unfold escape at hc
    by_cases hq : m = .query ∧ x = 32
    · rw [if_pos hq] at hc
      rcases List.mem_cons.mp hc with rfl | h
      · exact Or.inr (Or.inr ⟨hq.1, rfl⟩)
      · exact ih c h
    · rw [if_neg hq] at hc
      by_cases hse : shouldEscape m x = true
      · rw [if_pos hse] at hc
        have hlt := x.toNat_lt
        rcases List.mem_cons.mp hc with rfl | h
        · exact Or.inr (Or.inl rfl)
        · rcases List.mem_cons.mp h with rfl | h
          · exact Or.inl (alnum_not_escaped m _ (hexDigit_alnum _ (by omega)))
          · rcases List.mem_cons.mp h with rfl | h
            · exact Or.inl (alnum_not_escaped m _ (hexDigit_alnum _ (by omega)))
            · exact ih c h
      · rw [if_neg hse] at hc
        rcases List.mem_cons.mp hc with rfl | h
        · left
          cases hx : shouldEscape m c with
          | false => rfl
          | true => exact absurd hx hse
        · exact ih c h

/-- an escaped text never contains the given byte if that byte must be escaped (and is not '%' or '+') -/
theorem escape_avoids (m : Mode) (s : Bytes) (b : UInt8) (hb : shouldEscape m b = true) (h37 : b ≠ 37) (h43 : b ≠ 43) :
    b ∉ escape m s := by
  intro hc
  rcases escape_chars m s b hc with h | h | h
  · rw [hb] at h; cases h
  · exact h37 h
  · exact h43 h.2


theorem splitFirst_append (c : UInt8) : ∀ (a b : Bytes), c ∉ a → splitFirst c (a ++ c :: b) = some (a, b) := by
  intro a
  induction a with
  | nil => intro b _; simp [splitFirst]
  | cons x xs ih =>
    intro b h
    have hx : x ≠ c := fun e => h (by simp [e])
    have hxs : c ∉ xs := fun e => h (by simp [e])
    simp only [List.cons_append, splitFirst, hx, if_false, ih b hxs, Option.map_some]

theorem splitFirst_none (c : UInt8) : ∀ (s : Bytes), c ∉ s → splitFirst c s = none := by
  intro s
  induction s with
  | nil => intro _; rfl
  | cons x xs ih =>
    intro h
    have hx : x ≠ c := fun e => h (by simp [e])
    have hxs : c ∉ xs := fun e => h (by simp [e])
    simp only [splitFirst, hx, if_false, ih hxs, Option.map_none]

theorem splitOn_single (sep : UInt8) : ∀ (s : Bytes), sep ∉ s → splitOn sep s = [s] := by
  intro s
  induction s with
  | nil => intro _; rfl
  | cons x xs ih =>
    intro h
    have hx : x ≠ sep := fun e => h (by simp [e])
    have hxs : sep ∉ xs := fun e => h (by simp [e])
    conv => lhs; unfold splitOn
    rw [if_neg hx, ih hxs]

theorem splitOn_append (sep : UInt8) : ∀ (a rest : Bytes), sep ∉ a →
    splitOn sep (a ++ sep :: rest) = a :: splitOn sep rest := by
  intro a
  induction a with
  | nil => intro rest _; conv => lhs; unfold splitOn; simp
  | cons x xs ih =>
    intro rest h
    have hx : x ≠ sep := fun e => h (by simp [e])
    have hxs : sep ∉ xs := fun e => h (by simp [e])
    show splitOn sep (x :: (xs ++ sep :: rest)) = _
    conv => lhs; unfold splitOn
    rw [if_neg hx, ih rest hxs]

/-- splitting a joined list of separator-free pieces gives the pieces back -/
theorem splitOn_join (sep : UInt8) : ∀ (pieces : List Bytes), pieces ≠ [] → (∀ p ∈ pieces, sep ∉ p) →
    splitOn sep (joinWith sep pieces) = pieces := by
  intro pieces
  induction pieces with
  | nil => intro h; exact absurd rfl h
  | cons p ps ih =>
    intro _ hs
    cases ps with
    | nil => simp only [joinWith]; exact splitOn_single sep p (hs p (by simp))
    | cons q qs =>
      simp only [joinWith]
      rw [splitOn_append sep p _ (hs p (by simp))]
      rw [ih (by simp) (fun x hx => hs x (by simp [hx]))]

theorem query_avoids (s : Bytes) : (38 : UInt8) ∉ escape .query s ∧ (61 : UInt8) ∉ escape .query s ∧ (59 : UInt8) ∉ escape .query s :=
  ⟨escape_avoids .query s 38 (by decide) (by decide) (by decide),
   escape_avoids .query s 61 (by decide) (by decide) (by decide),
   escape_avoids .query s 59 (by decide) (by decide) (by decide)⟩

theorem contains_false_of_not_mem (s : Bytes) (c : UInt8) (h : c ∉ s) : s.contains c = false := by
  cases hc : s.contains c with
  | false => rfl
  | true => exact absurd (List.contains_iff_mem.mp hc) h

/-- one encoded pair parses back to the pair -/
theorem parsePair_encoded (k v : Bytes) :
    parsePair (escape .query k ++ 61 :: escape .query v) = some (k, v) := by
  unfold parsePair
  have ak := query_avoids k
  have av := query_avoids v
  have h59 : (59 : UInt8) ∉ escape .query k ++ 61 :: escape .query v := by
    intro h
    rcases List.mem_append.mp h with h | h
    · exact ak.2.2 h
    · rcases List.mem_cons.mp h with h | h
      · revert h; decide
      · exact av.2.2 h
  rw [contains_false_of_not_mem _ _ h59]
  have hne : (escape .query k ++ 61 :: escape .query v).isEmpty = false := by
    cases escape .query k <;> rfl
  simp only [Bool.false_eq_true, if_false, hne]
  rw [splitFirst_append 61 _ _ ak.2.1]
  simp only [unescape_escape]

theorem piece_no_amp (k v : Bytes) : (38 : UInt8) ∉ escape .query k ++ 61 :: escape .query v := by
  intro h
  rcases List.mem_append.mp h with h | h
  · exact (query_avoids k).1 h
  · rcases List.mem_cons.mp h with h | h
    · revert h; decide
    · exact (query_avoids v).1 h

/-- `ParseQuery (Values.Encode kvs) = kvs` for every non-empty list of pairs -/
theorem parseQuery_encode (kvs : List (Bytes × Bytes)) (hne : kvs ≠ []) :
    parseQuery (valuesEncode kvs) = kvs := by
  unfold parseQuery valuesEncode
  rw [splitOn_join 38 _ (by simpa using hne) (by
    intro p hp
    obtain ⟨kv, _, rfl⟩ := List.mem_map.mp hp
    exact piece_no_amp kv.1 kv.2)]
  induction kvs with
  | nil => rfl
  | cons kv rest ih =>
    simp only [List.map_cons, List.filterMap_cons, parsePair_encoded]
    cases rest with
    | nil => rfl
    | cons r rs => rw [ih (by simp)]

/-- value of a decimal numeral -/
def decVal (s : Bytes) : Nat := s.foldl (fun (n : Nat) c => n * 10 + (c.toNat - 48)) 0

theorem decFold_init (l : Bytes) : ∀ init : Nat,
    l.foldl (fun (n : Nat) c => n * 10 + (c.toNat - 48)) init = init * 10 ^ l.length + decVal l := by
  unfold decVal
  induction l with
  | nil => intro init; simp
  | cons c t ih =>
    intro init
    simp only [List.foldl_cons, List.length_cons]
    rw [ih (init * 10 + (c.toNat - 48)), ih (0 * 10 + (c.toNat - 48))]
    rw [Nat.pow_succ, Nat.add_mul, Nat.zero_mul, Nat.zero_add, Nat.mul_assoc, Nat.mul_comm 10, Nat.add_assoc]

theorem digit_toNat (n : Nat) (h : n < 10) : ((48 + n).toUInt8).toNat = 48 + n := by
  simp only [Nat.toUInt8_eq, UInt8.toNat_ofNat']; omega

theorem digit_isDigit (n : Nat) (h : n < 10) : isDigitChar (48 + n).toUInt8 = true := by
  unfold isDigitChar; rw [digit_toNat n h]; simp; omega

/-- `decDigits` produces a numeral: all digits, non-empty, whose value is n·10^|acc| + value(acc) -/
theorem decDigits_spec : ∀ (fuel n : Nat) (acc : Bytes), n < fuel → acc.all isDigitChar = true →
    (decDigits fuel n acc).all isDigitChar = true ∧ decDigits fuel n acc ≠ [] ∧
    decVal (decDigits fuel n acc) = n * 10 ^ acc.length + decVal acc := by
  intro fuel
  induction fuel with
  | zero => intro n acc h; omega
  | succ f ih =>
    intro n acc h ha
    unfold decDigits
    by_cases hlt : n < 10
    · rw [if_pos hlt]
      refine ⟨by rw [List.all_cons, digit_isDigit n hlt, ha]; rfl, by simp, ?_⟩
      unfold decVal
      simp only [List.foldl_cons]
      have := decFold_init acc (0 * 10 + ((48 + n).toUInt8.toNat - 48))
      rw [this, digit_toNat n hlt]
      unfold decVal
      simp
    · rw [if_neg hlt]
      have hd : n % 10 < 10 := Nat.mod_lt _ (by omega)
      have := ih (n / 10) ((48 + n % 10).toUInt8 :: acc) (by omega) (by rw [List.all_cons, digit_isDigit _ hd, ha]; rfl)
      refine ⟨this.1, this.2.1, ?_⟩
      rw [this.2.2]
      have hv : decVal ((48 + n % 10).toUInt8 :: acc) = (n % 10) * 10 ^ acc.length + decVal acc := by
        unfold decVal
        simp only [List.foldl_cons]
        have := decFold_init acc (0 * 10 + ((48 + n % 10).toUInt8.toNat - 48))
        rw [this, digit_toNat _ hd]
        unfold decVal
        simp
      rw [hv, List.length_cons, Nat.pow_succ]
      have e : n = n / 10 * 10 + n % 10 := by omega
      calc n / 10 * (10 ^ acc.length * 10) + (n % 10 * 10 ^ acc.length + decVal acc)
          = (n / 10 * 10 + n % 10) * 10 ^ acc.length + decVal acc := by
            rw [Nat.add_mul, Nat.mul_comm (10 ^ acc.length) 10, ← Nat.mul_assoc, Nat.add_assoc]
        _ = n * 10 ^ acc.length + decVal acc := by rw [← e]

/-- `Atoi(Sprintf("%d", n)) = n` for every n < 2^63 -/
theorem atoi_itoa (n : Nat) (h : n < 2 ^ 63) : atoi (itoa n) = some (n : Int) := by
  obtain ⟨hall, hne, hval⟩ := decDigits_spec (n + 1) n [] (by omega) (by simp)
  unfold itoa at *
  unfold atoi
  -- the numeral starts with a digit, so no sign is stripped
  cases hs : decDigits (n + 1) n [] with
  | nil => exact absurd hs hne
  | cons c t =>
    rw [hs] at hall hval
    have hc : isDigitChar c = true := by simp [List.all_cons] at hall; exact hall.1
    have h43 : c ≠ 43 := by intro e; subst e; revert hc; decide
    have h45 : c ≠ 45 := by intro e; subst e; revert hc; decide
    have hm : splitSign (c :: t) = (false, c :: t) := by
      unfold splitSign
      split
      · rename_i heq; injection heq with h1 _; exact absurd h1 h43
      · rename_i heq; injection heq with h1 _; exact absurd h1 h45
      · rfl
    simp only [hm, List.isEmpty_cons, Bool.false_eq_true, false_or, hall, Bool.not_true, if_false]
    have hv : List.foldl (fun (n : Nat) c => n * 10 + (c.toNat - 48)) 0 (c :: t) = n := by
      have := hval; unfold decVal at this; simpa using this
    rw [hv, if_pos h]

end OtpVerif.Lemmas.Url
