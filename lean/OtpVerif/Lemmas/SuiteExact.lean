/-
The exact language of the library's suite-string parser (model): the converse of the side condition of
`parseRawSuite_complete`.  Whatever `parseRawSuite` accepts consists of representable data-input tokens, so

  parseRawSuite raw = .ok cfg  ↔  Spec.denote raw = some cfg ∧ representable raw.

The content: an accepted string contains no challenge token whose format the library does not record
(QA08 / QA10 / QH08 / QH10: the final `Validate` rejects "challenge selected, no format", and no later token can
supply a format because only Q tokens do and the rank check allows one), and no time step without a unit
(`parseTimeGranularity` insists on S / M / H).
-/
import OtpVerif.Lemmas.SuiteComplete

namespace OtpVerif.Lemmas
open OtpVerif OtpVerif.Std OtpVerif.Model

/-! ### one token -/

theorem tokenRank_eq_two (c : UInt8) (h : tokenRank c = 2) : c = 81 := by
  unfold tokenRank at h
  by_cases h1 : c = 67
  · rw [if_pos h1] at h; omega
  rw [if_neg h1] at h
  by_cases h2 : c = 81
  · exact h2
  rw [if_neg h2] at h
  by_cases h3 : c = 80
  · rw [if_pos h3] at h; omega
  rw [if_neg h3] at h
  by_cases h4 : c = 83
  · rw [if_pos h4] at h; omega
  rw [if_neg h4] at h
  by_cases h5 : c = 84
  · rw [if_pos h5] at h; omega
  rw [if_neg h5] at h; omega

theorem tokenRank_eq_five (c : UInt8) (h : tokenRank c = 5) : c = 84 := by
  unfold tokenRank at h
  by_cases h1 : c = 67
  · rw [if_pos h1] at h; omega
  rw [if_neg h1] at h
  by_cases h2 : c = 81
  · rw [if_pos h2] at h; omega
  rw [if_neg h2] at h
  by_cases h3 : c = 80
  · rw [if_pos h3] at h; omega
  rw [if_neg h3] at h
  by_cases h4 : c = 83
  · rw [if_pos h4] at h; omega
  rw [if_neg h4] at h
  by_cases h5 : c = 84
  · exact h5
  rw [if_neg h5] at h; omega

/-- a time granularity the library accepts ends in one of the units S / M / H -/
theorem timeGranularity_unit (g : Bytes) (n : Nat) (h : parseTimeGranularity g = some n) :
    ∃ u, g.getLast? = some u ∧ (u = 83 ∨ u = 77 ∨ u = 72) := by
  unfold parseTimeGranularity at h
  by_cases hl : g.length < 2
  · rw [if_pos hl] at h; cases h
  rw [if_neg hl] at h
  cases hlast : g.getLast? with
  | none => rw [hlast] at h; cases h
  | some u =>
    rw [hlast] at h
    cases hnum : parseSuiteNumber g.dropLast with
    | none => rw [hnum] at h; cases h
    | some val =>
      rw [hnum] at h
      simp only at h
      refine ⟨u, rfl, ?_⟩
      by_cases u1 : u = 83
      · exact Or.inl u1
      rw [if_neg u1] at h
      by_cases u2 : u = 77
      · exact Or.inr (Or.inl u2)
      rw [if_neg u2] at h
      by_cases u3 : u = 72
      · exact Or.inr (Or.inr u3)
      rw [if_neg u3] at h; cases h

/-- a `T` token reaches `parseTimeGranularity` -/
theorem tokenEffect_T_inv (cfg cfg' : SuiteConfig) (tok y : Bytes) (h : tokenEffect cfg tok (84 :: y) = some cfg') :
    ∃ secs, parseTimeGranularity (tok.drop 1) = some secs := by
  cases hg : parseTimeGranularity (tok.drop 1) with
  | some secs => exact ⟨secs, rfl⟩
  | none =>
    exfalso
    have : tokenEffect cfg tok (84 :: y) = none := by
      unfold tokenEffect
      simp [hasPrefix, List.isPrefixOf, -List.drop_one, hg]
    rw [this] at h; cases h

/-- a `Q` token: either the library records format 1 / 2, or it records none -/
theorem tokenEffect_Q (cfg cfg' : SuiteConfig) (tok x : Bytes) (h : tokenEffect cfg tok (81 :: x) = some cfg') :
    cfg' = { cfg with incQ := true, challenge := 1 } ∨ cfg' = { cfg with incQ := true, challenge := 2 } ∨
      cfg' = { cfg with incQ := true } := by
  unfold tokenEffect at h
  rw [if_neg (by simp)] at h
  by_cases h2 : hasPrefix [81, 78] (81 :: x) = true
  · rw [if_pos h2] at h
    by_cases hl : (81 :: x).length = 4
    · rw [if_pos hl] at h
      simp only at h
      by_cases n1 : List.drop 2 (81 :: x) = [48, 56]
      · rw [if_pos n1] at h; injection h with h; exact Or.inl h.symm
      rw [if_neg n1] at h
      by_cases n2 : List.drop 2 (81 :: x) = [49, 48]
      · rw [if_pos n2] at h; injection h with h; exact Or.inr (Or.inl h.symm)
      rw [if_neg n2] at h; cases h
    · rw [if_neg hl] at h; injection h with h; exact Or.inr (Or.inr h.symm)
  rw [if_neg h2] at h
  by_cases h3 : hasPrefix [81, 65] (81 :: x) = true
  · rw [if_pos h3] at h; injection h with h; exact Or.inr (Or.inr h.symm)
  rw [if_neg h3] at h
  by_cases h4 : hasPrefix [81, 72] (81 :: x) = true
  · rw [if_pos h4] at h; injection h with h; exact Or.inr (Or.inr h.symm)
  rw [if_neg h4] at h
  rw [if_neg (by simp [hasPrefix, List.isPrefixOf]), if_neg (by simp [hasPrefix, List.isPrefixOf]),
    if_neg (by simp [hasPrefix, List.isPrefixOf])] at h
  cases h

/-- what the library's `switch` accepts is a representable token, or a challenge token whose format the library
does not record -/
theorem tokenEffect_representable (cfg cfg' : SuiteConfig) (tok : Bytes) (c : UInt8) (x : Bytes)
    (hU : toUpperAscii tok = c :: x) (h : tokenEffect cfg tok (c :: x) = some cfg') :
    representableTok tok = true ∨ (tokenRank c = 2 ∧ cfg' = { cfg with incQ := true }) := by
  rcases tokenEffect_spec cfg cfg' tok c x hU h with ⟨t, hcl, htr, hcfg⟩ | hr
  · cases t with
    | c => left; unfold representableTok; rw [hcl]
    | p hh => left; unfold representableTok; rw [hcl]
    | s => left; unfold representableTok; rw [hcl]
    | q f =>
      have hc : c = 81 := tokenRank_eq_two c htr.symm
      subst hc
      have hch : cfg'.challenge = f := by rw [hcfg]; rfl
      rcases tokenEffect_Q cfg cfg' tok x h with e | e | e
      · left; unfold representableTok; rw [hcl]
        have : f = 1 := by rw [← hch, e]
        subst this; rfl
      · left; unfold representableTok; rw [hcl]
        have : f = 2 := by rw [← hch, e]
        subst this; rfl
      · right; exact ⟨rfl, e⟩
    | t n =>
      have hc : c = 84 := tokenRank_eq_five c htr.symm
      subst hc
      obtain ⟨secs, hg⟩ := tokenEffect_T_inv cfg cfg' tok x h
      obtain ⟨u, hlast, hu⟩ := timeGranularity_unit _ _ hg
      left; unfold representableTok; rw [hcl]
      simp only
      rw [hlast]
      rcases hu with rfl | rfl | rfl <;> rfl
  · exact Or.inr hr

/-! ### the token loop -/

/-- the tokens the loop consumed are representable whenever the result records a challenge format for a selected challenge -/
theorem parseTokens_representable : ∀ (toks : List Bytes) (cfg cfg' : SuiteConfig) (last : Nat),
    parseTokens cfg last toks = some cfg' →
    (last < 2 → cfg.challenge = 0) →
    (cfg'.incQ = true → cfg'.challenge ≠ 0) →
    toks.all representableTok = true := by
  intro toks
  induction toks with
  | nil => intro _ _ _ _ _ _; rfl
  | cons tok rest ih =>
    intro cfg cfg' last h hpre hgood
    unfold parseTokens at h
    cases hp : parseToken cfg last tok with
    | none => rw [hp] at h; cases h
    | some pr =>
      obtain ⟨cfg1, r⟩ := pr
      rw [hp] at h
      simp only at h
      obtain ⟨c, x, hU, he, hr, hlt⟩ := parseToken_inv cfg cfg1 last r tok hp
      rw [List.all_cons, Bool.and_eq_true]
      rcases tokenEffect_representable cfg cfg1 tok c x hU he with hrep | ⟨h2, hcfg⟩
      · refine ⟨hrep, ih cfg1 cfg' r h ?_ hgood⟩
        intro hr2
        have c0 := hpre (by omega)
        rcases tokenEffect_spec cfg cfg1 tok c x hU he with ⟨t, _, htr, hcfg⟩ | ⟨h2, _⟩
        · have : t.rank = 1 := by omega
          cases t <;> simp [Spec.Tok.rank] at this
          rw [hcfg]; exact c0
        · omega
      · exfalso
        have c0 := hpre (by omega)
        have keep := parseTokens_keepsQ rest cfg1 cfg' r h (by omega)
        rw [hcfg] at keep
        simp only at keep
        exact hgood keep.1 (by rw [keep.2]; exact c0)

/-! ### the whole string -/

/-- whatever the library's parser accepts consists of representable tokens -/
theorem parseRawSuite_representable (raw : Bytes) (cfg : SuiteConfig) (h : parseRawSuite raw = .ok cfg) :
    representable raw := by
  unfold parseRawSuite at h
  by_cases hA : raw.any (fun c => decide (c.toNat ≥ 128)) = true
  · rw [if_pos hA] at h; cases h
  rw [if_neg hA] at h
  cases hs : splitOn 58 raw with
  | nil => exact absurd hs (splitOn_ne_nil 58 raw)
  | cons version tl =>
    rw [hs] at h
    match tl, hs, h with
    | [], _, h => cases h
    | [_], _, h => cases h
    | _ :: _ :: _ :: _, _, h => cases h
    | [crypto, dataInput], hs, h =>
      simp only at h
      by_cases hv : version ≠ sOCRA1
      · rw [if_pos hv] at h; cases h
      rw [if_neg hv] at h
      cases hc : parseCryptoFunction crypto with
      | none => rw [hc] at h; cases h
      | some hd =>
        obtain ⟨hh, d⟩ := hd
        rw [hc] at h
        simp only at h
        cases ht : parseTokens { zeroCfg with hash := hh, digits := d } 0 (splitOn 45 dataInput) with
        | none => rw [ht] at h; cases h
        | some cfg0 =>
          rw [ht] at h
          simp only at h
          cases hval : suiteValidate { cfg0 with raw := raw } with
          | some e => rw [hval] at h; cases h
          | none =>
            unfold suiteValidate at hval
            simp only at hval
            by_cases v1 : cfg0.digits < 4 ∨ cfg0.digits > 10
            · rw [if_pos v1] at hval; cases hval
            rw [if_neg v1] at hval
            by_cases v2 : cfg0.hash ≠ 0 ∧ cfg0.hash ≠ 1 ∧ cfg0.hash ≠ 2
            · rw [if_pos v2] at hval; cases hval
            rw [if_neg v2] at hval
            by_cases v3 : cfg0.incP = true ∧ cfg0.pwHash = 0
            · rw [if_pos v3] at hval; cases hval
            rw [if_neg v3] at hval
            by_cases v4 : cfg0.incT = true ∧ cfg0.timeStep ≤ 0
            · rw [if_pos v4] at hval; cases hval
            rw [if_neg v4] at hval
            by_cases v5 : cfg0.incQ = true ∧ cfg0.challenge = 0
            · rw [if_pos v5] at hval; cases hval
            have hgood : cfg0.incQ = true → cfg0.challenge ≠ 0 := fun hq hz => v5 ⟨hq, hz⟩
            have hall := parseTokens_representable (splitOn 45 dataInput) _ cfg0 0 ht (fun _ => rfl) hgood
            intro v c d' hsp
            rw [hs] at hsp
            injection hsp with _ hsp; injection hsp with _ hsp; injection hsp with hsp _
            subst hsp
            exact hall

/-- **the exact language of the library's parser**: it accepts a string, with a reading, iff the naming scheme gives the
string that reading and its data inputs are ones a `SuiteConfig` can represent -/
theorem parseRawSuite_iff (raw : Bytes) (cfg : SuiteConfig) :
    parseRawSuite raw = .ok cfg ↔ Spec.denote raw = some cfg ∧ representable raw :=
  ⟨fun h => ⟨parseRawSuite_sound raw cfg h, parseRawSuite_representable raw cfg h⟩,
   fun h => parseRawSuite_complete raw cfg h.1 h.2⟩

/-! ### the side condition is not vacuous -/

/-- `OCRA-1:HOTP-SHA1-6:QA08`: the naming scheme gives it a meaning (alphanumeric challenge, 8 characters) … -/
example : (Spec.denote [79, 67, 82, 65, 45, 49, 58, 72, 79, 84, 80, 45, 83, 72, 65, 49, 45, 54, 58, 81, 65, 48, 56]).isSome
    = true := by decide

/-- … but the library's parser rejects it: a `SuiteConfig` cannot record that challenge format -/
example : (match parseRawSuite [79, 67, 82, 65, 45, 49, 58, 72, 79, 84, 80, 45, 83, 72, 65, 49, 45, 54, 58, 81, 65, 48, 56] with
    | .ok _ => false | _ => true) = true := by decide

end OtpVerif.Lemmas

#print axioms OtpVerif.Lemmas.parseRawSuite_representable
#print axioms OtpVerif.Lemmas.parseRawSuite_iff
