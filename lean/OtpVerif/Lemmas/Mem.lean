/-
Frame + refinement for the memory-level message assembly (Model/Mem.lean):
whatever the pooled buffer contained, the assembled message is the pure model's message, and every write
lands in the pooled buffer or in freshly allocated memory – caller memory is untouched.
-/
import OtpVerif.Model.Mem

namespace OtpVerif.Lemmas.Mem
open OtpVerif OtpVerif.Model OtpVerif.Model.Mem

theorem overwrite_length (arr : List UInt8) (pos : Nat) (bs : Bytes) (h : pos + bs.length ≤ arr.length) :
    (overwrite arr pos bs).length = arr.length := by
  unfold overwrite
  simp only [List.length_append, List.length_take, List.length_drop]
  omega

/-- reading the extended view after an in-place write at its end -/
theorem read_after_overwrite (arr : List UInt8) (off len : Nat) (bs : Bytes) (h : off + len + bs.length ≤ arr.length) :
    ((overwrite arr (off + len) bs).drop off).take (len + bs.length) = ((arr.drop off).take len) ++ bs := by
  unfold overwrite
  have e1 : (arr.take (off + len)).drop off = (arr.drop off).take len := by
    rw [List.drop_take]; congr 1; omega
  rw [List.append_assoc, List.drop_append_of_le_length (by simp; omega), e1]
  rw [← List.append_assoc, List.take_append_of_le_length (by simp; omega)]
  rw [List.take_of_length_le (by simp; omega)]

/-- the invariant carried through the assembly, relative to the initial heap `h0` and the pooled buffer -/
structure Inv (h0 : Heap) (poolAddr : Nat) (st : St) (m : Bytes) : Prop where
  msgOk   : st.h.read st.msg = m
  wf      : st.msg.off + st.msg.cap ≤ (st.h.cells st.msg.addr).length
  lenCap  : st.msg.len ≤ st.msg.cap
  home    : st.msg.addr = poolAddr ∨ h0.next ≤ st.msg.addr
  msgLive : st.msg.addr < st.h.next
  writes  : ∀ w ∈ st.writes, w = poolAddr ∨ h0.next ≤ w
  frame   : ∀ a, a ≠ poolAddr → a < h0.next → st.h.cells a = h0.cells a
  mono    : h0.next ≤ st.h.next

theorem stepAppend_inv (h0 : Heap) (poolAddr : Nat) (st : St) (m src : Bytes) (hi : Inv h0 poolAddr st m) :
    Inv h0 poolAddr (stepAppend st src) (m ++ src) := by
  unfold stepAppend appendM
  by_cases hfit : st.msg.len + src.length ≤ st.msg.cap
  · simp only [hfit, if_true]
    have hwf := hi.wf
    refine ⟨?_, ?_, ?_, hi.home, ?_, ?_, ?_, hi.mono⟩
    · -- contents
      show ((if st.msg.addr = st.msg.addr then overwrite (st.h.cells st.msg.addr) (st.msg.off + st.msg.len) src
            else st.h.cells st.msg.addr).drop st.msg.off).take (st.msg.len + src.length) = m ++ src
      rw [if_pos rfl, read_after_overwrite _ _ _ _ (by omega)]
      have := hi.msgOk
      unfold Heap.read at this
      rw [this]
    · show st.msg.off + st.msg.cap ≤ ((if st.msg.addr = st.msg.addr then overwrite (st.h.cells st.msg.addr) (st.msg.off + st.msg.len) src
            else st.h.cells st.msg.addr)).length
      rw [if_pos rfl, overwrite_length _ _ _ (by omega)]; exact hwf
    · exact hfit
    · exact hi.msgLive
    · intro w hw
      rcases List.mem_cons.mp hw with rfl | hw
      · exact hi.home
      · exact hi.writes w hw
    · intro a ha hlt
      show (if a = st.msg.addr then overwrite (st.h.cells a) (st.msg.off + st.msg.len) src else st.h.cells a) = h0.cells a
      have hne : a ≠ st.msg.addr := by
        rcases hi.home with e | e
        · rw [e]; exact ha
        · omega
      rw [if_neg hne]; exact hi.frame a ha hlt
  · simp only [hfit, if_false]
    unfold Heap.allocWith
    simp only
    have hm := hi.msgOk
    refine ⟨?_, ?_, ?_, Or.inr hi.mono, ?_, ?_, ?_, ?_⟩
    · unfold Heap.read
      simp only [if_true, List.drop_zero]
      rw [List.take_append_of_le_length (by simp)]
      rw [List.take_of_length_le (by simp)]
      unfold Heap.read at hm; rw [hm]
    · simp only [if_true, Nat.zero_add, List.length_append, List.length_replicate]
      unfold Heap.read
      simp only [List.length_take, List.length_drop]
      omega
    · simp only; omega
    · simp only; omega
    · intro w hw
      rcases List.mem_cons.mp hw with rfl | hw
      · exact Or.inr hi.mono
      · exact hi.writes w hw
    · intro a ha hlt
      simp only
      have hne : a ≠ st.h.next := by have := hi.mono; omega
      rw [if_neg hne]; exact hi.frame a ha hlt
    · simp only; have := hi.mono; omega

/-- a caller-owned slice: allocated before the call and not the pooled buffer -/
def CallerOwned (h0 : Heap) (poolAddr : Nat) (s : Slice) : Prop := s.addr < h0.next ∧ s.addr ≠ poolAddr

theorem read_caller (h0 : Heap) (poolAddr : Nat) (st : St) (m : Bytes) (hi : Inv h0 poolAddr st m) (s : Slice)
    (hs : CallerOwned h0 poolAddr s) : st.h.read s = h0.read s := by
  unfold Heap.read; rw [hi.frame s.addr hs.2 hs.1]

theorem stepPadAppend_inv (h0 : Heap) (poolAddr : Nat) (st : St) (m : Bytes) (hi : Inv h0 poolAddr st m)
    (input : Slice) (n : Nat) (hs : CallerOwned h0 poolAddr input) (hlen : (h0.read input).length = input.len) :
    Inv h0 poolAddr (stepPadAppend st input n) (m ++ padBytes (h0.read input) n) := by
  unfold stepPadAppend padBytesM
  have hr := read_caller h0 poolAddr st m hi input hs
  by_cases hge : input.len ≥ n
  · simp only [hge, if_true, List.nil_append]
    have hpad : padBytes (h0.read input) n = st.h.read { input with len := n } := by
      unfold padBytes
      rw [if_pos (by rw [hlen]; exact hge), ← hr]
      unfold Heap.read
      rw [List.take_take, Nat.min_eq_left hge]
    rw [hpad]
    exact stepAppend_inv h0 poolAddr { st with h := st.h, writes := st.writes } m _ hi
  · simp only [hge, if_false]
    unfold Heap.allocWith
    simp only
    -- the state after the fresh allocation still satisfies the invariant (message untouched)
    have hne : st.msg.addr ≠ st.h.next := by have := hi.msgLive; omega
    have hi' : Inv h0 poolAddr
        { st with
          h := { cells := fun a => if a = st.h.next then
                    (st.h.read input ++ List.replicate (n - input.len) 0) ++
                      List.replicate (n - (st.h.read input ++ List.replicate (n - input.len) 0).length) 0
                  else st.h.cells a, next := st.h.next + 1 },
          writes := [st.h.next] ++ st.writes } m := by
      refine ⟨?_, ?_, hi.lenCap, hi.home, ?_, ?_, ?_, ?_⟩
      · have := hi.msgOk; unfold Heap.read at this ⊢; simp only; rw [if_neg hne]; exact this
      · simp only; rw [if_neg hne]; exact hi.wf
      · simp only; have := hi.msgLive; omega
      · intro w hw
        rcases List.mem_append.mp hw with h1 | h1
        · simp at h1; subst h1; exact Or.inr hi.mono
        · exact hi.writes w h1
      · intro a ha hlt
        simp only
        have : a ≠ st.h.next := by have := hi.mono; omega
        rw [if_neg this]; exact hi.frame a ha hlt
      · simp only; have := hi.mono; omega
    have hpad : padBytes (h0.read input) n = st.h.read input ++ List.replicate (n - input.len) 0 := by
      unfold padBytes
      rw [if_neg (by rw [hlen]; exact hge), hlen, hr]
    have := stepAppend_inv h0 poolAddr _ m (st.h.read input ++ List.replicate (n - input.len) 0) hi'
    rw [hpad]
    -- what stepPadAppend appends is the content of the fresh slice, i.e. the zero-extended copy
    have hread : (Heap.read
        { cells := fun a => if a = st.h.next then
              (st.h.read input ++ List.replicate (n - input.len) 0) ++
                List.replicate (n - (st.h.read input ++ List.replicate (n - input.len) 0).length) 0
            else st.h.cells a, next := st.h.next + 1 }
        { addr := st.h.next, off := 0, len := (st.h.read input ++ List.replicate (n - input.len) 0).length,
          cap := max n (st.h.read input ++ List.replicate (n - input.len) 0).length }) =
        st.h.read input ++ List.replicate (n - input.len) 0 := by
      unfold Heap.read
      simp only [if_true, List.drop_zero]
      rw [List.take_append_of_le_length (by simp)]
      rw [List.take_of_length_le (by simp)]
    rw [hread]
    exact this

/-- the input fields read from the initial heap -/
def inputOf (h0 : Heap) (i : InputM) : OCRAInput :=
  ⟨h0.read i.counter, h0.read i.challenge, h0.read i.password, h0.read i.session, h0.read i.timestamp⟩

structure InputsOk (h0 : Heap) (poolAddr : Nat) (i : InputM) : Prop where
  c : CallerOwned h0 poolAddr i.counter ∧ (h0.read i.counter).length = i.counter.len
  q : CallerOwned h0 poolAddr i.challenge ∧ (h0.read i.challenge).length = i.challenge.len
  p : CallerOwned h0 poolAddr i.password
  s : CallerOwned h0 poolAddr i.session ∧ (h0.read i.session).length = i.session.len
  t : CallerOwned h0 poolAddr i.timestamp ∧ (h0.read i.timestamp).length = i.timestamp.len

/-- **assembly theorem**: for any heap, any contents of the pooled buffer, any suite configuration and
caller-owned inputs: (1) the message read back is the pure model's message; (2) every address written is the
pooled buffer or fresh; (3) every other pre-existing array – all caller memory, including the spare capacity
behind every input slice – is unchanged -/
theorem assemble_spec (h0 : Heap) (pool : Slice) (cfg : SuiteConfig) (i : InputM)
    (hpool : pool.off + pool.cap ≤ (h0.cells pool.addr).length) (hlive : pool.addr < h0.next)
    (hin : InputsOk h0 pool.addr i) :
    let st := assemble h0 pool cfg i
    st.h.read st.msg = ocraMessage cfg (inputOf h0 i) ∧
    (∀ w ∈ st.writes, w = pool.addr ∨ h0.next ≤ w) ∧
    (∀ a, a ≠ pool.addr → a < h0.next → st.h.cells a = h0.cells a) := by
  have i0 : Inv h0 pool.addr { h := h0, msg := { pool with len := 0 }, writes := [] } [] := by
    refine ⟨?_, hpool, Nat.zero_le _, Or.inl rfl, hlive, ?_, fun _ _ _ => rfl, Nat.le_refl _⟩
    · unfold Heap.read; simp
    · intro w hw; cases hw
  have i1 := stepAppend_inv h0 pool.addr _ [] cfg.raw i0
  have i2 := stepAppend_inv h0 pool.addr _ _ [UInt8.ofNat Gen.separator] i1
  -- the optional fields, one after the other
  have key : ∀ (st : St) (m : Bytes), Inv h0 pool.addr st m →
      ∃ m', m' = m ++ (if cfg.incC then padBytes (h0.read i.counter) 8 else []) ∧
        Inv h0 pool.addr (if cfg.incC then stepPadAppend st i.counter 8 else st) m' := by
    intro st m hi
    by_cases hc : cfg.incC = true
    · simp only [hc, if_true]; exact ⟨_, rfl, stepPadAppend_inv h0 pool.addr st m hi _ 8 hin.c.1 hin.c.2⟩
    · simp only [hc]; exact ⟨m, by simp, hi⟩
  obtain ⟨m3, e3, i3⟩ := key _ _ i2
  have keyQ : ∀ (st : St) (m : Bytes), Inv h0 pool.addr st m →
      ∃ m', m' = m ++ (if cfg.incQ then padBytes (h0.read i.challenge) 128 else []) ∧
        Inv h0 pool.addr (if cfg.incQ then stepPadAppend st i.challenge 128 else st) m' := by
    intro st m hi
    by_cases hc : cfg.incQ = true
    · simp only [hc, if_true]; exact ⟨_, rfl, stepPadAppend_inv h0 pool.addr st m hi _ 128 hin.q.1 hin.q.2⟩
    · simp only [hc]; exact ⟨m, by simp, hi⟩
  obtain ⟨m4, e4, i4⟩ := keyQ _ _ i3
  have keyP : ∀ (st : St) (m : Bytes), Inv h0 pool.addr st m →
      ∃ m', m' = m ++ (if cfg.incP then h0.read i.password else []) ∧
        Inv h0 pool.addr (if cfg.incP then stepAppend st (st.h.read i.password) else st) m' := by
    intro st m hi
    by_cases hc : cfg.incP = true
    · simp only [hc, if_true]
      rw [read_caller h0 pool.addr st m hi _ hin.p]
      exact ⟨_, rfl, stepAppend_inv h0 pool.addr st m _ hi⟩
    · simp only [hc]; exact ⟨m, by simp, hi⟩
  obtain ⟨m5, e5, i5⟩ := keyP _ _ i4
  have keyS : ∀ (st : St) (m : Bytes), Inv h0 pool.addr st m →
      ∃ m', m' = m ++ (if cfg.incS then padBytes (h0.read i.session) 128 else []) ∧
        Inv h0 pool.addr (if cfg.incS then stepPadAppend st i.session 128 else st) m' := by
    intro st m hi
    by_cases hc : cfg.incS = true
    · simp only [hc, if_true]; exact ⟨_, rfl, stepPadAppend_inv h0 pool.addr st m hi _ 128 hin.s.1 hin.s.2⟩
    · simp only [hc]; exact ⟨m, by simp, hi⟩
  obtain ⟨m6, e6, i6⟩ := keyS _ _ i5
  have keyT : ∀ (st : St) (m : Bytes), Inv h0 pool.addr st m →
      ∃ m', m' = m ++ (if cfg.incT then padBytes (h0.read i.timestamp) 8 else []) ∧
        Inv h0 pool.addr (if cfg.incT then stepPadAppend st i.timestamp 8 else st) m' := by
    intro st m hi
    by_cases hc : cfg.incT = true
    · simp only [hc, if_true]; exact ⟨_, rfl, stepPadAppend_inv h0 pool.addr st m hi _ 8 hin.t.1 hin.t.2⟩
    · simp only [hc]; exact ⟨m, by simp, hi⟩
  obtain ⟨m7, e7, i7⟩ := keyT _ _ i6
  show (assemble h0 pool cfg i).h.read (assemble h0 pool cfg i).msg = _ ∧ _
  have hst : assemble h0 pool cfg i = _ := rfl
  refine ⟨?_, i7.writes, i7.frame⟩
  have := i7.msgOk
  unfold assemble
  simp only
  rw [this, e7, e6, e5, e4, e3]
  unfold ocraMessage inputOf
  simp only [List.nil_append, List.append_assoc]

end OtpVerif.Lemmas.Mem
