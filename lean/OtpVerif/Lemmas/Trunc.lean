/-
`truncate` (uint32 shift / or / mask, as in derive.go) equals RFC 4226 dynamic truncation as
arithmetic (`Spec.dt`), reduced modulo `mod`.  Kernel-only (no `bv_decide`).
The constants are the *regenerated* ones: `Gen.maskOffset = 15`, `Gen.mask31 = 2^31-1` are checked here.
-/
import OtpVerif.Model.Derive
import OtpVerif.Spec.Rfc

namespace OtpVerif.Lemmas
open OtpVerif OtpVerif.Model

theorem maskOffset_eq : Gen.maskOffset = 15 := by decide
theorem mask31_eq : Gen.mask31 = 2147483647 := by decide
theorem separator_eq : Gen.separator = 0 := by decide

theorem or_disjoint (x r k : Nat) (h : r < 2 ^ k) : x <<< k ||| r = x * 2 ^ k + r := by
  rw [← Nat.shiftLeft_add_eq_or_of_lt h, Nat.shiftLeft_eq]

theorem be32_nat (a b c d : Nat) (hb : b < 256) (hc : c < 256) (hd : d < 256) :
    a <<< 24 ||| b <<< 16 ||| c <<< 8 ||| d = a * 16777216 + b * 65536 + c * 256 + d := by
  have h1 : a <<< 24 ||| b <<< 16 = (a <<< 8 ||| b) <<< 16 := by
    rw [Nat.shiftLeft_or_distrib, ← Nat.shiftLeft_add]
  have h2 : (a <<< 8 ||| b) <<< 16 ||| c <<< 8 = ((a <<< 8 ||| b) <<< 8 ||| c) <<< 8 := by
    rw [Nat.shiftLeft_or_distrib (a := (a <<< 8 ||| b) <<< 8), ← Nat.shiftLeft_add]
  rw [h1, h2, or_disjoint _ d 8 (by omega), or_disjoint _ c 8 (by omega), or_disjoint _ b 8 (by omega)]
  omega

/-- the heart of `truncate`: four bytes, big-endian, top bit masked off -/
theorem trunc_bits (a b c d : UInt8) :
    (((a.toUInt32 <<< 24) ||| (b.toUInt32 <<< 16) ||| (c.toUInt32 <<< 8) ||| d.toUInt32) &&& 0x7FFFFFFF).toNat
      = (a.toNat % 128) * 16777216 + b.toNat * 65536 + c.toNat * 256 + d.toNat := by
  have ha := a.toNat_lt; have hb := b.toNat_lt; have hc := c.toNat_lt; have hd := d.toNat_lt
  simp only [UInt32.toNat_and, UInt32.toNat_or, UInt32.toNat_shiftLeft, UInt8.toNat_toUInt32]
  have e24 : UInt32.toNat 24 % 32 = 24 := by decide
  have e16 : UInt32.toNat 16 % 32 = 16 := by decide
  have e8 : UInt32.toNat 8 % 32 = 8 := by decide
  have em : UInt32.toNat 2147483647 = 2 ^ 31 - 1 := by decide
  rw [e24, e16, e8, em, Nat.and_two_pow_sub_one_eq_mod]
  have h1 : a.toNat <<< 24 % 2 ^ 32 = a.toNat <<< 24 := by rw [Nat.shiftLeft_eq]; omega
  have h2 : b.toNat <<< 16 % 2 ^ 32 = b.toNat <<< 16 := by rw [Nat.shiftLeft_eq]; omega
  have h3 : c.toNat <<< 8 % 2 ^ 32 = c.toNat <<< 8 := by rw [Nat.shiftLeft_eq]; omega
  rw [h1, h2, h3, be32_nat _ _ _ _ (by omega) (by omega) (by omega)]
  omega

theorem and15 (l : UInt8) : (l &&& 15).toNat = l.toNat % 16 := by
  rw [UInt8.toNat_and]
  have : UInt8.toNat 15 = 2 ^ 4 - 1 := by decide
  rw [this, Nat.and_two_pow_sub_one_eq_mod]

theorem byteAt_of_getElem? (h : Bytes) (i : Nat) (x : UInt8) (hx : h[i]? = some x) : Spec.byteAt h i = x.toNat := by
  simp [Spec.byteAt, hx]

theorem dt_lt (h : Bytes) : Spec.dt h < 2 ^ 31 := by
  unfold Spec.dt
  have b (i : Nat) : Spec.byteAt h i < 256 := by
    unfold Spec.byteAt
    cases h[i]? with
    | none => simp
    | some x => simpa using x.toNat_lt
  have b0 := b (Spec.byteAt h (h.length - 1) % 16)
  have b1 := b (Spec.byteAt h (h.length - 1) % 16 + 1)
  have b2 := b (Spec.byteAt h (h.length - 1) % 16 + 2)
  have b3 := b (Spec.byteAt h (h.length - 1) % 16 + 3)
  simp only
  omega

/-- `truncate` = dynamic truncation mod `m`, for every HMAC-sized input (19 bytes suffice) and `m > 0` -/
theorem truncate_eq (sum : Bytes) (m : Nat) (hlen : 19 ≤ sum.length) (hm : 0 < m) :
    truncate sum m = .ok (Spec.dt sum % m) := by
  unfold truncate
  have hlast : sum.getLast? = sum[sum.length - 1]? := List.getLast?_eq_getElem? ..
  obtain ⟨l, hl⟩ : ∃ l, sum[sum.length - 1]? = some l := ⟨sum[sum.length - 1]'(by omega), List.getElem?_eq_getElem (by omega)⟩
  rw [hlast, hl]
  simp only [maskOffset_eq, mask31_eq]
  have hoff : (l &&& UInt8.ofNat 15).toNat = l.toNat % 16 := and15 l
  have hlt : l.toNat % 16 < 16 := Nat.mod_lt _ (by omega)
  rw [hoff]
  obtain ⟨a, ha⟩ : ∃ a, sum[l.toNat % 16]? = some a := ⟨sum[l.toNat % 16]'(by omega), List.getElem?_eq_getElem (by omega)⟩
  obtain ⟨b, hb⟩ : ∃ b, sum[l.toNat % 16 + 1]? = some b := ⟨sum[l.toNat % 16 + 1]'(by omega), List.getElem?_eq_getElem (by omega)⟩
  obtain ⟨c, hc⟩ : ∃ c, sum[l.toNat % 16 + 2]? = some c := ⟨sum[l.toNat % 16 + 2]'(by omega), List.getElem?_eq_getElem (by omega)⟩
  obtain ⟨d, hd⟩ : ∃ d, sum[l.toNat % 16 + 3]? = some d := ⟨sum[l.toNat % 16 + 3]'(by omega), List.getElem?_eq_getElem (by omega)⟩
  rw [ha, hb, hc, hd]
  simp only
  rw [if_neg (by omega)]
  have hbits := trunc_bits a b c d
  have hdt : Spec.dt sum = (a.toNat % 128) * 16777216 + b.toNat * 65536 + c.toNat * 256 + d.toNat := by
    unfold Spec.dt
    simp only [byteAt_of_getElem? sum _ l hl, byteAt_of_getElem? sum _ a ha, byteAt_of_getElem? sum _ b hb,
      byteAt_of_getElem? sum _ c hc, byteAt_of_getElem? sum _ d hd]
  have hm31 : (UInt32.ofNat 2147483647) = (0x7FFFFFFF : UInt32) := by decide
  rw [hm31, hbits, ← hdt]
  have := dt_lt sum
  have h2 : Spec.dt sum % m < 2 ^ 32 := by
    have := Nat.mod_le (Spec.dt sum) m
    omega
  rw [Nat.mod_eq_of_lt h2]

end OtpVerif.Lemmas
