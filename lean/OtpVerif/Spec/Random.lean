/-
C08, as a judgement over a whole history of `RandomSecret` calls against ONE random source: every secret handed
out is the unpadded upper-case base32 text of a window of exactly 20/32/64 bytes of what the source delivered,
no byte of the source is used for two secrets, an unsupported hash gets no secret and a supported one always does.
(Buffering, read-ahead and the order in which the source is consumed are deliberately left open.)
-/
import OtpVerif.Spec.Base32

namespace OtpVerif.Spec
open OtpVerif

def secretSize (a : Nat) : Option Nat := if a = 0 then some 20 else if a = 1 then some 32 else if a = 2 then some 64 else none

/-- decode an unpadded upper-case text of a `size`-byte secret; `none` unless it is exactly the canonical text -/
def decodeExact (size : Nat) (text : Bytes) : Option Bytes :=
  if text.any (fun c => !((65 ≤ c.toNat && c.toNat ≤ 90) || (50 ≤ c.toNat && c.toNat ≤ 55))) then none
  else
    let bits := text.flatMap (fun c => bitsOfVal ((charVal c).getD 0))
    let b := bytesOfBits size (bits.take (8 * size))
    if b.length = size ∧ b32NoPad b = text then some b else none

def overlaps (a b : Nat × Nat) : Bool := a.1 < b.1 + b.2 && b.1 < a.1 + a.2

/-- first position `p` with `stream[p, p+|w|) = w` whose window is disjoint from the windows already used; the second
component tells whether `w` occurs at all (so that "not from the source" and "used twice" can be told apart) -/
def findWindow : Nat → Nat → Bytes → Bytes → List (Nat × Nat) → Bool → Option Nat × Bool
  | 0, _, _, _, _, seen => (none, seen)
  | fuel + 1, p, stream, w, used, seen =>
    if stream.length < w.length then (none, seen)
    else if w.isPrefixOf stream then
      if used.any (overlaps (p, w.length)) then
        (match stream with
          | [] => (none, true)
          | _ :: rest => findWindow fuel (p + 1) rest w used true)
      else (some p, true)
    else match stream with
      | [] => (none, seen)
      | _ :: rest => findWindow fuel (p + 1) rest w used seen

/-- the verdict: "ok", or the first clause that fails -/
def judgeRandom (stream : Bytes) (limit : Nat) (outs : List (Nat × Option Bytes)) : String :=
  let src := stream.take limit
  let rec go (i : Nat) (outs : List (Nat × Option Bytes)) (used : List (Nat × Nat)) : String :=
    match outs with
    | [] => "ok"
    | (a, o) :: rest =>
      match secretSize a, o with
      | none, none => go (i + 1) rest used
      | none, some _ => s!"violation call#{i} unsupported-hash-got-a-secret"
      | some _, none => s!"violation call#{i} supported-hash-refused"
      | some size, some text =>
        match decodeExact size text with
        | none => s!"violation call#{i} not-the-unpadded-base32-of-{size}-bytes"
        | some b =>
          match findWindow (src.length + 1) 0 src b used false with
          | (none, false) => s!"violation call#{i} bytes-not-taken-from-the-source"
          | (none, true) => s!"violation call#{i} source-bytes-reused"
          | (some p, _) => go (i + 1) rest ((p, size) :: used)
  go 0 outs []

end OtpVerif.Spec
