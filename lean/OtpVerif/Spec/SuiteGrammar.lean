/-
Spec for C15: what a suite string *says* under the RFC 6287 naming scheme, as a strict, structurally
recursive reader written from the RFC (not from the library's parser):

  OCRA-1:HOTP-<SHA1|SHA256|SHA512>-<digits>:[C][-Q<N|A|H><08|10>][-PSHA<1|256|512>][-S[nnn]][-T<n>[S|M|H]]

* the algorithm tag is exactly `OCRA-1`; the crypto function and the data-input tokens are read
  case-insensitively (ASCII), the time unit is upper case;
* numbers are 1–3 decimal digits; digits must be 4..10 (0 = "no truncation" is not representable);
* data inputs appear at most once, in the order C, Q, P, S, T, and there is at least one;
* challenge formats other than lengths 08 / 10 are not representable in a `SuiteConfig` (no denotation);
* a bare `T<n>` (as in 12 registered names, e.g. `…-S-T1`) is read as n seconds — an interpretation,
  the only one that gives those advertised names a meaning.
`denote raw = some cfg` means: `raw` says exactly `cfg` (with `cfg.raw = raw`).
-/
import OtpVerif.Basic
import OtpVerif.Std.Strings

namespace OtpVerif.Spec
open OtpVerif OtpVerif.Std

def numeral (s : Bytes) : Option Nat :=
  if 1 ≤ s.length ∧ s.length ≤ 3 ∧ s.all isDigitChar = true then some (s.foldl (fun n c => n * 10 + (c.toNat - 48)) 0) else none

def hashOfName (u : Bytes) : Option Nat :=
  if u = [83, 72, 65, 49] then some 0 else if u = [83, 72, 65, 50, 53, 54] then some 1
  else if u = [83, 72, 65, 53, 49, 50] then some 2 else none

/-- a data-input token -/
inductive Tok
  | c | q (format : Int) | p (hash : Int) | s | t (secs : Nat)

def Tok.rank : Tok → Nat | .c => 1 | .q _ => 2 | .p _ => 3 | .s => 4 | .t _ => 5

def classify (tok : Bytes) : Option Tok :=
  match toUpperAscii tok with
  | [67] => some .c
  | [81, f, l1, l2] =>                                   -- Q <N|A|H> <08|10>
    let base : Option Int := if f = 78 then some 1 else if f = 65 then some 3 else if f = 72 then some 5 else none
    let off : Option Int := if l1 = 48 ∧ l2 = 56 then some 0 else if l1 = 49 ∧ l2 = 48 then some 1 else none
    match base, off with
    | some b, some o => some (.q (b + o))
    | _, _ => none
  | 80 :: rest => (hashOfName rest).map (fun h => .p (h + 1))   -- P SHA1|SHA256|SHA512
  | [83] => some .s
  | [83, d1, d2, d3] => if isDigitChar d1 ∧ isDigitChar d2 ∧ isDigitChar d3 then some .s else none
  | 84 :: _ =>                                            -- T <n> [S|M|H]   (unit from the original text: upper case)
    let g := tok.drop 1
    match g.getLast? with
    | none => none
    | some u =>
      if u = 83 then (numeral g.dropLast).map .t
      else if u = 77 then (numeral g.dropLast).map (fun n => .t (n * 60))
      else if u = 72 then (numeral g.dropLast).map (fun n => .t (n * 3600))
      else (numeral g).map .t
  | _ => none

def applyTok (cfg : SuiteConfig) : Tok → SuiteConfig
  | .c => { cfg with incC := true }
  | .q f => { cfg with incQ := true, challenge := f }
  | .p h => { cfg with incP := true, pwHash := h }
  | .s => { cfg with incS := true }
  | .t n => { cfg with incT := true, timeStep := n }

def denoteTokens (cfg : SuiteConfig) (last : Nat) : List Bytes → Option SuiteConfig
  | [] => some cfg
  | tok :: rest =>
    match classify tok with
    | none => none
    | some t => if t.rank ≤ last then none else denoteTokens (applyTok cfg t) t.rank rest

def emptyCfg : SuiteConfig :=
  { raw := [], hash := 0, digits := 0, challenge := 0, incC := false, incQ := false, incP := false,
    incS := false, incT := false, pwHash := 0, timeStep := 0 }

def denote (raw : Bytes) : Option SuiteConfig :=
  if raw.any (fun c => c.toNat ≥ 128) then none
  else match splitOn 58 raw with
    | [v, crypto, dataInput] =>
      if v ≠ [79, 67, 82, 65, 45, 49] then none
      else match splitOn 45 crypto with
        | [w0, w1, w2] =>
          if toUpperAscii w0 ≠ [72, 79, 84, 80] then none
          else match hashOfName (toUpperAscii w1), numeral w2 with
            | some h, some d =>
              if d < 4 ∨ d > 10 then none
              else match denoteTokens { emptyCfg with hash := h, digits := d } 0 (splitOn 45 dataInput) with
                | some cfg => if cfg.incT ∧ cfg.timeStep ≤ 0 then none else some { cfg with raw := raw }
                | none => none
            | _, _ => none
        | _ => none
    | _ => none

end OtpVerif.Spec
