/-
Spec layer: the properties' own vocabulary, written from RFC 4226 / 6238 / 6287 / 4648 and the
property texts, independently of the Go code (no table lookups, no loops mirrored from the code).
-/
import OtpVerif.Basic

namespace OtpVerif.Spec
open OtpVerif

/-- byte `i` of `h` as a number (0 beyond the end; only used with `|h| ≥ 20`, `i ≤ 18`) -/
def byteAt (h : Bytes) (i : Nat) : Nat := (h[i]?.map UInt8.toNat).getD 0

/-- RFC 4226 §5.3 dynamic truncation: offset = low 4 bits of the last byte; 31-bit big-endian value there -/
def dt (h : Bytes) : Nat :=
  let o := byteAt h (h.length - 1) % 16
  (byteAt h o % 128) * 2 ^ 24 + byteAt h (o + 1) * 2 ^ 16 + byteAt h (o + 2) * 2 ^ 8 + byteAt h (o + 3)

/-- RFC 4226 HOTP value with `d` digits: HMAC of the 8-byte big-endian counter, truncated, mod 10^d, zero-padded -/
def hotp (H : Nat → Bytes → Bytes → Bytes) (a : Nat) (key : Bytes) (counter d : Nat) : Bytes :=
  zeroPad d (dt (H a key (be8 counter)) % 10 ^ d)

/-- right-pad with zero bytes to width `w` (never truncates) -/
def padR (w : Nat) (b : Bytes) : Bytes := b ++ List.replicate (w - b.length) 0

/-- RFC 6287 §5.1 / the documented layout: suite string, 0x00, then the selected fields in the order
C (8), Q (128, right-padded), P (as given), S (128, right-padded), T (8) -/
def ocraMsg (cfg : SuiteConfig) (i : OCRAInput) : Bytes :=
  cfg.raw ++ [0]
    ++ (if cfg.incC then i.counter else [])
    ++ (if cfg.incQ then padR 128 i.challenge else [])
    ++ (if cfg.incP then i.password else [])
    ++ (if cfg.incS then padR 128 i.session else [])
    ++ (if cfg.incT then i.timestamp else [])

def ocra (H : Nat → Bytes → Bytes → Bytes) (key : Bytes) (cfg : SuiteConfig) (i : OCRAInput) : Bytes :=
  zeroPad cfg.digits.toNat (dt (H cfg.hash key (ocraMsg cfg i)) % 10 ^ cfg.digits.toNat)

/-- C14: minimum challenge length of a format (QN08/QA08/QH08 = 1,3,5 ↦ 8; QN10/QA10/QH10 = 2,4,6 ↦ 10) -/
def minQ (format : Int) : Nat :=
  if format = 1 ∨ format = 3 ∨ format = 5 then 8 else if format = 2 ∨ format = 4 ∨ format = 6 then 10 else 0

def pwLen (pwHash : Int) : Nat := if pwHash = 1 then 20 else if pwHash = 2 then 32 else 64

/-- C14: the input meets the suite's field requirements -/
def admissible (cfg : SuiteConfig) (i : OCRAInput) : Prop :=
  (cfg.incC → i.counter.length = 8) ∧
  (cfg.incQ → minQ cfg.challenge ≤ i.challenge.length ∧ i.challenge.length ≤ 128) ∧
  (cfg.incP → i.password.length = pwLen cfg.pwHash) ∧
  (cfg.incS → i.session.length ≤ 128) ∧
  (cfg.incT → i.timestamp.length = 8)

instance (cfg : SuiteConfig) (i : OCRAInput) : Decidable (admissible cfg i) := by
  unfold admissible; infer_instance

/-- C14: the suite is usable -/
def usable (cfg : SuiteConfig) : Prop :=
  4 ≤ cfg.digits ∧ cfg.digits ≤ 10 ∧ cfg.hash < 3 ∧
  (cfg.incP → cfg.pwHash ≠ 0) ∧ (cfg.incT → 0 < cfg.timeStep) ∧ (cfg.incQ → cfg.challenge ≠ 0)

instance (cfg : SuiteConfig) : Decidable (usable cfg) := by
  unfold usable; infer_instance

/-- C14's domain: the enumerations are within their documented ranges -/
def enumsInRange (cfg : SuiteConfig) : Prop :=
  0 ≤ cfg.challenge ∧ cfg.challenge ≤ 6 ∧ (cfg.incP → 1 ≤ cfg.pwHash ∧ cfg.pwHash ≤ 3)

instance (cfg : SuiteConfig) : Decidable (enumsInRange cfg) := by
  unfold enumsInRange; infer_instance

end OtpVerif.Spec
