/-
Executable spec answers for the driver (`Spec.Run.*`): what the *property* demands for an op line,
computed from the Spec layer only, or `none` where the property is silent.  Used for the search
for a failing input when a proof obligation or the model/implementation correspondence breaks.
-/
import OtpVerif.Spec.Rfc
import OtpVerif.Spec.Base32
import OtpVerif.Model.Utils
import OtpVerif.Spec.SuiteGrammar
import OtpVerif.Gen.Registry

namespace OtpVerif.Spec.Run
open OtpVerif OtpVerif.Spec

def hexNib (n : Nat) : Char := if n < 10 then Char.ofNat (48 + n) else Char.ofNat (87 + n)
def hex (b : Bytes) : String :=
  if b.isEmpty then "-" else String.ofList (b.foldr (fun x acc => hexNib (x.toNat / 16) :: hexNib (x.toNat % 16) :: acc) [])

/-- resolved parameters as the properties state them: HOTP nil = 6 digits, SHA-1, window 2; TOTP nil = 6, SHA-1, 30 s, skew 0 -/
def rH (p : Option Param) : Param := p.getD ⟨6, 0, 2, 0⟩
def rT (p : Option Param) : Param := let q := p.getD ⟨6, 30, 0, 0⟩; { q with period := if q.period = 0 then 30 else q.period }

def supported (q : Param) : Bool := 1 ≤ q.digits && q.digits ≤ 10 && q.algo < 3

def derive (O : HashOracle) (k : Bytes) (c d a : Nat) : Option String :=
  if c < 2 ^ 64 then
    if 1 ≤ d ∧ d ≤ 10 ∧ a < 3 then some ("ok " ++ hex (hotp O.hmac a k c d)) else some "err"
  else none

def ghotp (O : HashOracle) (s : Bytes) (c : Nat) (p : Option Param) : Option String :=
  let q := rH p
  if c ≥ 2 ^ 64 ∨ q.digits > 255 ∨ q.algo > 255 then none else
  match secretSpec s with
  | .bytes k => if supported q then some ("ok " ++ hex (hotp O.hmac q.algo k c q.digits)) else some "err"
  | .reject => some "err"
  | .silent => if supported q then none else some "err"

def gtotp (O : HashOracle) (s : Bytes) (sec : Int) (p : Option Param) : Option String :=
  let q := rT p
  if sec < 0 ∨ sec ≥ 2 ^ 62 ∨ q.period > 2 ^ 32 ∨ q.digits > 255 ∨ q.algo > 255 then none else
  match secretSpec s with
  | .bytes k => if supported q then some ("ok " ++ hex (hotp O.hmac q.algo k (sec.toNat / q.period) q.digits)) else some "err"
  | .reject => some "err"
  | .silent => if supported q then none else some "err"

/-- is `code` the code of some counter in [lo, hi]? -/
def inWindow (O : HashOracle) (q : Param) (k code : Bytes) (lo hi : Nat) : Bool :=
  (List.range (hi - lo + 1)).any (fun j => hotp O.hmac q.algo k (lo + j) q.digits == code)

def vhotp (O : HashOracle) (s code : Bytes) (c : Nat) (p : Option Param) : Option String :=
  let q := rH p
  if q.digits > 255 ∨ q.algo > 255 then none else
  if q.skew > 10 then some "false-err" else
  if c + q.skew ≥ 2 ^ 64 then none else
  match secretSpec s with
  | .bytes k =>
    if supported q then some (if inWindow O q k code (c - q.skew) (c + q.skew) then "true" else "false-err")
    else some "false-err"
  | .reject => some "false-err"
  | .silent => if supported q then none else some "false-err"

def vtotp (O : HashOracle) (s code : Bytes) (sec : Int) (p : Option Param) : Option String :=
  let q := rT p
  if q.digits > 255 ∨ q.algo > 255 then none else
  if q.skew > 10 then some "false-err" else
  if sec < 0 ∨ sec ≥ 2 ^ 62 ∨ q.period > 2 ^ 32 then none else
  let n := sec.toNat / q.period
  if n < q.skew then none else
  match secretSpec s with
  | .bytes k =>
    if supported q then some (if inWindow O q k code (n - q.skew) (n + q.skew) then "true" else "false-err")
    else some "false-err"
  | .reject => some "false-err"
  | .silent => if supported q then none else some "false-err"

/-- generate-then-validate the same string: spec answer composed from the two specs (silent if either is) -/
def gvhotp (O : HashOracle) (s : Bytes) (c1 c2 : Nat) (p : Option Param) : Option String :=
  let q := rH p
  if c1 ≥ 2 ^ 64 ∨ q.digits > 255 ∨ q.algo > 255 then none else
  match secretSpec s with
  | .bytes k =>
    if supported q then (vhotp O s (hotp O.hmac q.algo k c1 q.digits) c2 p).map ("gen-ok " ++ ·) else some "gen-err"
  | .reject => some "gen-err"
  | .silent => if supported q then none else some "gen-err"

def gvtotp (O : HashOracle) (s : Bytes) (t1 t2 : Int) (p : Option Param) : Option String :=
  let q := rT p
  if t1 < 0 ∨ t1 ≥ 2 ^ 62 ∨ q.period > 2 ^ 32 ∨ q.digits > 255 ∨ q.algo > 255 then none else
  match secretSpec s with
  | .bytes k =>
    if supported q then (vtotp O s (hotp O.hmac q.algo k (t1.toNat / q.period) q.digits) t2 p).map ("gen-ok " ++ ·) else some "gen-err"
  | .reject => some "gen-err"
  | .silent => if supported q then none else some "gen-err"

def gocra (O : HashOracle) (s : Bytes) (cfg : SuiteConfig) (i : OCRAInput) : Option String :=
  if ¬ enumsInRange cfg ∨ cfg.hash > 255 then (if usable cfg then none else some "err") else
  match secretSpec s with
  | .bytes k => if usable cfg ∧ admissible cfg i then some ("ok " ++ hex (ocra O.hmac k cfg i)) else some "err"
  | .reject => some "err"
  | .silent => if usable cfg ∧ admissible cfg i then none else some "err"

def vocra (O : HashOracle) (s code : Bytes) (cfg : SuiteConfig) (i : OCRAInput) : Option String :=
  if ¬ enumsInRange cfg ∨ cfg.hash > 255 then (if usable cfg then none else some "false-err") else
  match secretSpec s with
  | .bytes k =>
    if usable cfg ∧ admissible cfg i then some (if ocra O.hmac k cfg i == code then "true" else "false-err") else some "false-err"
  | .reject => some "false-err"
  | .silent => if usable cfg ∧ admissible cfg i then none else some "false-err"

def adm (cfg : SuiteConfig) (i : OCRAInput) : Option String :=
  let sv := if usable cfg then "suite-ok" else "suite-err"
  if enumsInRange cfg then some (sv ++ " " ++ (if admissible cfg i then "input-ok" else "input-err"))
  else some (sv ++ " *")

def dec (s : Bytes) : Option String :=
  match secretSpec s with
  | .bytes b => some ("ok " ++ hex b)
  | .reject => some "err"
  | .silent => none

def showCfg (c : SuiteConfig) : String :=
  let b (x : Bool) := if x then "1" else "0"
  s!"{hex c.raw}:{c.hash}:{c.digits}:{c.challenge}:{b c.incC}{b c.incQ}{b c.incP}{b c.incS}{b c.incT}:{c.pwHash}:{c.timeStep}"

/-- C15: an accepted string must be read as the naming scheme says (`if-ok`), an unreadable one must be rejected -/
def suite (raw : Bytes) : Option String :=
  match denote raw with
  | some cfg =>
    -- an advertised name must be instantiable (and known); any other readable string may be rejected, never mis-read
    if Gen.listSuites.contains raw then some ("ok " ++ showCfg cfg ++ " known *") else some ("if-ok " ++ showCfg cfg ++ " *")
  | none => some "err *"

/-- C08: exactly 20/32/64 bytes from the stream, unmodified, as unpadded upper-case base32 (bit-wise RFC 4648) -/
def rnd (a : Nat) (st : Bytes) : Option String :=
  if a ≥ 3 then some "err consumed=0"
  else
    let n := if a = 0 then 20 else if a = 1 then 32 else 64
    if st.length < n then none else some s!"ok {hex (b32NoPad (st.take n))} consumed={n}"

def allDigits (s : Bytes) : Bool := !s.isEmpty && s.all isDigitChar
def decVal (s : Bytes) : Nat := s.foldl (fun n c => n * 10 + (c.toNat - 48)) 0

def dec8 (s : Bytes) : Option String :=
  if allDigits s ∧ decVal s < 2 ^ 64 then some ("ok " ++ hex (be8 (decVal s))) else some "err"

def isHexChar (c : UInt8) : Bool := (Model.unhex c).isSome
/-- `n` bytes, big-endian, of `v` (mod 256^n) -/
def be : Nat → Nat → Bytes
  | 0, _ => []
  | n + 1, v => be n (v / 256) ++ [(v % 256).toUInt8]
def hexVal (s : Bytes) : Nat := s.foldl (fun n c => n * 16 + (Model.unhex c).getD 0) 0

def hexts (s : Bytes) : Option String :=
  if s.length > 16 then none
  else if s.all isHexChar then some ("ok " ++ hex (be8 (hexVal s))) else some "err"

def leftpad (s : Bytes) (w : Int) : Option String :=
  if w < 0 ∨ w > 2 ^ 20 then none
  else if s.length ≥ w.toNat then some ("ok " ++ hex (s.drop (s.length - w.toNat)))
  else some ("ok " ++ hex (List.replicate (w.toNat - s.length) 48 ++ s))

/-- MustHexPadLeft: the last `2*size` hexadecimal digits of the text, left-padded with '0', as `size` bytes; a kept character
that is not a hexadecimal digit makes the (documented) Must helper panic.  Sizes outside 0..2^19 are outside the property. -/
def musthex (s : Bytes) (size : Int) : Option String :=
  if size < 0 ∨ size > 2 ^ 19 then none
  else
    -- only the digits that are kept have to be hexadecimal
    let w := 2 * size.toNat
    let digits := if s.length ≥ w then s.drop (s.length - w) else List.replicate (w - s.length) 48 ++ s
    if digits.all isHexChar then some ("ok " ++ hex (be (w / 2) (hexVal digits))) else some "panic"

/-- RFC 6287 numeric question: decimal ↦ hexadecimal text, right-padded with '0' to 256 hex digits = 128 bytes -/
def question (s : Bytes) : Option String :=
  if allDigits s then
    let hx := Model.hexOfNat (decVal s)
    if hx.length ≤ 256 then
      let padded := hx ++ List.replicate (256 - hx.length) 48
      (Model.hexDecode padded).map (fun b => "ok " ++ hex b)
    else none
  else if s.isEmpty ∨ s.any (fun c => !(isDigitChar c) ∧ c ≠ 43 ∧ c ≠ 45) then some "err" else none

end OtpVerif.Spec.Run
