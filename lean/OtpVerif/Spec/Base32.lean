/-
Spec for C07/C08: RFC 4648 base32 written bit-wise (independent of the quantum formulas of the
stdlib model), and the notion of a *spelling* of an encoding.
-/
import OtpVerif.Basic
import OtpVerif.Std.Strings

namespace OtpVerif.Spec
open OtpVerif

/-- bits of a byte string, most significant first -/
def bitsOf (b : Bytes) : List Bool := b.flatMap (fun x => (List.range 8).map (fun i => (x.toNat / 2 ^ (7 - i)) % 2 = 1))

def natOfBits (bs : List Bool) : Nat := bs.foldl (fun n b => 2 * n + (if b then 1 else 0)) 0

def alphaChar (v : Nat) : UInt8 := if v < 26 then (65 + v).toUInt8 else (24 + v).toUInt8

/-- groups of five bits, the last one zero-extended -/
def groups5 : Nat → List Bool → List (List Bool)
  | 0, _ => []
  | fuel + 1, bs => if bs.isEmpty then [] else (bs.take 5 ++ List.replicate (5 - (bs.take 5).length) false) :: groups5 fuel (bs.drop 5)

/-- RFC 4648 §6 encoding without padding -/
def b32NoPad (b : Bytes) : Bytes := (groups5 (8 * b.length) (bitsOf b)).map (fun g => alphaChar (natOfBits g))

/-- RFC 4648 §6 encoding, '='-padded to a multiple of 8 characters -/
def b32 (b : Bytes) : Bytes :=
  let e := b32NoPad b
  e ++ List.replicate ((8 - e.length % 8) % 8) 61

def charVal (c : UInt8) : Option Nat :=
  let n := c.toNat
  if 65 ≤ n ∧ n ≤ 90 then some (n - 65) else if 97 ≤ n ∧ n ≤ 122 then some (n - 97) else if 50 ≤ n ∧ n ≤ 55 then some (n - 24) else none

def bitsOfVal (v : Nat) : List Bool := (List.range 5).map (fun i => (v / 2 ^ (4 - i)) % 2 = 1)

def bytesOfBits : Nat → List Bool → Bytes
  | 0, _ => []
  | fuel + 1, bs => if bs.length < 8 then [] else (natOfBits (bs.take 8)).toUInt8 :: bytesOfBits fuel (bs.drop 8)

/-- what the property says about a secret text: it must decode to these bytes, it must be rejected, or
the property is silent (non-canonical trailing bits, surplus padding, …) -/
inductive SecretSpec | bytes (b : Bytes) | reject | silent
  deriving Repr, DecidableEq

/-- decide the property's verdict for a text: strip white space at both ends (Unicode white space, as
`strings.TrimSpace` understands it — a Spec choice: the property says "surrounded by white space"),
split into data characters and trailing '=' -/
def secretSpec (text : Bytes) : SecretSpec :=
  let t := Std.trimSpace text
  let data := (t.reverse.dropWhile (· = 61)).reverse
  let npad := t.length - data.length
  if data.any (fun c => (charVal c).isNone) then
    -- a character outside A-Z a-z 2-7 (incl. '=' in the middle, inner white space, non-ASCII): rejected
    .reject
  else
    let r := data.length % 8
    if r = 1 ∨ r = 3 ∨ r = 6 then .reject
    else
      let bits := data.flatMap (fun c => bitsOfVal ((charVal c).getD 0))
      let b := bytesOfBits data.length bits
      -- a spelling of b32 b: same data characters up to case, and between 0 and the canonical number of '='
      let canon := b32NoPad b
      let canonPad := (8 - canon.length % 8) % 8
      if canon = data.map Std.upperAscii ∧ npad ≤ canonPad then .bytes b else .silent

end OtpVerif.Spec
