/-
The pool protocol as a predicate on the regenerated operation list of a function (Gen.poolSites), and its link to
the abstract pool machine of `Model/Pool.lean`: an accepted operation list, read as a thread program, can always
be executed by the machine and hands the buffer back exactly once.
-/
import OtpVerif.Model.Pool

namespace OtpVerif.Model.PoolProto
open OtpVerif.Model

/-- micro-operations of the abstract machine -/
inductive MOp | get | write | read | put
  deriving DecidableEq, Repr

abbrev POp := Nat × List Nat

/-- what an extracted operation does to the buffer (re-slicing has no memory effect; a deferred Put runs last) -/
def absOp (o : POp) : Option MOp :=
  match o.1 with
  | 0 => some .get
  | 1 => some .put
  | 3 => some .write | 5 => some .write | 6 => some .write | 8 => some .write
  | 7 => some .read
  | _ => none

def absProg (ops : List POp) : List MOp :=
  ops.filterMap absOp ++ (if ops.any (·.1 == 2) then [.put] else [])

def body : List MOp → Bool
  | [.put] => true
  | .write :: r => body r
  | .read :: r => body r
  | _ => false

/-- `get`, then only writes and reads, then exactly one `put` -/
def wellBracketed : List MOp → Bool
  | .get :: r => body r
  | _ => false

/-- the first access to the buffer is a write (nothing left by an earlier holder is ever read) -/
def writesFirst : List MOp → Bool
  | .get :: .write :: _ => true
  | .get :: [.put] => true
  | _ => false

/-- the whole check on an extracted operation list -/
def protocolOk (ops : List POp) : Bool :=
  let gets := ops.filter (·.1 == 0)
  let puts := ops.filter (fun o => o.1 == 1 || o.1 == 2)
  (match gets, puts with | [g], [p] => g.2 == p.2 | _, _ => false) &&      -- one Get, one Put, same pool
  ops.all (·.1 != 9) &&                                                      -- never handed to code that may keep it
  wellBracketed (absProg ops) && writesFirst (absProg ops)

/-- run a program of thread `i` on the machine -/
inductive Runs (i : Nat) : List MOp → Pool.World → Pool.World → Prop
  | nil (w) : Runs i [] w w
  | cons {op ops w w' w''} : Pool.Step w w' → Runs i ops w' w'' → Runs i (op :: ops) w w''

theorem step_write (w : Pool.World) (i a : Nat) (hh : (w.threads i).held = some a) :
    ∃ w1, Pool.Step w w1 ∧ (w1.threads i).held = some a :=
  ⟨_, Pool.Step.write w i a [] hh, by simp [Pool.upd, hh]⟩

theorem step_read (w : Pool.World) (i a : Nat) (hh : (w.threads i).held = some a) :
    ∃ w1, Pool.Step w w1 ∧ (w1.threads i).held = some a :=
  ⟨_, Pool.Step.read w i a hh, by simp [Pool.upd, hh]⟩

theorem step_put (w : Pool.World) (i a : Nat) (hh : (w.threads i).held = some a) :
    ∃ w1, Pool.Step w w1 ∧ (w1.threads i).held = none :=
  ⟨_, Pool.Step.put w i a hh, by simp [Pool.upd]⟩

theorem step_get (w : Pool.World) (i : Nat) (hn : (w.threads i).held = none) :
    ∃ w1 a, Pool.Step w w1 ∧ (w1.threads i).held = some a :=
  ⟨_, w.next, Pool.Step.getFresh w i hn, by simp [Pool.upd]⟩

theorem body_runs (i : Nat) : ∀ (p : List MOp), body p = true → ∀ (w : Pool.World) (a : Nat),
    (w.threads i).held = some a → ∃ w', Runs i p w w' ∧ (w'.threads i).held = none := by
  intro p
  induction p with
  | nil => intro h; cases h
  | cons op r ih =>
    intro h w a hh
    cases op with
    | get => cases h
    | put =>
      cases r with
      | nil =>
        obtain ⟨w1, hs, hn⟩ := step_put w i a hh
        exact ⟨w1, Runs.cons hs (Runs.nil _), hn⟩
      | cons _ _ => simp [body] at h
    | write =>
      have hb : body r = true := by simpa [body] using h
      obtain ⟨w1, hs, hh1⟩ := step_write w i a hh
      obtain ⟨w', hr, hn⟩ := ih hb w1 a hh1
      exact ⟨w', Runs.cons hs hr, hn⟩
    | read =>
      have hb : body r = true := by simpa [body] using h
      obtain ⟨w1, hs, hh1⟩ := step_read w i a hh
      obtain ⟨w', hr, hn⟩ := ih hb w1 a hh1
      exact ⟨w', Runs.cons hs hr, hn⟩

/-- a well-bracketed program is a behaviour of the machine: from any world in which the thread holds nothing it runs
to completion and again holds nothing (so the invariants of `Pool.inv_reach` apply to it at every point) -/
theorem wellBracketed_runs (i : Nat) (p : List MOp) (h : wellBracketed p = true) (w : Pool.World)
    (hn : (w.threads i).held = none) : ∃ w', Runs i p w w' ∧ (w'.threads i).held = none := by
  cases p with
  | nil => cases h
  | cons op r =>
    cases op with
    | get =>
      have hb : body r = true := by simpa [wellBracketed] using h
      obtain ⟨w1, a, hs, hh1⟩ := step_get w i hn
      obtain ⟨w', hr, hn'⟩ := body_runs i r hb w1 a hh1
      exact ⟨w', Runs.cons hs hr, hn'⟩
    | write => cases h
    | read => cases h
    | put => cases h

/-- … and every world on the way is reachable, hence satisfies the exclusivity invariant -/
theorem runs_reach {m : Nat → Pool.Bytes} (i : Nat) : ∀ (p : List MOp) (w w' : Pool.World), Pool.Reach m w → Runs i p w w' → Pool.Reach m w' := by
  intro p w w' hr hrun
  induction hrun with
  | nil _ => exact hr
  | cons hs _ ih => exact ih (Pool.Reach.step hr hs)

end OtpVerif.Model.PoolProto
