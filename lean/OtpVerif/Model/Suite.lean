/-
Model of suite_rfc6287.go: `SuiteConfig.Validate`, the registry lookups, `NewSuite`,
`NewRawSuite`, and the hand-written suite-string parser as written (after the fix: commits):
ASCII check, exactly three ':' parts, exact "OCRA-1", crypto part `HOTP-SHA<x>-<digits>`,
data-input tokens with their prefix tests in the Go `switch` order, 1–3 digit numbers,
rank check (C, Q, P, S, T each at most once and in this order), final `Validate`.
-/
import OtpVerif.Basic
import OtpVerif.Std.Strings
import OtpVerif.Gen.Registry

namespace OtpVerif.Model
open OtpVerif OtpVerif.Std

/-- `SuiteConfig.Validate()` (also `RawSuite.Validate()`): `none` = valid -/
def suiteValidate (cfg : SuiteConfig) : Option Err :=
  if cfg.digits < 4 ∨ cfg.digits > 10 then some .invalidSuite
  else if cfg.hash ≠ 0 ∧ cfg.hash ≠ 1 ∧ cfg.hash ≠ 2 then some .invalidSuite
  else if cfg.incP ∧ cfg.pwHash = 0 then some .invalidSuite
  else if cfg.incT ∧ cfg.timeStep ≤ 0 then some .invalidSuite
  else if cfg.incQ ∧ cfg.challenge = 0 then some .invalidSuite
  else none

/-- map lookup `knownSuites[raw]` -/
def registryLookup (raw : Bytes) : Option SuiteConfig := (Gen.registry.find? (fun e => e.1 == raw)).map (·.2)

def isKnownSuite (raw : Bytes) : Bool := (registryLookup raw).isSome

def zeroCfg : SuiteConfig :=
  { raw := [], hash := 0, digits := 0, challenge := 0, incC := false, incQ := false, incP := false,
    incS := false, incT := false, pwHash := 0, timeStep := 0 }

/-- `SuiteConfigFromRaws`: the stored value, or the zero value -/
def suiteConfigFromRaws (raw : Bytes) : SuiteConfig := (registryLookup raw).getD zeroCfg

/-- `NewSuite(cfg)` -/
def newSuite (cfg : SuiteConfig) : Out SuiteConfig :=
  match suiteValidate cfg with
  | some e => .err e
  | none => .ok cfg

/-- `parseSuiteNumber`: one to three ASCII digits -/
def parseSuiteNumber (s : Bytes) : Option Nat :=
  if s.length = 0 ∨ s.length > 3 then none
  else if s.all isDigitChar then some (s.foldl (fun n c => n * 10 + (c.toNat - 48)) 0)
  else none

def hasPrefix (p s : Bytes) : Bool := p.isPrefixOf s

def sHOTP_SHA : Bytes := [72, 79, 84, 80, 45, 83, 72, 65]     -- "HOTP-SHA"
def sSHA1 : Bytes := [83, 72, 65, 49]
def sSHA256 : Bytes := [83, 72, 65, 50, 53, 54]
def sSHA512 : Bytes := [83, 72, 65, 53, 49, 50]
def sOCRA1 : Bytes := [79, 67, 82, 65, 45, 49]                -- "OCRA-1"

/-- `parseCryptoFunction`: returns (hash, digits) -/
def parseCryptoFunction (crypto : Bytes) : Option (Nat × Nat) :=
  if !hasPrefix sHOTP_SHA (toUpperAscii crypto) then none
  else
    match splitOn 45 (crypto.drop 5) with
    | [hashPart, digPart] =>
      let hU := toUpperAscii hashPart
      let h : Option Nat := if hU = sSHA1 then some 0 else if hU = sSHA256 then some 1 else if hU = sSHA512 then some 2 else none
      match h, parseSuiteNumber digPart with
      | some h, some d => some (h, d)
      | _, _ => none
    | _ => none

/-- `parseTimeGranularity` (the unit is case-sensitive) -/
def parseTimeGranularity (g : Bytes) : Option Nat :=
  if g.length < 2 then none
  else
    match g.getLast?, parseSuiteNumber g.dropLast with
    | some unit, some val =>
      if unit = 83 then some val else if unit = 77 then some (val * 60) else if unit = 72 then some (val * 3600) else none
    | _, _ => none

/-- rank of a token's first letter in "CQPST" (`strings.IndexByte(...) + 1`; 0 = not found) -/
def tokenRank (c : UInt8) : Nat :=
  if c = 67 then 1 else if c = 81 then 2 else if c = 80 then 3 else if c = 83 then 4 else if c = 84 then 5 else 0

/-- the `switch` of the token loop of `parseDataInputTokens` (`tokU` is `strings.ToUpper(tok)`) -/
def tokenEffect (cfg : SuiteConfig) (tok tokU : Bytes) : Option SuiteConfig :=
  if tokU = [67] then some { cfg with incC := true }
  else if hasPrefix [81, 78] tokU then                                   -- "QN"
    if tokU.length = 4 then
      let num := tokU.drop 2
      if num = [48, 56] then some { cfg with incQ := true, challenge := 1 }
      else if num = [49, 48] then some { cfg with incQ := true, challenge := 2 }
      else none
    else some { cfg with incQ := true }
  else if hasPrefix [81, 65] tokU then some { cfg with incQ := true }    -- "QA"
  else if hasPrefix [81, 72] tokU then some { cfg with incQ := true }    -- "QH"
  else if hasPrefix [80, 83, 72, 65] tokU then                          -- "PSHA"
    if tokU = 80 :: sSHA1 then some { cfg with incP := true, pwHash := 1 }
    else if tokU = 80 :: sSHA256 then some { cfg with incP := true, pwHash := 2 }
    else if tokU = 80 :: sSHA512 then some { cfg with incP := true, pwHash := 3 }
    else none
  else if hasPrefix [84] tokU then                                       -- "T"
    match parseTimeGranularity (tok.drop 1) with
    | some secs => some { cfg with incT := true, timeStep := secs }
    | none => none
  else if hasPrefix [83] tokU then                                       -- "S"
    if tokU.length ≠ 1 then
      if (parseSuiteNumber (tokU.drop 1)).isNone ∨ tokU.length ≠ 4 then none
      else some { cfg with incS := true }
    else some { cfg with incS := true }
  else none

/-- one iteration of the token loop of `parseDataInputTokens`: the `switch`, then the rank check -/
def parseToken (cfg : SuiteConfig) (last : Nat) (tok : Bytes) : Option (SuiteConfig × Nat) :=
  match tokenEffect cfg tok (toUpperAscii tok), toUpperAscii tok with
  | some cfg', c :: _ =>
    let rank := tokenRank c
    if rank ≤ last then none else some (cfg', rank)
  | _, _ => none

def parseTokens (cfg : SuiteConfig) (last : Nat) : List Bytes → Option SuiteConfig
  | [] => some cfg
  | tok :: rest =>
    match parseToken cfg last tok with
    | some (cfg', last') => parseTokens cfg' last' rest
    | none => none

/-- `parseRawSuite` -/
def parseRawSuite (raw : Bytes) : Out SuiteConfig :=
  if raw.any (fun c => c.toNat ≥ 128) then .err .invalidSuite
  else
    match splitOn 58 raw with
    | [version, crypto, dataInput] =>
      if version ≠ sOCRA1 then .err .invalidSuite
      else
        match parseCryptoFunction crypto with
        | none => .err .invalidSuite
        | some (h, d) =>
          match parseTokens { zeroCfg with hash := h, digits := d } 0 (splitOn 45 dataInput) with
          | none => .err .invalidSuite
          | some cfg =>
            let cfg := { cfg with raw := raw }
            match suiteValidate cfg with
            | some e => .err e
            | none => .ok cfg
    | _ => .err .invalidSuite

/-- `NewRawSuite(raw)`: registry first (the stored config with `Raw := raw`, validated), else the parser -/
def newRawSuite (raw : Bytes) : Out SuiteConfig :=
  match registryLookup raw with
  | some cfg =>
    let cfg := { cfg with raw := raw }
    match suiteValidate cfg with
    | some e => .err e
    | none => .ok cfg
  | none => parseRawSuite raw

end OtpVerif.Model
