/-
Model of `OCRAInput.Validate` / `challengeLength` (otp.go), derive_rfc6287.go, ocra.go and
`validateRFC6287` (validate.go), as written.  A `Suite` value is modelled by its `SuiteConfig`:
both library implementations (`SuiteConfig`, `RawSuite`) delegate `Validate`, `Config`, `String`
to the configuration.
-/
import OtpVerif.Model.Otp
import OtpVerif.Model.Suite

namespace OtpVerif.Model
open OtpVerif

/-- `challengeLength(format)` – regenerated table for formats 0..7, 0 elsewhere (the `default:` arm) -/
def challengeLength (format : Int) : Nat :=
  if format < 0 then 0 else (Gen.challengeLen[format.toNat]?).getD 0

/-- `OCRAInput.Validate(cfg)`: `none` = admitted -/
def inputValidate (i : OCRAInput) (cfg : SuiteConfig) : Option Err :=
  if cfg.incC ∧ i.counter.length ≠ 8 then some .badInput
  else if cfg.incQ ∧ i.challenge.length < challengeLength cfg.challenge then some .badInput
  else if cfg.incQ ∧ i.challenge.length > 128 then some .badInput
  else if cfg.incP ∧ i.password.length = 0 then some .badInput
  else if cfg.incP ∧ cfg.pwHash = 1 ∧ i.password.length ≠ 20 then some .badInput
  else if cfg.incP ∧ cfg.pwHash = 2 ∧ i.password.length ≠ 32 then some .badInput
  else if cfg.incP ∧ cfg.pwHash = 3 ∧ i.password.length ≠ 64 then some .badInput
  else if cfg.incS ∧ i.session.length > 128 then some .badInput
  else if cfg.incT ∧ i.timestamp.length ≠ 8 then some .badInput
  else none

/-- the message assembled by `deriveRFC6287` (appends into the re-sliced pooled buffer) -/
def ocraMessage (cfg : SuiteConfig) (i : OCRAInput) : Bytes :=
  cfg.raw ++ [UInt8.ofNat Gen.separator]
    ++ (if cfg.incC then padBytes i.counter 8 else [])
    ++ (if cfg.incQ then padBytes i.challenge 128 else [])
    ++ (if cfg.incP then i.password else [])
    ++ (if cfg.incS then padBytes i.session 128 else [])
    ++ (if cfg.incT then padBytes i.timestamp 8 else [])

/-- `deriveRFC6287(secret, suite, input)` -/
def deriveRFC6287 (O : HashOracle) (secret : Bytes) (cfg : SuiteConfig) (i : OCRAInput) : Out Bytes :=
  match suiteValidate cfg with
  | some e => .err e
  | none =>
    match inputValidate i cfg with
    | some e => .err e
    | none =>
      -- `&hmacPools[cfg.Hash]`, `mod10[cfg.Digits]`: index expressions, panic when out of range
      if cfg.digits < 0 then .panic else
      match hashIdOf cfg.hash, Gen.mod10[cfg.digits.toNat]? with
      | some h, some m =>
        match truncate (O.hmac h secret (ocraMessage cfg i)) m with
        | .ok otp => .ok (formatDecimal otp cfg.digits.toNat)
        | .err e => .err e
        | .panic => .panic
      | _, _ => .panic

def generateOCRA (O : HashOracle) (secretText : Bytes) (cfg : SuiteConfig) (i : OCRAInput) : Out Bytes :=
  match decodeSecret secretText with
  | .ok key => deriveRFC6287 O key cfg i
  | .err e => .err e
  | .panic => .panic

def validateOCRA (O : HashOracle) (secretText code : Bytes) (cfg : SuiteConfig) (i : OCRAInput) : Out Verdict :=
  match decodeSecret secretText with
  | .ok key => validate code cfg.digits (deriveRFC6287 O key cfg i)
  | .err e => .ok (false, some e)
  | .panic => .panic

end OtpVerif.Model
