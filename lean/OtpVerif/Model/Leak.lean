/-
Leakage model for C09: the validation model re-run with an explicit *leakage trace* – everything the
control flow and the memory-access pattern of the Go code reveal: branch outcomes, loop trip counts,
the lengths handed to `subtle.ConstantTimeCompare`, which exit was taken.  `ctEq` leaks only the two
lengths (the assumption about crypto/subtle, listed in the trusted base).
-/
import OtpVerif.Model.Ocra

namespace OtpVerif.Model.Leak
open OtpVerif OtpVerif.Model

inductive Ev
  | branch (tag : String) (taken : Bool)
  | ct (lenX lenY : Nat)            -- a constant-time compare of these lengths happened
  | exit (tag : String)
  | derive (counter : Nat) (ok : Bool)  -- a derivation ran for this (public) counter; did it succeed
  deriving DecidableEq, Repr

abbrev Trace := List Ev

/-- `validate` with its leakage: the length test, the derivation outcome, then – only – a constant-time compare -/
def validateL (code : Bytes) (expectedLength : Int) (counter : Nat) (derived : Out Bytes) : Bool × Trace :=
  if (code.length : Int) ≠ expectedLength then (false, [.branch "len" true, .exit "ErrInvalidCodeLength"])
  else match derived with
    | .ok expected =>
      let r := ctEq code expected
      -- the branch on the compare result reveals whether the whole code matched – nothing about positions
      (r, [.branch "len" false, .derive counter true, .ct code.length expected.length, .branch "match" r])
    | .err _ => (false, [.branch "len" false, .derive counter false, .exit "derive-error"])
    | .panic => (false, [.exit "panic"])

/-- the HOTP window loop with leakage: one `validateL` per probed counter until the first match -/
def loopL (probe : Int → Option (Bool × Trace)) (hi : Int) : Nat → Int → Bool × Trace
  | 0, _ => (false, [.exit "loop-end"])
  | fuel + 1, i =>
    if i > hi then (false, [.exit "loop-end"])
    else match probe i with
      | none => let r := loopL probe hi fuel (i + 1); (r.1, .branch "underflow-skip" true :: r.2)
      | some (true, tr) => (true, tr ++ [.exit "accepted"])
      | some (false, tr) => let r := loopL probe hi fuel (i + 1); (r.1, tr ++ r.2)

def hotpProbeL (O : HashOracle) (code key : Bytes) (digits algo counter : Nat) (i : Int) : Option (Bool × Trace) :=
  if i < 0 then
    if counter < (-i).toNat then none
    else some (validateL code digits (counter - (-i).toNat) (deriveRFC4226 O key (counter - (-i).toNat) digits algo))
  else some (validateL code digits ((counter + i.toNat) % 2 ^ 64) (deriveRFC4226 O key ((counter + i.toNat) % 2 ^ 64) digits algo))

/-- leakage of `ValidateHOTP` once the secret is decoded (`skew ≤ 10` checked before) -/
def validateHOTPL (O : HashOracle) (key code : Bytes) (counter digits algo skew : Nat) : Bool × Trace :=
  loopL (hotpProbeL O code key digits algo counter) (skew : Int) (2 * skew + 1) (-(skew : Int))

def totpProbeL (O : HashOracle) (code key : Bytes) (digits algo counter : Nat) (i : Int) : Option (Bool × Trace) :=
  some (validateL code digits ((counter + toU64 i) % 2 ^ 64) (deriveRFC4226 O key ((counter + toU64 i) % 2 ^ 64) digits algo))

def validateTOTPL (O : HashOracle) (key code : Bytes) (counter digits algo skew : Nat) : Bool × Trace :=
  loopL (totpProbeL O code key digits algo counter) (skew : Int) (2 * skew + 1) (-(skew : Int))

def validateOCRAL (O : HashOracle) (key code : Bytes) (cfg : SuiteConfig) (i : OCRAInput) : Bool × Trace :=
  validateL code cfg.digits 0 (deriveRFC6287 O key cfg i)

end OtpVerif.Model.Leak
