/-
Reviewed program sites (hand-maintained).

* `justifiedPanicKinds`: (function, kind of instruction) pairs whose safety rests on a *semantic* fact that the
  verification-condition generator cannot see (a validation that ran earlier, a property of HMAC outputs, an
  exclusion stated in the property).  A potentially panicking instruction is accepted iff its in-bounds
  condition is proved by omega (Gen/PanicVC.lean) **or** its (function, kind) is listed here.
* `justifiedStoreSites`: the few writes through a pointer whose ultimate root is not local, fresh or pooled memory.
-/
namespace OtpVerif.Model

def justifiedPanicKinds : List (List Nat × List Nat) := [
  -- otp.RandomSecret ¦ makeslice
  --   why: the secret size is one of the constants 20 / 32 / 64 selected by the (range-checked) hash; theorem C08_bytes
  ([111,116,112,46,82,97,110,100,111,109,83,101,99,114,101,116], [109,97,107,101,115,108,105,99,101]),
  -- otp.RandomSecret ¦ slice
  --   why: the secret size is one of the constants 20 / 32 / 64 selected by the (range-checked) hash; theorem C08_bytes
  ([111,116,112,46,82,97,110,100,111,109,83,101,99,114,101,116], [115,108,105,99,101]),
  -- otp.formatDecimal ¦ slice
  --   why: digit formatter: digits is a validated digit count at every call (see otp.formatDecimal ¦ makeslice)
  ([111,116,112,46,102,111,114,109,97,116,68,101,99,105,109,97,108], [115,108,105,99,101]),
  -- otp.formatDecimal ¦ index
  --   why: digit formatter: digits is a validated digit count at every call (see otp.formatDecimal ¦ makeslice)
  ([111,116,112,46,102,111,114,109,97,116,68,101,99,105,109,97,108], [105,110,100,101,120]),
  -- otp.longDigit ¦ index
  --   why: digit formatter: digits is a validated digit count at every call (see otp.formatDecimal ¦ makeslice)
  ([111,116,112,46,108,111,110,103,68,105,103,105,116], [105,110,100,101,120]),
  -- otp.longDigit ¦ slice
  --   why: digit formatter: digits is a validated digit count at every call (see otp.formatDecimal ¦ makeslice)
  ([111,116,112,46,108,111,110,103,68,105,103,105,116], [115,108,105,99,101]),
  -- otp.shortDigit ¦ makeslice
  --   why: digit formatter: digits is a validated digit count at every call (see otp.formatDecimal ¦ makeslice)
  ([111,116,112,46,115,104,111,114,116,68,105,103,105,116], [109,97,107,101,115,108,105,99,101]),
  -- otp.LeftPadHex ¦ slice
  --   why: the cut s[len(s)-totalLen:] is guarded by len(s) >= totalLen; negative widths are excluded by the property (0..2^20)
  ([111,116,112,46,76,101,102,116,80,97,100,72,101,120], [115,108,105,99,101]),
  -- otp.MustHexPadLeft ¦ panic
  --   why: documented Must* helper (excluded by the property)
  ([111,116,112,46,77,117,115,116,72,101,120,80,97,100,76,101,102,116], [112,97,110,105,99]),
  -- otp.MustRawSuite ¦ panic
  --   why: documented Must* helper (excluded by the property)
  ([111,116,112,46,77,117,115,116,82,97,119,83,117,105,116,101], [112,97,110,105,99]),
  -- otp.MustRawSuite ¦ typeassert
  --   why: documented Must* helper (excluded by the property)
  ([111,116,112,46,77,117,115,116,82,97,119,83,117,105,116,101], [116,121,112,101,97,115,115,101,114,116]),
  -- otp.deriveRFC6287 ¦ index
  --   why: Suite.Validate() ran first: hash in 0..2, digits in 4..10 (theorem C14_suite); user-defined Suite implementations are excluded by the property
  ([111,116,112,46,100,101,114,105,118,101,82,70,67,54,50,56,55], [105,110,100,101,120]),
  -- otp.formatDecimal ¦ makeslice
  --   why: digits is a validated digit count (deriveRFC4226: 1..10; deriveRFC6287: Suite.Validate, 4..10)
  ([111,116,112,46,102,111,114,109,97,116,68,101,99,105,109,97,108], [109,97,107,101,115,108,105,99,101]),
  -- otp.longDigit ¦ makeslice
  --   why: digits is a validated digit count (see formatDecimal)
  ([111,116,112,46,108,111,110,103,68,105,103,105,116], [109,97,107,101,115,108,105,99,101]),
  -- otp.TimeCounterFunc$func ¦ div
  --   why: callers pass a non-zero period (GenerateTOTP / ValidateTOTP turn 0 into 30; the wasm binding checks period > 0; theorem C02/C04 models)
  ([111,116,112,46,84,105,109,101,67,111,117,110,116,101,114,70,117,110,99,36,102,117,110,99], [100,105,118]),
  -- otp.parseCryptoFunction ¦ slice
  --   why: HasPrefix(ToUpper(crypto), "HOTP-SHA") holds on this path and the text is ASCII (checked in parseRawSuite), so len(crypto) >= 8
  ([111,116,112,46,112,97,114,115,101,67,114,121,112,116,111,70,117,110,99,116,105,111,110], [115,108,105,99,101]),
  -- otp.parseDataInputTokens ¦ slice
  --   why: the token was tested with HasPrefix / len on its upper-case form (ASCII, same length), so it is long enough for the constant bound
  ([111,116,112,46,112,97,114,115,101,68,97,116,97,73,110,112,117,116,84,111,107,101,110,115], [115,108,105,99,101]),
  -- otp.shortDigit ¦ index
  --   why: called only with 1 <= digits <= 8 (deriveRFC4226: range check, then digits <= 8); i starts at digits-1 and only decreases
  ([111,116,112,46,115,104,111,114,116,68,105,103,105,116], [105,110,100,101,120]),
  -- otp.shortDigit ¦ slice
  --   why: called only with 1 <= digits <= 8 (see above); proved for the call sites when omega can see the guard
  ([111,116,112,46,115,104,111,114,116,68,105,103,105,116], [115,108,105,99,101]),
  -- otp.truncate ¦ div
  --   why: mod is a table entry 10^d > 0 (lemma mod10_eq_pow) or pow10Wasm(d) > 0
  ([111,116,112,46,116,114,117,110,99,97,116,101], [100,105,118]),
  -- otp.truncate ¦ index
  --   why: sum is an HMAC output (>= 20 bytes), the offset is masked to 0..15 (lemma truncate_eq)
  ([111,116,112,46,116,114,117,110,99,97,116,101], [105,110,100,101,120]),
  -- otp.truncate ¦ slice
  --   why: sum is an HMAC output (>= 20 bytes), the offset is masked to 0..15
  ([111,116,112,46,116,114,117,110,99,97,116,101], [115,108,105,99,101]),
  -- otp.DeriveRFC4226Wasm ¦ makeslice
  --   why: digits - len(s) is only evaluated when len(s) < digits (the padding branch)
  ([111,116,112,46,68,101,114,105,118,101,82,70,67,52,50,50,54,87,97,115,109], [109,97,107,101,115,108,105,99,101]),
  -- otp.DeriveRFC4226Wasm ¦ index
  --   why: loop index of the padding loop, bounded by the loop condition
  ([111,116,112,46,68,101,114,105,118,101,82,70,67,52,50,50,54,87,97,115,109], [105,110,100,101,120]),
  -- otp.padBytes ¦ makeslice
  --   why: length is one of the constants 8 / 128 at every call site
  ([111,116,112,46,112,97,100,66,121,116,101,115], [109,97,107,101,115,108,105,99,101]),
  -- otp.padBytes ¦ slice
  --   why: length is one of the constants 8 / 128 at every call site and the branch guarantees len(input) >= length
  ([111,116,112,46,112,97,100,66,121,116,101,115], [115,108,105,99,101])
]

def justifiedStoreSites : List (Nat × List Nat × List Nat × List Nat × List (List Nat)) := [
  -- (*otp/internal/app/api.Server).Start ¦ store param:s ¦ *s.cancelFunc
  --   why: the REST server records its own cancel function in its own receiver (not library code, not caller data of the library)
  (0, [40,42,111,116,112,47,105,110,116,101,114,110,97,108,47,97,112,112,47,97,112,105,46,83,101,114,118,101,114,41,46,83,116,97,114,116], [115,116,111,114,101,32,112,97,114,97,109,58,115], [42,115,46,99,97,110,99,101,108,70,117,110,99], []),
  -- otp/wasm.recovered$1$1 ¦ store freevar:result ¦ result
  --   why: the recover wrapper of the wasm binding assigns its own named result
  (1, [111,116,112,47,119,97,115,109,46,114,101,99,111,118,101,114,101,100,36,49,36,49], [115,116,111,114,101,32,102,114,101,101,118,97,114,58,114,101,115,117,108,116], [114,101,115,117,108,116], [])
]

end OtpVerif.Model
