/-
Model of the REST layer (internal/app/api: routers.go, handlers.go, dto.go `validate()` methods), as written:
method checks, the decode-error branch, the `validate()` field checks, the parameter mapping into the
library calls (with the documented defaults), status codes, and what goes into the response.
JSON decoding (`encoding/json`), fasthttp and the socket layer are *not* modelled: the model starts from the
decoded request (`none` = the body did not decode); the harness decodes the same body with the real
`encoding/json` into mirror structs and hands the result to the model.
-/
import OtpVerif.Model.Ocra
import OtpVerif.Model.Utils
import OtpVerif.Model.Url
import OtpVerif.Gen.Defaults

namespace OtpVerif.Model.Rest
open OtpVerif OtpVerif.Std OtpVerif.Model

structure OtpReq where
  secret : Bytes
  code : Bytes
  timestamp : Int      -- int64
  counter : Nat        -- uint64
  digits : Bytes
  algorithm : Bytes
  period : Nat         -- uint
  skew : Nat           -- uint
  deriving Repr

structure SuiteReq where
  hashFunction : Bytes
  codeDigits : Int
  challengeFormat : Int
  c : Bool
  q : Bool
  p : Bool
  s : Bool
  t : Bool
  passwordHash : Int
  timestep : Int
  deriving Repr

structure InputReq where
  counterHex : Bytes
  challengeHex : Bytes
  passwordHex : Bytes
  sessionHex : Bytes
  timestampHex : Bytes
  deriving Repr

structure OcraReq where
  secret : Bytes
  code : Bytes
  rawSuite : Bytes
  suite : Option SuiteReq
  input : Option InputReq
  deriving Repr

structure UrlReq where
  type : Bytes
  secret : Bytes
  issuer : Bytes
  account : Bytes
  period : Nat
  digits : Bytes
  algorithm : Bytes
  deriving Repr

/-- the decoded body, per DTO -/
inductive Body
  | otp (r : OtpReq)
  | ocra (r : OcraReq)
  | url (r : UrlReq)
  | suiteCfg (raw : Bytes)
  | undecodable
  deriving Repr

inductive Method | get | post | other deriving DecidableEq, Repr

/-- what a response carries (only what the properties constrain) -/
inductive Payload
  | none
  | code (code : Bytes) (timestamp : Int) (counter : Nat) (suite : Bytes)
  | valid (v : Bool)
  | url (u : Bytes)
  | secret (algoName : Bytes)            -- the secret itself is random
  | suites (names : List Bytes)
  | suiteConfig (raw : Bytes) (cfg : SuiteConfig)
  | home
  deriving Repr

structure Resp where
  status : Nat
  payload : Payload
  deriving Repr

def blank (s : Bytes) : Bool := (trimSpace s).isEmpty

/-- `DigitsFromStr` / `AlgorithmFromStr`: the documented spellings of code lengths and hashes; every other text means 6 digits / SHA-1.  (That the code
recognises exactly these is the regenerated fact `C18_fromStr_documented`.) -/
def documentedDigits : List (String × Nat) := [("6", 6), ("8", 8), ("9", 9), ("10", 10)]
def documentedAlgos : List (String × Nat) := [("SHA1", 0), ("SHA256", 1), ("SHA512", 2)]

def digitsFromStr (s : Bytes) : Nat :=
  match documentedDigits.find? (fun e => e.1.toUTF8.toList == s) with
  | some e => e.2
  | none => 6

def algoFromStr (s : Bytes) : Nat :=
  match documentedAlgos.find? (fun e => e.1.toUTF8.toList == s) with
  | some e => e.2
  | none => 0

def err (status : Nat) : Resp := ⟨status, .none⟩

/-- `Recovery` middleware: a panic inside the handler becomes 500 -/
def recover {α} (o : Out α) (k : α → Resp) (onErr : Err → Resp) : Resp :=
  match o with
  | .ok a => k a
  | .err e => onErr e
  | .panic => err 500

def totpGenerate (O : HashOracle) (m : Method) (b : Body) (now : Int) : Resp :=
  if m ≠ .post then err 405 else
  match b with
  | .otp r =>
    if blank r.secret then err 400 else
    let period := if r.period = 0 then 30 else r.period
    let t := if r.timestamp > 0 then r.timestamp else now
    recover (generateTOTP O (trimSpace r.secret) t (some ⟨digitsFromStr r.digits, period, 0, algoFromStr r.algorithm⟩))
      (fun code => ⟨200, .code code t 0 []⟩) (fun _ => err 500)
  | _ => err 400

def totpValidate (O : HashOracle) (m : Method) (b : Body) (now : Int) : Resp :=
  if m ≠ .post then err 405 else
  match b with
  | .otp r =>
    if blank r.secret then err 400 else if blank r.code then err 400 else
    let t := if r.timestamp > 0 then r.timestamp else now
    match validateTOTP O (trimSpace r.secret) r.code t (some ⟨digitsFromStr r.digits, r.period, r.skew, algoFromStr r.algorithm⟩) with
    | .ok (v, _) => ⟨200, .valid v⟩
    | .err _ => ⟨200, .valid false⟩
    | .panic => err 500
  | _ => err 400

def hotpGenerate (O : HashOracle) (m : Method) (b : Body) : Resp :=
  if m ≠ .post then err 405 else
  match b with
  | .otp r =>
    if blank r.secret then err 400 else
    recover (generateHOTP O r.secret r.counter (some ⟨digitsFromStr r.digits, 0, 0, algoFromStr r.algorithm⟩))
      (fun code => ⟨200, .code code 0 r.counter []⟩) (fun _ => err 500)
  | _ => err 400

def hotpValidate (O : HashOracle) (m : Method) (b : Body) : Resp :=
  if m ≠ .post then err 405 else
  match b with
  | .otp r =>
    if blank r.secret then err 400 else if blank r.code then err 400 else
    match validateHOTP O r.secret r.code r.counter (some ⟨digitsFromStr r.digits, 0, r.skew, algoFromStr r.algorithm⟩) with
    | .ok (v, _) => ⟨200, .valid v⟩
    | .err _ => ⟨200, .valid false⟩
    | .panic => err 500
  | _ => err 400

def sTotpB : Bytes := [116, 111, 116, 112]
def sHotpB : Bytes := [104, 111, 116, 112]

def otpURL (m : Method) (b : Body) : Resp :=
  if m ≠ .post then err 405 else
  match b with
  | .url r =>
    if blank r.type ∨ blank r.secret ∨ blank r.issuer ∨ blank r.account then err 400 else
    let p : URLParam := { issuer := r.issuer, account := r.account, secret := r.secret,
                          digits := digitsFromStr r.digits, algo := algoFromStr r.algorithm, period := r.period }
    if r.type = sTotpB then recover (generateTOTPURL p) (fun u => ⟨200, .url (Std.Url.urlString u)⟩) (fun _ => err 500)
    else if r.type = sHotpB then recover (generateHOTPURL p) (fun u => ⟨200, .url (Std.Url.urlString u)⟩) (fun _ => err 500)
    else err 400
  | _ => err 400

def algoNameOf (a : Nat) : Bytes := algoNameB a

/-- GET /otp/secret?algorithm=… (the secret is random: only status and the echoed algorithm name are modelled) -/
def randomSecretH (m : Method) (algorithmArg : Bytes) : Resp :=
  if m ≠ .get then err 405 else
  let a := algoFromStr algorithmArg
  if a ≥ 3 then err 500 else ⟨200, .secret (algoNameOf a)⟩

def cfgOfReq (s : SuiteReq) : SuiteConfig :=
  { raw := [], hash := algoFromStr s.hashFunction, digits := s.codeDigits, challenge := s.challengeFormat,
    incC := s.c, incQ := s.q, incP := s.p, incS := s.s, incT := s.t, pwHash := s.passwordHash, timeStep := s.timestep }

/-- the suite both OCRA handlers build: `NewSuite(structured)` first (400 on error), then a non-empty `raw_suite`
overrides it through `MustRawSuite` (which panics – 500 – if it is not instantiable) -/
def ocraSuite (r : OcraReq) : Except Resp SuiteConfig :=
  let fromStructured : Except Resp (Option SuiteConfig) :=
    match r.suite with
    | some s => (match newSuite (cfgOfReq s) with
        | .ok cfg => .ok (some cfg)
        | _ => .error (err 400))
    | none => .ok none
  match fromStructured with
  | .error e => .error e
  | .ok sOpt =>
    if !r.rawSuite.isEmpty then
      (match newRawSuite r.rawSuite with
        | .ok cfg => .ok cfg
        | _ => .error (err 500))                 -- MustRawSuite panics, Recovery answers 500
    else match sOpt with
      | some cfg => .ok cfg
      | none => .error (err 500)                 -- nil Suite dereference (unreachable after validate())

def ocraValidateReq (r : OcraReq) (needCode : Bool) : Option Resp :=
  if blank r.secret then some (err 400)
  else if needCode ∧ blank r.code then some (err 400)
  else if blank r.rawSuite ∧ r.suite.isNone then some (err 400)
  else if !(blank r.rawSuite) ∧ !(isKnownSuite r.rawSuite) then some (err 400)
  else if r.input.isNone then some (err 400)
  else none

def ocraInputOf (i : InputReq) : Out OCRAInput :=
  hexInputToOCRA i.counterHex i.challengeHex i.passwordHex i.sessionHex i.timestampHex

def ocraGenerate (O : HashOracle) (m : Method) (b : Body) : Resp :=
  if m ≠ .post then err 405 else
  match b with
  | .ocra r =>
    match ocraValidateReq r false with
    | some e => e
    | none =>
      match ocraSuite r, r.input with
      | .error e, _ => e
      | .ok cfg, some i =>
        (match ocraInputOf i with
          | .ok input => recover (generateOCRA O r.secret cfg input) (fun code => ⟨200, .code code 0 0 cfg.raw⟩) (fun _ => err 500)
          | _ => err 400)
      | .ok _, none => err 400
  | _ => err 400

def ocraValidate (O : HashOracle) (m : Method) (b : Body) : Resp :=
  if m ≠ .post then err 405 else
  match b with
  | .ocra r =>
    match ocraValidateReq r true with
    | some e => e
    | none =>
      match ocraSuite r, r.input with
      | .error e, _ => e
      | .ok cfg, some i =>
        (match ocraInputOf i with
          | .ok input =>
            (match validateOCRA O r.secret r.code cfg input with
              | .ok (v, _) => ⟨200, .valid v⟩
              | .err _ => ⟨200, .valid false⟩
              | .panic => err 500)
          | _ => err 400)
      | .ok _, none => err 400
  | _ => err 400

def listSuites (m : Method) : Resp :=
  if m ≠ .get then err 405 else ⟨200, .suites (Gen.registry.map (·.1))⟩

def suiteConfigH (m : Method) (b : Body) : Resp :=
  if m ≠ .post then err 405 else
  match b with
  | .suiteCfg raw =>
    if blank raw then err 400 else if !(isKnownSuite raw) then err 400
    else ⟨200, .suiteConfig raw (suiteConfigFromRaws raw)⟩
  | _ => err 400

def home (m : Method) : Resp := if m ≠ .get then err 405 else ⟨200, .home⟩

def pathOf (s : String) : Bytes := s.toUTF8.toList

inductive Route
  | totpGen | totpVal | hotpGen | hotpVal | ocraGen | ocraVal | suites | suite | url | secret | home | docs | docsSub | notFound
  deriving DecidableEq, Repr

/-- `routers`: exact path matches (query string already split off by the server) -/
def route (path : Bytes) : Route :=
  if path = [47, 100, 111, 99, 115] then .docs                                     -- "/docs"
  else if ([47, 100, 111, 99, 115, 47] : Bytes).isPrefixOf path then .docsSub     -- "/docs/"
  else if path = [47,116,111,116,112,47,103,101,110,101,114,97,116,101] then .totpGen
  else if path = [47,116,111,116,112,47,118,97,108,105,100,97,116,101] then .totpVal
  else if path = [47,104,111,116,112,47,103,101,110,101,114,97,116,101] then .hotpGen
  else if path = [47,104,111,116,112,47,118,97,108,105,100,97,116,101] then .hotpVal
  else if path = [47,111,99,114,97,47,103,101,110,101,114,97,116,101] then .ocraGen
  else if path = [47,111,99,114,97,47,118,97,108,105,100,97,116,101] then .ocraVal
  else if path = [47,111,99,114,97,47,115,117,105,116,101,115] then .suites
  else if path = [47,111,99,114,97,47,115,117,105,116,101] then .suite
  else if path = [47,111,116,112,47,117,114,108] then .url
  else if path = [47,111,116,112,47,115,101,99,114,101,116] then .secret
  else if path = [47] then .home
  else .notFound

/-- one request → one response; `now` is the server clock, `algorithmArg` the `algorithm` query argument -/
def handle (O : HashOracle) (m : Method) (path : Bytes) (b : Body) (algorithmArg : Bytes) (now : Int) : Resp :=
  match route path with
  | .docs => err 302
  | .docsSub => err 200                 -- third-party swagger handler: only "some complete response" is modelled
  | .totpGen => totpGenerate O m b now
  | .totpVal => totpValidate O m b now
  | .hotpGen => hotpGenerate O m b
  | .hotpVal => hotpValidate O m b
  | .ocraGen => ocraGenerate O m b
  | .ocraVal => ocraValidate O m b
  | .suites => listSuites m
  | .suite => suiteConfigH m b
  | .url => otpURL m b
  | .secret => randomSecretH m algorithmArg
  | .home => home m
  | .notFound => err 404

/-- the server is stateless: a sequence of requests is answered request by request -/
def serve (O : HashOracle) (reqs : List (Method × Bytes × Body × Bytes × Int)) : List Resp :=
  reqs.map (fun r => handle O r.1 r.2.1 r.2.2.1 r.2.2.2.1 r.2.2.2.2)

end OtpVerif.Model.Rest
