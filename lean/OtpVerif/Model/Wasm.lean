/-
Model of the js/wasm side: `DeriveRFC4226Wasm`, `pow10Wasm`, `ValidateOTPWasm` (derive_rfc4226_wasm.go,
validate_wasm.go) and the five functions the binding registers (wasm/main.go) with their argument
parsing over JavaScript values.  `syscall/js` and the JS engine are not modelled: the model starts at the
level of `js.Value`s classified by type, with `js.Value.Int()` as observed under Node (truncation toward
zero; NaN, ±Inf and |x| ≥ 2^63 give −2^63).
-/
import OtpVerif.Model.Otp
import OtpVerif.Model.Url
import OtpVerif.Model.Rest

namespace OtpVerif.Model.Wasm
open OtpVerif OtpVerif.Std OtpVerif.Model

/-- `pow10Wasm(n)`: `result *= 10`, n times, in uint64 -/
def pow10Wasm : Nat → Nat
  | 0 => 1
  | n + 1 => (pow10Wasm n * 10) % 2 ^ 64

/-- `strconv.FormatUint(v, 10)` then left-padding with '0' to `digits` characters (never truncating) -/
def formatPad (v digits : Nat) : Bytes :=
  let s := Std.Url.itoa v
  List.replicate (digits - s.length) 48 ++ s

/-- `DeriveRFC4226Wasm(secret, counter, digits, algo)` -/
def deriveWasm (O : HashOracle) (secret : Bytes) (counter digits algo : Nat) : Out Bytes :=
  if algo ≥ 3 then .err .unsupportedAlgorithm                 -- the `switch algo` default
  else if digits < 1 ∨ digits ≥ Gen.mod10.length then .err .invalidCodeLength
  else
    let m : Option Nat := if 1 ≤ digits ∧ digits ≤ 9 then Gen.mod10[digits]? else some (pow10Wasm digits)
    match m with
    | some m =>
      (match truncate (O.hmac algo secret (be8 counter)) m with
        | .ok code => .ok (formatPad code digits)
        | .err e => .err e
        | .panic => .panic)
    | none => .panic

/-- `ValidateOTPWasm(code, secret, counter, digits, algo)` -/
def validateWasm (O : HashOracle) (code secret : Bytes) (counter digits algo : Nat) : Out Verdict :=
  if code.length ≠ digits then .ok (false, some .invalidCodeLength)
  else match deriveWasm O secret counter digits algo with
    | .ok expected => if ctEq code expected then .ok (true, none) else .ok (false, some .invalidCode)
    | .err e => .ok (false, some e)
    | .panic => .panic

/-- JavaScript values as the binding sees them -/
inductive JsVal
  | undefined | null | bool (b : Bool)
  | int (z : Int)          -- a finite number whose truncation toward zero is z, |z| < 2^63
  | hugeNum                -- NaN, ±Infinity, or |x| ≥ 2^63: `Int()` gives −2^63
  | str (s : Bytes)
  | symbol | function | object | bigint
  deriving Repr

/-- what a registered function returns to JavaScript -/
inductive JsRes
  | str (s : Bytes)        -- a code or a URL
  | error                  -- a string starting with "error:"
  | bool (b : Bool)
  deriving DecidableEq, Repr

/-- `parseStringArg`: a non-empty JS string -/
def parseStringArg : JsVal → Option Bytes
  | .str s => if s.isEmpty then none else some s
  | _ => none

/-- `parseIntArg`: a JS number whose `Int()` is non-negative (BigInt makes `Type()` panic: recovered → error) -/
def parseIntArg : JsVal → Option Int
  | .int z => if z < 0 then none else some z
  | .hugeNum => none                               -- −2^63 < 0
  | _ => none

def generateOTP (O : HashOracle) (secret : Bytes) (counter : Nat) (digits algo : Nat) : JsRes :=
  match decodeSecret secret with
  | .ok key => (match deriveWasm O key counter digits algo with | .ok code => .str code | _ => .error)
  | _ => .error

def jsGenerateHOTP (O : HashOracle) (args : List JsVal) : JsRes :=
  match args with
  | [a0, a1, a2, a3] =>
    match parseStringArg a0, parseIntArg a1, parseStringArg a2, parseStringArg a3 with
    | some secret, some counter, some d, some a => generateOTP O secret (toU64 counter) (Rest.digitsFromStr d) (Rest.algoFromStr a)
    | _, _, _, _ => .error
  | _ => .error

def jsGenerateTOTP (O : HashOracle) (args : List JsVal) : JsRes :=
  match args with
  | [a0, a1, a2, a3, a4] =>
    match parseStringArg a0, parseIntArg a1, parseStringArg a2, parseStringArg a3, parseIntArg a4 with
    | some secret, some ts, some d, some a, some period =>
      if period ≤ 0 ∨ period > 3600 then .error
      else match timeCounter ts period.toNat with
        | .ok counter => generateOTP O secret counter (Rest.digitsFromStr d) (Rest.algoFromStr a)
        | _ => .error
    | _, _, _, _, _ => .error
  | _ => .error

/-- loop body of the binding's `validateHOTP`: `currCounter := int64(counter) + int64(i); if currCounter < 0 { continue }` -/
def wasmHotpProbe (check : Nat → Out Bool) (counter : Int) (i : Int) : Out Bool :=
  if counter + i < 0 then .ok false else check (toU64 (counter + i))

def jsValidateHOTP (O : HashOracle) (args : List JsVal) : JsRes :=
  match args with
  | [a0, a1, a2, a3, a4, a5] =>
    match parseStringArg a0, parseStringArg a1, parseIntArg a2, parseStringArg a3, parseStringArg a4, parseIntArg a5 with
    | some secret, some code, some counter, some d, some a, some skew =>
      if skew < 0 ∨ skew > 10 then .error
      else match decodeSecret secret with
        | .ok key =>
          let check := fun c => accepted (validateWasm O code key c (Rest.digitsFromStr d) (Rest.algoFromStr a))
          (match windowLoop (wasmHotpProbe check counter) skew (2 * skew.toNat + 1) (-skew) with
            | .ok b => .bool b
            | _ => .error)
        | _ => .error
    | _, _, _, _, _, _ => .error
  | _ => .error

def jsValidateTOTP (O : HashOracle) (args : List JsVal) : JsRes :=
  match args with
  | [a0, a1, a2, a3, a4, a5, a6] =>
    match parseStringArg a0, parseStringArg a1, parseIntArg a2, parseStringArg a3, parseStringArg a4, parseIntArg a5, parseIntArg a6 with
    | some secret, some code, some ts, some d, some a, some skew, some period =>
      if skew < 0 ∨ skew > 10 then .error
      else if period ≤ 0 then .error
      else match decodeSecret secret with
        | .ok key =>
          (match timeCounter ts period.toNat with
            | .ok counter =>
              let check := fun c => accepted (validateWasm O code key c (Rest.digitsFromStr d) (Rest.algoFromStr a))
              (match windowLoop (totpProbe check counter) skew (2 * skew.toNat + 1) (-skew) with
                | .ok b => .bool b
                | _ => .error)
            | _ => .error)
        | _ => .error
    | _, _, _, _, _, _, _ => .error
  | _ => .error

def jsGenerateOTPURL (args : List JsVal) : JsRes :=
  match args with
  | [a0, a1, a2, a3, a4, a5] =>
    match parseStringArg a0, parseStringArg a1, parseStringArg a2, parseStringArg a3, parseStringArg a4, parseStringArg a5 with
    | some ty, some issuer, some account, some secret, some d, some a =>
      let p : URLParam := { issuer := issuer, account := account, secret := secret, digits := Rest.digitsFromStr d,
                            algo := Rest.algoFromStr a, period := 0 }
      let r := if ty = Rest.sTotpB then some (generateTOTPURL p) else if ty = Rest.sHotpB then some (generateHOTPURL p) else none
      (match r with
        | some (.ok u) => .str (Std.Url.urlString u)
        | _ => .error)
    | _, _, _, _, _, _ => .error
  | _ => .error

end OtpVerif.Model.Wasm
