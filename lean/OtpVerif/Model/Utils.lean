/-
Model of utils.go, `HexInputToOCRA` and `RandomSecret` (otp.go), with the stdlib pieces they use
(`strconv.ParseUint(s, 10, 64)`, `encoding/hex.DecodeString`, `math/big` decimal ↦ hex as `Nat`
arithmetic, `crypto/rand.Read` as consumption of a byte stream).
-/
import OtpVerif.Basic
import OtpVerif.Std.Base32

namespace OtpVerif.Model
open OtpVerif

/-! ### stdlib models (trusted, validated by `std.*` correspondence ops) -/

/-- value of a string of ASCII digits -/
def decValue (s : Bytes) : Nat := s.foldl (fun n c => n * 10 + (c.toNat - 48)) 0

/-- `strconv.ParseUint(s, 10, 64)`: non-empty, digits only (no sign, no '_'), value < 2^64 -/
def parseUint64 (s : Bytes) : Option Nat :=
  if s.isEmpty then none
  else if s.all isDigitChar then (if decValue s < 2 ^ 64 then some (decValue s) else none)
  else none

def unhex (c : UInt8) : Option Nat :=
  if 48 ≤ c.toNat ∧ c.toNat ≤ 57 then some (c.toNat - 48)
  else if 97 ≤ c.toNat ∧ c.toNat ≤ 102 then some (c.toNat - 97 + 10)
  else if 65 ≤ c.toNat ∧ c.toNat ≤ 70 then some (c.toNat - 65 + 10)
  else none

/-- `hex.DecodeString`: pairs of hex digits (either case); odd length or a non-hex byte is an error -/
def hexDecode : Bytes → Option Bytes
  | [] => some []
  | [_] => none
  | h :: l :: rest =>
    match unhex h, unhex l, hexDecode rest with
    | some a, some b, some r => some ((a * 16 + b).toUInt8 :: r)
    | _, _, _ => none

def hexDigitUpper (n : Nat) : UInt8 := if n < 10 then (48 + n).toUInt8 else (55 + n).toUInt8

/-- upper-case hexadecimal numeral of `n` without leading zeros ("0" for 0): `ToUpper(big.Int.Text(16))` -/
def hexOfNatAux : Nat → Nat → Bytes → Bytes
  | 0, _, acc => acc
  | fuel + 1, n, acc => if n = 0 then acc else hexOfNatAux fuel (n / 16) (hexDigitUpper (n % 16) :: acc)
def hexOfNat (n : Nat) : Bytes := if n = 0 then [48] else hexOfNatAux (n + 1) n []

/-- optional sign of `big.Int.SetString` -/
def splitSign : Bytes → Bool × Bytes
  | 43 :: r => (false, r)
  | 45 :: r => (true, r)
  | s => (false, s)

/-- `new(big.Int).SetString(s, 10)`: optional sign, at least one digit, digits only.  Returns (negative?, magnitude). -/
def bigSetString (s : Bytes) : Option (Bool × Nat) :=
  let p := splitSign s
  if p.2.isEmpty then none
  else if p.2.all isDigitChar then some (p.1 && decide (decValue p.2 ≠ 0), decValue p.2)
  else none

/-! ### utils.go -/

/-- `To8ByteBigEndian(v)` – the loop `out[i] = byte(v & 0xFF); v >>= 8` for i = 7..0 -/
def to8Loop : Nat → Nat → Bytes → Bytes
  | 0, _, out => out
  | i + 1, v, out => to8Loop i (v / 256) (out.set i (v % 256).toUInt8)
def to8ByteBigEndian (v : Nat) : Bytes := to8Loop 8 v (List.replicate 8 0)

/-- `ParseDecimalToBigEndian8` and `ParseDecimal64BigEndian` (identical bodies) -/
def parseDecimalToBE8 (s : Bytes) : Out Bytes :=
  match parseUint64 s with
  | some v => .ok (to8ByteBigEndian v)
  | none => .err .badNumber

/-- `LeftPadHex(s, totalLen)`; a negative width makes `s[len(s)-totalLen:]` panic -/
def leftPadHex (s : Bytes) (totalLen : Int) : Out Bytes :=
  if (s.length : Int) ≥ totalLen then
    if totalLen < 0 then .panic else .ok (s.drop (s.length - totalLen.toNat))
  else .ok (List.replicate (totalLen.toNat - s.length) 48 ++ s)

/-- `MustHexPadLeft(hexStr, size)`: `hex.DecodeString(LeftPadHex(hexStr, size*2))`, panicking (documented) when that fails -/
def mustHexPadLeft (s : Bytes) (size : Int) : Out Bytes :=
  match leftPadHex s (size * 2) with
  | .ok padded => (match hexDecode padded with | some b => .ok b | none => .panic)
  | .err e => .err e
  | .panic => .panic

/-- `ParseHexTimestamp`: `for len(ts) < 16 { ts = "0" + ts }; hex.DecodeString(ts)` -/
def parseHexTimestamp (ts : Bytes) : Out Bytes :=
  let padded := List.replicate (16 - ts.length) 48 ++ ts
  match hexDecode padded with
  | some b => .ok b
  | none => .err .badHex

/-- `ParseDecimalChallengeRFC6287` -/
def parseDecimalChallenge (s : Bytes) : Out Bytes :=
  match bigSetString s with
  | none => .err .badNumber
  | some (neg, mag) =>
    let hx := (if neg then [45] else []) ++ hexOfNat mag            -- "-" survives ToUpper and breaks hex decoding
    let hx := hx ++ List.replicate (256 - hx.length) 48
    match hexDecode hx with
    | some b => .ok b
    | none => .err .badHex

/-- `HexInputToOCRA`: "" ↦ nil, otherwise hex-decoded; the first failing field (in order) gives the error -/
def hexField (s : Bytes) : Option Bytes := if s.isEmpty then some [] else hexDecode s

def hexInputToOCRA (counter challenge password session timestamp : Bytes) : Out OCRAInput :=
  match hexField counter, hexField challenge, hexField password, hexField session, hexField timestamp with
  | some a, some b, some c, some d, some e => .ok ⟨a, b, c, d, e⟩
  | _, _, _, _, _ => .err .badHex

/-! ### RandomSecret -/

/-- `RandomSecret(algo)` over the bytes `rand.Reader` will deliver: result and the remaining stream -/
def randomSecret (algo : Nat) (stream : Bytes) : Out Bytes × Bytes :=
  if algo ≥ 3 then (.err .unsupportedAlgorithm, stream)
  else
    let size := hashLen algo
    if stream.length < size then (.err .rng, [])
    else (.ok ((Std.B32.encNoPad ((stream.take size).map UInt8.toNat)).map Nat.toUInt8), stream.drop size)

end OtpVerif.Model
