/-
Model of derive.go and derive_rfc4226.go, written to mirror the Go code as it is
(table lookup, the uint32 shift/or/mask of `truncate`, the two formatters with their loops,
the range checks in their order).  Every Go operation that can panic is written through a
checked primitive, so "never `panic`" is a statement with content.
-/
import OtpVerif.Basic
import OtpVerif.Gen.Tables

namespace OtpVerif.Model
open OtpVerif

/-- `truncate(sum, mod)`:
```go
offset := sum[len(sum)-1] & maskOffset
bin := uint32(sum[offset])<<24 | uint32(sum[offset+1])<<16 | uint32(sum[offset+2])<<8 | uint32(sum[offset+3])
code := bin & mask31BitInt
return uint32(uint64(code) % mod)
``` -/
def truncate (sum : Bytes) (mod : Nat) : Out Nat :=
  match sum.getLast? with
  | none => .panic                                        -- sum[len(sum)-1] on an empty slice
  | some l =>
    let off := (l &&& (UInt8.ofNat Gen.maskOffset)).toNat
    match sum[off]?, sum[off+1]?, sum[off+2]?, sum[off+3]? with
    | some a, some b, some c, some d =>
      let bin : UInt32 := (a.toUInt32 <<< 24) ||| (b.toUInt32 <<< 16) ||| (c.toUInt32 <<< 8) ||| d.toUInt32
      let code := bin &&& (UInt32.ofNat Gen.mask31)
      if mod = 0 then .panic                               -- integer divide by zero
      else .ok ((code.toNat % mod) % 2 ^ 32)                -- uint32(uint64(code) % mod)
    | _, _, _, _ => .panic                                 -- index out of range

/-- first loop of `shortDigit`: `for otp > 0 && i >= 0 { pad[i] = '0'+byte(otp%10); otp /= 10; i-- }`
(argument `i1 = i+1`; returns the final `i+1` and the array) -/
def shortLoop1 : Nat → Nat → List UInt8 → Nat × List UInt8
  | 0, _, pad => (0, pad)
  | i + 1, otp, pad =>
    if otp > 0 then shortLoop1 i (otp / 10) (pad.set i (digitChar otp)) else (i + 1, pad)

/-- second loop: `for ; i >= 0; i-- { pad[i] = '0' }` -/
def shortLoop2 : Nat → List UInt8 → List UInt8
  | 0, pad => pad
  | i + 1, pad => shortLoop2 i (pad.set i 48)

/-- `shortDigit(otp, digits)`: an 8-cell array, so `digits > 8` panics (`pad[i]`, `pad[:digits]`) -/
def shortDigit (otp digits : Nat) : Out Bytes :=
  if digits > 8 then .panic
  else
    let r := shortLoop1 digits otp (List.replicate 8 0)
    .ok ((shortLoop2 r.1 r.2).take digits)

/-- loop of `longDigit` / `formatDecimal`: `for i := digits-1; i >= 0; i-- { out[i] = '0'+otp%10; otp /= 10 }` -/
def longLoop : Nat → Nat → List UInt8 → List UInt8
  | 0, _, out => out
  | i + 1, otp, out => longLoop i (otp / 10) (out.set i (digitChar otp))

/-- `longDigit(otp, digits)` (`make([]byte, digits)`; digits is non-negative here) -/
def longDigit (otp digits : Nat) : Bytes := longLoop digits otp (List.replicate digits 0)

/-- `formatDecimal(val, digits)`: same loop (used by OCRA) -/
def formatDecimal (val digits : Nat) : Bytes := longLoop digits val (List.replicate digits 0)

/-- `padBytes(input, length)`: prefix if long enough, else zero-extended copy -/
def padBytes (input : Bytes) (length : Nat) : Bytes :=
  if input.length ≥ length then input.take length
  else input ++ List.replicate (length - input.length) 0

/-- which HMAC `hmacPools[i].new` is, as identified by the extractor from its behaviour -/
def hashIdOf (i : Nat) : Option Nat := Gen.hashIds[i]?

/-- `deriveRFC4226(secret, counter, digits, algo)`; `digits` is `Digits.Int()` (0..255), `algo` a uint8 -/
def deriveRFC4226 (O : HashOracle) (secret : Bytes) (counter digits algo : Nat) : Out Bytes :=
  if algo ≥ Gen.nHash then .err .unsupportedAlgorithm
  else if digits < 1 ∨ digits ≥ Gen.mod10.length then .err .invalidCodeLength
  else
    match hashIdOf algo, Gen.mod10[digits]? with
    | some h, some m =>
      let sum := O.hmac h secret (be8 counter)
      match truncate sum m with
      | .ok otp => if digits ≤ 8 then shortDigit otp digits else .ok (longDigit otp digits)
      | .err e => .err e
      | .panic => .panic
    | _, _ => .panic

end OtpVerif.Model
