/-
Model of decoder.go (`DecodeSecret`), as written:
  TrimSpace; alphabet check (A-Z a-z 2-7 '='); re-pad with '=' to a multiple of 8; ToUpper;
  base32.StdEncoding.DecodeString.
-/
import OtpVerif.Basic
import OtpVerif.Std.Base32
import OtpVerif.Std.Strings

namespace OtpVerif.Model
open OtpVerif OtpVerif.Std

/-- the per-byte test of the loop in `DecodeSecret` -/
def secretCharOk (c : UInt8) : Bool :=
  (65 ≤ c.toNat && c.toNat ≤ 90) || (97 ≤ c.toNat && c.toNat ≤ 122) || (50 ≤ c.toNat && c.toNat ≤ 55) || c.toNat = 61

/-- `if n := len(secret) % 8; n != 0 { secret += strings.Repeat("=", 8-n) }` -/
def repad (s : Bytes) : Bytes :=
  let n := s.length % 8
  if n ≠ 0 then s ++ List.replicate (8 - n) 61 else s

def decodeSecret (secret : Bytes) : Out Bytes :=
  let s := trimSpace secret
  if s.all secretCharOk = false then .err .badSecret
  else
    let s := toUpperAscii (repad s)
    match B32.decode (s.map UInt8.toNat) with
    | some bs => .ok (bs.map Nat.toUInt8)
    | none => .err .badSecret

end OtpVerif.Model
