/-
Model of the provisioning-URL code (otp.go: `generateOTPURL`, `GenerateTOTPURL`, `GenerateHOTPURL`,
`ParseOTPAuthURL`), as written after the fix: commits (raw label stored in `URL.Path`, range-checked
`digits` / `period`).
-/
import OtpVerif.Basic
import OtpVerif.Std.Url
import OtpVerif.Gen.Defaults

namespace OtpVerif.Model
open OtpVerif OtpVerif.Std OtpVerif.Std.Url

/-- `otp.URLParam` -/
structure URLParam where
  issuer : Bytes
  account : Bytes
  secret : Bytes
  digits : Nat      -- uint8
  algo : Nat        -- uint8
  period : Nat      -- uint
  deriving DecidableEq, Repr

def sOtpauth : Bytes := [111, 116, 112, 97, 117, 116, 104]
def sTotp : Bytes := [116, 111, 116, 112]
def sHotp : Bytes := [104, 111, 116, 112]
def kSecret : Bytes := [115, 101, 99, 114, 101, 116]
def kIssuer : Bytes := [105, 115, 115, 117, 101, 114]
def kAlgorithm : Bytes := [97, 108, 103, 111, 114, 105, 116, 104, 109]
def kDigits : Bytes := [100, 105, 103, 105, 116, 115]
def kPeriod : Bytes := [112, 101, 114, 105, 111, 100]
def kCounter : Bytes := [99, 111, 117, 110, 116, 101, 114]

/-- `Algorithm.String()`: the three names as bytes, "" for any other value (map miss); compared with the regenerated `Gen.algoNames` by the driver self-test and the urlg correspondence -/
def algoNameB (a : Nat) : Bytes :=
  if a = 0 then [83, 72, 65, 49] else if a = 1 then [83, 72, 65, 50, 53, 54] else if a = 2 then [83, 72, 65, 53, 49, 50] else []

/-- `generateOTPURL(kind, param, extra)` with `extra` = the single type-specific pair (keys come out sorted:
algorithm < counter < digits < issuer < period < secret) -/
def generateOTPURL (kind : Bytes) (p : URLParam) (extraKey extraVal : Bytes) : Out URL :=
  if p.issuer.isEmpty then .err .issuerRequired
  else if p.account.isEmpty then .err .accountRequired
  else
    let digits := if p.digits = 0 then 6 else p.digits
    if p.secret.isEmpty then .err .secretRequired
    else
      let label := p.issuer ++ 58 :: p.account
      let a := (kAlgorithm, algoNameB p.algo)
      let d := (kDigits, itoa digits)
      let i := (kIssuer, p.issuer)
      let s := (kSecret, p.secret)
      -- the extra pair at its sorted position
      let kvs := if extraKey = kCounter then [a, (extraKey, extraVal), d, i, s] else [a, d, i, (extraKey, extraVal), s]
      .ok { scheme := sOtpauth, host := kind, path := 47 :: label, rawQuery := valuesEncode kvs }

def generateTOTPURL (p : URLParam) : Out URL :=
  let period := if p.period = 0 then 30 else p.period
  generateOTPURL sTotp p kPeriod (itoa period)

def generateHOTPURL (p : URLParam) : Out URL := generateOTPURL sHotp p kCounter [48]

/-- `strings.ToUpper(algStr)` matched against the three names (see `Std.toUpperFold`) -/
def algoOfText (s : Bytes) : Option Nat :=
  match toUpperFold s with
  | some u => if u = [83, 72, 65, 49] then some 0 else if u = [83, 72, 65, 50, 53, 54] then some 1
              else if u = [83, 72, 65, 53, 49, 50] then some 2 else none
  | none => none

/-- `ParseOTPAuthURL(u)` for a non-nil URL -/
def parseOTPAuthURL (u : URL) : Out URLParam :=
  if u.scheme ≠ sOtpauth then .err .badUrl
  else
    let t := toLowerFold u.host
    if t ≠ some sTotp ∧ t ≠ some sHotp then .err .badUrl
    else
      let trimmed := match u.path with | 47 :: r => r | p => p          -- TrimPrefix(u.Path, "/")
      match splitFirst 58 trimmed with
      | none => .err .badUrl
      | some (issuer, account) =>
        let q := parseQuery u.rawQuery
        let dStr := queryGet q kDigits
        let aStr := queryGet q kAlgorithm
        let pStr := queryGet q kPeriod
        let digits : Option Nat :=
          if dStr.isEmpty then some 6
          else match atoi dStr with
            | some d => if 0 ≤ d ∧ d ≤ 255 then some d.toNat else none
            | none => none
        let algo : Option Nat := if aStr.isEmpty then some 0 else algoOfText aStr
        let period : Option Nat :=
          if pStr.isEmpty then some 30
          else match atoi pStr with
            | some p => if 0 ≤ p then some p.toNat else none
            | none => none
        match digits, algo, period with
        | some d, some a, some p => .ok { issuer := issuer, account := account, secret := queryGet q kSecret, digits := d, algo := a, period := p }
        | _, _, _ => .err .badUrl


namespace Url.Run
open OtpVerif.Std.Url

def hexVal (c : Char) : Option Nat :=
  if '0' ≤ c ∧ c ≤ '9' then some (c.toNat - 48)
  else if 'a' ≤ c ∧ c ≤ 'f' then some (c.toNat - 87)
  else none
def unhexList : List Char → Option Bytes
  | [] => some []
  | [_] => none
  | h :: l :: rest =>
    match hexVal h, hexVal l, unhexList rest with
    | some a, some b, some r => some ((a * 16 + b).toUInt8 :: r)
    | _, _, _ => none
def unhexS (s : String) : Option Bytes := if s = "-" ∨ s = "nil" then some [] else unhexList s.toList
def hexNib (n : Nat) : Char := if n < 10 then Char.ofNat (48 + n) else Char.ofNat (87 + n)
def hex (b : Bytes) : String :=
  if b.isEmpty then "-" else String.ofList (b.foldr (fun x acc => hexNib (x.toNat / 16) :: hexNib (x.toNat % 16) :: acc) [])

def showParam (p : URLParam) : String :=
  s!"{hex p.issuer} {hex p.account} {hex p.secret} {p.digits} {p.algo} {p.period}"

/-- C16 spec for the round trip: the generated URL has scheme otpauth and the requested type, and parsing its
text returns issuer, account, secret, code length (0 ↦ 6), hash and – for TOTP – period (0 ↦ 30) -/
def urlgSpec (kind : String) (p : URLParam) : Option String :=
  if p.issuer.isEmpty ∨ p.account.isEmpty ∨ p.secret.isEmpty then some "err"
  else if p.issuer.contains 58 ∨ p.algo ≥ 3 ∨ p.digits > 255 ∨ p.period ≥ 2 ^ 31 + 1 then none
  else
    let d := if p.digits = 0 then 6 else p.digits
    let per := if kind = "totp" then (if p.period = 0 then 30 else p.period) else 30
    some s!"ok * {hex sOtpauth} {hex (if kind = "totp" then sTotp else sHotp)} {hex p.issuer} {hex p.account} {hex p.secret} {d} {p.algo} {per}"

/-- a plain decimal numeral (optional sign) and its value -/
def numeralValue (s : Bytes) : Option Int :=
  let (neg, ds) : Bool × Bytes := match s with
    | 43 :: r => (false, r)
    | 45 :: r => (true, r)
    | _ => (false, s)
  if ds.isEmpty ∨ !(ds.all isDigitChar) then none
  else let v : Nat := ds.foldl (fun (n : Nat) c => n * 10 + (c.toNat - 48)) 0
       some (if neg then -(v : Int) else (v : Int))

/-- C16 spec for parse-only: either the parse fails, or the code length / period it returns are exactly the
numbers written in the URL (absent ↦ 6 / 30); text that is not a number, or a number that does not fit
(code length 0..255, period ≥ 0), must fail -/
def urlpSpec (u : URL) : Option String :=
  let q := parseQuery u.rawQuery
  let dS := queryGet q kDigits
  let pS := queryGet q kPeriod
  let want (s : Bytes) (dflt : Int) (hi : Option Int) : Option (Option Int) :=   -- none = must fail
    if s.isEmpty then some (some dflt)
    else match numeralValue s with
      | none => none
      | some v => if v < 0 then none else match hi with
          | some h => if v > h then none else some (some v)
          | none => some (some v)
  match want dS 6 (some 255), want pS 30 none with
  | some (some d), some (some p) => some s!"if-ok * * * {d} * {p}"
  | _, _ => some "err *"

/-- `urlg kind issuer account secret digits algo period`: generate, String(), Parse, ParseOTPAuthURL -/
def urlg (f : List String) : String :=
  match f with
  | [kind, iss, acc, sec, d, a, per] =>
    match unhexS iss, unhexS acc, unhexS sec, d.toNat?, a.toNat?, per.toNat? with
    | some iss, some acc, some sec, some d, some a, some per =>
      let p : URLParam := { issuer := iss, account := acc, secret := sec, digits := d, algo := a, period := per }
      match (if kind = "totp" then generateTOTPURL p else generateHOTPURL p) with
      | .ok u =>
        let text := urlString u
        (match urlParse text with
          | .ok u2 =>
            (match parseOTPAuthURL u2 with
              | .ok q => s!"ok {hex text} {hex u2.scheme} {hex u2.host} {showParam q}"
              | _ => s!"ok {hex text} err parse-otp")
          | .err => s!"ok {hex text} err parse-url"
          | .unsupported => "unsupported") ++ (match urlgSpec kind p with | some sp => "\t" ++ sp | none => "")
      | _ => "err gen" ++ (match urlgSpec kind p with | some sp => "\t" ++ sp | none => "")
    | _, _, _, _, _, _ => "bad-op"
  | _ => "bad-op"

def urlp (f : List String) : String :=
  match f with
  | ["NIL"] => "err parse-otp"
  | [raw] =>
    match unhexS raw with
    | some raw =>
      (match urlParse raw with
        | .ok u => (match parseOTPAuthURL u with | .ok q => "ok " ++ showParam q | _ => "err parse-otp") ++
                     (match urlpSpec u with | some sp => "\t" ++ sp | none => "")
        | .err => "err parse-url"
        | .unsupported => "unsupported")
    | none => "bad-op"
  | _ => "bad-op"

end Url.Run

end OtpVerif.Model
