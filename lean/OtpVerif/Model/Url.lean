import OtpVerif.Basic
namespace OtpVerif.Model.Url.Run
def urlg (_ : List String) : String := "bad-op"
def urlp (_ : List String) : String := "bad-op"
end OtpVerif.Model.Url.Run
