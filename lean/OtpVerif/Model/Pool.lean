/-
Pool / ownership protocol (C11): any number of threads, any interleaving, garbage collections that empty
the pool at arbitrary points, and an adversary – every thread may write arbitrary bytes into a buffer it
holds (an adversary is simply a thread that gets, scribbles and puts).  Buffers are addresses; `get` takes
any pooled address or a fresh one, `put` returns the held address.
Invariant: no address is held by two threads, a held address is not in the pool, the pool has no
duplicates; hence what a thread's callee reads from its buffer is what that thread itself last wrote,
whatever everybody else did in between.
(sync.Pool's real implementation – per-P caches, victim cache – and the Go memory model are assumed to
implement this abstraction; the race-detector stress run supports that, it is not part of the proof.)
-/
import OtpVerif.Basic

namespace OtpVerif.Model.Pool


abbrev Bytes := List UInt8

structure Thread where
  held    : Option Nat := none
  wrote   : Option Bytes := none      -- what this thread itself last wrote into the held buffer
  seen    : Option Bytes := none      -- what the callee (HMAC) read
  deriving Inhabited

structure World where
  mem     : Nat → Bytes
  pool    : List Nat
  threads : Nat → Thread
  next    : Nat

def upd (f : Nat → Thread) (i : Nat) (t : Thread) : Nat → Thread := fun j => if j = i then t else f j

theorem upd_cases {f : Nat → Thread} {i x : Nat} {t : Thread} (P : Thread → Prop) (hx : P (upd f i t x)) :
    (x = i ∧ P t) ∨ (x ≠ i ∧ P (f x)) := by
  unfold upd at hx
  by_cases h : x = i
  · left; rw [if_pos h] at hx; exact ⟨h, hx⟩
  · right; rw [if_neg h] at hx; exact ⟨h, hx⟩

inductive Step : World → World → Prop
  | getPooled (w) (i a l1 l2) : (w.threads i).held = none → w.pool = l1 ++ a :: l2 →
      Step w ⟨w.mem, l1 ++ l2, upd w.threads i { held := some a }, w.next⟩
  | getFresh (w) (i) : (w.threads i).held = none →
      Step w ⟨w.mem, w.pool, upd w.threads i { held := some w.next }, w.next + 1⟩
  | write (w) (i a bs) : (w.threads i).held = some a →
      Step w ⟨fun x => if x = a then bs else w.mem x, w.pool, upd w.threads i { (w.threads i) with wrote := some bs }, w.next⟩
  | read (w) (i a) : (w.threads i).held = some a →
      Step w ⟨w.mem, w.pool, upd w.threads i { (w.threads i) with seen := some (w.mem a) }, w.next⟩
  | put (w) (i a) : (w.threads i).held = some a →
      Step w ⟨w.mem, a :: w.pool, upd w.threads i { held := none }, w.next⟩
  | gc (w) : Step w ⟨w.mem, [], w.threads, w.next⟩

structure PInv (w : World) : Prop where
  excl   : ∀ i j a, i ≠ j → (w.threads i).held = some a → (w.threads j).held ≠ some a
  notIn  : ∀ i a, (w.threads i).held = some a → a ∉ w.pool
  nodup  : w.pool.Nodup
  fresh1 : ∀ a ∈ w.pool, a < w.next
  fresh2 : ∀ i a, (w.threads i).held = some a → a < w.next
  coh    : ∀ i a bs, (w.threads i).held = some a → (w.threads i).wrote = some bs → w.mem a = bs

def init (m : Nat → Bytes) : World := ⟨m, [], fun _ => {}, 0⟩

theorem inv_init (m) : PInv (init m) := by
  constructor <;> intros <;> simp_all [init]

theorem inv_step {w w'} (h : PInv w) (s : Step w w') : PInv w' := by
  cases s with
  | getPooled i a l1 l2 hnone hp =>
    have hnd := h.nodup; rw [hp] at hnd
    have hsplit := List.nodup_append.mp hnd
    have ha_in : a ∈ w.pool := by rw [hp]; simp
    have ha_notin : a ∉ l1 ++ l2 := by
      intro hmem
      rcases List.mem_append.mp hmem with h1 | h2
      · exact hsplit.2.2 a h1 a List.mem_cons_self rfl
      · exact (List.nodup_cons.mp hsplit.2.1).1 h2
    have hsub : ∀ b, b ∈ l1 ++ l2 → b ∈ w.pool := by
      intro b hb; rw [hp]
      rcases List.mem_append.mp hb with h1 | h2
      · exact List.mem_append_left _ h1
      · exact List.mem_append_right _ (List.mem_cons_of_mem _ h2)
    constructor
    · intro x y b hxy hx0 hy0
      rcases upd_cases (fun t => t.held = some b) hx0 with ⟨rfl, hx⟩ | ⟨hxi, hx⟩ <;>
      rcases upd_cases (fun t => t.held = some b) hy0 with ⟨rfl, hy⟩ | ⟨hyi, hy⟩
      · exact hxy rfl
      · simp at hx; subst hx; exact h.notIn y a hy ha_in
      · simp at hy; subst hy; exact h.notIn x a hx ha_in
      · exact h.excl x y b hxy hx hy
    · intro x b hx0
      rcases upd_cases (fun t => t.held = some b) hx0 with ⟨rfl, hx⟩ | ⟨hxi, hx⟩
      · simp at hx; subst hx; exact ha_notin
      · exact fun hm => h.notIn x b hx (hsub b hm)
    · refine List.nodup_append.mpr ⟨hsplit.1, (List.nodup_cons.mp hsplit.2.1).2, ?_⟩
      intro x hx y hy
      exact hsplit.2.2 x hx y (List.mem_cons_of_mem _ hy)
    · intro b hb; exact h.fresh1 b (hsub b hb)
    · intro x b hx0
      rcases upd_cases (fun t => t.held = some b) hx0 with ⟨rfl, hx⟩ | ⟨hxi, hx⟩
      · simp at hx; subst hx; exact h.fresh1 a ha_in
      · exact h.fresh2 x b hx
    · intro x b bs hx0 hw
      rcases upd_cases (fun t => t.held = some b) hx0 with ⟨rfl, hx⟩ | ⟨hxi, hx⟩
      · simp [upd] at hw
      · simp only [upd, if_neg hxi] at hw; exact h.coh x b bs hx hw
  | getFresh i hnone =>
    constructor
    · intro x y b hxy hx0 hy0
      rcases upd_cases (fun t => t.held = some b) hx0 with ⟨rfl, hx⟩ | ⟨hxi, hx⟩ <;>
      rcases upd_cases (fun t => t.held = some b) hy0 with ⟨rfl, hy⟩ | ⟨hyi, hy⟩
      · exact hxy rfl
      · simp at hx; subst hx; have := h.fresh2 y _ hy; omega
      · simp at hy; subst hy; have := h.fresh2 x _ hx; omega
      · exact h.excl x y b hxy hx hy
    · intro x b hx0
      rcases upd_cases (fun t => t.held = some b) hx0 with ⟨rfl, hx⟩ | ⟨hxi, hx⟩
      · simp at hx; subst hx; intro hm; have := h.fresh1 _ hm; omega
      · exact h.notIn x b hx
    · exact h.nodup
    · intro b hb; have := h.fresh1 b hb; show b < w.next + 1; omega
    · intro x b hx0
      show b < w.next + 1
      rcases upd_cases (fun t => t.held = some b) hx0 with ⟨rfl, hx⟩ | ⟨hxi, hx⟩
      · simp at hx; omega
      · have := h.fresh2 x b hx; omega
    · intro x b bs hx0 hw
      rcases upd_cases (fun t => t.held = some b) hx0 with ⟨rfl, hx⟩ | ⟨hxi, hx⟩
      · simp [upd] at hw
      · simp only [upd, if_neg hxi] at hw; exact h.coh x b bs hx hw
  | write i a bs hheld =>
    constructor
    · intro x y b hxy hx0 hy0
      rcases upd_cases (fun t => t.held = some b) hx0 with ⟨rfl, hx⟩ | ⟨hxi, hx⟩ <;>
      rcases upd_cases (fun t => t.held = some b) hy0 with ⟨rfl, hy⟩ | ⟨hyi, hy⟩
      · exact hxy rfl
      · exact h.excl _ y b hxy hx hy
      · exact h.excl x _ b hxy hx hy
      · exact h.excl x y b hxy hx hy
    · intro x b hx0
      rcases upd_cases (fun t => t.held = some b) hx0 with ⟨rfl, hx⟩ | ⟨hxi, hx⟩
      · exact h.notIn _ b hx
      · exact h.notIn x b hx
    · exact h.nodup
    · exact h.fresh1
    · intro x b hx0
      rcases upd_cases (fun t => t.held = some b) hx0 with ⟨rfl, hx⟩ | ⟨hxi, hx⟩
      · exact h.fresh2 _ b hx
      · exact h.fresh2 x b hx
    · intro x b bs' hx0 hw
      show (if b = a then bs else w.mem b) = bs'
      rcases upd_cases (fun t => t.held = some b) hx0 with ⟨rfl, hx⟩ | ⟨hxi, hx⟩
      · have hb : b = a := by
          have : (w.threads x).held = some b := hx
          rw [hheld] at this; exact (Option.some.inj this).symm
        simp [upd] at hw
        rw [if_pos hb]; exact hw
      · simp only [upd, if_neg hxi] at hw
        have hne : b ≠ a := by
          intro e; subst e; exact h.excl x i b hxi hx hheld
        rw [if_neg hne]; exact h.coh x b bs' hx hw
  | read i a hheld =>
    constructor
    · intro x y b hxy hx0 hy0
      rcases upd_cases (fun t => t.held = some b) hx0 with ⟨rfl, hx⟩ | ⟨hxi, hx⟩ <;>
      rcases upd_cases (fun t => t.held = some b) hy0 with ⟨rfl, hy⟩ | ⟨hyi, hy⟩
      · exact hxy rfl
      · exact h.excl _ y b hxy hx hy
      · exact h.excl x _ b hxy hx hy
      · exact h.excl x y b hxy hx hy
    · intro x b hx0
      rcases upd_cases (fun t => t.held = some b) hx0 with ⟨rfl, hx⟩ | ⟨hxi, hx⟩
      · exact h.notIn _ b hx
      · exact h.notIn x b hx
    · exact h.nodup
    · exact h.fresh1
    · intro x b hx0
      rcases upd_cases (fun t => t.held = some b) hx0 with ⟨rfl, hx⟩ | ⟨hxi, hx⟩
      · exact h.fresh2 _ b hx
      · exact h.fresh2 x b hx
    · intro x b bs' hx0 hw
      rcases upd_cases (fun t => t.held = some b) hx0 with ⟨rfl, hx⟩ | ⟨hxi, hx⟩
      · simp [upd] at hw; exact h.coh x b bs' hx hw
      · simp only [upd, if_neg hxi] at hw; exact h.coh x b bs' hx hw
  | put i a hheld =>
    constructor
    · intro x y b hxy hx0 hy0
      rcases upd_cases (fun t => t.held = some b) hx0 with ⟨rfl, hx⟩ | ⟨hxi, hx⟩ <;>
      rcases upd_cases (fun t => t.held = some b) hy0 with ⟨rfl, hy⟩ | ⟨hyi, hy⟩
      · exact hxy rfl
      · simp at hx
      · simp at hy
      · exact h.excl x y b hxy hx hy
    · intro x b hx0
      rcases upd_cases (fun t => t.held = some b) hx0 with ⟨rfl, hx⟩ | ⟨hxi, hx⟩
      · simp at hx
      · intro hmem
        rcases List.mem_cons.mp hmem with e | hm
        · subst e; exact h.excl x i b hxi hx hheld
        · exact h.notIn x b hx hm
    · exact List.nodup_cons.mpr ⟨h.notIn i a hheld, h.nodup⟩
    · intro b hb
      rcases List.mem_cons.mp hb with e | hm
      · subst e; exact h.fresh2 i b hheld
      · exact h.fresh1 b hm
    · intro x b hx0
      rcases upd_cases (fun t => t.held = some b) hx0 with ⟨rfl, hx⟩ | ⟨hxi, hx⟩
      · simp at hx
      · exact h.fresh2 x b hx
    · intro x b bs hx0 hw
      rcases upd_cases (fun t => t.held = some b) hx0 with ⟨rfl, hx⟩ | ⟨hxi, hx⟩
      · simp at hx
      · simp only [upd, if_neg hxi] at hw; exact h.coh x b bs hx hw
  | gc =>
    constructor
    · exact h.excl
    · intro x b _; simp
    · simp
    · intro b hb; simp at hb
    · exact h.fresh2
    · exact h.coh

inductive Reach (m : Nat → Bytes) : World → Prop
  | init : Reach m (init m)
  | step {w w'} : Reach m w → Step w w' → Reach m w'

theorem inv_reach {m w} (r : Reach m w) : PInv w := by
  induction r with
  | init => exact inv_init m
  | step _ s ih => exact inv_step ih s

/-- what the callee reads is what this thread itself wrote, whatever everybody else did in between -/
theorem read_own_write {m w} (r : Reach m w) (i a bs) (hh : (w.threads i).held = some a)
    (hw : (w.threads i).wrote = some bs) : w.mem a = bs :=
  (inv_reach r).coh i a bs hh hw

end OtpVerif.Model.Pool
