/-
Model of validate.go, hotp.go, totp.go and `TimeCounterFunc` (otp.go), as written:
defaulting of nil parameters by value copy, the skew refusal, the `-skew..+skew` loops with
their casts / guards / wrapping additions, first match wins, inner errors swallowed.
-/
import OtpVerif.Model.Derive
import OtpVerif.Model.Decoder
import OtpVerif.Gen.Defaults

namespace OtpVerif.Model
open OtpVerif

/-- a validation result `(bool, error)`; `Out.panic` for a run-time panic (`Out.err` is not used) -/
abbrev Verdict := Bool × Option Err

/-- two's-complement conversions -/
def toU64 (i : Int) : Nat := (i % (2 ^ 64 : Int)).toNat

/-- `subtle.ConstantTimeCompare(x, y) == 1`: functionally, byte-list equality -/
def ctEq (x y : Bytes) : Bool := x == y

/-- `validate(code, expectedLength, deriveFn)` (validate.go); `derived` is what `deriveFn()` returns
(it is only looked at after the length test, as in the Go code) -/
def validate (code : Bytes) (expectedLength : Int) (derived : Out Bytes) : Out Verdict :=
  if (code.length : Int) ≠ expectedLength then .ok (false, some .invalidCodeLength)
  else match derived with
    | .ok expected => if ctEq code expected then .ok (true, none) else .ok (false, some .invalidCode)
    | .err e => .ok (false, some e)
    | .panic => .panic

def validateRFC4226 (O : HashOracle) (code secret : Bytes) (counter digits algo : Nat) : Out Verdict :=
  validate code digits (deriveRFC4226 O secret counter digits algo)

/-- `err == nil && valid` -/
def accepted : Out Verdict → Out Bool
  | .ok (v, e) => .ok (v && e.isNone)
  | .err e => .err e
  | .panic => .panic

/-- `for i := lo; i <= hi; i++ { if probe(i) { return true } }; return false` with explicit fuel -/
def windowLoop (probe : Int → Out Bool) (hi : Int) : Nat → Int → Out Bool
  | 0, _ => .ok false
  | fuel + 1, i =>
    if i > hi then .ok false
    else match probe i with
      | .ok true => .ok true
      | .ok false => windowLoop probe hi fuel (i + 1)
      | .err e => .err e
      | .panic => .panic

def resolveHOTP (p : Option Param) : Param := match p with | some q => q | none => Gen.defaultHOTP
def resolveTOTP (p : Option Param) : Param := match p with | some q => q | none => Gen.defaultTOTP

def generateHOTP (O : HashOracle) (secretText : Bytes) (counter : Nat) (p : Option Param) : Out Bytes :=
  let q := resolveHOTP p
  match decodeSecret secretText with
  | .ok key => deriveRFC4226 O key counter q.digits q.algo
  | .err e => .err e
  | .panic => .panic

/-- loop body of `ValidateHOTP`:
```go
if i < 0 { if counter < uint64(-i) { continue }; c = counter - uint64(-i) } else { c = counter + uint64(i) }
valid, err := validateRFC4226(code, secretBuf, c, ...); if err == nil && valid { return true, nil }
``` -/
def hotpProbe (check : Nat → Out Bool) (counter : Nat) (i : Int) : Out Bool :=
  if i < 0 then
    if counter < (-i).toNat then .ok false
    else check (counter - (-i).toNat)
  else check ((counter + i.toNat) % 2 ^ 64)

def validateHOTP (O : HashOracle) (secretText code : Bytes) (counter : Nat) (p : Option Param) : Out Verdict :=
  let q := resolveHOTP p
  if q.skew > 10 then .ok (false, some .invalidSkew)
  else
    match decodeSecret secretText with
    | .err e => .ok (false, some e)
    | .panic => .panic
    | .ok key =>
      let skew : Int := q.skew
      let check := fun c => accepted (validateRFC4226 O code key c q.digits q.algo)
      match windowLoop (hotpProbe check counter) skew (2 * q.skew + 1) (-skew) with
      | .ok true => .ok (true, none)
      | .ok false => .ok (false, some .invalidCode)
      | .err e => .err e
      | .panic => .panic

/-- `TimeCounterFunc(t, period) = uint64(t.Unix()) / uint64(period)`; only the seconds are used -/
def timeCounter (sec : Int) (period : Nat) : Out Nat :=
  if period % 2 ^ 64 = 0 then .panic else .ok (toU64 sec / (period % 2 ^ 64))

def effPeriod (period : Nat) : Nat := if period = 0 then 30 else period

def generateTOTP (O : HashOracle) (secretText : Bytes) (sec : Int) (p : Option Param) : Out Bytes :=
  let q := resolveTOTP p
  match decodeSecret secretText with
  | .err e => .err e
  | .panic => .panic
  | .ok key =>
    match timeCounter sec (effPeriod q.period) with
    | .ok c => deriveRFC4226 O key c q.digits q.algo
    | .err e => .err e
    | .panic => .panic

/-- loop body of `ValidateTOTP`: `validateRFC4226(code, secretBuf, counter+uint64(i), ...)` -/
def totpProbe (check : Nat → Out Bool) (counter : Nat) (i : Int) : Out Bool :=
  check ((counter + toU64 i) % 2 ^ 64)

def validateTOTP (O : HashOracle) (secretText code : Bytes) (sec : Int) (p : Option Param) : Out Verdict :=
  let q := resolveTOTP p
  if q.skew > 10 then .ok (false, some .invalidSkew)
  else
    match decodeSecret secretText with
    | .err e => .ok (false, some e)
    | .panic => .panic
    | .ok key =>
      match timeCounter sec (effPeriod q.period) with
      | .err e => .err e
      | .panic => .panic
      | .ok counter =>
        let skew : Int := q.skew
        let check := fun c => accepted (validateRFC4226 O code key c q.digits q.algo)
        match windowLoop (totpProbe check counter) skew (2 * q.skew + 1) (-skew) with
        | .ok true => .ok (true, none)
        | .ok false => .ok (false, some .invalidCode)
        | .err e => .err e
        | .panic => .panic

end OtpVerif.Model
