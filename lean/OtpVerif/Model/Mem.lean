/-
Memory-level model (C05 history independence, C11 stale pooled data, C12 frame):
backing arrays live at addresses; a slice is a view (addr, off, len, cap) as in Go; `append` writes in
place when the capacity suffices and otherwise allocates a fresh array; `make` allocates a fresh zeroed
array.  `deriveRFC6287`'s message assembly is replayed on this memory: `msg := (*msgBuf)[:0]`, the appends,
`padBytes`.  Every write is recorded.  (Go's slice/append semantics as modelled here are part of the
trusted base; the canary runs of the correspondence check exercise them against the real runtime.)
-/
import OtpVerif.Model.Ocra

namespace OtpVerif.Model.Mem
open OtpVerif OtpVerif.Model

structure Heap where
  cells : Nat → List UInt8     -- backing array at each address
  next  : Nat                  -- addresses ≥ next are unallocated

structure Slice where
  addr : Nat
  off  : Nat
  len  : Nat
  cap  : Nat

/-- contents seen through a slice -/
def Heap.read (h : Heap) (s : Slice) : Bytes := ((h.cells s.addr).drop s.off).take s.len

/-- overwrite `bs` at position `pos` of the array at `addr` (the array is long enough in all uses) -/
def overwrite (arr : List UInt8) (pos : Nat) (bs : Bytes) : List UInt8 :=
  arr.take pos ++ bs ++ arr.drop (pos + bs.length)

def Heap.write (h : Heap) (addr pos : Nat) (bs : Bytes) : Heap :=
  { h with cells := fun a => if a = addr then overwrite (h.cells a) pos bs else h.cells a }

/-- `make([]byte, n)` followed by `copy`: a fresh array holding `bs` -/
def Heap.allocWith (h : Heap) (bs : Bytes) (cap : Nat) : Heap × Slice :=
  ({ cells := fun a => if a = h.next then bs ++ List.replicate (cap - bs.length) 0 else h.cells a, next := h.next + 1 },
   { addr := h.next, off := 0, len := bs.length, cap := max cap bs.length })

/-- `append(dst, src...)`: in place if `len+|src| ≤ cap`, otherwise a fresh array (old contents copied).
Returns the new heap, the resulting slice and the address written to. -/
def appendM (h : Heap) (dst : Slice) (src : Bytes) : Heap × Slice × Nat :=
  if dst.len + src.length ≤ dst.cap then
    (h.write dst.addr (dst.off + dst.len) src, { dst with len := dst.len + src.length }, dst.addr)
  else
    let r := h.allocWith (h.read dst ++ src) (2 * (dst.len + src.length))
    (r.1, r.2, h.next)

/-- `padBytes(input, n)` on memory: a sub-slice of the input (no write), or a fresh zero-extended copy -/
def padBytesM (h : Heap) (input : Slice) (n : Nat) : Heap × Slice × List Nat :=
  if input.len ≥ n then (h, { input with len := n }, [])
  else
    let r := h.allocWith (h.read input ++ List.replicate (n - input.len) 0) n
    (r.1, r.2, [h.next])

/-- state threaded through the message assembly -/
structure St where
  h : Heap
  msg : Slice
  writes : List Nat      -- addresses written so far

def stepAppend (st : St) (src : Bytes) : St :=
  let r := appendM st.h st.msg src
  { h := r.1, msg := r.2.1, writes := r.2.2 :: st.writes }

def stepPadAppend (st : St) (input : Slice) (n : Nat) : St :=
  let p := padBytesM st.h input n
  let st' : St := { st with h := p.1, writes := p.2.2 ++ st.writes }
  stepAppend st' (p.1.read p.2.1)

/-- the five input fields as slices of caller memory -/
structure InputM where
  counter : Slice
  challenge : Slice
  password : Slice
  session : Slice
  timestamp : Slice

/-- `deriveRFC6287`'s message assembly on memory, starting from the pooled buffer `pool` (any contents) -/
def assemble (h : Heap) (pool : Slice) (cfg : SuiteConfig) (i : InputM) : St :=
  let st : St := { h := h, msg := { pool with len := 0 }, writes := [] }       -- msg := (*msgBuf)[:0]
  let st := stepAppend st cfg.raw
  let st := stepAppend st [UInt8.ofNat Gen.separator]
  let st := if cfg.incC then stepPadAppend st i.counter 8 else st
  let st := if cfg.incQ then stepPadAppend st i.challenge 128 else st
  let st := if cfg.incP then stepAppend st (st.h.read i.password) else st
  let st := if cfg.incS then stepPadAppend st i.session 128 else st
  let st := if cfg.incT then stepPadAppend st i.timestamp 8 else st
  st

end OtpVerif.Model.Mem
