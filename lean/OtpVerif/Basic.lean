/-
Basic vocabulary shared by Spec, Model and Props.

* `Bytes`  – Go `[]byte` and Go `string` alike (a Go string is a byte sequence).
* `Out α`  – outcome of a Go call: normal value, error value, or run-time panic.
* `HashOracle` – what the code needs from `crypto/hmac`: a function with the right output
  lengths.  Every theorem is stated for an arbitrary oracle; the driver instantiates it with
  the executable HMAC of `Std/Sha.lean`.
-/
namespace OtpVerif

abbrev Bytes := List UInt8

/-- coarse error classes (the properties never say *which* error, except the skew refusal) -/
inductive Err
  | unsupportedAlgorithm | invalidCodeLength | invalidCode | invalidSkew
  | badSecret | invalidSuite | badInput | issuerRequired | accountRequired | secretRequired
  | badUrl | badNumber | badHex | rng
  deriving DecidableEq, Repr, Inhabited

def Err.name : Err → String
  | .unsupportedAlgorithm => "unsupportedAlgorithm" | .invalidCodeLength => "invalidCodeLength"
  | .invalidCode => "invalidCode" | .invalidSkew => "invalidSkew" | .badSecret => "badSecret"
  | .invalidSuite => "invalidSuite" | .badInput => "badInput" | .issuerRequired => "issuerRequired"
  | .accountRequired => "accountRequired" | .secretRequired => "secretRequired" | .badUrl => "badUrl"
  | .badNumber => "badNumber" | .badHex => "badHex" | .rng => "rng"

inductive Out (α : Type) where
  | ok (a : α)
  | err (e : Err)
  | panic
  deriving Repr, DecidableEq

namespace Out
def bind {α β} (x : Out α) (f : α → Out β) : Out β :=
  match x with
  | ok a => f a
  | err e => err e
  | panic => panic
instance : Monad Out where
  pure := ok
  bind := bind
def isOk {α} : Out α → Bool | ok _ => true | _ => false
def isErr {α} : Out α → Bool | err _ => true | _ => false
def isPanic {α} : Out α → Bool | panic => true | _ => false
@[simp] theorem bind_ok {α β} (a : α) (f : α → Out β) : (Out.ok a >>= f) = f a := rfl
@[simp] theorem bind_err {α β} (e : Err) (f : α → Out β) : (Out.err e >>= f) = Out.err e := rfl
@[simp] theorem bind_panic {α β} (f : α → Out β) : ((Out.panic : Out α) >>= f) = Out.panic := rfl
end Out

/-- HMAC output length per algorithm index (0 = SHA-1, 1 = SHA-256, 2 = SHA-512) -/
def hashLen (a : Nat) : Nat := match a with | 0 => 20 | 1 => 32 | _ => 64

structure HashOracle where
  hmac   : Nat → Bytes → Bytes → Bytes
  len_ok : ∀ a k m, a < 3 → (hmac a k m).length = hashLen a

/-- `binary.BigEndian.PutUint64` / `To8ByteBigEndian`: the 8 big-endian bytes of `v mod 2^64` -/
def be8 (v : Nat) : Bytes :=
  [(v / 2^56 % 256).toUInt8, (v / 2^48 % 256).toUInt8, (v / 2^40 % 256).toUInt8, (v / 2^32 % 256).toUInt8,
   (v / 2^24 % 256).toUInt8, (v / 2^16 % 256).toUInt8, (v / 2^8 % 256).toUInt8, (v % 256).toUInt8]

@[simp] theorem be8_length (v : Nat) : (be8 v).length = 8 := rfl

/-- the ASCII digit character of `n % 10` -/
def digitChar (n : Nat) : UInt8 := (48 + n % 10).toUInt8

/-- Spec-level rendering: exactly `d` characters, character `j` is the decimal digit of weight
`10^(d-1-j)` of `n` – the decimal numeral of `n mod 10^d`, left-padded with '0'. -/
def zeroPad (d n : Nat) : Bytes := (List.range d).map (fun j => digitChar (n / 10 ^ (d - 1 - j)))

@[simp] theorem zeroPad_length (d n : Nat) : (zeroPad d n).length = d := by simp [zeroPad]

def isDigitChar (c : UInt8) : Bool := 48 ≤ c.toNat && c.toNat ≤ 57

/-- parameters of HOTP/TOTP calls (`otp.Param`); ranges u8 / uint / uint / u8 are hypotheses -/
structure Param where
  digits : Nat
  period : Nat
  skew   : Nat
  algo   : Nat
  deriving DecidableEq, Repr, Inhabited

/-- `otp.SuiteConfig` (Hash is a uint8, the other numeric fields are Go `int`s) -/
structure SuiteConfig where
  raw : Bytes
  hash : Nat
  digits : Int
  challenge : Int
  incC : Bool
  incQ : Bool
  incP : Bool
  incS : Bool
  incT : Bool
  pwHash : Int
  timeStep : Int
  deriving DecidableEq, Repr, Inhabited

/-- `otp.OCRAInput`; a nil slice and an empty slice are both `[]` (the code only uses `len` and `append`) -/
structure OCRAInput where
  counter : Bytes
  challenge : Bytes
  password : Bytes
  session : Bytes
  timestamp : Bytes
  deriving DecidableEq, Repr, Inhabited

end OtpVerif
