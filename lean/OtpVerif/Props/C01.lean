/-
C01 — HOTP codes equal the RFC 4226 value for every secret, counter, length and hash.
Property theorems only (helper lemmas live in `Lemmas/`).  `O` is an arbitrary HMAC oracle.
-/
import OtpVerif.Model.Otp
import OtpVerif.Spec.Rfc
import OtpVerif.Lemmas.Trunc
import OtpVerif.Lemmas.Digits

namespace OtpVerif.Props.C01
open OtpVerif OtpVerif.Model OtpVerif.Lemmas

/-- the regenerated modulus table is the table of powers of ten (finite table, `decide`) -/
theorem mod10_eq_pow (d : Nat) (h1 : 1 ≤ d) (h2 : d ≤ 10) : Gen.mod10[d]? = some (10 ^ d) := by
  have : d = 1 ∨ d = 2 ∨ d = 3 ∨ d = 4 ∨ d = 5 ∨ d = 6 ∨ d = 7 ∨ d = 8 ∨ d = 9 ∨ d = 10 := by omega
  rcases this with h|h|h|h|h|h|h|h|h|h <;> subst h <;> decide

theorem mod10_length : Gen.mod10.length = 11 := by decide
theorem nHash_eq : Gen.nHash = 3 := by decide
/-- the i-th registered HMAC constructor is the i-th hash (identified by behaviour by the extractor) -/
theorem hashIds_eq : Gen.hashIds = [0, 1, 2] := by decide

theorem hashIdOf_eq (a : Nat) (h : a < 3) : hashIdOf a = some a := by
  unfold hashIdOf; rw [hashIds_eq]
  have : a = 0 ∨ a = 1 ∨ a = 2 := by omega
  rcases this with h|h|h <;> subst h <;> rfl

theorem hashLen_ge (a : Nat) : 19 ≤ hashLen a := by
  unfold hashLen; split <;> omega

/-- the derivation stage: for every key (any byte string), counter, supported length and hash, the
model of `deriveRFC4226` returns exactly the RFC 4226 value -/
theorem C01_derive_eq_rfc (O : HashOracle) (k : Bytes) (c d a : Nat) (hd1 : 1 ≤ d) (hd2 : d ≤ 10) (ha : a < 3) :
    deriveRFC4226 O k c d a = .ok (Spec.hotp O.hmac a k c d) := by
  unfold deriveRFC4226
  rw [if_neg (by rw [nHash_eq]; omega), if_neg (by rw [mod10_length]; omega)]
  rw [hashIdOf_eq a ha, mod10_eq_pow d hd1 hd2]
  simp only
  have hlen : 19 ≤ (O.hmac a k (be8 c)).length := by rw [O.len_ok a k (be8 c) ha]; exact hashLen_ge a
  rw [truncate_eq _ _ hlen (Nat.pow_pos (by omega))]
  simp only
  unfold Spec.hotp
  by_cases h8 : d ≤ 8
  · rw [if_pos h8, shortDigit_eq _ _ h8]
  · rw [if_neg h8, longDigit_eq]

/-- C01, main clause: generation returns exactly the RFC 4226 value (secret in any spelling that decodes to `k`) -/
theorem C01_generate_eq_rfc (O : HashOracle) (s k : Bytes) (c : Nat) (p : Option Param)
    (hs : decodeSecret s = .ok k) (hd1 : 1 ≤ (resolveHOTP p).digits) (hd2 : (resolveHOTP p).digits ≤ 10)
    (ha : (resolveHOTP p).algo < 3) :
    generateHOTP O s c p = .ok (Spec.hotp O.hmac (resolveHOTP p).algo k c (resolveHOTP p).digits) := by
  unfold generateHOTP
  simp only [hs]
  exact C01_derive_eq_rfc O k c _ _ hd1 hd2 ha

/-- C01, error clause: an unsupported hash or code length is answered with an error, never with a code -/
theorem C01_unsupported (O : HashOracle) (s : Bytes) (c : Nat) (p : Option Param)
    (h : (resolveHOTP p).digits = 0 ∨ 10 < (resolveHOTP p).digits ∨ 3 ≤ (resolveHOTP p).algo) :
    ∃ e, generateHOTP O s c p = .err e := by
  unfold generateHOTP
  simp only
  cases hs : decodeSecret s with
  | err e => exact ⟨e, rfl⟩
  | panic =>
    -- decodeSecret never panics
    exfalso
    unfold decodeSecret at hs
    simp only at hs
    split at hs
    · cases hs
    · split at hs <;> cases hs
  | ok k =>
    simp only
    unfold deriveRFC4226
    by_cases ha : (resolveHOTP p).algo ≥ Gen.nHash
    · rw [if_pos ha]; exact ⟨_, rfl⟩
    · rw [if_neg ha]
      rw [nHash_eq] at ha
      have hd : (resolveHOTP p).digits < 1 ∨ (resolveHOTP p).digits ≥ Gen.mod10.length := by
        rw [mod10_length]; omega
      rw [if_pos hd]; exact ⟨_, rfl⟩

/-- C01, shape: a returned code has exactly `digits` characters, all ASCII digits -/
theorem C01_shape (O : HashOracle) (a : Nat) (k : Bytes) (c d : Nat) :
    (Spec.hotp O.hmac a k c d).length = d ∧ (Spec.hotp O.hmac a k c d).all isDigitChar = true := by
  unfold Spec.hotp
  exact ⟨zeroPad_length _ _, zeroPad_all_digits _ _⟩

/-- absent parameters mean 6 digits, SHA-1 (regenerated `DefaultHOTPParam`) -/
theorem C01_nil_defaults : (resolveHOTP none).digits = 6 ∧ (resolveHOTP none).algo = 0 := by decide

-- non-vacuity: concrete instances satisfy the hypotheses
example : decodeSecret [77, 70, 82, 71, 71] = .ok [97, 98, 99] := by decide       -- "MFRGG" ↦ "abc"
example : 1 ≤ (resolveHOTP none).digits ∧ (resolveHOTP none).digits ≤ 10 ∧ (resolveHOTP none).algo < 3 := by decide
example : zeroPad 6 42 = [48, 48, 48, 48, 52, 50] := by decide

end OtpVerif.Props.C01

#print axioms OtpVerif.Props.C01.mod10_eq_pow
#print axioms OtpVerif.Props.C01.hashIds_eq
#print axioms OtpVerif.Props.C01.C01_derive_eq_rfc
#print axioms OtpVerif.Props.C01.C01_generate_eq_rfc
#print axioms OtpVerif.Props.C01.C01_unsupported
#print axioms OtpVerif.Props.C01.C01_shape
#print axioms OtpVerif.Props.C01.C01_nil_defaults
