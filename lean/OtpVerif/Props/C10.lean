/-
C10 — no public operation panics; bad arguments are reported as errors.
(a) the models of the exported operations never return `panic`, for every argument in the property's domain
    (the models write every Go operation that can panic through a checked primitive, so this has content);
(b) for every potentially panicking instruction that go/ssa finds in package otp (native and js/wasm: non-constant
    index, slice bound, integer divisor, unchecked type assertion, make with non-constant length, explicit panic)
    either its in-bounds / non-zero condition — regenerated from the dominating branch conditions, type facts,
    loop-variable monotonicity and, for internal helpers, what holds at every call site — is proved by omega
    (`Gen/PanicVC.lean`), or its (function, kind) is one of the reviewed entries of `Model/Justified.lean`, whose
    safety rests on a semantic fact recorded there.  A new unguarded instruction, or a removed guard, breaks
    `C10_sites`; re-arranging code whose guards still imply the bounds does not.
-/
import OtpVerif.Gen.Sites
import OtpVerif.Gen.PanicVC
import OtpVerif.Model.Justified
import OtpVerif.Props.C13
import OtpVerif.Props.C15
import OtpVerif.Props.C17
import OtpVerif.Model.Url

namespace OtpVerif.Props.C10
open OtpVerif OtpVerif.Model OtpVerif.Lemmas

/-- a type assertion on what `sync.Pool.Get` returns, where the extractor checked that the pool's `New` and every `Put`
use exactly the asserted type -/
def poolTypedAssert (s : Nat × List Nat × List Nat × List Nat × List (List Nat)) : Bool :=
  s.2.2.1 == [116,121,112,101,97,115,115,101,114,116,40,112,111,111,108,45,116,121,112,101,100,41]   -- "typeassert(pool-typed)"

/-- (b) every potential panic site of the code is proved in bounds, or rests on a reviewed semantic fact -/
theorem C10_sites : Gen.panicSites.all (fun s =>
    Gen.PanicVC.proved.any (fun p => p.site == s) || poolTypedAssert s || Model.justifiedPanicKinds.contains (s.2.1, s.2.2.1)) = true := by
  decide +kernel

-- the proved conditions are real statements: e.g. the first one
example : (Gen.PanicVC.proved.head?.map (·.cond)).isSome = true := by decide

/-- (a) HOTP: generation and validation return normally for every secret text, counter and parameter set
(all uint8 digits / hashes, any skew) -/
theorem C10_hotp (O : HashOracle) (s code : Bytes) (c : Nat) (p : Option Param) :
    generateHOTP O s c p ≠ .panic ∧ validateHOTP O s code c p ≠ .panic := by
  constructor
  · rcases Props.C13.C13_generate_total O s c p with ⟨_, h⟩ | ⟨_, h⟩ <;> (rw [h]; intro e; cases e)
  · rcases Props.C13.C13_hotp O s code c p with h | ⟨_, h⟩ <;> (rw [h]; intro e; cases e)

/-- (a) TOTP: for every instant (negative and huge seconds included) and every `uint` period (0 = 30 s) -/
theorem C10_totp (O : HashOracle) (s code : Bytes) (sec : Int) (p : Option Param) (hP : (resolveTOTP p).period < 2 ^ 64) :
    generateTOTP O s sec p ≠ .panic ∧ validateTOTP O s code sec p ≠ .panic := by
  constructor
  · unfold generateTOTP
    simp only
    cases hs : decodeSecret s with
    | panic => exact absurd hs (decodeSecret_no_panic s)
    | err e => intro h; cases h
    | ok key =>
      simp only
      have hper : effPeriod (resolveTOTP p).period % 2 ^ 64 ≠ 0 := by
        unfold effPeriod
        split
        · decide
        · rw [Nat.mod_eq_of_lt hP]; assumption
      unfold timeCounter
      rw [if_neg hper]
      simp only
      by_cases h : (resolveTOTP p).digits = 0 ∨ 10 < (resolveTOTP p).digits ∨ 3 ≤ (resolveTOTP p).algo
      · obtain ⟨e, he⟩ := derive_unsupported O key (toU64 sec / (effPeriod (resolveTOTP p).period % 2 ^ 64)) _ _ h
        rw [he]; intro h; cases h
      · rw [Props.C01.C01_derive_eq_rfc O key _ _ _ (by omega) (by omega) (by omega)]; intro h; cases h
  · rcases Props.C13.C13_totp O s code sec p hP with h | ⟨_, h⟩ <;> (rw [h]; intro e; cases e)

/-- (a) OCRA: for every suite configuration (digits −∞..∞, any hash byte, any enum values) and input -/
theorem C10_ocra (O : HashOracle) (s code : Bytes) (cfg : SuiteConfig) (i : OCRAInput) :
    generateOCRA O s cfg i ≠ .panic ∧ validateOCRA O s code cfg i ≠ .panic := by
  constructor
  · unfold generateOCRA
    cases hs : decodeSecret s with
    | panic => exact absurd hs (decodeSecret_no_panic s)
    | err e => intro h; cases h
    | ok key => exact Props.C06.deriveRFC6287_no_panic O key cfg i
  · rcases Props.C06.C06_total O s code cfg i with h | ⟨_, h⟩ <;> (rw [h]; intro e; cases e)

/-- (a) secret decoding and suite construction: total on all byte strings / configurations -/
theorem C10_decode_suite (s : Bytes) (cfg : SuiteConfig) :
    decodeSecret s ≠ .panic ∧ parseRawSuite s ≠ .panic ∧ newRawSuite s ≠ .panic ∧ newSuite cfg ≠ .panic := by
  have hp : parseRawSuite s ≠ .panic := by
    unfold parseRawSuite
    repeat' split
    all_goals first
      | (intro h; cases h)
      | (simp only []; split <;> (intro h; cases h))
  refine ⟨decodeSecret_no_panic s, hp, ?_, ?_⟩
  · unfold newRawSuite
    cases registryLookup s with
    | none => exact hp
    | some c =>
      simp only
      cases suiteValidate { c with raw := s } <;> (intro h; cases h)
  · unfold newSuite; split <;> (intro h; cases h)

/-- (a) helpers: total on all strings; `LeftPadHex` for every non-negative width -/
theorem C10_helpers (s a b c d e : Bytes) (w : Nat) :
    parseDecimalToBE8 s ≠ .panic ∧ parseHexTimestamp s ≠ .panic ∧ parseDecimalChallenge s ≠ .panic ∧
    hexInputToOCRA a b c d e ≠ .panic ∧ leftPadHex s w ≠ .panic := by
  refine ⟨?_, ?_, ?_, ?_, ?_⟩
  · unfold parseDecimalToBE8; split <;> (intro h; cases h)
  · unfold parseHexTimestamp; simp only; split <;> (intro h; cases h)
  · unfold parseDecimalChallenge; split
    · intro h; cases h
    · simp only; split <;> (intro h; cases h)
  · unfold hexInputToOCRA; split <;> (intro h; cases h)
  · rw [Props.C17.C17_leftpad]; intro h; cases h

/-- (a) random secrets: total for every algorithm byte -/
theorem C10_random (a : Nat) (st : Bytes) : (randomSecret a st).1 ≠ .panic := by
  unfold randomSecret
  split
  · intro h; cases h
  · simp only; split <;> (intro h; cases h)

open OtpVerif.Std.Url in
/-- (a) provisioning URLs: building and parsing return normally for every field value and every URL value of the
modelled shape (the `net/url` model itself is total: `urlParse` answers ok / err / unsupported) -/
theorem C10_url (p : URLParam) (u : URL) :
    generateTOTPURL p ≠ .panic ∧ generateHOTPURL p ≠ .panic ∧ parseOTPAuthURL u ≠ .panic := by
  refine ⟨?_, ?_, ?_⟩
  · unfold generateTOTPURL generateOTPURL
    simp only
    repeat' split
    all_goals (intro h; cases h)
  · unfold generateHOTPURL generateOTPURL
    simp only
    repeat' split
    all_goals (intro h; cases h)
  · unfold parseOTPAuthURL
    simp only
    repeat' split
    all_goals (intro h; cases h)

end OtpVerif.Props.C10

#print axioms OtpVerif.Props.C10.C10_sites
#print axioms OtpVerif.Props.C10.C10_hotp
#print axioms OtpVerif.Props.C10.C10_totp
#print axioms OtpVerif.Props.C10.C10_ocra
#print axioms OtpVerif.Props.C10.C10_decode_suite
#print axioms OtpVerif.Props.C10.C10_helpers
#print axioms OtpVerif.Props.C10.C10_random
#print axioms OtpVerif.Props.C10.C10_url
