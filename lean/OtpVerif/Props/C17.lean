/-
C17 — OCRA input helpers encode as documented; numeric questions follow RFC 6287.
-/
import OtpVerif.Model.Utils
import OtpVerif.Props.C05

namespace OtpVerif.Props.C17
open OtpVerif OtpVerif.Model OtpVerif.Lemmas

/-- value of a big-endian byte string -/
def beValue (b : Bytes) : Nat := b.foldl (fun n x => n * 256 + x.toNat) 0

theorem toUInt8_toNat (n : Nat) (h : n < 256) : (Nat.toUInt8 n).toNat = n := by
  simp only [Nat.toUInt8_eq, UInt8.toNat_ofNat']; omega

/-- `be8 v` really is the 8-byte big-endian representation of `v` (for v < 2^64) -/
theorem be8_value (v : Nat) (h : v < 2 ^ 64) : beValue (be8 v) = v ∧ (be8 v).length = 8 := by
  refine ⟨?_, rfl⟩
  unfold beValue be8
  simp only [List.foldl_cons, List.foldl_nil]
  rw [toUInt8_toNat _ (Nat.mod_lt _ (by omega)), toUInt8_toNat _ (Nat.mod_lt _ (by omega)),
    toUInt8_toNat _ (Nat.mod_lt _ (by omega)), toUInt8_toNat _ (Nat.mod_lt _ (by omega)),
    toUInt8_toNat _ (Nat.mod_lt _ (by omega)), toUInt8_toNat _ (Nat.mod_lt _ (by omega)),
    toUInt8_toNat _ (Nat.mod_lt _ (by omega)), toUInt8_toNat _ (Nat.mod_lt _ (by omega))]
  omega

/-- C17: `To8ByteBigEndian` (the shift/mask loop) is the 8-byte big-endian counter, for every 64-bit value -/
theorem C17_to8 (v : Nat) : to8ByteBigEndian v = be8 v := by
  unfold to8ByteBigEndian be8
  simp only [to8Loop, List.replicate, List.set]
  have e : ∀ a b : Nat, (a / 256 ^ b) = a / 256 ^ b := fun _ _ => rfl
  have h1 : v / 256 / 256 = v / 2 ^ 16 := by rw [Nat.div_div_eq_div_mul]
  have h2 : v / 256 / 256 / 256 = v / 2 ^ 24 := by rw [h1, Nat.div_div_eq_div_mul]
  have h3 : v / 256 / 256 / 256 / 256 = v / 2 ^ 32 := by rw [h2, Nat.div_div_eq_div_mul]
  have h4 : v / 256 / 256 / 256 / 256 / 256 = v / 2 ^ 40 := by rw [h3, Nat.div_div_eq_div_mul]
  have h5 : v / 256 / 256 / 256 / 256 / 256 / 256 = v / 2 ^ 48 := by rw [h4, Nat.div_div_eq_div_mul]
  have h6 : v / 256 / 256 / 256 / 256 / 256 / 256 / 256 = v / 2 ^ 56 := by rw [h5, Nat.div_div_eq_div_mul]
  rw [h6, h5, h4, h3, h2, h1]

/-- C17: decimal strings become the 8-byte big-endian counter; everything that is not a non-empty string of
ASCII digits with value < 2^64 (signs, spaces, empty, overflow) is rejected -/
theorem C17_dec8 (s : Bytes) :
    parseDecimalToBE8 s =
      if s ≠ [] ∧ s.all isDigitChar = true ∧ decValue s < 2 ^ 64 then .ok (be8 (decValue s)) else .err .badNumber := by
  unfold parseDecimalToBE8 parseUint64
  cases s with
  | nil => simp
  | cons c t =>
    simp only [List.isEmpty_cons, Bool.false_eq_true, if_false, ne_eq, reduceCtorEq, not_false_eq_true, true_and]
    by_cases hd : (c :: t).all isDigitChar = true
    · rw [if_pos hd]
      by_cases hv : decValue (c :: t) < 2 ^ 64
      · rw [if_pos hv, if_pos ⟨hd, hv⟩]; simp only [C17_to8]
      · rw [if_neg hv, if_neg (fun h => hv h.2)]
    · rw [if_neg hd, if_neg (fun h => hd h.1)]

/-- C17: `LeftPadHex` for non-negative widths -/
theorem C17_leftpad (s : Bytes) (w : Nat) :
    leftPadHex s w = .ok (if s.length ≥ w then s.drop (s.length - w) else List.replicate (w - s.length) 48 ++ s) := by
  unfold leftPadHex
  by_cases h : s.length ≥ w
  · rw [if_pos (by omega), if_neg (by omega), if_pos h]; rfl
  · rw [if_neg (by omega), if_neg h]; rfl

theorem C17_leftpad_len (s : Bytes) (w : Nat) (r : Bytes) (h : leftPadHex s w = .ok r) : r.length = w := by
  rw [C17_leftpad] at h
  injection h with h
  subst h
  split <;> simp <;> omega

/-- C17: hex request fields: "" ↦ empty, valid even-length hex ↦ its bytes, anything else ⇒ error -/
theorem C17_hexinput (a b c d e : Bytes) :
    hexInputToOCRA a b c d e =
      match hexField a, hexField b, hexField c, hexField d, hexField e with
      | some a', some b', some c', some d', some e' => .ok ⟨a', b', c', d', e'⟩
      | _, _, _, _, _ => .err .badHex := rfl

theorem C17_hexfield_empty : hexField [] = some [] := rfl

/-- value of a hexadecimal numeral -/
def hexValue (s : Bytes) : Nat := s.foldl (fun n c => n * 16 + (unhex c).getD 0) 0

theorem unhex_hexDigitUpper (n : Nat) (h : n < 16) : unhex (hexDigitUpper n) = some n := by
  have : n = 0 ∨ n = 1 ∨ n = 2 ∨ n = 3 ∨ n = 4 ∨ n = 5 ∨ n = 6 ∨ n = 7 ∨ n = 8 ∨ n = 9 ∨ n = 10 ∨ n = 11 ∨ n = 12 ∨ n = 13 ∨ n = 14 ∨ n = 15 := by omega
  rcases this with h|h|h|h|h|h|h|h|h|h|h|h|h|h|h|h <;> subst h <;> decide

theorem hexFold_init (l : Bytes) : ∀ init : Nat,
    l.foldl (fun n c => n * 16 + (unhex c).getD 0) init = init * 16 ^ l.length + l.foldl (fun n c => n * 16 + (unhex c).getD 0) 0 := by
  induction l with
  | nil => intro init; simp
  | cons c t ih =>
    intro init
    simp only [List.foldl_cons, List.length_cons]
    rw [ih (init * 16 + (unhex c).getD 0), ih (0 * 16 + (unhex c).getD 0)]
    rw [Nat.pow_succ, Nat.add_mul, Nat.zero_mul, Nat.zero_add, Nat.mul_assoc, Nat.mul_comm 16, Nat.add_assoc]

theorem hexValue_append (a b : Bytes) : hexValue (a ++ b) = hexValue a * 16 ^ b.length + hexValue b := by
  unfold hexValue
  rw [List.foldl_append, hexFold_init b]

/-- the hexadecimal numeral produced for the question is correct: it denotes `n` -/
theorem hexOfNatAux_value : ∀ (fuel n : Nat) (acc : Bytes), n < fuel →
    hexValue (hexOfNatAux fuel n acc) = n * 16 ^ acc.length + hexValue acc := by
  intro fuel
  induction fuel with
  | zero => intro n acc h; omega
  | succ f ih =>
    intro n acc h
    unfold hexOfNatAux
    by_cases hz : n = 0
    · rw [if_pos hz, hz]; simp
    · rw [if_neg hz]
      rw [ih (n / 16) _ (by omega)]
      have hc : hexValue (hexDigitUpper (n % 16) :: acc) = (n % 16) * 16 ^ acc.length + hexValue acc := by
        have := hexValue_append [hexDigitUpper (n % 16)] acc
        simp only [List.singleton_append] at this
        rw [this]
        unfold hexValue
        simp only [List.foldl_cons, List.foldl_nil, Nat.zero_mul, Nat.zero_add]
        rw [unhex_hexDigitUpper _ (Nat.mod_lt _ (by omega))]; rfl
      rw [hc, List.length_cons, Nat.pow_succ]
      have : n = n / 16 * 16 + n % 16 := by omega
      calc n / 16 * (16 ^ acc.length * 16) + (n % 16 * 16 ^ acc.length + hexValue acc)
          = (n / 16 * 16 + n % 16) * 16 ^ acc.length + hexValue acc := by
            rw [Nat.add_mul, Nat.mul_comm (16 ^ acc.length) 16, ← Nat.mul_assoc, Nat.add_assoc]
        _ = n * 16 ^ acc.length + hexValue acc := by rw [← this]

theorem C17_hexOfNat_value (n : Nat) : hexValue (hexOfNat n) = n := by
  unfold hexOfNat
  by_cases h : n = 0
  · rw [if_pos h, h]; decide
  · rw [if_neg h, hexOfNatAux_value (n + 1) n [] (by omega)]; simp [hexValue]

/-- C17: a decimal question (non-empty, ASCII digits only) is converted exactly as RFC 6287 prescribes:
decimal value ↦ upper-case hexadecimal numeral of that value, right-padded with '0' to 256 hex digits, hex-decoded -/
theorem C17_question (q : Bytes) (hne : q ≠ []) (hd : q.all isDigitChar = true) :
    parseDecimalChallenge q =
      (match hexDecode (hexOfNat (decValue q) ++ List.replicate (256 - (hexOfNat (decValue q)).length) 48) with
       | some b => .ok b
       | none => .err .badHex) := by
  cases q with
  | nil => exact absurd rfl hne
  | cons c t =>
    have hc : isDigitChar c = true := by simp [List.all_cons] at hd; exact hd.1
    have h43 : c ≠ 43 := by intro e; subst e; revert hc; decide
    have h45 : c ≠ 45 := by intro e; subst e; revert hc; decide
    have hsp : splitSign (c :: t) = (false, c :: t) := by
      unfold splitSign
      split
      · rename_i heq; injection heq with h1 _; exact absurd h1 h43
      · rename_i heq; injection heq with h1 _; exact absurd h1 h45
      · rfl
    unfold parseDecimalChallenge bigSetString
    simp only [hsp, List.isEmpty_cons, Bool.false_eq_true, if_false, hd, if_true, Bool.false_and, List.nil_append]
    rfl

/-- C17, end to end: a code computed from a numeric question through the helper is the RFC 6287 value for the
challenge bytes the conversion prescribes (composition with C05) -/
theorem C17_end2end (O : HashOracle) (s k q chal : Bytes) (cfg : SuiteConfig) (i : OCRAInput)
    (hs : decodeSecret s = .ok k) (hq : parseDecimalChallenge q = .ok chal)
    (hv : suiteValidate cfg = none) (hi : inputValidate { i with challenge := chal } cfg = none) :
    generateOCRA O s cfg { i with challenge := chal } = .ok (Spec.ocra O.hmac k cfg { i with challenge := chal }) :=
  Props.C05.C05_eq_rfc O s k cfg _ hs hv hi

def isHexChar (c : UInt8) : Bool := (unhex c).isSome

theorem unhex_lt (c : UInt8) (v : Nat) (h : unhex c = some v) : v < 16 := by
  unfold unhex at h
  split at h
  · injection h with h; omega
  · split at h
    · injection h with h; omega
    · split at h
      · injection h with h; omega
      · cases h

/-- `hex.DecodeString` on success: the bytes spell the same number, two digits per byte -/
theorem hexDecode_value : ∀ (s b : Bytes), hexDecode s = some b →
    (∀ init : Nat, b.foldl (fun n x => n * 256 + x.toNat) init = s.foldl (fun n c => n * 16 + (unhex c).getD 0) init) ∧
    2 * b.length = s.length
  | [], b, h => by simp [hexDecode] at h; subst h; simp
  | [_], b, h => by simp [hexDecode] at h
  | h :: l :: rest, b, hb => by
    unfold hexDecode at hb
    cases ha : unhex h with
    | none => simp [ha] at hb
    | some a =>
      cases hl : unhex l with
      | none => simp [ha, hl] at hb
      | some b' =>
        cases hr : hexDecode rest with
        | none => simp [ha, hl, hr] at hb
        | some r =>
          simp only [ha, hl, hr] at hb
          injection hb with hb; subst hb
          obtain ⟨ih1, ih2⟩ := hexDecode_value rest r hr
          have hlt : a * 16 + b' < 256 := by have := unhex_lt h a ha; have := unhex_lt l b' hl; omega
          constructor
          · intro init
            simp only [List.foldl_cons, ha, hl, Option.getD_some, toUInt8_toNat _ hlt]
            rw [ih1]
            congr 1; omega
          · simp only [List.length_cons]; omega

/-- … and it succeeds exactly on an even number of hexadecimal digits -/
theorem hexDecode_isSome : ∀ (s : Bytes), (hexDecode s).isSome = (s.length % 2 == 0 && s.all isHexChar)
  | [] => rfl
  | [c] => by simp [hexDecode]
  | h :: l :: rest => by
    have ih := hexDecode_isSome rest
    unfold hexDecode
    simp only [List.length_cons, List.all_cons, isHexChar]
    have hm : (rest.length + 1 + 1) % 2 = rest.length % 2 := by omega
    rw [hm]
    cases ha : unhex h with
    | none => simp
    | some a =>
      cases hl : unhex l with
      | none => simp
      | some b' =>
        cases hr : hexDecode rest with
        | none =>
          rw [hr] at ih; simp only [Option.isSome_none] at ih
          simp only [Option.isSome_none, Option.isSome_some, Bool.true_and]
          exact ih
        | some r =>
          rw [hr] at ih; simp only [Option.isSome_some] at ih
          simp only [Option.isSome_some, Bool.true_and]
          exact ih

theorem hexValue_zeros (k : Nat) : hexValue (List.replicate k 48) = 0 := by
  unfold hexValue
  induction k with
  | zero => rfl
  | succ k ih =>
    rw [List.replicate_succ, List.foldl_cons]
    have : (unhex 48).getD 0 = 0 := by decide
    rw [this]; exact ih

/-- C17 (hex timestamps): a hexadecimal string of at most 16 digits becomes the 8-byte big-endian encoding of its
value; any other character is rejected -/
theorem C17_hexts (ts : Bytes) (hl : ts.length ≤ 16) :
    (ts.all isHexChar = true → ∃ b, parseHexTimestamp ts = .ok b ∧ b.length = 8 ∧ beValue b = hexValue ts) ∧
    (ts.all isHexChar = false → parseHexTimestamp ts = .err .badHex) := by
  have hplen : (List.replicate (16 - ts.length) 48 ++ ts).length = 16 := by simp; omega
  have hall : (List.replicate (16 - ts.length) 48 ++ ts).all isHexChar = ts.all isHexChar := by
    rw [List.all_append]
    have : (List.replicate (16 - ts.length) (48 : UInt8)).all isHexChar = true := by
      apply List.all_eq_true.mpr; intro c hc; have := List.eq_of_mem_replicate hc; subst this; decide
    rw [this, Bool.true_and]
  have hsome := hexDecode_isSome (List.replicate (16 - ts.length) 48 ++ ts)
  rw [hplen, hall] at hsome
  constructor
  · intro h
    rw [h] at hsome
    obtain ⟨b, hb⟩ := Option.isSome_iff_exists.mp (by simpa using hsome)
    obtain ⟨hv, hlen⟩ := hexDecode_value _ b hb
    refine ⟨b, ?_, by rw [hplen] at hlen; omega, ?_⟩
    · unfold parseHexTimestamp; simp only [hb]
    · have := hv 0
      unfold beValue
      rw [this]
      have happ := hexValue_append (List.replicate (16 - ts.length) 48) ts
      unfold hexValue at happ
      rw [happ]
      have hz := hexValue_zeros (16 - ts.length)
      unfold hexValue at hz
      rw [hz]; unfold hexValue; omega
  · intro h
    rw [h] at hsome
    have : hexDecode (List.replicate (16 - ts.length) 48 ++ ts) = none := by
      cases hd : hexDecode (List.replicate (16 - ts.length) 48 ++ ts) with
      | none => rfl
      | some _ => rw [hd] at hsome; simp at hsome
    unfold parseHexTimestamp; simp only [this]

example : parseHexTimestamp [49, 51, 50, 100, 48, 98, 54] = .ok [0, 0, 0, 0, 0x01, 0x32, 0xd0, 0xb6] := by decide   -- "132d0b6"

/-- C17 (hex timestamps, beyond the documented 16 digits): nothing is padded; a text of even length made of hexadecimal
digits decodes to its value on `length / 2` bytes (more than 8: OCRA admission then refuses it), an odd length or any other
character is rejected.  With `C17_hexts` this characterises `ParseHexTimestamp` on every input. -/
theorem C17_hexts_long (ts : Bytes) (hl : 16 < ts.length) :
    (ts.length % 2 = 0 → ts.all isHexChar = true →
        ∃ b, parseHexTimestamp ts = .ok b ∧ 2 * b.length = ts.length ∧ beValue b = hexValue ts) ∧
    ((ts.length % 2 = 1 ∨ ts.all isHexChar = false) → parseHexTimestamp ts = .err .badHex) := by
  have hp : List.replicate (16 - ts.length) (48 : UInt8) ++ ts = ts := by
    have : 16 - ts.length = 0 := by omega
    rw [this]; rfl
  have hsome := hexDecode_isSome ts
  constructor
  · intro he ha
    rw [ha, he] at hsome
    obtain ⟨b, hb⟩ := Option.isSome_iff_exists.mp (by simpa using hsome)
    obtain ⟨hv, hlen⟩ := hexDecode_value _ b hb
    refine ⟨b, ?_, hlen, ?_⟩
    · unfold parseHexTimestamp; simp only [hp, hb]
    · have := hv 0
      unfold beValue hexValue
      exact this
  · intro h
    have : hexDecode ts = none := by
      cases hd : hexDecode ts with
      | none => rfl
      | some _ =>
        rw [hd] at hsome
        rcases h with h | h
        · rw [h] at hsome; simp at hsome
        · rw [h] at hsome; simp at hsome
    unfold parseHexTimestamp; simp only [hp, this]

example : parseHexTimestamp (List.replicate 18 49) = .ok (List.replicate 9 0x11) := by decide
example : parseHexTimestamp (List.replicate 17 49) = .err .badHex := by decide

theorem hexOfNatAux_hex : ∀ (fuel n : Nat) (acc : Bytes), acc.all isHexChar = true → (hexOfNatAux fuel n acc).all isHexChar = true := by
  intro fuel
  induction fuel with
  | zero => intro n acc h; exact h
  | succ f ih =>
    intro n acc h
    unfold hexOfNatAux
    split
    · exact h
    · apply ih
      rw [List.all_cons, h, Bool.and_true]
      unfold isHexChar
      rw [unhex_hexDigitUpper _ (Nat.mod_lt _ (by omega))]; rfl

theorem hexOfNat_hex (n : Nat) : (hexOfNat n).all isHexChar = true := by
  unfold hexOfNat
  split
  · decide
  · exact hexOfNatAux_hex _ _ [] rfl

/-- C17 (numeric question, value form): the 128 challenge bytes are the hexadecimal numeral of the question's value,
left-aligned — i.e. their big-endian value is `value · 16^(256 − number of hex digits)` -/
theorem C17_question_value (q : Bytes) (hne : q ≠ []) (hd : q.all isDigitChar = true)
    (hfit : (hexOfNat (decValue q)).length ≤ 256) :
    ∃ b, parseDecimalChallenge q = .ok b ∧ b.length = 128 ∧
      beValue b = decValue q * 16 ^ (256 - (hexOfNat (decValue q)).length) := by
  rw [C17_question q hne hd]
  have hplen : (hexOfNat (decValue q) ++ List.replicate (256 - (hexOfNat (decValue q)).length) 48).length = 256 := by simp; omega
  have hall : (hexOfNat (decValue q) ++ List.replicate (256 - (hexOfNat (decValue q)).length) 48).all isHexChar = true := by
    rw [List.all_append, hexOfNat_hex, Bool.true_and]
    apply List.all_eq_true.mpr; intro c hc; have := List.eq_of_mem_replicate hc; subst this; decide
  have hsome := hexDecode_isSome (hexOfNat (decValue q) ++ List.replicate (256 - (hexOfNat (decValue q)).length) 48)
  rw [hplen, hall] at hsome
  obtain ⟨b, hb⟩ := Option.isSome_iff_exists.mp (by simpa using hsome)
  obtain ⟨hv, hlen⟩ := hexDecode_value _ b hb
  refine ⟨b, by simp only [hb], by rw [hplen] at hlen; omega, ?_⟩
  have := hv 0
  unfold beValue
  rw [this]
  have happ := hexValue_append (hexOfNat (decValue q)) (List.replicate (256 - (hexOfNat (decValue q)).length) 48)
  unfold hexValue at happ
  rw [happ]
  have hz := hexValue_zeros (256 - (hexOfNat (decValue q)).length)
  have hn := C17_hexOfNat_value (decValue q)
  unfold hexValue at hz hn
  rw [hz, hn, List.length_replicate]; omega

theorem hexFold_lt (s : Bytes) : ∀ init : Nat,
    s.foldl (fun n c => n * 16 + (unhex c).getD 0) init < (init + 1) * 16 ^ s.length := by
  induction s with
  | nil => intro init; simp
  | cons c t ih =>
    intro init
    rw [List.foldl_cons, List.length_cons, Nat.pow_succ]
    have hd : (unhex c).getD 0 < 16 := by
      cases h : unhex c with
      | none => simp
      | some v => simpa using unhex_lt c v h
    calc t.foldl (fun n c => n * 16 + (unhex c).getD 0) (init * 16 + (unhex c).getD 0)
        < (init * 16 + (unhex c).getD 0 + 1) * 16 ^ t.length := ih _
      _ ≤ ((init + 1) * 16) * 16 ^ t.length := Nat.mul_le_mul_right _ (by omega)
      _ = (init + 1) * (16 ^ t.length * 16) := by rw [Nat.mul_assoc, Nat.mul_comm 16]

theorem hexValue_lt (s : Bytes) : hexValue s < 16 ^ s.length := by
  have := hexFold_lt s 0
  simpa [hexValue] using this

/-- the value of the last `k` hexadecimal digits is the value modulo 16^k -/
theorem hexValue_drop (s : Bytes) (k : Nat) (hk : k ≤ s.length) : hexValue (s.drop (s.length - k)) = hexValue s % 16 ^ k := by
  have hsplit : s = s.take (s.length - k) ++ s.drop (s.length - k) := (List.take_append_drop _ _).symm
  have hl : (s.drop (s.length - k)).length = k := by rw [List.length_drop]; omega
  have h := hexValue_append (s.take (s.length - k)) (s.drop (s.length - k))
  rw [← hsplit, hl] at h
  have hlt := hexValue_lt (s.drop (s.length - k))
  rw [hl] at hlt
  rw [h, Nat.mul_comm, Nat.mul_add_mod, Nat.mod_eq_of_lt hlt]

/-- C17 (`MustHexPadLeft`): for a hexadecimal numeral the helper returns exactly `size` bytes whose value is the numeral's
value modulo 256^size — the rightmost digits are kept when the numeral is too long, zeros are added on the left when it is
too short (an argument that is not a hexadecimal numeral makes this documented Must* helper panic) -/
theorem C17_musthex (s : Bytes) (size : Nat) (hh : s.all isHexChar = true) :
    ∃ b, mustHexPadLeft s (size : Int) = .ok b ∧ b.length = size ∧ beValue b = hexValue s % 16 ^ (2 * size) := by
  unfold mustHexPadLeft leftPadHex
  have hw : ((size : Int) * 2).toNat = 2 * size := by omega
  by_cases hlen : (s.length : Int) ≥ (size : Int) * 2
  · rw [if_pos hlen, if_neg (by omega)]
    simp only [hw]
    have hk : 2 * size ≤ s.length := by omega
    have hl : (s.drop (s.length - 2 * size)).length = 2 * size := by rw [List.length_drop]; omega
    have hall : (s.drop (s.length - 2 * size)).all isHexChar = true := by
      apply List.all_eq_true.mpr; intro c hc
      exact List.all_eq_true.mp hh c (List.mem_of_mem_drop hc)
    have hsome := hexDecode_isSome (s.drop (s.length - 2 * size))
    rw [hl, hall] at hsome
    obtain ⟨b, hb⟩ := Option.isSome_iff_exists.mp (by simpa using hsome)
    obtain ⟨hv, hbl⟩ := hexDecode_value _ b hb
    refine ⟨b, by simp only [hb], by rw [hl] at hbl; omega, ?_⟩
    have := hv 0
    unfold beValue; rw [this]
    exact hexValue_drop s (2 * size) hk
  · rw [if_neg hlen]
    simp only [hw]
    have hl : (List.replicate (2 * size - s.length) 48 ++ s).length = 2 * size := by simp; omega
    have hall : (List.replicate (2 * size - s.length) 48 ++ s).all isHexChar = true := by
      rw [List.all_append, hh, Bool.and_true]
      apply List.all_eq_true.mpr; intro c hc; have := List.eq_of_mem_replicate hc; subst this; decide
    have hsome := hexDecode_isSome (List.replicate (2 * size - s.length) 48 ++ s)
    rw [hl, hall] at hsome
    obtain ⟨b, hb⟩ := Option.isSome_iff_exists.mp (by simpa using hsome)
    obtain ⟨hv, hbl⟩ := hexDecode_value _ b hb
    refine ⟨b, by simp only [hb], by rw [hl] at hbl; omega, ?_⟩
    have := hv 0
    unfold beValue; rw [this]
    have happ := hexValue_append (List.replicate (2 * size - s.length) 48) s
    unfold hexValue at happ
    rw [happ]
    have hz := hexValue_zeros (2 * size - s.length)
    unfold hexValue at hz
    rw [hz]
    have hlt := hexValue_lt s
    have hpow : 16 ^ s.length ≤ 16 ^ (2 * size) := Nat.pow_le_pow_right (by omega) (by omega)
    unfold hexValue at hlt ⊢
    rw [Nat.mod_eq_of_lt (by omega)]; omega

-- non-vacuity / RFC 6287 examples: "12345678" ↦ BC614E followed by zeros
example : hexOfNat 12345678 = [66, 67, 54, 49, 52, 69] := by decide
set_option maxRecDepth 4096 in
example : (parseDecimalChallenge [49, 50, 51, 52, 53, 54, 55, 56]) =
    .ok ([0xBC, 0x61, 0x4E] ++ List.replicate 125 0) := by decide
example : parseDecimalToBE8 [50, 53, 54] = .ok [0, 0, 0, 0, 0, 0, 1, 0] := by decide

end OtpVerif.Props.C17

#print axioms OtpVerif.Props.C17.be8_value
#print axioms OtpVerif.Props.C17.C17_to8
#print axioms OtpVerif.Props.C17.C17_dec8
#print axioms OtpVerif.Props.C17.C17_leftpad
#print axioms OtpVerif.Props.C17.C17_leftpad_len
#print axioms OtpVerif.Props.C17.C17_hexinput
#print axioms OtpVerif.Props.C17.C17_hexOfNat_value
#print axioms OtpVerif.Props.C17.C17_question
#print axioms OtpVerif.Props.C17.C17_end2end
#print axioms OtpVerif.Props.C17.C17_hexts
#print axioms OtpVerif.Props.C17.C17_hexts_long
#print axioms OtpVerif.Props.C17.C17_question_value
#print axioms OtpVerif.Props.C17.hexDecode_value
#print axioms OtpVerif.Props.C17.hexDecode_isSome
#print axioms OtpVerif.Props.C17.C17_musthex
