/-
C08 — random secrets are full-length CSPRNG output, base32-encoded without padding.
The random source is modelled as the byte stream `rand.Reader` will deliver (arbitrary); that the real
code reads exactly from `crypto/rand.Reader` and nothing else is what the `rnd` correspondence op checks
(the harness substitutes the reader and records what is consumed, also in short chunks).
-/
import OtpVerif.Props.C07
import OtpVerif.Props.C01
import OtpVerif.Model.Utils
import OtpVerif.Lemmas.Base32Spec

namespace OtpVerif.Props.C08
open OtpVerif OtpVerif.Std OtpVerif.Model OtpVerif.Lemmas OtpVerif.Props.C07

/-- the unpadded encoding as text (what `RandomSecret` returns) -/
def encNoPadB (b : Bytes) : Bytes := (B32.encNoPad (b.map UInt8.toNat)).map Nat.toUInt8

/-- canonical number of '=' for a given byte length -/
def padCount (n : Nat) : Nat := match n % 5 with | 0 => 0 | 1 => 6 | 2 => 4 | 3 => 3 | _ => 1

theorem enc_eq_noPad (b : List Nat) : B32.enc b = B32.encNoPad b ++ List.replicate (padCount b.length) B32.PAD := by
  induction b using B32.enc.induct with
  | case1 b0 b1 b2 b3 b4 rest ih =>
    unfold B32.enc B32.encNoPad
    rw [ih]
    have : padCount (b0 :: b1 :: b2 :: b3 :: b4 :: rest).length = padCount rest.length := by
      unfold padCount; simp only [List.length_cons]
      have : (rest.length + 1 + 1 + 1 + 1 + 1) % 5 = rest.length % 5 := by omega
      rw [this]
    rw [this]; simp
  | case2 => simp [B32.enc, B32.encNoPad, padCount]
  | case3 => simp [B32.enc, B32.encNoPad, padCount]
  | case4 => simp [B32.enc, B32.encNoPad, padCount]
  | case5 => simp [B32.enc, B32.encNoPad, padCount]
  | case6 => simp [B32.enc, B32.encNoPad, padCount]

theorem padCount_lt (n : Nat) : padCount n < 8 := by
  unfold padCount; split <;> omega

theorem encB_eq_noPad (b : Bytes) : encB b = encNoPadB b ++ List.replicate (padCount b.length) 61 := by
  unfold encB encNoPadB
  rw [enc_eq_noPad, List.map_append, List.length_map]
  simp [B32.PAD]

theorem caseVariant_refl : ∀ s : Bytes, CaseVariant s s
  | [] => .nil
  | c :: s => .keep c (caseVariant_refl s)

/-- the unpadded upper-case text is a spelling of the bytes -/
theorem noPad_spelling (b : Bytes) : Spelling b (encNoPadB b) :=
  ⟨⟨encNoPadB b, padCount b.length, 0, encNoPadB b, [], [], encB_eq_noPad b, padCount_lt _, Nat.zero_le _,
    by simpa using caseVariant_refl (encNoPadB b), by simp, by simp, by simp⟩⟩

/-- the text `RandomSecret` returns is the RFC 4648 base32 encoding in the bit-wise sense of the Spec layer -/
theorem C08_enc_spec (b : Bytes) : encNoPadB b = Spec.b32NoPad b := (Lemmas.B32Spec.b32NoPad_eq b).symm

theorem encNoPad_length : ∀ (l : List Nat), (B32.encNoPad l).length = (8 * l.length + 4) / 5
  | [] => by simp [B32.encNoPad]
  | [_] => by simp [B32.encNoPad]
  | [_, _] => by simp [B32.encNoPad]
  | [_, _, _] => by simp [B32.encNoPad]
  | [_, _, _, _] => by simp [B32.encNoPad]
  | _ :: _ :: _ :: _ :: _ :: rest => by
    unfold B32.encNoPad
    simp only [List.length_cons, encNoPad_length rest]
    omega

/-- C07 / C08: the padded encoding used in `C07_spellings` is the Spec layer's RFC 4648 encoding -/
theorem C07_enc_rfc4648 (b : Bytes) : encB b = Spec.b32 b := by
  rw [encB_eq_noPad]
  unfold Spec.b32
  simp only
  rw [← C08_enc_spec]
  congr 1
  unfold encNoPadB
  rw [List.length_map, encNoPad_length, List.length_map]
  congr 1
  have h5 : b.length % 5 = 0 ∨ b.length % 5 = 1 ∨ b.length % 5 = 2 ∨ b.length % 5 = 3 ∨ b.length % 5 = 4 := by omega
  unfold padCount
  rcases h5 with h | h | h | h | h <;> rw [h] <;> simp only <;> omega

/-- C08: for a supported hash the secret is exactly the next 20/32/64 bytes of the random stream, unmodified,
each used once (the rest of the stream is untouched), returned as unpadded base32 -/
theorem C08_bytes (a : Nat) (st : Bytes) (ha : a < 3) (hn : hashLen a ≤ st.length) :
    randomSecret a st = (.ok (encNoPadB (st.take (hashLen a))), st.drop (hashLen a)) := by
  unfold randomSecret
  rw [if_neg (by omega)]
  simp only
  rw [if_neg (by omega)]
  rfl

theorem hashLen_vals (a : Nat) (ha : a < 3) : hashLen a = 20 ∨ hashLen a = 32 ∨ hashLen a = 64 := by
  have : a = 0 ∨ a = 1 ∨ a = 2 := by omega
  rcases this with h | h | h <;> subst h <;> simp [hashLen]

/-- … that secret decoding maps back to those bytes -/
theorem C08_decode (b : Bytes) : decodeSecret (encNoPadB b) = .ok b := C07_spellings b _ (noPad_spelling b)

/-- … upper-case and without '=' -/
theorem C08_text (b : Bytes) : ∀ c ∈ encNoPadB b, (65 ≤ c.toNat ∧ c.toNat ≤ 90) ∨ (50 ≤ c.toNat ∧ c.toNat ≤ 55) := by
  intro c hc
  have hb : ∀ x ∈ b.map UInt8.toNat, x < 256 := by
    intro x hx; obtain ⟨y, _, rfl⟩ := List.mem_map.mp hx; exact y.toNat_lt
  unfold encNoPadB at hc
  obtain ⟨n, hn, rfl⟩ := List.mem_map.mp hc
  -- every symbol of the unpadded encoding is an alphabet symbol
  have key : ∀ (l : List Nat), (∀ x ∈ l, x < 256) → ∀ n ∈ B32.encNoPad l, (65 ≤ n ∧ n ≤ 90) ∨ (50 ≤ n ∧ n ≤ 55) := by
    intro l
    induction l using B32.encNoPad.induct with
    | case1 b0 b1 b2 b3 b4 rest ih =>
      intro hl n hn
      have hs := B32.sym_lt b0 b1 b2 b3 b4 (hl b0 (by simp)) (hl b1 (by simp)) (hl b2 (by simp)) (hl b3 (by simp)) (hl b4 (by simp))
      unfold B32.encNoPad at hn
      simp only [List.mem_cons] at hn
      have al : ∀ v, v < 32 → (65 ≤ B32.alpha v ∧ B32.alpha v ≤ 90) ∨ (50 ≤ B32.alpha v ∧ B32.alpha v ≤ 55) := by
        intro v hv; unfold B32.alpha; split <;> omega
      rcases hn with h|h|h|h|h|h|h|h|h
      · subst h; exact al _ hs.1
      · subst h; exact al _ hs.2.1
      · subst h; exact al _ hs.2.2.1
      · subst h; exact al _ hs.2.2.2.1
      · subst h; exact al _ hs.2.2.2.2.1
      · subst h; exact al _ hs.2.2.2.2.2.1
      · subst h; exact al _ hs.2.2.2.2.2.2.1
      · subst h; exact al _ hs.2.2.2.2.2.2.2
      · exact ih (fun x hx => hl x (by simp [hx])) n h
    | case2 b0 b1 b2 b3 =>
      intro hl n hn
      have hs := B32.sym_lt b0 b1 b2 b3 0 (hl b0 (by simp)) (hl b1 (by simp)) (hl b2 (by simp)) (hl b3 (by simp)) (by omega)
      have al : ∀ v, v < 32 → (65 ≤ B32.alpha v ∧ B32.alpha v ≤ 90) ∨ (50 ≤ B32.alpha v ∧ B32.alpha v ≤ 55) := by
        intro v hv; unfold B32.alpha; split <;> omega
      simp only [B32.encNoPad, List.mem_cons, List.not_mem_nil, or_false] at hn
      rcases hn with h|h|h|h|h|h|h <;> subst h
      · exact al _ hs.1
      · exact al _ hs.2.1
      · exact al _ hs.2.2.1
      · exact al _ hs.2.2.2.1
      · exact al _ hs.2.2.2.2.1
      · exact al _ hs.2.2.2.2.2.1
      · exact al _ hs.2.2.2.2.2.2.1
    | case3 b0 b1 b2 =>
      intro hl n hn
      have hs := B32.sym_lt b0 b1 b2 0 0 (hl b0 (by simp)) (hl b1 (by simp)) (hl b2 (by simp)) (by omega) (by omega)
      have al : ∀ v, v < 32 → (65 ≤ B32.alpha v ∧ B32.alpha v ≤ 90) ∨ (50 ≤ B32.alpha v ∧ B32.alpha v ≤ 55) := by
        intro v hv; unfold B32.alpha; split <;> omega
      simp only [B32.encNoPad, List.mem_cons, List.not_mem_nil, or_false] at hn
      rcases hn with h|h|h|h|h <;> subst h
      · exact al _ hs.1
      · exact al _ hs.2.1
      · exact al _ hs.2.2.1
      · exact al _ hs.2.2.2.1
      · exact al _ hs.2.2.2.2.1
    | case4 b0 b1 =>
      intro hl n hn
      have hs := B32.sym_lt b0 b1 0 0 0 (hl b0 (by simp)) (hl b1 (by simp)) (by omega) (by omega) (by omega)
      have al : ∀ v, v < 32 → (65 ≤ B32.alpha v ∧ B32.alpha v ≤ 90) ∨ (50 ≤ B32.alpha v ∧ B32.alpha v ≤ 55) := by
        intro v hv; unfold B32.alpha; split <;> omega
      simp only [B32.encNoPad, List.mem_cons, List.not_mem_nil, or_false] at hn
      rcases hn with h|h|h|h <;> subst h
      · exact al _ hs.1
      · exact al _ hs.2.1
      · exact al _ hs.2.2.1
      · exact al _ hs.2.2.2.1
    | case5 b0 =>
      intro hl n hn
      have hs := B32.sym_lt b0 0 0 0 0 (hl b0 (by simp)) (by omega) (by omega) (by omega) (by omega)
      have al : ∀ v, v < 32 → (65 ≤ B32.alpha v ∧ B32.alpha v ≤ 90) ∨ (50 ≤ B32.alpha v ∧ B32.alpha v ≤ 55) := by
        intro v hv; unfold B32.alpha; split <;> omega
      simp only [B32.encNoPad, List.mem_cons, List.not_mem_nil, or_false] at hn
      rcases hn with h|h <;> subst h
      · exact al _ hs.1
      · exact al _ hs.2.1
    | case6 => intro _ n hn; simp [B32.encNoPad] at hn
  have := key _ hb n hn
  rw [toUInt8_toNat_small n (by omega)]
  exact this

/-- C08: an unsupported hash yields an error and no secret, and consumes nothing -/
theorem C08_unsupported (a : Nat) (st : Bytes) (ha : 3 ≤ a) : randomSecret a st = (.err .unsupportedAlgorithm, st) := by
  unfold randomSecret; rw [if_pos ha]

/-- a history of calls: results in order, and the stream that remains -/
def runCalls : List Nat → Bytes → List (Out Bytes) × Bytes
  | [], st => ([], st)
  | a :: as, st =>
    let r := randomSecret a st
    let rest := runCalls as r.2
    (r.1 :: rest.1, rest.2)

/-- consecutive segments of the stream, one per call -/
def segments : List Nat → Bytes → List Bytes
  | [], _ => []
  | a :: as, st => st.take (hashLen a) :: segments as (st.drop (hashLen a))

def total (as : List Nat) : Nat := (as.map hashLen).sum

/-- C08, histories: any sequence of calls (supported hashes, enough stream) returns the encodings of
consecutive, disjoint segments of the stream – each byte used exactly once, in order – and leaves the rest -/
theorem C08_history : ∀ (as : List Nat) (st : Bytes), (∀ a ∈ as, a < 3) → total as ≤ st.length →
    (runCalls as st).1 = (segments as st).map (fun seg => Out.ok (encNoPadB seg)) ∧
    (runCalls as st).2 = st.drop (total as) ∧
    (segments as st).flatten = st.take (total as) := by
  intro as
  induction as with
  | nil => intro st _ _; simp [runCalls, segments, total]
  | cons a as ih =>
    intro st ha hl
    have ha3 := ha a (by simp)
    have htot : total (a :: as) = hashLen a + total as := by simp [total]
    rw [htot] at hl
    have hb := C08_bytes a st ha3 (by omega)
    have ih' := ih (st.drop (hashLen a)) (fun x hx => ha x (by simp [hx])) (by simp; omega)
    unfold runCalls segments
    simp only [hb]
    refine ⟨?_, ?_, ?_⟩
    · simp only [List.map_cons]; rw [ih'.1]
    · rw [ih'.2.1, htot, List.drop_drop]
    · simp only [List.flatten_cons]; rw [ih'.2.2, htot]
      rw [List.take_add]

-- non-vacuity
example : (randomSecret 0 (List.replicate 25 7)).2 = List.replicate 5 7 := by decide
example : total [0, 2, 1] = 116 := by decide

/-- C08 ∘ C07 ∘ C01 (what a fresh secret is for): the text `RandomSecret` returns is accepted by every entry point, and the
code generated from it is the RFC 4226 value under exactly the bytes taken from the random source -/
theorem C08_usable (O : HashOracle) (a : Nat) (st : Bytes) (ha : a < 3) (hn : hashLen a ≤ st.length)
    (c : Nat) (p : Option Param) (hd1 : 1 ≤ (resolveHOTP p).digits) (hd2 : (resolveHOTP p).digits ≤ 10)
    (hpa : (resolveHOTP p).algo < 3) :
    ∃ text, (randomSecret a st).1 = .ok text ∧
      generateHOTP O text c p = .ok (Spec.hotp O.hmac (resolveHOTP p).algo (st.take (hashLen a)) c (resolveHOTP p).digits) := by
  refine ⟨encNoPadB (st.take (hashLen a)), ?_, ?_⟩
  · rw [C08_bytes a st ha hn]
  · exact Props.C01.C01_generate_eq_rfc O _ _ c p (C08_decode _) hd1 hd2 hpa

end OtpVerif.Props.C08

#print axioms OtpVerif.Props.C08.C08_bytes
#print axioms OtpVerif.Props.C08.C08_decode
#print axioms OtpVerif.Props.C08.C08_text
#print axioms OtpVerif.Props.C08.C08_unsupported
#print axioms OtpVerif.Props.C08.C08_history
#print axioms OtpVerif.Props.C08.C08_enc_spec
#print axioms OtpVerif.Props.C08.C07_enc_rfc4648
#print axioms OtpVerif.Props.C08.C08_usable
