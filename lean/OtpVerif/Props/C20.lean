/-
C20 — the WebAssembly/JavaScript binding gives the same answers as the native library  (PARTIAL: see DESIGN.md).
Proved: the js/wasm derivation and validation (second implementation: hash switch, `pow10Wasm`, FormatUint +
padding) equal the native ones on the supported domain; the binding's window loops accept exactly the native
windows; wrong argument counts / types give an `error:` string; the JavaScript package exports each function
under its own name.  V8, wasm_exec.js and syscall/js are exercised by the `wasmcorr` engine (real module under
Node, globals and package exports), not modelled.
-/
import OtpVerif.Model.Wasm
import OtpVerif.Lemmas.Decimal
import OtpVerif.Lemmas.Validate
import OtpVerif.Lemmas.Window
import OtpVerif.Props.C03
import OtpVerif.Props.C18
import OtpVerif.Gen.JsExports

namespace OtpVerif.Props.C20
open OtpVerif OtpVerif.Model OtpVerif.Model.Wasm OtpVerif.Lemmas OtpVerif.Props.C01

/-- C20 (derivation): for every key, counter, supported length and hash the js/wasm derivation returns what
the native derivation returns (hence the RFC 4226 value) -/
theorem C20_derive (O : HashOracle) (k : Bytes) (c d a : Nat) (hd1 : 1 ≤ d) (hd2 : d ≤ 10) (ha : a < 3) :
    deriveWasm O k c d a = deriveRFC4226 O k c d a := by
  rw [C01_derive_eq_rfc O k c d a hd1 hd2 ha]
  unfold deriveWasm
  rw [if_neg (by omega), if_neg (by rw [mod10_length]; omega)]
  have hm : (if 1 ≤ d ∧ d ≤ 9 then Gen.mod10[d]? else some (pow10Wasm d)) = some (10 ^ d) := by
    by_cases h9 : 1 ≤ d ∧ d ≤ 9
    · rw [if_pos h9, mod10_eq_pow d hd1 hd2]
    · rw [if_neg h9, pow10Wasm_eq d (by omega)]
  rw [hm]
  simp only
  have hlen : 19 ≤ (O.hmac a k (be8 c)).length := by rw [O.len_ok a k (be8 c) ha]; exact hashLen_ge a
  rw [truncate_eq _ _ hlen (Nat.pow_pos (by omega))]
  simp only
  unfold Spec.hotp
  rw [formatPad_eq d _ hd1 (Nat.mod_lt _ (Nat.pow_pos (by omega)))]

/-- C20 (validation core): `ValidateOTPWasm` = the native per-counter validation -/
theorem C20_validate_core (O : HashOracle) (code k : Bytes) (c d a : Nat) (hd1 : 1 ≤ d) (hd2 : d ≤ 10) (ha : a < 3) :
    validateWasm O code k c d a = validateRFC4226 O code k c d a := by
  unfold validateWasm validateRFC4226 validate
  rw [C20_derive O k c d a hd1 hd2 ha]
  by_cases hl : code.length ≠ d
  · rw [if_pos hl, if_pos (by omega)]
  · rw [if_neg hl, if_neg (by omega)]
    rfl

/-- the binding's HOTP loop body examines counter `counter + i` when it is non-negative -/
theorem wasmHotpProbe_ok (chk : Nat → Bool) (counter : Int) (i : Int) :
    wasmHotpProbe (fun c => .ok (chk c)) counter i = .ok (if counter + i < 0 then false else chk (toU64 (counter + i))) := by
  unfold wasmHotpProbe; split <;> rfl

/-- C20 (HOTP window): for 0 ≤ c, c + s < 2^63 the binding's loop accepts exactly the native window
[max(0, c−s), c+s] -/
theorem wasmWindow_iff (chk : Nat → Bool) (c s : Nat) (hov : c + s < 2 ^ 63) :
    windowLoop (wasmHotpProbe (fun x => .ok (chk x)) (c : Int)) (s : Int) (2 * s + 1) (-(s : Int)) = .ok true ↔
      ∃ c', c - s ≤ c' ∧ c' ≤ c + s ∧ chk c' = true := by
  have h := windowLoop_iff (wasmHotpProbe (fun x => .ok (chk x)) (c : Int)) _ (wasmHotpProbe_ok chk c) (s : Int) (2 * s + 1) (-(s : Int)) (by omega)
  rw [h.1]
  constructor
  · rintro ⟨j, h1, h2, h3⟩
    by_cases hneg : (c : Int) + j < 0
    · simp [hneg] at h3
    · simp only [hneg, if_false] at h3
      rw [toU64_nonneg _ (by omega) (by omega)] at h3
      exact ⟨((c : Int) + j).toNat, by omega, by omega, h3⟩
  · rintro ⟨c', h1, h2, h3⟩
    refine ⟨(c' : Int) - c, by omega, by omega, ?_⟩
    have hnn : ¬ ((c : Int) + ((c' : Int) - c) < 0) := by omega
    simp only [hnn, if_false]
    rw [toU64_nonneg _ (by omega) (by omega)]
    have : ((c : Int) + ((c' : Int) - c)).toNat = c' := by omega
    rw [this]; exact h3

/-- C20 (HOTP verdicts): on the common domain (counter 0..2^53, skew 0..10, digits/hash by the shared FromStr
functions, hence supported) the binding's `validateHOTP` answers `true` exactly when the native `ValidateHOTP`
does, for every secret text and every submitted code -/
theorem C20_validateHOTP (O : HashOracle) (secret code key d a : Bytes) (c s : Nat)
    (hs : decodeSecret secret = .ok key) (hne : secret ≠ [] ∧ code ≠ [] ∧ d ≠ [] ∧ a ≠ [])
    (hc : c ≤ 2 ^ 53) (hsk : s ≤ 10) :
    jsValidateHOTP O [.str secret, .str code, .int c, .str d, .str a, .int s] = .bool true ↔
      validateHOTP O secret code c (some ⟨Rest.digitsFromStr d, 0, s, Rest.algoFromStr a⟩) = .ok (true, none) := by
  have hd := Props.C18.digitsFromStr_range d
  have ha := Props.C18.algoFromStr_range a
  -- native side
  have hn := (Props.C03.C03_iff O secret key code c (some ⟨Rest.digitsFromStr d, 0, s, Rest.algoFromStr a⟩) hs hsk
    (by simp only [resolveHOTP]; omega) hd.1 hd.2 ha).1
  simp only [resolveHOTP] at hn
  rw [hn]
  -- wasm side
  unfold jsValidateHOTP
  have e1 : parseStringArg (.str secret) = some secret := by unfold parseStringArg; cases secret with | nil => exact absurd rfl hne.1 | cons _ _ => rfl
  have e2 : parseStringArg (.str code) = some code := by unfold parseStringArg; cases code with | nil => exact absurd rfl hne.2.1 | cons _ _ => rfl
  have e3 : parseStringArg (.str d) = some d := by unfold parseStringArg; cases d with | nil => exact absurd rfl hne.2.2.1 | cons _ _ => rfl
  have e4 : parseStringArg (.str a) = some a := by unfold parseStringArg; cases a with | nil => exact absurd rfl hne.2.2.2 | cons _ _ => rfl
  have e5 : parseIntArg (.int (c : Int)) = some (c : Int) := by unfold parseIntArg; simp only; rw [if_neg (by omega)]
  have e6 : parseIntArg (.int (s : Int)) = some (s : Int) := by unfold parseIntArg; simp only; rw [if_neg (by omega)]
  simp only [e1, e2, e3, e4, e5, e6, hs]
  rw [if_neg (by omega)]
  have hchk : (fun x => accepted (validateWasm O code key x (Rest.digitsFromStr d) (Rest.algoFromStr a))) =
      (fun x => Out.ok (decide (code = Spec.hotp O.hmac (Rest.algoFromStr a) key x (Rest.digitsFromStr d)))) := by
    funext x
    rw [C20_validate_core O code key x _ _ hd.1 hd.2 ha]
    exact accepted_validate_supported O code key x _ _ hd.1 hd.2 ha
  rw [hchk]
  have hw := wasmWindow_iff (fun x => decide (code = Spec.hotp O.hmac (Rest.algoFromStr a) key x (Rest.digitsFromStr d))) c s (by omega)
  have hnat : ((s : Int)).toNat = s := by omega
  rw [hnat]
  have htot := (windowLoop_iff (wasmHotpProbe (fun x => .ok (decide (code = Spec.hotp O.hmac (Rest.algoFromStr a) key x (Rest.digitsFromStr d)))) (c : Int)) _
    (wasmHotpProbe_ok _ c) (s : Int) (2 * s + 1) (-(s : Int)) (by omega)).2
  rcases htot with ht | hf
  · rw [ht]
    refine ⟨fun _ => ?_, fun _ => rfl⟩
    obtain ⟨c', h1, h2, h3⟩ := hw.mp ht
    exact ⟨c', h1, h2, of_decide_eq_true h3⟩
  · rw [hf]
    refine ⟨fun h => (by cases h), ?_⟩
    rintro ⟨c', h1, h2, h3⟩
    have := hw.mpr ⟨c', h1, h2, decide_eq_true h3⟩
    rw [hf] at this; cases this

/-- C20 (generation): on the common domain the binding's `generateHOTP` returns the native code -/
theorem C20_generateHOTP (O : HashOracle) (secret d a : Bytes) (c : Nat)
    (hne : secret ≠ [] ∧ d ≠ [] ∧ a ≠ []) (hc : c < 2 ^ 63) :
    jsGenerateHOTP O [.str secret, .int c, .str d, .str a] =
      (match generateHOTP O secret c (some ⟨Rest.digitsFromStr d, 0, 0, Rest.algoFromStr a⟩) with
       | .ok code => .str code
       | _ => .error) := by
  have hd := Props.C18.digitsFromStr_range d
  have ha := Props.C18.algoFromStr_range a
  unfold jsGenerateHOTP generateOTP generateHOTP
  have e1 : parseStringArg (.str secret) = some secret := by unfold parseStringArg; cases secret with | nil => exact absurd rfl hne.1 | cons _ _ => rfl
  have e3 : parseStringArg (.str d) = some d := by unfold parseStringArg; cases d with | nil => exact absurd rfl hne.2.1 | cons _ _ => rfl
  have e4 : parseStringArg (.str a) = some a := by unfold parseStringArg; cases a with | nil => exact absurd rfl hne.2.2 | cons _ _ => rfl
  have e5 : parseIntArg (.int (c : Int)) = some (c : Int) := by unfold parseIntArg; simp only; rw [if_neg (by omega)]
  simp only [e1, e3, e4, e5, resolveHOTP]
  rw [toU64_nonneg _ (by omega) (by omega)]
  have : ((c : Int)).toNat = c := by omega
  rw [this]
  cases decodeSecret secret with
  | ok key => simp only; rw [C20_derive O key c _ _ hd.1 hd.2 ha]; rfl
  | err e => rfl
  | panic => rfl

/-- C20 (errors): a wrong number of arguments is answered with an `error:` string -/
theorem C20_arity (O : HashOracle) (args : List JsVal) :
    (args.length ≠ 4 → jsGenerateHOTP O args = .error) ∧ (args.length ≠ 5 → jsGenerateTOTP O args = .error) ∧
    (args.length ≠ 6 → jsValidateHOTP O args = .error) ∧ (args.length ≠ 7 → jsValidateTOTP O args = .error) ∧
    (args.length ≠ 6 → jsGenerateOTPURL args = .error) := by
  refine ⟨?_, ?_, ?_, ?_, ?_⟩ <;> intro h
  · unfold jsGenerateHOTP; split
    · simp at h
    · rfl
  · unfold jsGenerateTOTP; split
    · simp at h
    · rfl
  · unfold jsValidateHOTP; split
    · simp at h
    · rfl
  · unfold jsValidateTOTP; split
    · simp at h
    · rfl
  · unfold jsGenerateOTPURL; split
    · simp at h
    · rfl

/-- C20 (errors): only a non-empty string is a string argument, only a number with non-negative `Int()` is an
integer argument – undefined, null, booleans, NaN, ±∞, huge and negative numbers, objects, arrays, functions,
symbols and BigInts are refused -/
theorem C20_arg_types (v : JsVal) :
    (∀ s, parseStringArg v = some s ↔ v = .str s ∧ s ≠ []) ∧ (∀ z, parseIntArg v = some z ↔ v = .int z ∧ 0 ≤ z) := by
  constructor
  · intro s
    cases v <;> simp [parseStringArg]
    rename_i t
    constructor
    · rintro ⟨h1, h2⟩; subst h2; exact ⟨rfl, by intro e; subst e; simp at h1⟩
    · rintro ⟨h1, h2⟩; subst h1; exact ⟨by cases t with | nil => exact absurd rfl h2 | cons _ _ => simp, rfl⟩
  · intro z
    cases v <;> simp [parseIntArg]
    rename_i t
    constructor
    · rintro ⟨h1, h2⟩; subst h2; exact ⟨rfl, by omega⟩
    · rintro ⟨h1, h2⟩; subst h1; exact ⟨by omega, rfl⟩

/-- C20 (errors): a malformed first argument makes every function answer `error:` (same for the other positions) -/
theorem C20_bad_first (O : HashOracle) (v : JsVal) (rest : List JsVal) (h : parseStringArg v = none) :
    jsGenerateHOTP O (v :: rest) = .error ∧ jsValidateHOTP O (v :: rest) = .error ∧ jsGenerateOTPURL (v :: rest) = .error := by
  refine ⟨?_, ?_, ?_⟩
  · unfold jsGenerateHOTP; split <;> (try rfl); rename_i heq; injection heq with h1 _; subst h1; simp [h]
  · unfold jsValidateHOTP; split <;> (try rfl); rename_i heq; injection heq with h1 _; subst h1; simp [h]
  · unfold jsGenerateOTPURL; split <;> (try rfl); rename_i heq; injection heq with h1 _; subst h1; simp [h]

/-- C20 (exports): every name the JavaScript package exports is bound to the global of the same name, that
global is registered by the Go program, and all five functions are exported (regenerated from index.js and
wasm/main.go) -/
theorem C20_exports :
    Gen.jsExports.all (fun e => e.1 == e.2 && Gen.wasmGlobals.contains e.2) = true ∧
    Gen.wasmGlobals.all (fun g => Gen.jsExports.any (fun e => e.1 == g)) = true ∧
    Gen.wasmGlobals.length = 5 := by decide

theorem parseStringArg_str (s : Bytes) (h : s ≠ []) : parseStringArg (.str s) = some s := by
  unfold parseStringArg; cases s with | nil => exact absurd rfl h | cons _ _ => rfl

theorem parseIntArg_nat (n : Nat) : parseIntArg (.int (n : Int)) = some (n : Int) := by
  unfold parseIntArg; simp only; rw [if_neg (by omega)]

/-- C20 (TOTP verdicts): for every decodable secret, every code, instant, period ≥ 1 and skew ≤ 10 the binding's
`validateTOTP` returns exactly the native verdict (the two window loops are the same function of the per-step check,
and the per-step checks agree by `C20_validate_core`) -/
theorem C20_validateTOTP (O : HashOracle) (secret code key d a : Bytes) (ts s per : Nat)
    (hs : decodeSecret secret = .ok key) (hne : secret ≠ [] ∧ code ≠ [] ∧ d ≠ [] ∧ a ≠ [])
    (hsk : s ≤ 10) (hper : 1 ≤ per) :
    jsValidateTOTP O [.str secret, .str code, .int ts, .str d, .str a, .int s, .int per] =
      (match validateTOTP O secret code ts (some ⟨Rest.digitsFromStr d, per, s, Rest.algoFromStr a⟩) with
       | .ok (b, _) => .bool b
       | _ => .error) := by
  have hd := Props.C18.digitsFromStr_range d
  have ha := Props.C18.algoFromStr_range a
  unfold jsValidateTOTP validateTOTP
  simp only [parseStringArg_str _ hne.1, parseStringArg_str _ hne.2.1, parseStringArg_str _ hne.2.2.1,
    parseStringArg_str _ hne.2.2.2, parseIntArg_nat, hs, resolveTOTP]
  rw [if_neg (by omega), if_neg (by omega), if_neg (by omega)]
  have hep : effPeriod per = per := by unfold effPeriod; rw [if_neg (by omega)]
  have hpn : ((per : Int)).toNat = per := by omega
  have hsn : ((s : Int)).toNat = s := by omega
  rw [hep, hpn, hsn]
  have hchk : (fun x => accepted (validateWasm O code key x (Rest.digitsFromStr d) (Rest.algoFromStr a))) =
      (fun x => accepted (validateRFC4226 O code key x (Rest.digitsFromStr d) (Rest.algoFromStr a))) := by
    funext x; rw [C20_validate_core O code key x _ _ hd.1 hd.2 ha]
  rw [hchk]
  cases timeCounter (ts : Int) per with
  | err e => rfl
  | panic => rfl
  | ok counter =>
    simp only
    cases windowLoop (totpProbe (fun x => accepted (validateRFC4226 O code key x (Rest.digitsFromStr d) (Rest.algoFromStr a))) counter) (s : Int) (2 * s + 1) (-(s : Int)) with
    | ok b => cases b <;> rfl
    | err e => rfl
    | panic => rfl

/-- C20 (TOTP generation): for periods 1..3600 the binding's `generateTOTP` returns the native code -/
theorem C20_generateTOTP (O : HashOracle) (secret d a : Bytes) (ts per : Nat)
    (hne : secret ≠ [] ∧ d ≠ [] ∧ a ≠ []) (hper : 1 ≤ per) (hper2 : per ≤ 3600) :
    jsGenerateTOTP O [.str secret, .int ts, .str d, .str a, .int per] =
      (match generateTOTP O secret ts (some ⟨Rest.digitsFromStr d, per, 0, Rest.algoFromStr a⟩) with
       | .ok code => .str code
       | _ => .error) := by
  have hd := Props.C18.digitsFromStr_range d
  have ha := Props.C18.algoFromStr_range a
  unfold jsGenerateTOTP generateTOTP generateOTP
  simp only [parseStringArg_str _ hne.1, parseStringArg_str _ hne.2.1, parseStringArg_str _ hne.2.2, parseIntArg_nat, resolveTOTP]
  rw [if_neg (by omega)]
  have hep : effPeriod per = per := by unfold effPeriod; rw [if_neg (by omega)]
  have hpn : ((per : Int)).toNat = per := by omega
  rw [hep, hpn]
  cases hk : decodeSecret secret with
  | err e => cases timeCounter (ts : Int) per <;> rfl
  | panic => cases timeCounter (ts : Int) per <;> rfl
  | ok key =>
    cases timeCounter (ts : Int) per with
    | err e => rfl
    | panic => rfl
    | ok counter =>
      simp only
      rw [C20_derive O key counter _ _ hd.1 hd.2 ha]
      cases deriveRFC4226 O key counter (Rest.digitsFromStr d) (Rest.algoFromStr a) <;> rfl

/-- C20 (period range): outside 1..3600 `generateTOTP` answers with an error string -/
theorem C20_period_range (O : HashOracle) (secret d a : Bytes) (ts : Nat) (per : Int)
    (hne : secret ≠ [] ∧ d ≠ [] ∧ a ≠ []) (h : per ≤ 0 ∨ 3600 < per) :
    jsGenerateTOTP O [.str secret, .int ts, .str d, .str a, .int per] = .error := by
  unfold jsGenerateTOTP
  simp only [parseStringArg_str _ hne.1, parseStringArg_str _ hne.2.1, parseStringArg_str _ hne.2.2, parseIntArg_nat]
  by_cases hneg : per < 0
  · have : parseIntArg (.int per) = none := by unfold parseIntArg; simp only; rw [if_pos hneg]
    rw [this]
  · have : parseIntArg (.int per) = some per := by unfold parseIntArg; simp only; rw [if_neg hneg]
    rw [this]
    simp only
    rw [if_pos h]

/-- C20 (URL): the binding's `generateOTPURL` is the native URL builder applied to the same fields (period left to
its default), rendered with `URL.String()` -/
theorem C20_url (ty issuer account secret d a : Bytes) (hne : ty ≠ [] ∧ issuer ≠ [] ∧ account ≠ [] ∧ secret ≠ [] ∧ d ≠ [] ∧ a ≠ []) :
    jsGenerateOTPURL [.str ty, .str issuer, .str account, .str secret, .str d, .str a] =
      (let p : URLParam := { issuer := issuer, account := account, secret := secret, digits := Rest.digitsFromStr d,
                             algo := Rest.algoFromStr a, period := 0 }
       if ty = Rest.sTotpB then (match generateTOTPURL p with | .ok u => .str (Std.Url.urlString u) | _ => .error)
       else if ty = Rest.sHotpB then (match generateHOTPURL p with | .ok u => .str (Std.Url.urlString u) | _ => .error)
       else .error) := by
  unfold jsGenerateOTPURL
  simp only [parseStringArg_str _ hne.1, parseStringArg_str _ hne.2.1, parseStringArg_str _ hne.2.2.1,
    parseStringArg_str _ hne.2.2.2.1, parseStringArg_str _ hne.2.2.2.2.1, parseStringArg_str _ hne.2.2.2.2.2]
  by_cases h1 : ty = Rest.sTotpB
  · simp only [h1, if_true]
    cases generateTOTPURL _ <;> rfl
  · simp only [h1, if_false]
    by_cases h2 : ty = Rest.sHotpB
    · simp only [h2, if_true]
      cases generateHOTPURL _ <;> rfl
    · simp only [h2, if_false]

end OtpVerif.Props.C20

#print axioms OtpVerif.Props.C20.C20_derive
#print axioms OtpVerif.Props.C20.C20_validate_core
#print axioms OtpVerif.Props.C20.wasmWindow_iff
#print axioms OtpVerif.Props.C20.C20_validateHOTP
#print axioms OtpVerif.Props.C20.C20_generateHOTP
#print axioms OtpVerif.Props.C20.C20_arity
#print axioms OtpVerif.Props.C20.C20_arg_types
#print axioms OtpVerif.Props.C20.C20_bad_first
#print axioms OtpVerif.Props.C20.C20_exports
#print axioms OtpVerif.Props.C20.C20_validateTOTP
#print axioms OtpVerif.Props.C20.C20_generateTOTP
#print axioms OtpVerif.Props.C20.C20_period_range
#print axioms OtpVerif.Props.C20.C20_url
