/-
Purity — the obligation every functional property shares.

The models of this project are *functions of their arguments*.  That is only a faithful picture of the code if the code
keeps no state between calls: no write to package-level variables outside initialisation, no write through a reference
whose ultimate root is an exported function's argument or a global, no reference to pooled or shared memory handed
back to the caller, and pooled scratch memory used under the Get / overwrite / Put protocol.  These facts are regenerated
from go/ssa on every run for the native and the js/wasm build of the library, the wasm binding and the REST layer; a
cache, a memo table, a lazily built index or a recycled result buffer breaks one of them — whichever property it was
written "for".
-/
import OtpVerif.Props.C11

namespace OtpVerif.Props.Purity
open OtpVerif OtpVerif.Model

/-- nothing is written to package-level state outside `init` (plain, map, atomic and sync.Map writes alike), and no unsafe
string view points at shared memory -/
theorem purity_no_global_writes :
    Gen.storeSites.all (fun s =>
      !(Props.C11.startsWith [115,116,111,114,101,32,103,108,111,98,97,108] s.2.2.1) &&          -- "store global"
      !(Props.C11.startsWith [109,97,112,117,112,100,97,116,101] s.2.2.1) &&                      -- "mapupdate"
      !(Props.C11.startsWith [97,112,112,101,110,100,32,103,108,111,98,97,108] s.2.2.1) &&        -- "append global"
      !(Props.C11.startsWith [99,111,112,121,32,103,108,111,98,97,108] s.2.2.1) &&                -- "copy global"
      !(Props.C11.startsWith [117,110,115,97,102,101,45,118,105,101,119] s.2.2.1)) = true :=      -- "unsafe-view"
  Props.C11.C11_readonly_globals

/-- every write / returned reference / unsafe view whose ultimate root is not local, fresh or pooled memory is one of the
reviewed sites (none of which is in the library) -/
theorem purity_stores : Gen.storeSites.all (fun s => Model.justifiedStoreSites.contains s) = true := Props.C12.C12_stores

/-- pooled scratch buffers: one Get, one Put, written before read, never handed to code that may keep them -/
theorem purity_pools : Gen.poolSites.all (fun s => PoolProto.protocolOk s.2.2) = true := Props.C11.C11_pool_protocol

end OtpVerif.Props.Purity

#print axioms OtpVerif.Props.Purity.purity_no_global_writes
#print axioms OtpVerif.Props.Purity.purity_stores
#print axioms OtpVerif.Props.Purity.purity_pools
