/-
C03 — HOTP validation accepts exactly the codes of counters inside the window.
-/
import OtpVerif.Lemmas.Validate
import OtpVerif.Lemmas.Window

namespace OtpVerif.Props.C03
open OtpVerif OtpVerif.Model OtpVerif.Lemmas OtpVerif.Props.C01

/-- what `ValidateHOTP` computes once the secret is decoded and the skew admitted -/
theorem validateHOTP_unfold (O : HashOracle) (s k code : Bytes) (c : Nat) (p : Option Param)
    (hs : decodeSecret s = .ok k) (hsk : (resolveHOTP p).skew ≤ 10) :
    validateHOTP O s code c p =
      (match windowLoop (hotpProbe (fun c' => accepted (validateRFC4226 O code k c' (resolveHOTP p).digits (resolveHOTP p).algo)) c)
          ((resolveHOTP p).skew : Int) (2 * (resolveHOTP p).skew + 1) (-((resolveHOTP p).skew : Int)) with
        | .ok true => .ok (true, none)
        | .ok false => .ok (false, some .invalidCode)
        | .err e => .err e
        | .panic => .panic) := by
  unfold validateHOTP
  simp only [hs]
  rw [if_neg (by omega)]
  rfl

/-- C03, main clause: with a window `s ≤ 10`, `c + s ≤ 2^64-1` and supported length/hash, validation returns
`(true, nil)` if and only if the submitted string is byte-for-byte the RFC 4226 code of some counter
`c'` with `max(0, c-s) ≤ c' ≤ c+s` (`c - s` is natural-number subtraction); otherwise it returns
`(false, ErrInvalidCode)` -/
theorem C03_iff (O : HashOracle) (s k code : Bytes) (c : Nat) (p : Option Param)
    (hs : decodeSecret s = .ok k) (hsk : (resolveHOTP p).skew ≤ 10) (hov : c + (resolveHOTP p).skew < 2 ^ 64)
    (hd1 : 1 ≤ (resolveHOTP p).digits) (hd2 : (resolveHOTP p).digits ≤ 10) (ha : (resolveHOTP p).algo < 3) :
    (validateHOTP O s code c p = .ok (true, none) ↔
      ∃ c', c - (resolveHOTP p).skew ≤ c' ∧ c' ≤ c + (resolveHOTP p).skew ∧
        code = Spec.hotp O.hmac (resolveHOTP p).algo k c' (resolveHOTP p).digits) ∧
    (validateHOTP O s code c p = .ok (true, none) ∨ validateHOTP O s code c p = .ok (false, some .invalidCode)) := by
  rw [validateHOTP_unfold O s k code c p hs hsk]
  have hchk : (fun c' => accepted (validateRFC4226 O code k c' (resolveHOTP p).digits (resolveHOTP p).algo)) =
      (fun c' => Out.ok (decide (code = Spec.hotp O.hmac (resolveHOTP p).algo k c' (resolveHOTP p).digits))) := by
    funext c'; exact accepted_validate_supported O code k c' _ _ hd1 hd2 ha
  rw [hchk]
  have hw := hotpWindow_iff (fun c' => decide (code = Spec.hotp O.hmac (resolveHOTP p).algo k c' (resolveHOTP p).digits)) c
    (resolveHOTP p).skew hov
  rcases hw.2 with ht | hf
  · rw [ht]
    refine ⟨⟨fun _ => ?_, fun _ => rfl⟩, Or.inl rfl⟩
    obtain ⟨c', h1, h2, h3⟩ := hw.1.mp ht
    exact ⟨c', h1, h2, of_decide_eq_true h3⟩
  · rw [hf]
    refine ⟨⟨fun h => (by cases h), ?_⟩, Or.inr rfl⟩
    rintro ⟨c', h1, h2, h3⟩
    have := hw.1.mpr ⟨c', h1, h2, decide_eq_true h3⟩
    rw [hf] at this; cases this

/-- C03 without the side condition `c + s ≤ 2^64-1` (the counter is any 64-bit value): the accepted strings are exactly the
codes of the counters `(c + j) mod 2^64` for offsets `-s ≤ j ≤ s` with `c + j ≥ 0` — below counter 0 the window is cut
off, above 2^64-1 it continues at 0 (what `counter + uint64(i)` computes).  Outside the property's stated domain; stated
so that the behaviour of the loop as written is characterised for every argument. -/
theorem C03_iff_wrap (O : HashOracle) (s k code : Bytes) (c : Nat) (p : Option Param)
    (hs : decodeSecret s = .ok k) (hsk : (resolveHOTP p).skew ≤ 10) (hc : c < 2 ^ 64)
    (hd1 : 1 ≤ (resolveHOTP p).digits) (hd2 : (resolveHOTP p).digits ≤ 10) (ha : (resolveHOTP p).algo < 3) :
    (validateHOTP O s code c p = .ok (true, none) ↔
      ∃ j : Int, -((resolveHOTP p).skew : Int) ≤ j ∧ j ≤ (resolveHOTP p).skew ∧ 0 ≤ (c : Int) + j ∧
        code = Spec.hotp O.hmac (resolveHOTP p).algo k ((((c : Int) + j) % (2 ^ 64 : Int)).toNat) (resolveHOTP p).digits) ∧
    (validateHOTP O s code c p = .ok (true, none) ∨ validateHOTP O s code c p = .ok (false, some .invalidCode)) := by
  rw [validateHOTP_unfold O s k code c p hs hsk]
  have hchk : (fun c' => accepted (validateRFC4226 O code k c' (resolveHOTP p).digits (resolveHOTP p).algo)) =
      (fun c' => Out.ok (decide (code = Spec.hotp O.hmac (resolveHOTP p).algo k c' (resolveHOTP p).digits))) := by
    funext c'; exact accepted_validate_supported O code k c' _ _ hd1 hd2 ha
  rw [hchk]
  have hw := hotpWindow_wrap_iff (fun c' => decide (code = Spec.hotp O.hmac (resolveHOTP p).algo k c' (resolveHOTP p).digits)) c
    (resolveHOTP p).skew hc (by omega)
  rcases hw.2 with ht | hf
  · rw [ht]
    refine ⟨⟨fun _ => ?_, fun _ => rfl⟩, Or.inl rfl⟩
    obtain ⟨j, h1, h2, h0, h3⟩ := hw.1.mp ht
    exact ⟨j, h1, h2, h0, of_decide_eq_true h3⟩
  · rw [hf]
    refine ⟨⟨fun h => (by cases h), ?_⟩, Or.inr rfl⟩
    rintro ⟨j, h1, h2, h0, h3⟩
    have := hw.1.mpr ⟨j, h1, h2, h0, decide_eq_true h3⟩
    rw [hf] at this; cases this

/-- every generated code validates at its own counter -/
theorem C03_self (O : HashOracle) (s k : Bytes) (c : Nat) (p : Option Param)
    (hs : decodeSecret s = .ok k) (hsk : (resolveHOTP p).skew ≤ 10) (hov : c + (resolveHOTP p).skew < 2 ^ 64)
    (hd1 : 1 ≤ (resolveHOTP p).digits) (hd2 : (resolveHOTP p).digits ≤ 10) (ha : (resolveHOTP p).algo < 3) :
    validateHOTP O s (Spec.hotp O.hmac (resolveHOTP p).algo k c (resolveHOTP p).digits) c p = .ok (true, none) :=
  (C03_iff O s k _ c p hs hsk hov hd1 hd2 ha).1.mpr ⟨c, by omega, by omega, rfl⟩

/-- a string of the wrong length (in bytes) is never accepted -/
theorem C03_len (O : HashOracle) (s k code : Bytes) (c : Nat) (p : Option Param)
    (hs : decodeSecret s = .ok k) (hsk : (resolveHOTP p).skew ≤ 10) (hov : c + (resolveHOTP p).skew < 2 ^ 64)
    (hd1 : 1 ≤ (resolveHOTP p).digits) (hd2 : (resolveHOTP p).digits ≤ 10) (ha : (resolveHOTP p).algo < 3)
    (hl : code.length ≠ (resolveHOTP p).digits) :
    validateHOTP O s code c p = .ok (false, some .invalidCode) := by
  have h := C03_iff O s k code c p hs hsk hov hd1 hd2 ha
  rcases h.2 with ht | hf
  · obtain ⟨c', _, _, h3⟩ := h.1.mp ht
    exfalso; apply hl; rw [h3]; exact (C01_shape O _ k c' _).1
  · exact hf

/-- a window larger than 10 is refused (whatever the other arguments are) -/
theorem C03_skew_refused (O : HashOracle) (s code : Bytes) (c : Nat) (p : Option Param)
    (h : 10 < (resolveHOTP p).skew) : validateHOTP O s code c p = .ok (false, some .invalidSkew) := by
  unfold validateHOTP
  simp only
  rw [if_pos h]

/-- absent parameters mean 6 digits, SHA-1, window 2 (regenerated default) -/
theorem C03_nil : resolveHOTP none = { digits := 6, period := 0, skew := 2, algo := 0 } := by decide

/-- an undecodable secret is answered `(false, error)` -/
theorem C03_bad_secret (O : HashOracle) (s code : Bytes) (c : Nat) (p : Option Param) (e : Err)
    (hs : decodeSecret s = .err e) (hsk : (resolveHOTP p).skew ≤ 10) :
    validateHOTP O s code c p = .ok (false, some e) := by
  unfold validateHOTP
  simp only [hs]
  rw [if_neg (by omega)]

-- non-vacuity of the hypotheses (c < s and c ≥ 2^63 included)
example : (1 : Nat) + (resolveHOTP none).skew < 2 ^ 64 ∧ (resolveHOTP none).skew ≤ 10 := by decide
example : (2 ^ 63 + 5 : Nat) + 10 < 2 ^ 64 := by decide

-- non-vacuity of the wrap clause: at counter 2^64-1 the offset +1 reaches counter 0; at counter 0 the offset -1 is cut off
example : ((((2 ^ 64 - 1 : Nat) : Int) + 1) % (2 ^ 64 : Int)).toNat = 0 := by decide
example : ¬ (0 ≤ ((0 : Nat) : Int) + (-1)) := by decide

end OtpVerif.Props.C03

#print axioms OtpVerif.Props.C03.C03_iff
#print axioms OtpVerif.Props.C03.C03_iff_wrap
#print axioms OtpVerif.Props.C03.C03_self
#print axioms OtpVerif.Props.C03.C03_len
#print axioms OtpVerif.Props.C03.C03_skew_refused
#print axioms OtpVerif.Props.C03.C03_nil
#print axioms OtpVerif.Props.C03.C03_bad_secret
