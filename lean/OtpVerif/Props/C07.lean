/-
C07 — every spelling of a base32 secret decodes to exactly the same key bytes.
-/
import OtpVerif.Lemmas.Trim
import OtpVerif.Lemmas.Base32
import OtpVerif.Lemmas.DecoderDom
import OtpVerif.Model.Otp
import OtpVerif.Model.Ocra

namespace OtpVerif.Props.C07
open OtpVerif OtpVerif.Std OtpVerif.Model OtpVerif.Lemmas

/-- the padded RFC 4648 base32 encoding of a byte string, as text -/
def encB (b : Bytes) : Bytes := (B32.enc (b.map UInt8.toNat)).map Nat.toUInt8

/-- per-character case choice: each character is kept or replaced by its ASCII lower-case form -/
inductive CaseVariant : Bytes → Bytes → Prop
  | nil : CaseVariant [] []
  | keep (c : UInt8) {s t : Bytes} : CaseVariant s t → CaseVariant (c :: s) (c :: t)
  | lower (c : UInt8) {s t : Bytes} : CaseVariant s t → CaseVariant (c :: s) (lowerAscii c :: t)

/-- `sp` is a spelling of the secret `b`: the encoding with between none and all of its trailing '=' kept,
any mixture of upper and lower case, surrounded by any ASCII white space -/
structure Spelling (b sp : Bytes) : Prop where
  ex : ∃ (data : Bytes) (npad j : Nat) (core ws1 ws2 : Bytes),
    encB b = data ++ List.replicate npad 61 ∧ npad < 8 ∧ j ≤ npad ∧
    CaseVariant (data ++ List.replicate j 61) core ∧
    (∀ c ∈ ws1, isAsciiSpace c = true) ∧ (∀ c ∈ ws2, isAsciiSpace c = true) ∧
    sp = ws1 ++ core ++ ws2

/-- an encoding character as a byte -/
def isEncByte (c : UInt8) : Prop := (65 ≤ c.toNat ∧ c.toNat ≤ 90) ∨ (50 ≤ c.toNat ∧ c.toNat ≤ 55) ∨ c.toNat = 61

theorem toUInt8_toNat_small (n : Nat) (h : n < 256) : (Nat.toUInt8 n).toNat = n := by
  simp only [Nat.toUInt8_eq, UInt8.toNat_ofNat']; omega

theorem encB_chars (b : Bytes) : ∀ c ∈ encB b, isEncByte c := by
  intro c hc
  unfold encB at hc
  obtain ⟨n, hn, rfl⟩ := List.mem_map.mp hc
  have hb : ∀ x ∈ b.map UInt8.toNat, x < 256 := by
    intro x hx; obtain ⟨y, _, rfl⟩ := List.mem_map.mp hx; exact y.toNat_lt
  have := B32.enc_chars _ hb n hn
  unfold B32.isEncChar at this
  unfold isEncByte
  rw [toUInt8_toNat_small n (by omega)]
  exact this

theorem encB_toNat (b : Bytes) : (encB b).map UInt8.toNat = B32.enc (b.map UInt8.toNat) := by
  unfold encB
  rw [List.map_map]
  have hb : ∀ x ∈ b.map UInt8.toNat, x < 256 := by
    intro x hx; obtain ⟨y, _, rfl⟩ := List.mem_map.mp hx; exact y.toNat_lt
  conv => rhs; rw [← List.map_id (B32.enc (b.map UInt8.toNat))]
  apply List.map_congr_left
  intro n hn
  have := B32.enc_chars _ hb n hn
  unfold B32.isEncChar at this
  simp only [Function.comp, id]
  exact toUInt8_toNat_small n (by omega)

theorem encB_length (b : Bytes) : (encB b).length % 8 = 0 := by
  unfold encB; rw [List.length_map, B32.enc_length]; omega

theorem add32_toNat (c : UInt8) (hu : c.toNat ≤ 90) : (c + 32).toNat = c.toNat + 32 := by
  rw [UInt8.toNat_add]
  have : UInt8.toNat 32 = 32 := by decide
  rw [this]; omega

theorem upper_lower (c : UInt8) (h : isEncByte c) : upperAscii (lowerAscii c) = c ∧ upperAscii c = c := by
  unfold isEncByte at h
  by_cases hu : 65 ≤ c.toNat ∧ c.toNat ≤ 90
  · have h1 := add32_toNat c hu.2
    have hl : lowerAscii c = c + 32 := by unfold lowerAscii; rw [if_pos hu]
    constructor
    · rw [hl]; unfold upperAscii
      rw [if_pos (by omega)]
      apply UInt8.toNat_inj.mp
      rw [UInt8.toNat_sub, h1]
      have : UInt8.toNat 32 = 32 := by decide
      rw [this]; omega
    · unfold upperAscii; rw [if_neg (by omega)]
  · have hl : lowerAscii c = c := by unfold lowerAscii; rw [if_neg hu]
    rw [hl]
    have : upperAscii c = c := by unfold upperAscii; rw [if_neg (by omega)]
    exact ⟨this, this⟩

theorem lower_ok (c : UInt8) (h : isEncByte c) : secretCharOk c = true ∧ secretCharOk (lowerAscii c) = true := by
  unfold isEncByte at h
  unfold secretCharOk lowerAscii
  by_cases hu : 65 ≤ c.toNat ∧ c.toNat ≤ 90
  · rw [if_pos hu]
    have h1 := add32_toNat c hu.2
    rw [h1]
    simp only [Bool.or_eq_true, Bool.and_eq_true, decide_eq_true_eq]
    constructor <;> omega
  · rw [if_neg hu]
    simp only [Bool.or_eq_true, Bool.and_eq_true, decide_eq_true_eq]
    constructor <;> omega

theorem caseVariant_facts {s t : Bytes} (h : CaseVariant s t) (hs : ∀ c ∈ s, isEncByte c) :
    t.length = s.length ∧ toUpperAscii t = s ∧ (∀ c ∈ t, secretCharOk c = true) := by
  induction h with
  | nil => simp [toUpperAscii]
  | keep c _ ih =>
    obtain ⟨h1, h2, h3⟩ := ih (fun x hx => hs x (by simp [hx]))
    have hc := hs c (by simp)
    refine ⟨by simp [h1], ?_, ?_⟩
    · simp only [toUpperAscii, List.map_cons] at h2 ⊢
      rw [(upper_lower c hc).2, h2]
    · intro x hx
      rcases List.mem_cons.mp hx with rfl | hx
      · exact (lower_ok _ hc).1
      · exact h3 x hx
  | lower c _ ih =>
    obtain ⟨h1, h2, h3⟩ := ih (fun x hx => hs x (by simp [hx]))
    have hc := hs c (by simp)
    refine ⟨by simp [h1], ?_, ?_⟩
    · simp only [toUpperAscii, List.map_cons] at h2 ⊢
      rw [(upper_lower c hc).1, h2]
    · intro x hx
      rcases List.mem_cons.mp hx with rfl | hx
      · exact (lower_ok _ hc).2
      · exact h3 x hx

theorem toUpperAscii_append (a b : Bytes) : toUpperAscii (a ++ b) = toUpperAscii a ++ toUpperAscii b := by
  simp [toUpperAscii]

theorem toUpperAscii_pads (n : Nat) : toUpperAscii (List.replicate n 61) = List.replicate n 61 := by
  simp [toUpperAscii, upperAscii]

/-- C07, main clause: every spelling of (the encoding of) a byte string decodes to exactly those bytes -/
theorem C07_spellings (b sp : Bytes) (h : Spelling b sp) : decodeSecret sp = .ok b := by
  obtain ⟨data, npad, j, core, ws1, ws2, henc, hn8, hj, hcv, hw1, hw2, rfl⟩ := h.ex
  have hchars := encB_chars b
  have hdata : ∀ c ∈ data ++ List.replicate j 61, isEncByte c := by
    intro c hc
    rcases List.mem_append.mp hc with h | h
    · exact hchars c (by rw [henc]; exact List.mem_append_left _ h)
    · have := List.eq_of_mem_replicate h; subst this; right; right; rfl
  obtain ⟨hlen, hup, hok⟩ := caseVariant_facts hcv hdata
  unfold decodeSecret
  simp only [trimSpace_strip ws1 core ws2 hw1 hw2 hok]
  have hall : core.all secretCharOk = true := List.all_eq_true.mpr hok
  rw [hall]
  simp only [Bool.true_eq_false, if_false]
  -- the re-padding restores exactly the canonical padding
  have hl8 := encB_length b
  rw [henc] at hl8
  simp only [List.length_append, List.length_replicate] at hl8 hlen
  have hrepad : repad core = core ++ List.replicate (npad - j) 61 := by
    unfold repad
    simp only [hlen]
    by_cases hz : npad - j = 0
    · have : (data.length + j) % 8 = 0 := by omega
      simp [this, hz]
    · have : (data.length + j) % 8 = 8 - (npad - j) := by omega
      rw [this]
      rw [if_pos (by omega)]
      congr 2; omega
  rw [hrepad, toUpperAscii_append, hup, toUpperAscii_pads]
  have hfull : data ++ List.replicate j 61 ++ List.replicate (npad - j) 61 = encB b := by
    rw [henc, List.append_assoc, List.replicate_append_replicate]; congr 2; omega
  rw [hfull, encB_toNat]
  have hb : ∀ x ∈ b.map UInt8.toNat, x < 256 := by
    intro x hx; obtain ⟨y, _, rfl⟩ := List.mem_map.mp hx; exact y.toNat_lt
  rw [B32.decode_enc _ hb]
  simp only [List.map_map]
  congr 1
  conv => rhs; rw [← List.map_id b]
  apply List.map_congr_left
  intro x _
  simp [Function.comp]

/-- C07, rejection clause (alphabet): after trimming, any character outside A–Z a–z 2–7 '=' makes decoding fail -/
theorem C07_reject_alphabet (s : Bytes) (h : ∃ c ∈ trimSpace s, secretCharOk c = false) :
    ∃ e, decodeSecret s = .err e := by
  unfold decodeSecret
  obtain ⟨c, hc, hbad⟩ := h
  have : (trimSpace s).all secretCharOk = false := by
    cases hall : (trimSpace s).all secretCharOk with
    | false => rfl
    | true => have := List.all_eq_true.mp hall c hc; rw [hbad] at this; cases this
  simp only [this, if_true]
  exact ⟨_, rfl⟩

open OtpVerif.Lemmas.Dec in
/-- C07, rejection clause in full: `DecodeSecret` succeeds **iff** the trimmed text is data characters followed by
'=' signs with a possible number of data characters (≡ 0, 2, 4, 5, 7 mod 8) and no more '=' than the canonical
padding; every other text is answered with the `badSecret` error (no panic, no partial result). -/
theorem C07_accept_iff (s : Bytes) : (∃ b, decodeSecret s = .ok b) ↔ Accept (trimSpace s) :=
  decodeSecret_accept_iff s

open OtpVerif.Lemmas.Dec in
theorem C07_reject_otherwise (s : Bytes) (h : ¬ Accept (trimSpace s)) : decodeSecret s = .err .badSecret := by
  rcases decodeSecret_err_or_ok s with h' | h'
  · exact h'
  · exact absurd ((C07_accept_iff s).mp h') h

open OtpVerif.Lemmas.Dec in
/-- impossible lengths: 1, 3 or 6 (mod 8) data characters, with any number of '=' after them -/
theorem C07_reject_length (s data : Bytes) (j : Nat) (ht : trimSpace s = data ++ List.replicate j 61)
    (hd : ∀ c ∈ data, isDataChar c = true) (hl : data.length % 8 = 1 ∨ data.length % 8 = 3 ∨ data.length % 8 = 6) :
    decodeSecret s = .err .badSecret := by
  apply C07_reject_otherwise
  rintro ⟨data', j', h', hd', hj'⟩
  have e : data' = data := by
    rw [← takeWhile_data data' j' hd', ← h', ht, takeWhile_data data j hd]
  subst e
  omega

open OtpVerif.Lemmas.Dec in
/-- padding in the middle: a '=' followed, anywhere later, by a character that is not '=' -/
theorem C07_reject_midpad (s a b d : Bytes) (c : UInt8) (ht : trimSpace s = a ++ 61 :: (b ++ c :: d)) (hc : c ≠ 61) :
    decodeSecret s = .err .badSecret := by
  apply C07_reject_otherwise
  rintro ⟨data, j, h', hd, -⟩
  have hmem : c ∈ (trimSpace s).dropWhile isDataChar := by
    rw [ht]
    exact mem_dropWhile_after a (b ++ c :: d) 61 (by decide) c (by simp)
  have hdw : (data ++ List.replicate j 61).dropWhile isDataChar = List.replicate j 61 := by
    have h1 := takeWhile_data data j hd
    have h2 : (data ++ List.replicate j 61).takeWhile isDataChar ++ (data ++ List.replicate j 61).dropWhile isDataChar
        = data ++ List.replicate j 61 := List.takeWhile_append_dropWhile
    rw [h1] at h2
    exact List.append_cancel_left h2
  rw [h', hdw] at hmem
  exact hc (List.eq_of_mem_replicate hmem)

open OtpVerif.Lemmas.Dec in
/-- too much padding: more '=' than the canonical amount is rejected as well (e.g. "MFRGG====") -/
theorem C07_reject_overpad (s data : Bytes) (j : Nat) (ht : trimSpace s = data ++ List.replicate j 61)
    (hd : ∀ c ∈ data, isDataChar c = true) (hj : (8 - data.length % 8) % 8 < j) :
    decodeSecret s = .err .badSecret := by
  apply C07_reject_otherwise
  rintro ⟨data', j', h', hd', hj'⟩
  have e : data' = data := by
    rw [← takeWhile_data data' j' hd', ← h', ht, takeWhile_data data j hd]
  subst e
  have : j' = j := by
    have := congrArg List.length (h'.symm.trans ht)
    simpa using this
  subst this
  omega


/-- every entry point sees the key only through `decodeSecret`: two texts that decode alike give equal results -/
theorem C07_entrypoints (O : HashOracle) (s s' : Bytes) (h : decodeSecret s = decodeSecret s') :
    (∀ c p, generateHOTP O s c p = generateHOTP O s' c p) ∧
    (∀ code c p, validateHOTP O s code c p = validateHOTP O s' code c p) ∧
    (∀ t p, generateTOTP O s t p = generateTOTP O s' t p) ∧
    (∀ code t p, validateTOTP O s code t p = validateTOTP O s' code t p) ∧
    (∀ cfg i, generateOCRA O s cfg i = generateOCRA O s' cfg i) ∧
    (∀ code cfg i, validateOCRA O s code cfg i = validateOCRA O s' code cfg i) := by
  refine ⟨?_, ?_, ?_, ?_, ?_, ?_⟩ <;> intros <;>
    simp only [generateHOTP, validateHOTP, generateTOTP, validateTOTP, generateOCRA, validateOCRA, h]

/-- hence all spellings of one secret give the same code at every entry point -/
theorem C07_same_code (O : HashOracle) (b sp sp' : Bytes) (h : Spelling b sp) (h' : Spelling b sp') (c : Nat) (p : Option Param) :
    generateHOTP O sp c p = generateHOTP O sp' c p :=
  (C07_entrypoints O sp sp' (by rw [C07_spellings b sp h, C07_spellings b sp' h'])).1 c p

-- non-vacuity: " mfRGG=\n" is a spelling of "abc" (encoding "MFRGG===")
example : encB [97, 98, 99] = [77, 70, 82, 71, 71, 61, 61, 61] := by decide
example : Spelling [97, 98, 99] [32, 109, 102, 82, 71, 71, 61, 10] :=
  ⟨⟨[77, 70, 82, 71, 71], 3, 1, [109, 102, 82, 71, 71, 61], [32], [10], by decide, by decide, by decide,
    .lower 77 (.lower 70 (.keep 82 (.keep 71 (.keep 71 (.keep 61 .nil))))), by decide, by decide, by decide⟩⟩
example : decodeSecret [32, 109, 102, 82, 71, 71, 61, 10] = .ok [97, 98, 99] := by decide
example : decodeSecret [77, 70, 82, 196, 177, 71] = .err .badSecret := by decide   -- U+0131 inside
-- the hypotheses of the rejection theorems are satisfiable: "MFR" (3 data characters), "MF=RGG" (inner '='), "MFRGG===="
example : decodeSecret [77, 70, 82] = .err .badSecret :=
  C07_reject_length [77, 70, 82] [77, 70, 82] 0 (by decide) (by decide) (by decide)
example : decodeSecret [77, 70, 61, 82, 71, 71] = .err .badSecret :=
  C07_reject_midpad [77, 70, 61, 82, 71, 71] [77, 70] [] [71, 71] 82 (by decide) (by decide)
example : decodeSecret [77, 70, 82, 71, 71, 61, 61, 61, 61] = .err .badSecret :=
  C07_reject_overpad _ [77, 70, 82, 71, 71] 4 (by decide) (by decide) (by decide)

end OtpVerif.Props.C07

#print axioms OtpVerif.Props.C07.C07_spellings
#print axioms OtpVerif.Props.C07.C07_reject_alphabet
#print axioms OtpVerif.Props.C07.C07_accept_iff
#print axioms OtpVerif.Props.C07.C07_reject_otherwise
#print axioms OtpVerif.Props.C07.C07_reject_length
#print axioms OtpVerif.Props.C07.C07_reject_midpad
#print axioms OtpVerif.Props.C07.C07_reject_overpad
#print axioms OtpVerif.Props.C07.C07_entrypoints
#print axioms OtpVerif.Props.C07.C07_same_code
