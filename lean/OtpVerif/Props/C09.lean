/-
C09 — submitted codes are compared with the expected code in constant time  (PARTIAL: see DESIGN.md).

(a) program facts, regenerated from go/ssa on every run for the native and the js/wasm configuration
    (library, wasm binding, REST layer): every comparison-like site at which HMAC-derived data meets
    caller-supplied text is a `crypto/subtle` constant-time function; no branch is taken on a value derived
    from both before it went through such a function.
(b) noninterference of the leakage model: two wrong codes of the right length produce the same leakage
    trace – the rejection path does not depend on how many leading characters are right.
Real timing (compiler, CPU, allocator, crypto/subtle's implementation) is outside the model.
-/
import OtpVerif.Gen.Sites
import OtpVerif.Model.Leak
import OtpVerif.Lemmas.Validate
import OtpVerif.Model.Wasm

namespace OtpVerif.Props.C09
open OtpVerif OtpVerif.Model OtpVerif.Model.Leak OtpVerif.Lemmas

/-- a site mixes HMAC-derived data with caller text: one operand H, the other C, neither a constant;
or it is a branch / lookup on a value derived from both -/
def mixesHC (s : Gen.CmpSite) : Bool :=
  (!s.xConst && !s.yConst && ((s.xH && s.yC) || (s.yH && s.xC)))

def sanctioned (s : Gen.CmpSite) : Bool := s.kindCode == 1   -- a crypto/subtle constant-time function

/-- C09 (a): every mixing site, in every function of the library (native and js/wasm), the wasm binding and
the REST layer, is a `crypto/subtle` constant-time comparison -/
theorem C09_sites : Gen.cmpSites.all (fun s => !mixesHC s || sanctioned s) = true := by decide

/-- the site receives both HMAC-derived data and caller text (on either operand) -/
def carriesHC (s : Gen.CmpSite) : Bool := (s.xH || s.yH) && (s.xC || s.yC)

/-- … and in each build configuration the analysis does see the expected code reach a `crypto/subtle` sink together
with the caller's text (the comparison was not removed, and the taint tracking did not lose the HMAC label — without
this `C09_sites` could hold vacuously) -/
theorem C09_sinks_present :
    (Gen.cmpSites.any (fun s => s.cfg == 0 && sanctioned s && carriesHC s)) = true ∧
    (Gen.cmpSites.any (fun s => s.cfg == 1 && sanctioned s && carriesHC s)) = true := by decide

/-- C09 (b), core: for codes of equal length, `validate`'s leakage differs at most in the final match bit -/
theorem validateL_noninterference (code1 code2 : Bytes) (len : Int) (c : Nat) (d : Out Bytes)
    (hl : code1.length = code2.length)
    (h1 : (validateL code1 len c d).1 = false) (h2 : (validateL code2 len c d).1 = false) :
    (validateL code1 len c d).2 = (validateL code2 len c d).2 := by
  unfold validateL at *
  rw [hl] at *
  by_cases hlen : (code2.length : Int) ≠ len
  · simp only [hlen, if_true, ne_eq, not_false_eq_true]
  · simp only [hlen, if_false] at *
    cases d with
    | ok expected =>
      simp only at *
      rw [h1, h2]
    | err e => rfl
    | panic => rfl

theorem loopL_noninterference (p1 p2 : Int → Option (Bool × Trace)) (hi : Int)
    (hp : ∀ i, (p1 i = none ∧ p2 i = none) ∨
      (∃ b1 t1 b2 t2, p1 i = some (b1, t1) ∧ p2 i = some (b2, t2) ∧ (b1 = false → b2 = false → t1 = t2))) :
    ∀ fuel i, (loopL p1 hi fuel i).1 = false → (loopL p2 hi fuel i).1 = false →
      (loopL p1 hi fuel i).2 = (loopL p2 hi fuel i).2 := by
  intro fuel
  induction fuel with
  | zero => intro i _ _; rfl
  | succ n ih =>
    intro i h1 h2
    have e : ∀ p : Int → Option (Bool × Trace), loopL p hi (n + 1) i =
        (if i > hi then (false, [.exit "loop-end"])
         else match p i with
           | none => ((loopL p hi n (i + 1)).1, .branch "underflow-skip" true :: (loopL p hi n (i + 1)).2)
           | some (true, tr) => (true, tr ++ [.exit "accepted"])
           | some (false, tr) => ((loopL p hi n (i + 1)).1, tr ++ (loopL p hi n (i + 1)).2)) := fun _ => rfl
    rw [e p1] at h1 ⊢
    rw [e p2] at h2 ⊢
    by_cases hgt : i > hi
    · rw [if_pos hgt, if_pos hgt]
    · rw [if_neg hgt] at h1 h2 ⊢
      rw [if_neg hgt]
      rcases hp i with ⟨e1, e2⟩ | ⟨b1, t1, b2, t2, e1, e2, ht⟩
      · rw [e1] at h1 ⊢; rw [e2] at h2 ⊢
        simp only at h1 h2 ⊢
        rw [ih (i + 1) h1 h2]
      · rw [e1] at h1 ⊢; rw [e2] at h2 ⊢
        cases b1 with
        | true => simp at h1
        | false =>
          cases b2 with
          | true => simp at h2
          | false =>
            simp only at h1 h2 ⊢
            rw [ht rfl rfl, ih (i + 1) h1 h2]

/-- C09 (b): two rejected codes of the same length produce the same leakage in `ValidateHOTP` – for every
key, counter, window, length and hash.  In particular the trace does not depend on how many leading
characters of a wrong code are correct. -/
theorem C09_noninterference_hotp (O : HashOracle) (key code1 code2 : Bytes) (counter digits algo skew : Nat)
    (hl : code1.length = code2.length)
    (h1 : (validateHOTPL O key code1 counter digits algo skew).1 = false)
    (h2 : (validateHOTPL O key code2 counter digits algo skew).1 = false) :
    (validateHOTPL O key code1 counter digits algo skew).2 = (validateHOTPL O key code2 counter digits algo skew).2 := by
  unfold validateHOTPL at *
  apply loopL_noninterference _ _ _ _ _ _ h1 h2
  intro i
  unfold hotpProbeL
  by_cases hneg : i < 0
  · simp only [hneg, if_true]
    by_cases hu : counter < (-i).toNat
    · left; simp [hu]
    · right; simp only [hu, if_false]
      exact ⟨_, _, _, _, rfl, rfl, fun a b => validateL_noninterference code1 code2 _ _ _ hl a b⟩
  · right; simp only [hneg, if_false]
    exact ⟨_, _, _, _, rfl, rfl, fun a b => validateL_noninterference code1 code2 _ _ _ hl a b⟩

theorem C09_noninterference_totp (O : HashOracle) (key code1 code2 : Bytes) (counter digits algo skew : Nat)
    (hl : code1.length = code2.length)
    (h1 : (validateTOTPL O key code1 counter digits algo skew).1 = false)
    (h2 : (validateTOTPL O key code2 counter digits algo skew).1 = false) :
    (validateTOTPL O key code1 counter digits algo skew).2 = (validateTOTPL O key code2 counter digits algo skew).2 := by
  unfold validateTOTPL at *
  apply loopL_noninterference _ _ _ _ _ _ h1 h2
  intro i
  right
  exact ⟨_, _, _, _, rfl, rfl, fun a b => validateL_noninterference code1 code2 _ _ _ hl a b⟩

theorem C09_noninterference_ocra (O : HashOracle) (key code1 code2 : Bytes) (cfg : SuiteConfig) (i : OCRAInput)
    (hl : code1.length = code2.length)
    (h1 : (validateOCRAL O key code1 cfg i).1 = false) (h2 : (validateOCRAL O key code2 cfg i).1 = false) :
    (validateOCRAL O key code1 cfg i).2 = (validateOCRAL O key code2 cfg i).2 :=
  validateL_noninterference code1 code2 _ _ _ hl h1 h2

/-- the leakage-instrumented model computes the same verdict as the plain model (`validate`) -/
theorem validateL_refines (code : Bytes) (len : Int) (c : Nat) (d : Out Bytes) (hd : d ≠ .panic) :
    validate code len d = .ok ((validateL code len c d).1, if (validateL code len c d).1 then none else
      (match validate code len d with | .ok (_, e) => e | _ => none)) := by
  unfold validate validateL
  by_cases hlen : (code.length : Int) ≠ len
  · simp [hlen]
  · simp only [hlen, if_false]
    cases d with
    | ok expected => by_cases h : ctEq code expected = true <;> simp [h]
    | err e => simp
    | panic => exact absurd rfl hd

section WasmLeak
open OtpVerif.Model.Wasm
/-- leakage of the js/wasm binding's `validateHOTP` loop (`currCounter < 0` skips; `ValidateOTPWasm` per step) -/
def wasmHotpProbeL (O : HashOracle) (code key : Bytes) (digits algo : Nat) (counter : Int) (i : Int) : Option (Bool × Trace) :=
  if counter + i < 0 then none
  else some (validateL code digits (toU64 (counter + i)) (deriveWasm O key (toU64 (counter + i)) digits algo))

def wasmValidateHOTPL (O : HashOracle) (key code : Bytes) (counter : Int) (digits algo skew : Nat) : Bool × Trace :=
  loopL (wasmHotpProbeL O code key digits algo counter) (skew : Int) (2 * skew + 1) (-(skew : Int))

def wasmTotpProbeL (O : HashOracle) (code key : Bytes) (digits algo counter : Nat) (i : Int) : Option (Bool × Trace) :=
  some (validateL code digits ((counter + toU64 i) % 2 ^ 64) (deriveWasm O key ((counter + toU64 i) % 2 ^ 64) digits algo))

def wasmValidateTOTPL (O : HashOracle) (key code : Bytes) (counter digits algo skew : Nat) : Bool × Trace :=
  loopL (wasmTotpProbeL O code key digits algo counter) (skew : Int) (2 * skew + 1) (-(skew : Int))

/-- C09 (b) for the js/wasm binding: two rejected codes of the same length leave the same leakage trace in the
binding's `validateHOTP` and `validateTOTP` loops (which re-implement the windows around `ValidateOTPWasm`) -/
theorem C09_noninterference_wasm (O : HashOracle) (key code1 code2 : Bytes) (counter : Int) (c digits algo skew : Nat)
    (hl : code1.length = code2.length) :
    ((wasmValidateHOTPL O key code1 counter digits algo skew).1 = false → (wasmValidateHOTPL O key code2 counter digits algo skew).1 = false →
      (wasmValidateHOTPL O key code1 counter digits algo skew).2 = (wasmValidateHOTPL O key code2 counter digits algo skew).2) ∧
    ((wasmValidateTOTPL O key code1 c digits algo skew).1 = false → (wasmValidateTOTPL O key code2 c digits algo skew).1 = false →
      (wasmValidateTOTPL O key code1 c digits algo skew).2 = (wasmValidateTOTPL O key code2 c digits algo skew).2) := by
  constructor
  · intro h1 h2
    unfold wasmValidateHOTPL at *
    apply loopL_noninterference _ _ _ _ _ _ h1 h2
    intro i
    unfold wasmHotpProbeL
    by_cases hneg : counter + i < 0
    · left; simp [hneg]
    · right; simp only [hneg, if_false]
      exact ⟨_, _, _, _, rfl, rfl, fun a b => validateL_noninterference code1 code2 _ _ _ hl a b⟩
  · intro h1 h2
    unfold wasmValidateTOTPL at *
    apply loopL_noninterference _ _ _ _ _ _ h1 h2
    intro i
    right
    exact ⟨_, _, _, _, rfl, rfl, fun a b => validateL_noninterference code1 code2 _ _ _ hl a b⟩

/-- the leakage model of the binding's per-step validation refines `validateWasm` (same verdict) -/
theorem validateL_refines_wasm (O : HashOracle) (code key : Bytes) (c d a : Nat) (hd : deriveWasm O key c d a ≠ .panic) :
    validateWasm O code key c d a = .ok ((validateL code d c (deriveWasm O key c d a)).1,
      match validateWasm O code key c d a with | .ok (_, e) => e | _ => none) := by
  unfold validateWasm validateL
  by_cases hlen : code.length ≠ d
  · have : ((code.length : Int) ≠ (d : Int)) := by omega
    simp [hlen, this]
  · have : ¬ ((code.length : Int) ≠ (d : Int)) := by omega
    simp only [hlen, this, if_false]
    cases hdv : deriveWasm O key c d a with
    | ok expected => by_cases h : ctEq code expected = true <;> simp [h]
    | err e => simp
    | panic => exact absurd hdv hd
end WasmLeak

-- non-vacuity: the site table is not empty and contains mixing sites (all sanctioned)
example : (Gen.cmpSites.filter carriesHC).length ≥ 2 := by decide

end OtpVerif.Props.C09

#print axioms OtpVerif.Props.C09.C09_sites
#print axioms OtpVerif.Props.C09.C09_sinks_present
#print axioms OtpVerif.Props.C09.C09_noninterference_hotp
#print axioms OtpVerif.Props.C09.C09_noninterference_totp
#print axioms OtpVerif.Props.C09.C09_noninterference_ocra
#print axioms OtpVerif.Props.C09.validateL_refines
#print axioms OtpVerif.Props.C09.C09_noninterference_wasm
#print axioms OtpVerif.Props.C09.validateL_refines_wasm
