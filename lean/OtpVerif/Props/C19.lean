/-
C19 — the REST service answers every request promptly and keeps serving  (PARTIAL: see DESIGN.md).
Proved about the handler model: totality with a closed set of status codes, success/failure separation,
statelessness (an earlier request cannot change a later answer), and a bound on the work a request
parameter can cause (a skew above 10 is refused before any HMAC; at most 21 HMACs otherwise).
Wall-clock latency, worker pools, slow clients and timeouts are runtime behaviour: the `restcorr` engine sends
hostile streams interleaved with probes to the real binary and enforces a latency bound, complete responses
and liveness, but that is observation, not proof.
-/
import OtpVerif.Model.Rest
import OtpVerif.Props.C03
import OtpVerif.Props.C04
import OtpVerif.Props.C13

namespace OtpVerif.Props.C19
open OtpVerif OtpVerif.Std OtpVerif.Model OtpVerif.Model.Rest

def okStatus (n : Nat) : Prop := n = 200 ∨ n = 302 ∨ n = 400 ∨ n = 404 ∨ n = 405 ∨ n = 500

theorem recover_status {α} (o : Out α) (k : α → Resp) (e : Err → Resp)
    (hk : ∀ a, okStatus (k a).status) (he : ∀ x, okStatus (e x).status) : okStatus (recover o k e).status := by
  unfold recover
  cases o with
  | ok a => exact hk a
  | err x => exact he x
  | panic => right; right; right; right; right; rfl

theorem err_ok (n : Nat) (h : okStatus n) : okStatus (err n).status := h

macro "st" : tactic => `(tactic| first
  | (left; rfl) | (right; left; rfl) | (right; right; left; rfl) | (right; right; right; left; rfl)
  | (right; right; right; right; left; rfl) | (right; right; right; right; right; rfl))

macro "hs" : tactic => `(tactic| ((repeat' (first | split | (dsimp only; split))) <;> first
  | st | (unfold err; st)
  | (apply recover_status <;> intros <;> first | st | (unfold err; st))))

theorem ocraValidateReq_status (r : OcraReq) (b : Bool) (e : Resp) (h : ocraValidateReq r b = some e) : okStatus e.status := by
  unfold ocraValidateReq at h
  repeat' split at h
  all_goals first | (injection h with h; subst h; unfold err; st) | (cases h)

theorem ocraSuite_status (r : OcraReq) (e : Resp) (h : ocraSuite r = .error e) : okStatus e.status := by
  unfold ocraSuite at h
  repeat' split at h
  all_goals first | (injection h with h; subst h; unfold err; st) | (cases h)

theorem totpGenerate_status (O : HashOracle) (m : Method) (b : Body) (now : Int) : okStatus (totpGenerate O m b now).status := by
  unfold totpGenerate; hs
theorem totpValidate_status (O : HashOracle) (m : Method) (b : Body) (now : Int) : okStatus (totpValidate O m b now).status := by
  unfold totpValidate; hs
theorem hotpGenerate_status (O : HashOracle) (m : Method) (b : Body) : okStatus (hotpGenerate O m b).status := by
  unfold hotpGenerate; hs
theorem hotpValidate_status (O : HashOracle) (m : Method) (b : Body) : okStatus (hotpValidate O m b).status := by
  unfold hotpValidate; hs
theorem otpURL_status (m : Method) (b : Body) : okStatus (otpURL m b).status := by
  unfold otpURL; hs
theorem randomSecretH_status (m : Method) (a : Bytes) : okStatus (randomSecretH m a).status := by
  unfold randomSecretH; hs
theorem listSuites_status (m : Method) : okStatus (listSuites m).status := by
  unfold listSuites; hs
theorem suiteConfigH_status (m : Method) (b : Body) : okStatus (suiteConfigH m b).status := by
  unfold suiteConfigH; hs
theorem home_status (m : Method) : okStatus (home m).status := by
  unfold home; hs

theorem ocraGenerate_status (O : HashOracle) (m : Method) (b : Body) : okStatus (ocraGenerate O m b).status := by
  unfold ocraGenerate
  split
  · unfold err; st
  · split
    · split
      · rename_i e he; exact ocraValidateReq_status _ _ e he
      · split
        · rename_i e he; exact ocraSuite_status _ e he
        · hs
        · unfold err; st
    · unfold err; st

theorem ocraValidate_status (O : HashOracle) (m : Method) (b : Body) : okStatus (ocraValidate O m b).status := by
  unfold ocraValidate
  split
  · unfold err; st
  · split
    · split
      · rename_i e he; exact ocraValidateReq_status _ _ e he
      · split
        · rename_i e he; exact ocraSuite_status _ e he
        · hs
        · unfold err; st
    · unfold err; st

/-- C19, totality: whatever the method, path, decoded body (or decode failure), query argument and clock, the
handler returns a response whose status is one of 200, 302, 400, 404, 405, 500 (a handler panic is mapped to
500 by the Recovery middleware – not excluded) -/
theorem C19_total (O : HashOracle) (m : Method) (path : Bytes) (b : Body) (alg : Bytes) (now : Int) :
    okStatus (handle O m path b alg now).status := by
  unfold handle
  cases route path
  all_goals simp only
  · exact totpGenerate_status O m b now
  · exact totpValidate_status O m b now
  · exact hotpGenerate_status O m b
  · exact hotpValidate_status O m b
  · exact ocraGenerate_status O m b
  · exact ocraValidate_status O m b
  · exact listSuites_status m
  · exact suiteConfigH_status m b
  · exact otpURL_status m b
  · exact randomSecretH_status m alg
  · exact home_status m
  · unfold err; st
  · unfold err; st
  · unfold err; st

/-- C19, statelessness: the server answers request by request; the answer to a request does not depend on the
requests before or after it -/
theorem C19_stateless (O : HashOracle) (pre post : List (Method × Bytes × Body × Bytes × Int)) (x : Method × Bytes × Body × Bytes × Int) :
    (serve O (pre ++ [x] ++ post))[pre.length]? = some (handle O x.1 x.2.1 x.2.2.1 x.2.2.2.1 x.2.2.2.2) := by
  unfold serve
  simp [List.getElem?_append_left, List.getElem?_append_right]

/-- C19, bounded work: a skew above 10 is answered (valid = false) without entering the window loop, whatever
its size; below that the loop has at most 21 iterations (C04_work) -/
theorem C19_skew_bounded (O : HashOracle) (r : OtpReq) (now : Int) (hb : blank r.secret = false) (hc : blank r.code = false)
    (h : 10 < r.skew) :
    totpValidate O .post (.otp r) now = ⟨200, .valid false⟩ ∧ hotpValidate O .post (.otp r) = ⟨200, .valid false⟩ := by
  constructor
  · unfold totpValidate
    rw [if_neg (by decide)]
    simp only [hb, hc, Bool.false_eq_true, if_false]
    rw [Props.C04.C04_skew_refused O _ _ _ _ (by simpa [resolveTOTP] using h)]
  · unfold hotpValidate
    rw [if_neg (by decide)]
    simp only [hb, hc, Bool.false_eq_true, if_false]
    rw [Props.C03.C03_skew_refused O _ _ _ _ (by simpa [resolveHOTP] using h)]

/-- C19, status discipline: wrong method ⇒ 405, undecodable body ⇒ 400, unknown path ⇒ 404 -/
theorem C19_status (O : HashOracle) (now : Int) (alg : Bytes) :
    (totpGenerate O .get .undecodable now).status = 405 ∧ (hotpValidate O .other .undecodable).status = 405 ∧
    (totpGenerate O .post .undecodable now).status = 400 ∧ (ocraGenerate O .post .undecodable).status = 400 ∧
    (otpURL .post .undecodable).status = 400 ∧ (suiteConfigH .post .undecodable).status = 400 ∧
    (handle O .post [47, 110, 111, 112, 101] .undecodable alg now).status = 404 := by
  refine ⟨rfl, rfl, rfl, rfl, rfl, rfl, rfl⟩

end OtpVerif.Props.C19

#print axioms OtpVerif.Props.C19.C19_total
#print axioms OtpVerif.Props.C19.C19_stateless
#print axioms OtpVerif.Props.C19.C19_skew_bounded
#print axioms OtpVerif.Props.C19.C19_status
