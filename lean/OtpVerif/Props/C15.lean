/-
C15 — a suite's configuration always means what its suite string says.
`Spec.denote` (Spec/SuiteGrammar.lean) is the independent reading of the RFC 6287 naming scheme.
-/
import OtpVerif.Lemmas.SuiteParse
import OtpVerif.Lemmas.SuiteComplete
import OtpVerif.Lemmas.SuiteExact

namespace OtpVerif.Props.C15
open OtpVerif OtpVerif.Std OtpVerif.Model OtpVerif.Lemmas

/-- every registered name denotes exactly its registered configuration (regenerated registry, all 45 entries) -/
theorem C15_registry :
    Gen.registry.all (fun e => decide (Spec.denote e.1 = some { e.2 with raw := e.1 })) = true := by decide

/-- the advertised list, the known-suite test, lookup by name and instantiation agree with one another
(facts regenerated through the exported API: ListSuites, IsKnownSuite, SuiteConfigFromRaws, NewRawSuite) -/
theorem C15_consistent :
    Gen.listSuites = Gen.registry.map (·.1) ∧
    Gen.lookups.map (·.1) = Gen.listSuites ∧
    Gen.lookups.all (fun e =>
      e.2.1 && decide (registryLookup e.1 = some e.2.2.1) &&
      decide (e.2.2.2 = some ({ e.2.2.1 with raw := e.1 }, e.1))) = true := by decide

/-- the model's lookup path answers for every registered name what the implementation answered -/
theorem C15_model_registry :
    Gen.registry.all (fun e => decide (newRawSuite e.1 = .ok { e.2 with raw := e.1 }) && isKnownSuite e.1 &&
      decide (suiteConfigFromRaws e.1 = e.2)) = true := by decide

theorem registryLookup_mem (raw : Bytes) (cfg : SuiteConfig) (h : registryLookup raw = some cfg) : (raw, cfg) ∈ Gen.registry := by
  unfold registryLookup at h
  cases hf : Gen.registry.find? (fun e => e.1 == raw) with
  | none => rw [hf] at h; cases h
  | some e =>
    rw [hf] at h
    simp only [Option.map_some, Option.some.injEq] at h
    have hm := List.mem_of_find?_eq_some hf
    have hp := List.find?_some hf
    simp only [beq_iff_eq] at hp
    obtain ⟨e1, e2⟩ := e
    simp only at hp h
    subst hp; subst h
    exact hm

/-- C15, main clause: for *every* string, if `NewRawSuite` accepts it – by registry lookup or by parsing – the
resulting configuration is exactly what the string says under the naming scheme, and the suite reports
that string as its name -/
theorem C15_newRawSuite (raw : Bytes) (cfg : SuiteConfig) (h : newRawSuite raw = .ok cfg) :
    Spec.denote raw = some cfg ∧ cfg.raw = raw := by
  unfold newRawSuite at h
  cases hl : registryLookup raw with
  | none =>
    rw [hl] at h
    have hd := parseRawSuite_sound raw cfg h
    refine ⟨hd, ?_⟩
    -- denote always returns a configuration carrying the string
    unfold Spec.denote at hd
    repeat' split at hd
    all_goals first | (cases hd) | (injection hd with hd; rw [← hd])
    all_goals rfl
  | some c =>
    rw [hl] at h
    simp only at h
    cases hv : suiteValidate { c with raw := raw } with
    | some e => rw [hv] at h; cases h
    | none =>
      rw [hv] at h
      injection h with h
      have hm := registryLookup_mem raw c hl
      have := List.all_eq_true.mp C15_registry (raw, c) hm
      simp only [decide_eq_true_eq] at this
      rw [← h]
      exact ⟨this, rfl⟩

/-- a string the Spec cannot read is rejected, never approximated (contrapositive of the main clause) -/
theorem C15_rejects (raw : Bytes) (h : Spec.denote raw = none) : ∀ cfg, newRawSuite raw ≠ .ok cfg := by
  intro cfg hc
  have := (C15_newRawSuite raw cfg hc).1
  rw [h] at this; cases this

/-- every advertised name can be instantiated -/
theorem C15_instantiable : ∀ e ∈ Gen.registry, newRawSuite e.1 = .ok { e.2 with raw := e.1 } := by
  intro e he
  have := List.all_eq_true.mp C15_model_registry e he
  simp only [Bool.and_eq_true, decide_eq_true_eq] at this
  exact this.1.1

/-- C15, converse direction (completeness of the parser on what a `SuiteConfig` can express): every string that the naming
scheme reads — with a challenge format the library records (QN08 / QN10) and time steps that carry their unit — is
accepted by `NewRawSuite`, with exactly the configuration the string says.  Together with `C15_newRawSuite` this makes the
parser's language on representable strings *equal* to the Spec's: nothing well-formed is refused, nothing is approximated. -/
theorem C15_complete (raw : Bytes) (cfg : SuiteConfig) (h : Spec.denote raw = some cfg) (hrep : representable raw) :
    newRawSuite raw = .ok cfg := by
  unfold newRawSuite
  cases hl : registryLookup raw with
  | none => simp only; exact parseRawSuite_complete raw cfg h hrep
  | some c =>
    -- a registered name: the registry entry is what the name says (C15_registry) and instantiates (C15_model_registry)
    have hm := registryLookup_mem raw c hl
    have h1 := List.all_eq_true.mp C15_registry (raw, c) hm
    simp only [decide_eq_true_eq] at h1
    rw [h] at h1
    injection h1 with h1
    have h2 := C15_instantiable (raw, c) hm
    unfold newRawSuite at h2
    rw [hl] at h2
    simp only at h2 ⊢
    rw [h1]; exact h2

/-- on representable strings acceptance is *equivalent* to having a denotation -/
theorem C15_iff (raw : Bytes) (hrep : representable raw) (cfg : SuiteConfig) :
    newRawSuite raw = .ok cfg ↔ Spec.denote raw = some cfg :=
  ⟨fun h => (C15_newRawSuite raw cfg h).1, fun h => C15_complete raw cfg h hrep⟩

/-- a registered name is accepted with the configuration its name says (no representability needed: the registry speaks
for challenge formats and unit-less time steps the parser does not read) -/
theorem C15_registered (raw : Bytes) (cfg : SuiteConfig) (h : Spec.denote raw = some cfg) (hk : isKnownSuite raw = true) :
    newRawSuite raw = .ok cfg := by
  unfold isKnownSuite at hk
  cases hl : registryLookup raw with
  | none => rw [hl] at hk; cases hk
  | some c =>
    have hm := registryLookup_mem raw c hl
    have h1 := List.all_eq_true.mp C15_registry (raw, c) hm
    simp only [decide_eq_true_eq] at h1
    rw [h] at h1
    injection h1 with h1
    have h2 := C15_instantiable (raw, c) hm
    rw [h1]; exact h2

/-- **C15, exact language**: `NewRawSuite` accepts a string, with a configuration, exactly when the naming scheme reads the
string as that configuration and the string is either an advertised name or made of tokens a configuration can represent.
Nothing else is accepted, nothing of that kind is refused, and what is accepted is never approximated. -/
theorem C15_exact (raw : Bytes) (cfg : SuiteConfig) :
    newRawSuite raw = .ok cfg ↔ Spec.denote raw = some cfg ∧ (isKnownSuite raw = true ∨ representable raw) := by
  constructor
  · intro h
    refine ⟨(C15_newRawSuite raw cfg h).1, ?_⟩
    unfold newRawSuite at h
    unfold isKnownSuite
    cases hl : registryLookup raw with
    | some c => left; rfl
    | none =>
      rw [hl] at h
      right; exact parseRawSuite_representable raw cfg h
  · rintro ⟨hd, hk | hr⟩
    · exact C15_registered raw cfg hd hk
    · exact C15_complete raw cfg hd hr

-- non-vacuity: an unregistered well-formed string is accepted by the parser and denotes what it says
-- "OCRA-1:HOTP-SHA256-7:C-QN10-PSHA1-S064-T5M"
example : newRawSuite [79, 67, 82, 65, 45, 49, 58, 72, 79, 84, 80, 45, 83, 72, 65, 50, 53, 54, 45, 55, 58, 67, 45, 81, 78, 49, 48, 45, 80, 83, 72, 65, 49, 45, 83, 48, 54, 52, 45, 84, 53, 77] =
    .ok { raw := [79, 67, 82, 65, 45, 49, 58, 72, 79, 84, 80, 45, 83, 72, 65, 50, 53, 54, 45, 55, 58, 67, 45, 81, 78, 49, 48, 45, 80, 83, 72, 65, 49, 45, 83, 48, 54, 52, 45, 84, 53, 77], hash := 1, digits := 7, challenge := 2,
          incC := true, incQ := true, incP := true, incS := true, incT := true, pwHash := 1, timeStep := 300 } := by decide
-- "OCRA-10:HOTP-SHA1-6:QN08", "OCRA-1:HOTP-SHA1-6:QN08-QN10"
example : Spec.denote [79, 67, 82, 65, 45, 49, 48, 58, 72, 79, 84, 80, 45, 83, 72, 65, 49, 45, 54, 58, 81, 78, 48, 56] = none := by decide
example : Spec.denote [79, 67, 82, 65, 45, 49, 58, 72, 79, 84, 80, 45, 83, 72, 65, 49, 45, 54, 58, 81, 78, 48, 56, 45, 81, 78, 49, 48] = none := by decide
example : Gen.registry.length = 45 := by decide
-- the hypotheses of C15_complete are met: `Lemmas/SuiteComplete.lean` proves `representable exampleSuite` for the
-- unregistered string above, and shows "QA08" and "T1" not representable


end OtpVerif.Props.C15

#print axioms OtpVerif.Props.C15.C15_registry
#print axioms OtpVerif.Props.C15.C15_consistent
#print axioms OtpVerif.Props.C15.C15_model_registry
#print axioms OtpVerif.Props.C15.C15_newRawSuite
#print axioms OtpVerif.Props.C15.C15_rejects
#print axioms OtpVerif.Props.C15.C15_complete
#print axioms OtpVerif.Props.C15.C15_iff
#print axioms OtpVerif.Props.C15.C15_registered
#print axioms OtpVerif.Props.C15.C15_exact
#print axioms OtpVerif.Props.C15.C15_instantiable
