/-
C11 — results depend only on arguments, under any concurrency and call history  (PARTIAL: see DESIGN.md).
(a) pool / ownership protocol: for unboundedly many threads, arbitrary interleavings, GCs emptying the pool
    and an adversary that takes, scribbles and returns buffers, a thread's callee reads from its buffer
    exactly what that thread itself wrote;
(b) stale data: whatever the pooled buffer contained when it was obtained (left by *any* history of earlier
    calls or by an adversary), the assembled OCRA message – hence the code – is the same;
(c) regenerated program facts: the pool operations of each function that uses a pool satisfy `PoolProto.protocolOk`
    (one Get, one Put of the same pool, written before read, never handed to code that may keep it) and such a
    list is a behaviour of the abstract machine (`C11_protocol_refines`); nothing is stored into
    package-level state outside `init`, no returned string is a view of pooled or shared memory;
(d) the models are functions of their arguments only (there is no state to depend on).
The Go memory model, sync.Pool's implementation and the scheduler are assumed to implement the abstraction;
the race-detector stress run of this check supports that and searches for a failing schedule.
-/
import OtpVerif.Model.Pool
import OtpVerif.Model.PoolProto
import OtpVerif.Props.C12

namespace OtpVerif.Props.C11
open OtpVerif OtpVerif.Model

/-- (a) exclusivity: in every reachable world no buffer is held by two threads, and a held buffer is not in the pool -/
theorem C11_exclusive {m w} (r : Pool.Reach m w) :
    (∀ i j a, i ≠ j → (w.threads i).held = some a → (w.threads j).held ≠ some a) ∧
    (∀ i a, (w.threads i).held = some a → a ∉ w.pool) :=
  ⟨(Pool.inv_reach r).excl, (Pool.inv_reach r).notIn⟩

/-- (a) a thread reads back what it wrote itself, whatever all other threads, the adversary and the GC did -/
theorem C11_read_own_write {m w} (r : Pool.Reach m w) (i a : Nat) (bs : Bytes)
    (hh : (w.threads i).held = some a) (hw : (w.threads i).wrote = some bs) : w.mem a = bs :=
  Pool.read_own_write r i a bs hh hw

/-- (b) history independence: two heaps that agree on caller memory but differ arbitrarily in the pooled
buffer's contents (stale data of earlier calls, adversarial scribbling) give the same message -/
theorem C11_stale_independent (h1 h2 : Mem.Heap) (pool : Mem.Slice) (cfg : SuiteConfig) (i : Mem.InputM)
    (hp1 : pool.off + pool.cap ≤ (h1.cells pool.addr).length) (hp2 : pool.off + pool.cap ≤ (h2.cells pool.addr).length)
    (hl1 : pool.addr < h1.next) (hl2 : pool.addr < h2.next)
    (hin1 : Lemmas.Mem.InputsOk h1 pool.addr i) (hin2 : Lemmas.Mem.InputsOk h2 pool.addr i)
    (hsame : Lemmas.Mem.inputOf h1 i = Lemmas.Mem.inputOf h2 i) :
    (Mem.assemble h1 pool cfg i).h.read (Mem.assemble h1 pool cfg i).msg =
    (Mem.assemble h2 pool cfg i).h.read (Mem.assemble h2 pool cfg i).msg := by
  rw [Props.C12.C12_refines h1 pool cfg i hp1 hl1 hin1, Props.C12.C12_refines h2 pool cfg i hp2 hl2 hin2, hsame]

open OtpVerif.Model.Mem OtpVerif.Lemmas.Mem in
/-- `binary.BigEndian.PutUint64(buf[:], counter)` on the pooled 8-byte array at address `buf` -/
def putCounterM (h : Heap) (buf : Nat) (counter : Nat) : Heap := h.write buf 0 (be8 counter)

open OtpVerif.Model.Mem OtpVerif.Lemmas.Mem in
/-- (b') the HOTP / TOTP counter buffer: whatever the pooled 8-byte array held when it was obtained (stale bytes of any
earlier call, an adversary's scribbling), after the counter is written the HMAC reads exactly the 8-byte big-endian
counter, and no other memory changed -/
theorem C11_counter_buffer (h : Heap) (buf counter : Nat) (hlen : (h.cells buf).length = 8) :
    (putCounterM h buf counter).read ⟨buf, 0, 8, 8⟩ = be8 counter ∧
    (∀ a, a ≠ buf → (putCounterM h buf counter).cells a = h.cells a) := by
  constructor
  · unfold putCounterM Heap.write Heap.read
    simp only [if_true]
    have := read_after_overwrite (h.cells buf) 0 0 (be8 counter) (by rw [hlen]; simp)
    simpa using this
  · intro a ha
    unfold putCounterM Heap.write
    simp only [if_neg ha]

open OtpVerif.Model.Mem OtpVerif.Lemmas.Mem in
/-- in particular two heaps that differ arbitrarily in the pooled buffer give the HMAC the same input -/
theorem C11_counter_stale_independent (h1 h2 : Heap) (buf counter : Nat)
    (hl1 : (h1.cells buf).length = 8) (hl2 : (h2.cells buf).length = 8) :
    (putCounterM h1 buf counter).read ⟨buf, 0, 8, 8⟩ = (putCounterM h2 buf counter).read ⟨buf, 0, 8, 8⟩ := by
  rw [(C11_counter_buffer h1 buf counter hl1).1, (C11_counter_buffer h2 buf counter hl2).1]

/-- (c) the pool operations found in every function that uses a pool follow the protocol: one Get and one Put of the
same pool, the buffer is written before anything reads it, it is touched only between Get and Put, and it is never
handed to code that could keep it -/
theorem C11_pool_protocol : Gen.poolSites.all (fun s => PoolProto.protocolOk s.2.2) = true := by decide +kernel

/-- … and such an operation list, read as a thread program, is a behaviour of the abstract machine: it runs to
completion from any reachable world, through reachable worlds only (to which C11_exclusive applies) -/
theorem C11_protocol_refines {m w} (r : Pool.Reach m w) (i : Nat) (ops : List PoolProto.POp)
    (hok : PoolProto.protocolOk ops = true) (hn : (w.threads i).held = none) :
    ∃ w', PoolProto.Runs i (PoolProto.absProg ops) w w' ∧ Pool.Reach m w' ∧ (w'.threads i).held = none := by
  have hwb : PoolProto.wellBracketed (PoolProto.absProg ops) = true := by
    unfold PoolProto.protocolOk at hok
    simp only [Bool.and_eq_true] at hok
    exact hok.1.2
  obtain ⟨w', hr, hn'⟩ := PoolProto.wellBracketed_runs i _ hwb w hn
  exact ⟨w', hr, PoolProto.runs_reach i _ w w' r hr, hn'⟩

-- non-vacuity: the table is not empty and a double Put is refused
example : Gen.poolSites.length ≥ 2 := by decide
example : PoolProto.protocolOk [(0, [80]), (2, [80]), (5, []), (1, [80]), (7, [])] = false := by decide

def startsWith (p s : List Nat) : Bool := p.isPrefixOf s

/-- (c) nothing is written to package-level state outside `init` (no "store global:" / "mapupdate global:" /
"append global:" site exists), and no unsafe string view points at shared memory -/
theorem C11_readonly_globals :
    Gen.storeSites.all (fun s =>
      !(startsWith [115,116,111,114,101,32,103,108,111,98,97,108] s.2.2.1) &&          -- "store global"
      !(startsWith [109,97,112,117,112,100,97,116,101] s.2.2.1) &&                      -- "mapupdate"
      !(startsWith [97,112,112,101,110,100,32,103,108,111,98,97,108] s.2.2.1) &&        -- "append global"
      !(startsWith [99,111,112,121,32,103,108,111,98,97,108] s.2.2.1) &&                -- "copy global"
      !(startsWith [117,110,115,97,102,101,45,118,105,101,119] s.2.2.1)) = true := by decide +kernel   -- "unsafe-view"

/-- (d) the operation models have no hidden state: equal arguments give equal results (they are functions) -/
theorem C11_functional (O : HashOracle) (s : Bytes) (c : Nat) (p : Option Param) :
    ∀ history : List (Bytes × Nat × Option Param),
      (history.map (fun a => generateHOTP O a.1 a.2.1 a.2.2), generateHOTP O s c p).2 = generateHOTP O s c p := fun _ => rfl

end OtpVerif.Props.C11

#print axioms OtpVerif.Props.C11.C11_exclusive
#print axioms OtpVerif.Props.C11.C11_read_own_write
#print axioms OtpVerif.Props.C11.C11_stale_independent
#print axioms OtpVerif.Props.C11.C11_pool_protocol
#print axioms OtpVerif.Props.C11.C11_protocol_refines
#print axioms OtpVerif.Props.C11.C11_readonly_globals
#print axioms OtpVerif.Props.C11.C11_functional
#print axioms OtpVerif.Props.C11.C11_counter_buffer
#print axioms OtpVerif.Props.C11.C11_counter_stale_independent
