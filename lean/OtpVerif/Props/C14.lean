/-
C14 — OCRA admits an input exactly when it meets the suite's field requirements.
-/
import OtpVerif.Lemmas.Ocra
import OtpVerif.Lemmas.Validate

namespace OtpVerif.Props.C14
open OtpVerif OtpVerif.Model OtpVerif.Lemmas OtpVerif.Props.C01

/-- C14 (suite clause): a suite is usable exactly when digits are 4..10, the hash is supported and each
selected field has its format / password hash / positive time step -/
theorem C14_suite (cfg : SuiteConfig) : suiteValidate cfg = none ↔ Spec.usable cfg := suiteValidate_iff cfg

/-- C14 (input clause): for enumerations within their documented ranges, `OCRAInput.Validate` admits the
input iff every *selected* field meets its requirement -/
theorem C14_input (cfg : SuiteConfig) (i : OCRAInput) (hr : Spec.enumsInRange cfg) :
    inputValidate i cfg = none ↔ Spec.admissible cfg i := inputValidate_iff cfg i hr

/-- the derivation (after the two checks) never fails: usable ∧ admitted ⇒ a code -/
theorem derive_ok_of_valid (O : HashOracle) (k : Bytes) (cfg : SuiteConfig) (i : OCRAInput)
    (hv : suiteValidate cfg = none) (hi : inputValidate i cfg = none) :
    deriveRFC6287 O k cfg i = .ok (Spec.ocra O.hmac k cfg i) := by
  have hu := (suiteValidate_iff cfg).mp hv
  obtain ⟨d4, d10, hh, _, _, _⟩ := hu
  unfold deriveRFC6287
  rw [hv, hi]
  simp only
  rw [if_neg (by omega)]
  have hd1 : 1 ≤ cfg.digits.toNat := by omega
  have hd2 : cfg.digits.toNat ≤ 10 := by omega
  rw [hashIdOf_eq cfg.hash hh, mod10_eq_pow _ hd1 hd2]
  simp only
  have hlen : 19 ≤ (O.hmac cfg.hash k (ocraMessage cfg i)).length := by
    rw [O.len_ok _ _ _ hh]; exact hashLen_ge _
  rw [truncate_eq _ _ hlen (Nat.pow_pos (by omega))]
  simp only
  rw [formatDecimal_eq, ocraMessage_eq cfg i hi]
  rfl

/-- C14 (entry points): generation returns a code iff the suite is usable and the input admitted
(validation then compares; see C06) -/
theorem C14_entry (O : HashOracle) (s k : Bytes) (cfg : SuiteConfig) (i : OCRAInput) (hs : decodeSecret s = .ok k) :
    (∃ code, generateOCRA O s cfg i = .ok code) ↔ (suiteValidate cfg = none ∧ inputValidate i cfg = none) := by
  unfold generateOCRA
  simp only [hs]
  constructor
  · rintro ⟨code, h⟩
    unfold deriveRFC6287 at h
    cases hv : suiteValidate cfg with
    | some e => rw [hv] at h; cases h
    | none =>
      cases hi : inputValidate i cfg with
      | some e => rw [hv, hi] at h; cases h
      | none => exact ⟨rfl, rfl⟩
  · rintro ⟨hv, hi⟩
    exact ⟨_, derive_ok_of_valid O k cfg i hv hi⟩

/-- C14 (entry points, property vocabulary): under the documented enumeration ranges, a code is returned iff
`usable cfg ∧ admissible cfg i` -/
theorem C14_entry_spec (O : HashOracle) (s k : Bytes) (cfg : SuiteConfig) (i : OCRAInput) (hs : decodeSecret s = .ok k)
    (hr : Spec.enumsInRange cfg) :
    (∃ code, generateOCRA O s cfg i = .ok code) ↔ (Spec.usable cfg ∧ Spec.admissible cfg i) := by
  rw [C14_entry O s k cfg i hs, suiteValidate_iff, inputValidate_iff cfg i hr]

/-- fields the suite does not select are not constrained: admission only looks at selected fields -/
theorem C14_unselected (cfg : SuiteConfig) (i i' : OCRAInput)
    (hC : cfg.incC = true → i.counter = i'.counter) (hQ : cfg.incQ = true → i.challenge = i'.challenge)
    (hP : cfg.incP = true → i.password = i'.password) (hS : cfg.incS = true → i.session = i'.session)
    (hT : cfg.incT = true → i.timestamp = i'.timestamp) :
    inputValidate i cfg = inputValidate i' cfg := by
  unfold inputValidate
  by_cases c : cfg.incC = true <;> by_cases q : cfg.incQ = true <;> by_cases p : cfg.incP = true <;>
    by_cases s : cfg.incS = true <;> by_cases t : cfg.incT = true <;>
    simp only [c, q, p, s, t, true_and, false_and, if_false] <;>
    (try rw [hC c]) <;> (try rw [hQ q]) <;> (try rw [hP p]) <;> (try rw [hS s]) <;> (try rw [hT t]) <;> (try simp)

-- non-vacuity: a registered-style configuration with an admissible and an inadmissible input
example : Spec.usable { zeroCfg with digits := 6, incQ := true, challenge := 1 } := by decide
example : Spec.admissible { zeroCfg with digits := 6, incQ := true, challenge := 1 } ⟨[], List.replicate 8 48, [], [], []⟩ := by decide
example : ¬ Spec.admissible { zeroCfg with digits := 6, incQ := true, challenge := 1 } ⟨[], List.replicate 7 48, [], [], []⟩ := by decide

end OtpVerif.Props.C14

#print axioms OtpVerif.Props.C14.C14_suite
#print axioms OtpVerif.Props.C14.C14_input
#print axioms OtpVerif.Props.C14.derive_ok_of_valid
#print axioms OtpVerif.Props.C14.C14_entry
#print axioms OtpVerif.Props.C14.C14_entry_spec
#print axioms OtpVerif.Props.C14.C14_unselected
