/-
C05 — OCRA codes are exactly the RFC 6287 value over the documented message layout.
A `Suite` value is modelled by its configuration (both library implementations delegate to it), so a
theorem over all `SuiteConfig`s covers registered names, parsed strings, `NewSuite` and bare
configurations alike; how names and strings become configurations is C15.
-/
import OtpVerif.Props.C14

namespace OtpVerif.Props.C05
open OtpVerif OtpVerif.Model OtpVerif.Lemmas OtpVerif.Props.C01 OtpVerif.Props.C14

/-- C05, main clause: for every usable suite (any suite-string text incl. empty), every secret and every
admitted input, generation returns exactly the RFC 6287 value over the documented layout -/
theorem C05_eq_rfc (O : HashOracle) (s k : Bytes) (cfg : SuiteConfig) (i : OCRAInput)
    (hs : decodeSecret s = .ok k) (hv : suiteValidate cfg = none) (hi : inputValidate i cfg = none) :
    generateOCRA O s cfg i = .ok (Spec.ocra O.hmac k cfg i) := by
  unfold generateOCRA
  simp only [hs]
  exact derive_ok_of_valid O k cfg i hv hi

/-- the same in the property's vocabulary (documented enumeration ranges) -/
theorem C05_eq_rfc_spec (O : HashOracle) (s k : Bytes) (cfg : SuiteConfig) (i : OCRAInput)
    (hs : decodeSecret s = .ok k) (hr : Spec.enumsInRange cfg) (hu : Spec.usable cfg) (ha : Spec.admissible cfg i) :
    generateOCRA O s cfg i = .ok (Spec.ocra O.hmac k cfg i) :=
  C05_eq_rfc O s k cfg i hs ((C14_suite cfg).mpr hu) ((C14_input cfg i hr).mpr ha)

theorem ocraMessage_unselected (cfg : SuiteConfig) (i i' : OCRAInput)
    (hC : cfg.incC = true → i.counter = i'.counter) (hQ : cfg.incQ = true → i.challenge = i'.challenge)
    (hP : cfg.incP = true → i.password = i'.password) (hS : cfg.incS = true → i.session = i'.session)
    (hT : cfg.incT = true → i.timestamp = i'.timestamp) : ocraMessage cfg i = ocraMessage cfg i' := by
  unfold ocraMessage
  by_cases c : cfg.incC = true <;> by_cases q : cfg.incQ = true <;> by_cases p : cfg.incP = true <;>
    by_cases s : cfg.incS = true <;> by_cases t : cfg.incT = true <;>
    simp only [c, q, p, s, t, if_true, if_false] <;>
    (try rw [hC c]) <;> (try rw [hQ q]) <;> (try rw [hP p]) <;> (try rw [hS s]) <;> (try rw [hT t]) <;> (try simp)

/-- C05, independence: input fields the suite does not select have no influence on the result
(code or error), for every suite and every pair of inputs agreeing on the selected fields -/
theorem C05_unselected (O : HashOracle) (s : Bytes) (cfg : SuiteConfig) (i i' : OCRAInput)
    (hC : cfg.incC = true → i.counter = i'.counter) (hQ : cfg.incQ = true → i.challenge = i'.challenge)
    (hP : cfg.incP = true → i.password = i'.password) (hS : cfg.incS = true → i.session = i'.session)
    (hT : cfg.incT = true → i.timestamp = i'.timestamp) :
    generateOCRA O s cfg i = generateOCRA O s cfg i' := by
  unfold generateOCRA deriveRFC6287
  rw [C14_unselected cfg i i' hC hQ hP hS hT, ocraMessage_unselected cfg i i' hC hQ hP hS hT]

/-- C05, shape: the code has exactly `digits` (4..10) decimal characters -/
theorem C05_shape (O : HashOracle) (k : Bytes) (cfg : SuiteConfig) (i : OCRAInput) :
    (Spec.ocra O.hmac k cfg i).length = cfg.digits.toNat ∧ (Spec.ocra O.hmac k cfg i).all isDigitChar = true := by
  unfold Spec.ocra
  exact ⟨zeroPad_length _ _, zeroPad_all_digits _ _⟩

/-- `NewSuite` hands back the configuration it was given (or refuses it) -/
theorem C05_newSuite (cfg cfg' : SuiteConfig) (h : newSuite cfg = .ok cfg') : cfg' = cfg ∧ suiteValidate cfg = none := by
  unfold newSuite at h
  cases hv : suiteValidate cfg with
  | some e => rw [hv] at h; cases h
  | none => rw [hv] at h; injection h with h; exact ⟨h.symm, rfl⟩

-- non-vacuity
example : suiteValidate { zeroCfg with digits := 6, incQ := true, challenge := 1 } = none := by decide
example : inputValidate ⟨[], List.replicate 8 48, [1,2,3], [], [9]⟩ { zeroCfg with digits := 6, incQ := true, challenge := 1 } = none := by decide

end OtpVerif.Props.C05

#print axioms OtpVerif.Props.C05.C05_eq_rfc
#print axioms OtpVerif.Props.C05.C05_eq_rfc_spec
#print axioms OtpVerif.Props.C05.C05_unselected
#print axioms OtpVerif.Props.C05.C05_shape
#print axioms OtpVerif.Props.C05.C05_newSuite
