/-
C18 — the REST service returns exactly the library's result for the request's fields  (PARTIAL: see DESIGN.md).
The handler model (`Model/Rest.lean`) starts from the decoded request; JSON decoding, fasthttp and the socket
layer are exercised by the `restcorr` engine (real binary on loopback, real encoding/json), not modelled.
-/
import OtpVerif.Model.Rest
import OtpVerif.Props.C03
import OtpVerif.Props.C04
import OtpVerif.Props.C13
import OtpVerif.Lemmas.Trim

namespace OtpVerif.Props.C18
open OtpVerif OtpVerif.Std OtpVerif.Model OtpVerif.Model.Rest OtpVerif.Lemmas

/-- regenerated: `DigitsFromStr` only ever yields a supported code length, `AlgorithmFromStr` a supported hash -/
theorem fromStr_tables :
    documentedDigits.all (fun e => decide (1 ≤ e.2 ∧ e.2 ≤ 10)) = true ∧ (1 ≤ 6 ∧ 6 ≤ 10) ∧
    documentedAlgos.all (fun e => decide (e.2 < 3)) = true ∧ 0 < 3 := by decide

/-- the spellings the library recognises (among the probed candidates, which include zero-padded, signed, spaced,
wide-character and wrapping numerals): exactly the documented ones; everything else falls back to 6 digits / SHA-1 -/
theorem C18_fromStr_documented :
    Gen.digitsFromStr = documentedDigits ∧ Gen.digitsFallback = 6 ∧
    Gen.algoFromStr = documentedAlgos ∧ Gen.algoFallback = 0 := ⟨rfl, rfl, rfl, rfl⟩

theorem digitsFromStr_range (s : Bytes) : 1 ≤ digitsFromStr s ∧ digitsFromStr s ≤ 10 := by
  unfold digitsFromStr
  cases h : documentedDigits.find? (fun e => e.1.toUTF8.toList == s) with
  | none => exact fromStr_tables.2.1
  | some e =>
    have := List.all_eq_true.mp fromStr_tables.1 e (List.mem_of_find?_eq_some h)
    simpa using this

theorem algoFromStr_range (s : Bytes) : algoFromStr s < 3 := by
  unfold algoFromStr
  cases h : documentedAlgos.find? (fun e => e.1.toUTF8.toList == s) with
  | none => exact fromStr_tables.2.2.2
  | some e =>
    have := List.all_eq_true.mp fromStr_tables.2.2.1 e (List.mem_of_find?_eq_some h)
    simpa using this

/-- C18 (HOTP generate): for a well-formed POST the endpoint answers 200 with exactly the RFC 4226 value for the
request's secret, counter, digits and hash (unknown spellings fall back to 6 / SHA-1), and echoes the counter -/
theorem C18_hotp_generate (O : HashOracle) (r : OtpReq) (k : Bytes) (hb : blank r.secret = false)
    (hs : decodeSecret r.secret = .ok k) :
    hotpGenerate O .post (.otp r) =
      ⟨200, .code (Spec.hotp O.hmac (algoFromStr r.algorithm) k r.counter (digitsFromStr r.digits)) 0 r.counter []⟩ := by
  unfold hotpGenerate
  rw [if_neg (by decide)]
  simp only [hb, Bool.false_eq_true, if_false]
  have hd := digitsFromStr_range r.digits
  have := Props.C01.C01_generate_eq_rfc O r.secret k r.counter
    (some ⟨digitsFromStr r.digits, 0, 0, algoFromStr r.algorithm⟩) hs hd.1 hd.2 (algoFromStr_range _)
  rw [this]
  rfl

/-- C18 (TOTP generate): with an explicit positive timestamp the code is the RFC value at ⌊timestamp / period⌋
(period 0 ↦ 30), for the trimmed secret, and the timestamp is echoed -/
theorem C18_totp_generate (O : HashOracle) (r : OtpReq) (k : Bytes) (now : Int) (hb : blank r.secret = false)
    (hs : decodeSecret (trimSpace r.secret) = .ok k) (ht : 0 < r.timestamp) (ht2 : r.timestamp < 2 ^ 63) (hp : r.period < 2 ^ 64) :
    totpGenerate O .post (.otp r) now =
      ⟨200, .code (Spec.hotp O.hmac (algoFromStr r.algorithm) k (r.timestamp.toNat / (if r.period = 0 then 30 else r.period))
        (digitsFromStr r.digits)) r.timestamp 0 []⟩ := by
  unfold totpGenerate
  rw [if_neg (by decide)]
  simp only [hb, Bool.false_eq_true, if_false, ht, if_true]
  have hd := digitsFromStr_range r.digits
  have hper : Props.C02.per (some ⟨digitsFromStr r.digits, if r.period = 0 then 30 else r.period, 0, algoFromStr r.algorithm⟩) =
      (if r.period = 0 then 30 else r.period) := by
    unfold Props.C02.per effPeriod resolveTOTP
    simp only
    split <;> simp_all
  have := Props.C02.C02_totp_eq_rfc O (trimSpace r.secret) k r.timestamp
    (some ⟨digitsFromStr r.digits, if r.period = 0 then 30 else r.period, 0, algoFromStr r.algorithm⟩) hs (by omega) ht2
    (by rw [hper]; split <;> omega) hd.1 hd.2 (algoFromStr_range _)
  rw [hper] at this
  rw [this]
  rfl

/-- C18 (verdicts): the validation endpoints answer 200 with exactly the library's verdict for the request's fields -/
theorem C18_hotp_verdict (O : HashOracle) (r : OtpReq) (hb : blank r.secret = false) (hc : blank r.code = false) :
    ∃ v e, validateHOTP O r.secret r.code r.counter (some ⟨digitsFromStr r.digits, 0, r.skew, algoFromStr r.algorithm⟩) = .ok (v, e) ∧
      hotpValidate O .post (.otp r) = ⟨200, .valid v⟩ := by
  unfold hotpValidate
  rw [if_neg (by decide)]
  simp only [hb, hc, Bool.false_eq_true, if_false]
  rcases Props.C13.C13_hotp O r.secret r.code r.counter (some ⟨digitsFromStr r.digits, 0, r.skew, algoFromStr r.algorithm⟩) with h | ⟨e, h⟩
  · exact ⟨true, none, h, by rw [h]⟩
  · exact ⟨false, some e, h, by rw [h]⟩

theorem digits_plain (d n : Nat) : ∀ c ∈ zeroPad d n, plainChar c := by
  intro c hc
  have := List.all_eq_true.mp (zeroPad_all_digits d n) c hc
  unfold isDigitChar at this
  simp only [Bool.and_eq_true, decide_eq_true_eq] at this
  refine ⟨?_, by omega⟩
  unfold isAsciiSpace
  have ne (k : UInt8) (hk : c.toNat ≠ k.toNat) : (c == k) = false := by
    cases hck : c == k with
    | false => rfl
    | true => exact absurd (congrArg UInt8.toNat (beq_iff_eq.mp hck)) hk
  simp only [Bool.or_eq_false_iff, decide_eq_false_iff_not]
  refine ⟨⟨⟨⟨⟨?_, ?_⟩, ?_⟩, ?_⟩, ?_⟩, ?_⟩ <;> (intro e; subst e; revert this; decide)

/-- C18 (generate → validate): a code generated by /hotp/generate validates at /hotp/validate for the same
fields, for every window 0..10 -/
theorem C18_hotp_gen_val (O : HashOracle) (r : OtpReq) (k code : Bytes) (hb : blank r.secret = false)
    (hs : decodeSecret r.secret = .ok k) (hsk : r.skew ≤ 10) (hov : r.counter + r.skew < 2 ^ 64)
    (hg : hotpGenerate O .post (.otp r) = ⟨200, .code code 0 r.counter []⟩) :
    hotpValidate O .post (.otp { r with code := code }) = ⟨200, .valid true⟩ := by
  rw [C18_hotp_generate O r k hb hs] at hg
  have hcode : code = Spec.hotp O.hmac (algoFromStr r.algorithm) k r.counter (digitsFromStr r.digits) := by
    injection hg with _ h2; injection h2 with h2; exact h2.symm
  have hd := digitsFromStr_range r.digits
  unfold hotpValidate
  rw [if_neg (by decide)]
  have hcb : blank code = false := by
    unfold blank
    rw [hcode]
    unfold Spec.hotp
    rw [trimSpace_plain _ (digits_plain _ _)]
    cases hz : zeroPad (digitsFromStr r.digits) _ with
    | nil => have := zeroPad_length (digitsFromStr r.digits) (Spec.dt (O.hmac (algoFromStr r.algorithm) k (be8 r.counter)) % 10 ^ digitsFromStr r.digits)
             rw [hz] at this; simp at this; omega
    | cons _ _ => rfl
  simp only [hb, hcb, Bool.false_eq_true, if_false]
  have := Props.C03.C03_self O r.secret k r.counter (some ⟨digitsFromStr r.digits, 0, r.skew, algoFromStr r.algorithm⟩) hs hsk hov hd.1 hd.2 (algoFromStr_range _)
  simp only [resolveHOTP] at this
  rw [hcode, this]

/-- C18 (registry endpoints): the suite list and the suite description reflect the regenerated registry -/
theorem C18_registry (raw : Bytes) (hk : isKnownSuite raw = true) (hb : blank raw = false) :
    listSuites .get = ⟨200, .suites (Gen.registry.map (·.1))⟩ ∧
    suiteConfigH .post (.suiteCfg raw) = ⟨200, .suiteConfig raw (suiteConfigFromRaws raw)⟩ := by
  constructor
  · rfl
  · unfold suiteConfigH
    rw [if_neg (by decide)]
    simp [hb, hk]

open OtpVerif.Std in
/-- C18 (TOTP verdicts): `/totp/validate` answers 200 with exactly the library's verdict for the request's secret
(white space trimmed, as the handler does), code, instant (the request's timestamp if positive, else the clock),
digits, period, skew and hash -/
theorem C18_totp_verdict (O : HashOracle) (r : OtpReq) (now : Int) (hb : blank r.secret = false) (hc : blank r.code = false)
    (hP : r.period < 2 ^ 64) :
    ∃ v e, validateTOTP O (trimSpace r.secret) r.code (if r.timestamp > 0 then r.timestamp else now)
        (some ⟨digitsFromStr r.digits, r.period, r.skew, algoFromStr r.algorithm⟩) = .ok (v, e) ∧
      totpValidate O .post (.otp r) now = ⟨200, .valid v⟩ := by
  unfold totpValidate
  rw [if_neg (show ¬ (Method.post ≠ Method.post) by decide)]
  simp only [hb, hc, Bool.false_eq_true, if_false]
  rcases Props.C13.C13_totp O (trimSpace r.secret) r.code (if r.timestamp > 0 then r.timestamp else now)
      (some ⟨digitsFromStr r.digits, r.period, r.skew, algoFromStr r.algorithm⟩) (by simpa [resolveTOTP] using hP) with h | ⟨e, h⟩
  · exact ⟨true, none, h, by rw [h]⟩
  · exact ⟨false, some e, h, by rw [h]⟩

open OtpVerif.Std in
/-- C18 (OCRA generation): when the request passes the DTO checks, names a usable suite and carries decodable input
fields, `/ocra/generate` answers with exactly what `GenerateOCRA` returns for that suite and input: the code with
status 200, or 500 if the library refuses -/
theorem C18_ocra_generate (O : HashOracle) (r : OcraReq) (cfg : SuiteConfig) (i : InputReq) (input : OCRAInput)
    (hv : ocraValidateReq r false = none) (hs : ocraSuite r = .ok cfg) (hi : r.input = some i) (hin : ocraInputOf i = .ok input) :
    ocraGenerate O .post (.ocra r) =
      (match generateOCRA O r.secret cfg input with
       | .ok code => ⟨200, .code code 0 0 cfg.raw⟩
       | .err _ => err 500
       | .panic => err 500) := by
  unfold ocraGenerate
  rw [if_neg (by decide)]
  simp only [hv, hs, hi, hin, recover]
  cases generateOCRA O r.secret cfg input <;> rfl

open OtpVerif.Std in
/-- C18 (OCRA verdicts): under the same conditions `/ocra/validate` answers 200 with exactly `ValidateOCRA`'s verdict,
which is `true` iff `GenerateOCRA` returns the submitted code (C06) -/
theorem C18_ocra_verdict (O : HashOracle) (r : OcraReq) (cfg : SuiteConfig) (i : InputReq) (input : OCRAInput)
    (hv : ocraValidateReq r true = none) (hs : ocraSuite r = .ok cfg) (hi : r.input = some i) (hin : ocraInputOf i = .ok input) :
    ∃ v, ocraValidate O .post (.ocra r) = ⟨200, .valid v⟩ ∧ (v = true ↔ generateOCRA O r.secret cfg input = .ok r.code) := by
  unfold ocraValidate
  rw [if_neg (by decide)]
  simp only [hv, hs, hi, hin]
  rcases Props.C06.C06_total O r.secret r.code cfg input with h | ⟨e, h⟩
  · refine ⟨true, by rw [h], ?_⟩
    exact ⟨fun _ => (Props.C06.C06_iff O r.secret r.code cfg input).mp h, fun _ => rfl⟩
  · refine ⟨false, by rw [h], ?_⟩
    constructor
    · intro hf; cases hf
    · intro hg
      have := (Props.C06.C06_iff O r.secret r.code cfg input).mpr hg
      rw [h] at this; cases this


open OtpVerif.Std in
/-- C18 (provisioning URL): for a request with all four required fields, `/otp/url` answers with the text of exactly the
URL the library builds for the request's issuer, account, secret, digits, hash and period (`type` selects TOTP / HOTP;
anything else is a 400) -/
theorem C18_url (r : UrlReq) (hb : blank r.type = false ∧ blank r.secret = false ∧ blank r.issuer = false ∧ blank r.account = false) :
    otpURL .post (.url r) =
      (let p : URLParam := { issuer := r.issuer, account := r.account, secret := r.secret,
                             digits := digitsFromStr r.digits, algo := algoFromStr r.algorithm, period := r.period }
       if r.type = sTotpB then (match generateTOTPURL p with | .ok u => ⟨200, .url (Std.Url.urlString u)⟩ | _ => err 500)
       else if r.type = sHotpB then (match generateHOTPURL p with | .ok u => ⟨200, .url (Std.Url.urlString u)⟩ | _ => err 500)
       else err 400) := by
  unfold otpURL
  rw [if_neg (show ¬ (Method.post ≠ Method.post) by decide)]
  simp only [hb.1, hb.2.1, hb.2.2.1, hb.2.2.2, Bool.false_eq_true, or_self, if_false, recover]
  by_cases h1 : r.type = sTotpB
  · simp only [h1, if_true]; cases generateTOTPURL _ <;> rfl
  · simp only [h1, if_false]
    by_cases h2 : r.type = sHotpB
    · simp only [h2, if_true]; cases generateHOTPURL _ <;> rfl
    · simp only [h2, if_false]

open OtpVerif.Std in
/-- C18 (suite endpoints): `/ocra/suites` lists exactly the advertised names and `/ocra/suite` answers for a known name
with exactly the registered configuration -/
theorem C18_suites : listSuites .get = ⟨200, .suites (Gen.registry.map (·.1))⟩ := rfl

open OtpVerif.Std in
theorem C18_suite_config (raw : Bytes) (hb : blank raw = false) (hk : isKnownSuite raw = true) :
    suiteConfigH .post (.suiteCfg raw) = ⟨200, .suiteConfig raw (suiteConfigFromRaws raw)⟩ := by
  unfold suiteConfigH
  rw [if_neg (show ¬ (Method.post ≠ Method.post) by decide)]
  simp only [hb, hk, Bool.false_eq_true, if_false, Bool.not_true]

open OtpVerif.Std in
/-- C18 (wrong method / wrong path): every endpoint refuses other methods with 405 and unknown paths get 404 -/
theorem C18_method (O : HashOracle) (b : Body) (now : Int) :
    totpGenerate O .other b now = err 405 ∧ totpValidate O .other b now = err 405 ∧ hotpGenerate O .other b = err 405 ∧
    hotpValidate O .other b = err 405 ∧ ocraGenerate O .other b = err 405 ∧ ocraValidate O .other b = err 405 ∧
    otpURL .other b = err 405 ∧ suiteConfigH .other b = err 405 ∧ listSuites .other = err 405 := by
  refine ⟨?_, ?_, ?_, ?_, ?_, ?_, ?_, ?_, ?_⟩ <;> rfl

end OtpVerif.Props.C18

#print axioms OtpVerif.Props.C18.fromStr_tables
#print axioms OtpVerif.Props.C18.C18_hotp_generate
#print axioms OtpVerif.Props.C18.C18_totp_generate
#print axioms OtpVerif.Props.C18.C18_hotp_verdict
#print axioms OtpVerif.Props.C18.C18_hotp_gen_val
#print axioms OtpVerif.Props.C18.C18_registry
#print axioms OtpVerif.Props.C18.C18_totp_verdict
#print axioms OtpVerif.Props.C18.C18_ocra_generate
#print axioms OtpVerif.Props.C18.C18_ocra_verdict
#print axioms OtpVerif.Props.C18.C18_fromStr_documented
#print axioms OtpVerif.Props.C18.C18_url
#print axioms OtpVerif.Props.C18.C18_suites
#print axioms OtpVerif.Props.C18.C18_suite_config
#print axioms OtpVerif.Props.C18.C18_method
