/-
C13 — validation verdicts are unambiguous; errors never leak secret or expected code.
Part (a), here: every validation returns (true, nil) or (false, some error) – for *all* arguments, without
any domain restriction – and never panics.  Part (b) (error texts) is in `Props/C13b.lean` over the
regenerated table of error-construction sites.
-/
import OtpVerif.Props.C06
import OtpVerif.Props.C04
import OtpVerif.Gen.Sites

namespace OtpVerif.Props.C13
open OtpVerif OtpVerif.Model OtpVerif.Lemmas

/-- a loop over a total probe ends with `ok true` or `ok false`, whatever the fuel -/
theorem windowLoop_total (probe : Int → Out Bool) (hp : ∀ i, ∃ b, probe i = .ok b) (hi : Int) :
    ∀ fuel i, windowLoop probe hi fuel i = .ok true ∨ windowLoop probe hi fuel i = .ok false := by
  intro fuel
  induction fuel with
  | zero => intro i; right; rfl
  | succ n ih =>
    intro i
    have e : windowLoop probe hi (n + 1) i =
        (if i > hi then .ok false
         else match probe i with
           | .ok true => .ok true
           | .ok false => windowLoop probe hi n (i + 1)
           | .err e => .err e
           | .panic => .panic) := rfl
    rw [e]
    by_cases hgt : i > hi
    · rw [if_pos hgt]; right; rfl
    · rw [if_neg hgt]
      obtain ⟨b, hb⟩ := hp i
      rw [hb]
      cases b with
      | true => left; rfl
      | false => exact ih (i + 1)

theorem hotpProbe_total (check : Nat → Out Bool) (hc : ∀ c, ∃ b, check c = .ok b) (counter : Nat) (i : Int) :
    ∃ b, hotpProbe check counter i = .ok b := by
  unfold hotpProbe
  split
  · split
    · exact ⟨false, rfl⟩
    · exact hc _
  · exact hc _

/-- C13 (HOTP): for every secret text, string, counter and parameter set -/
theorem C13_hotp (O : HashOracle) (s code : Bytes) (c : Nat) (p : Option Param) :
    validateHOTP O s code c p = .ok (true, none) ∨ ∃ e, validateHOTP O s code c p = .ok (false, some e) := by
  unfold validateHOTP
  simp only
  by_cases hk : (resolveHOTP p).skew > 10
  · rw [if_pos hk]; exact Or.inr ⟨_, rfl⟩
  rw [if_neg hk]
  cases hs : decodeSecret s with
  | panic => exact absurd hs (decodeSecret_no_panic s)
  | err e => exact Or.inr ⟨e, rfl⟩
  | ok key =>
    simp only
    have hc : ∀ c', ∃ b, accepted (validateRFC4226 O code key c' (resolveHOTP p).digits (resolveHOTP p).algo) = .ok b :=
      fun c' => accepted_validate_total O code key c' _ _
    rcases windowLoop_total _ (hotpProbe_total _ hc c) ((resolveHOTP p).skew : Int) (2 * (resolveHOTP p).skew + 1) (-((resolveHOTP p).skew : Int)) with h | h
    · rw [h]; exact Or.inl rfl
    · rw [h]; exact Or.inr ⟨_, rfl⟩

/-- C13 (TOTP): for every secret text, string, instant and parameter set (period a Go `uint`, i.e. < 2^64) -/
theorem C13_totp (O : HashOracle) (s code : Bytes) (sec : Int) (p : Option Param) (hP : (resolveTOTP p).period < 2 ^ 64) :
    validateTOTP O s code sec p = .ok (true, none) ∨ ∃ e, validateTOTP O s code sec p = .ok (false, some e) := by
  unfold validateTOTP
  simp only
  by_cases hk : (resolveTOTP p).skew > 10
  · rw [if_pos hk]; exact Or.inr ⟨_, rfl⟩
  rw [if_neg hk]
  cases hs : decodeSecret s with
  | panic => exact absurd hs (decodeSecret_no_panic s)
  | err e => exact Or.inr ⟨e, rfl⟩
  | ok key =>
    simp only
    have hper : effPeriod (resolveTOTP p).period % 2 ^ 64 ≠ 0 := by
      unfold effPeriod
      split
      · decide
      · rw [Nat.mod_eq_of_lt hP]; assumption
    unfold timeCounter
    rw [if_neg hper]
    simp only
    have hc : ∀ c', ∃ b, accepted (validateRFC4226 O code key c' (resolveTOTP p).digits (resolveTOTP p).algo) = .ok b :=
      fun c' => accepted_validate_total O code key c' _ _
    have hpr : ∀ i, ∃ b, totpProbe (fun c' => accepted (validateRFC4226 O code key c' (resolveTOTP p).digits (resolveTOTP p).algo))
        (toU64 sec / (effPeriod (resolveTOTP p).period % 2 ^ 64)) i = .ok b := fun i => hc _
    rcases windowLoop_total _ hpr ((resolveTOTP p).skew : Int) (2 * (resolveTOTP p).skew + 1) (-((resolveTOTP p).skew : Int)) with h | h
    · rw [h]; exact Or.inl rfl
    · rw [h]; exact Or.inr ⟨_, rfl⟩

/-- C13 (OCRA): for every secret text, string, suite configuration and input -/
theorem C13_ocra (O : HashOracle) (s code : Bytes) (cfg : SuiteConfig) (i : OCRAInput) :
    validateOCRA O s code cfg i = .ok (true, none) ∨ ∃ e, validateOCRA O s code cfg i = .ok (false, some e) :=
  Props.C06.C06_total O s code cfg i

/-- generation likewise never panics: a code or an error -/
theorem C13_generate_total (O : HashOracle) (s : Bytes) (c : Nat) (p : Option Param) :
    (∃ code, generateHOTP O s c p = .ok code) ∨ ∃ e, generateHOTP O s c p = .err e := by
  unfold generateHOTP
  simp only
  cases hs : decodeSecret s with
  | panic => exact absurd hs (decodeSecret_no_panic s)
  | err e => exact Or.inr ⟨e, rfl⟩
  | ok key =>
    simp only
    by_cases h : (resolveHOTP p).digits = 0 ∨ 10 < (resolveHOTP p).digits ∨ 3 ≤ (resolveHOTP p).algo
    · exact Or.inr (derive_unsupported O key c _ _ h)
    · exact Or.inl ⟨_, Props.C01.C01_derive_eq_rfc O key c _ _ (by omega) (by omega) (by omega)⟩

/-- C13 (b), regenerated from go/ssa (library native + js/wasm, wasm binding, REST layer): no `errors.New` /
`fmt.Errorf` site has an argument derived from the secret text, the decoded key, or an HMAC output (the
expected code); the sentinel errors are argument-free literals.  (Error results of `encoding/*` decoders
carry a position or one input byte – a stdlib summary, trusted; error texts are also checked dynamically
against the secret / key / accepted codes on every failing op of the correspondence run.) -/
theorem C13_noleak_sites : Gen.errSites.all (fun s => !s.argS && !s.argH) = true := by decide

example : Gen.errSites.length ≥ 30 := by decide +kernel

end OtpVerif.Props.C13

#print axioms OtpVerif.Props.C13.C13_hotp
#print axioms OtpVerif.Props.C13.C13_totp
#print axioms OtpVerif.Props.C13.C13_ocra
#print axioms OtpVerif.Props.C13.C13_generate_total
#print axioms OtpVerif.Props.C13.C13_noleak_sites
