/-
C06 — OCRA validation accepts a string iff generation returns it for the same data.
-/
import OtpVerif.Props.C05

namespace OtpVerif.Props.C06
open OtpVerif OtpVerif.Model OtpVerif.Lemmas OtpVerif.Props.C01 OtpVerif.Props.C14 OtpVerif.Props.C05

/-- the derivation never panics, for any suite configuration and input -/
theorem deriveRFC6287_no_panic (O : HashOracle) (k : Bytes) (cfg : SuiteConfig) (i : OCRAInput) :
    deriveRFC6287 O k cfg i ≠ .panic := by
  cases hv : suiteValidate cfg with
  | some e => unfold deriveRFC6287; rw [hv]; intro h; cases h
  | none =>
    cases hi : inputValidate i cfg with
    | some e => unfold deriveRFC6287; rw [hv, hi]; intro h; cases h
    | none => rw [derive_ok_of_valid O k cfg i hv hi]; intro h; cases h

/-- a derived code has exactly `cfg.digits` bytes -/
theorem derive_len (O : HashOracle) (k : Bytes) (cfg : SuiteConfig) (i : OCRAInput) (code : Bytes)
    (h : deriveRFC6287 O k cfg i = .ok code) : (code.length : Int) = cfg.digits := by
  cases hv : suiteValidate cfg with
  | some e => unfold deriveRFC6287 at h; rw [hv] at h; cases h
  | none =>
    cases hi : inputValidate i cfg with
    | some e => unfold deriveRFC6287 at h; rw [hv, hi] at h; cases h
    | none =>
      rw [derive_ok_of_valid O k cfg i hv hi] at h
      injection h with h
      rw [← h, (C05_shape O k cfg i).1]
      have := ((suiteValidate_iff cfg).mp hv).1
      omega

/-- C06, main clause: validation returns `(true, nil)` iff the submitted string is byte-for-byte what
generation returns for the same secret, suite and input — for *every* secret text, suite configuration
(valid or not), input (admissible or not) and string -/
theorem C06_iff (O : HashOracle) (s code : Bytes) (cfg : SuiteConfig) (i : OCRAInput) :
    validateOCRA O s code cfg i = .ok (true, none) ↔ generateOCRA O s cfg i = .ok code := by
  unfold validateOCRA generateOCRA
  cases hs : decodeSecret s with
  | panic => exact absurd hs (decodeSecret_no_panic s)
  | err e => simp only; constructor <;> (intro h; cases h)
  | ok k =>
    simp only
    unfold validate
    cases hd : deriveRFC6287 O k cfg i with
    | panic => exact absurd hd (deriveRFC6287_no_panic O k cfg i)
    | err e =>
      simp only
      constructor
      · intro h; split at h <;> cases h
      · intro h; cases h
    | ok expected =>
      have hl := derive_len O k cfg i expected hd
      simp only
      by_cases hlen : (code.length : Int) ≠ cfg.digits
      · rw [if_pos hlen]
        constructor
        · intro h; cases h
        · intro h; injection h with h; subst h; exact absurd hl hlen
      · rw [if_neg hlen]
        by_cases he : code = expected
        · subst he
          rw [if_pos ((ctEq_iff _ _).mpr rfl)]
          exact ⟨fun _ => rfl, fun _ => rfl⟩
        · have : ctEq code expected = false := by
            cases h : ctEq code expected with
            | false => rfl
            | true => exact absurd ((ctEq_iff _ _).mp h) he
          rw [this]
          constructor
          · intro h; cases h
          · intro h; injection h with h; exact absurd h.symm he

/-- C06, failure clause: whenever generation would fail (undecodable secret, invalid suite, inadmissible
input) validation returns false together with an error -/
theorem C06_fail (O : HashOracle) (s code : Bytes) (cfg : SuiteConfig) (i : OCRAInput) (e : Err)
    (h : generateOCRA O s cfg i = .err e) : ∃ e', validateOCRA O s code cfg i = .ok (false, some e') := by
  unfold generateOCRA at h
  unfold validateOCRA
  cases hs : decodeSecret s with
  | panic => exact absurd hs (decodeSecret_no_panic s)
  | err e1 => exact ⟨e1, rfl⟩
  | ok k =>
    rw [hs] at h
    simp only at h ⊢
    unfold validate
    rw [h]
    split
    · exact ⟨_, rfl⟩
    · exact ⟨_, rfl⟩

/-- C06, totality: validation never panics and always answers (true, nil) or (false, some error) -/
theorem C06_total (O : HashOracle) (s code : Bytes) (cfg : SuiteConfig) (i : OCRAInput) :
    validateOCRA O s code cfg i = .ok (true, none) ∨ ∃ e, validateOCRA O s code cfg i = .ok (false, some e) := by
  unfold validateOCRA
  cases hs : decodeSecret s with
  | panic => exact absurd hs (decodeSecret_no_panic s)
  | err e1 => exact Or.inr ⟨e1, rfl⟩
  | ok k =>
    simp only
    unfold validate
    cases hd : deriveRFC6287 O k cfg i with
    | panic => exact absurd hd (deriveRFC6287_no_panic O k cfg i)
    | err e => simp only; split <;> exact Or.inr ⟨_, rfl⟩
    | ok expected =>
      simp only
      split
      · exact Or.inr ⟨_, rfl⟩
      · split
        · exact Or.inl rfl
        · exact Or.inr ⟨_, rfl⟩

/-- every generated code validates -/
theorem C06_self (O : HashOracle) (s code : Bytes) (cfg : SuiteConfig) (i : OCRAInput)
    (h : generateOCRA O s cfg i = .ok code) : validateOCRA O s code cfg i = .ok (true, none) :=
  (C06_iff O s code cfg i).mpr h

end OtpVerif.Props.C06

#print axioms OtpVerif.Props.C06.C06_iff
#print axioms OtpVerif.Props.C06.C06_fail
#print axioms OtpVerif.Props.C06.C06_total
#print axioms OtpVerif.Props.C06.C06_self
#print axioms OtpVerif.Props.C06.deriveRFC6287_no_panic
