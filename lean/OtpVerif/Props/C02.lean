/-
C02 — TOTP code = HOTP code at floor(unix time / period), with consistent defaults.
The model of `GenerateTOTP` / `ValidateTOTP` takes only the Unix seconds of the instant; that the real
code depends on nothing else (nanoseconds, zone, monotonic reading) is what the `gtotp` / `vtotp`
correspondence ops check, by sending all four fields to the implementation.
-/
import OtpVerif.Lemmas.Validate
import OtpVerif.Lemmas.Window

namespace OtpVerif.Props.C02
open OtpVerif OtpVerif.Model OtpVerif.Lemmas OtpVerif.Props.C01

/-- the period actually used: 0 means 30 s, in generation, validation and provisioning URLs alike -/
def per (p : Option Param) : Nat := effPeriod (resolveTOTP p).period

theorem timeCounter_eq (sec : Int) (P : Nat) (h0 : 0 ≤ sec) (h1 : sec < 2 ^ 63) (hP : 0 < P) (hP2 : P < 2 ^ 64) :
    timeCounter sec P = .ok (sec.toNat / P) := by
  unfold timeCounter
  rw [Nat.mod_eq_of_lt hP2, if_neg (by omega), toU64_nonneg sec h0 (by omega)]

theorem per_pos (p : Option Param) : 0 < per p := by
  unfold per effPeriod; split <;> omega

/-- C02, main clause: for every instant at or after the epoch (seconds < 2^63) and every period < 2^64 (0 = 30 s)
the TOTP code is the HOTP code for the counter ⌊seconds / period⌋ with the same digits and hash -/
theorem C02_totp_eq_hotp (O : HashOracle) (s : Bytes) (sec : Int) (p : Option Param)
    (h0 : 0 ≤ sec) (h1 : sec < 2 ^ 63) (hP : per p < 2 ^ 64) :
    generateTOTP O s sec p = generateHOTP O s (sec.toNat / per p) (some (resolveTOTP p)) := by
  unfold generateTOTP generateHOTP
  simp only
  cases hs : decodeSecret s with
  | err e => rfl
  | panic => rfl
  | ok k =>
    simp only
    have := timeCounter_eq sec (per p) h0 h1 (per_pos p) hP
    unfold per at this
    rw [this]
    rfl

/-- hence it is the RFC 4226 value at that counter -/
theorem C02_totp_eq_rfc (O : HashOracle) (s k : Bytes) (sec : Int) (p : Option Param)
    (hs : decodeSecret s = .ok k) (h0 : 0 ≤ sec) (h1 : sec < 2 ^ 63) (hP : per p < 2 ^ 64)
    (hd1 : 1 ≤ (resolveTOTP p).digits) (hd2 : (resolveTOTP p).digits ≤ 10) (ha : (resolveTOTP p).algo < 3) :
    generateTOTP O s sec p = .ok (Spec.hotp O.hmac (resolveTOTP p).algo k (sec.toNat / per p) (resolveTOTP p).digits) := by
  rw [C02_totp_eq_hotp O s sec p h0 h1 hP]
  exact C01_generate_eq_rfc O s k _ (some (resolveTOTP p)) hs hd1 hd2 ha

/-- the counter is constant inside a time step and changes exactly at the step boundaries n·P -/
theorem C02_step (P n x : Nat) (hP : 0 < P) (hlo : n * P ≤ x) (hhi : x < (n + 1) * P) : x / P = n := by
  apply Nat.div_eq_of_lt_le
  · exact hlo
  · exact hhi

theorem C02_boundary (P n : Nat) (hP : 0 < P) : (n * P) / P = n ∧ (n ≥ 1 → (n * P - 1) / P = n - 1) := by
  refine ⟨Nat.mul_div_cancel _ hP, fun hn => ?_⟩
  apply C02_step P (n - 1) (n * P - 1) hP
  · have : (n - 1) * P + P = n * P := by
      rw [← Nat.succ_mul]; congr 1; omega
    omega
  · have : (n - 1 + 1) = n := by omega
    rw [this]
    have : 0 < n * P := Nat.mul_pos (by omega) hP
    omega

/-- defaults: absent parameters mean SHA-1, 6 digits, 30 s (regenerated `DefaultTOTPParam`); a zero period
means 30 s. Generation and validation resolve parameters through the same two functions. -/
theorem C02_defaults : resolveTOTP none = { digits := 6, period := 30, skew := 0, algo := 0 } ∧ effPeriod 0 = 30 ∧
    (∀ P, P ≠ 0 → effPeriod P = P) := by
  refine ⟨by decide, by decide, fun P h => ?_⟩
  unfold effPeriod; rw [if_neg h]

-- non-vacuity
example : (0 : Int) ≤ 59 ∧ (59 : Int) < 2 ^ 63 ∧ per none < 2 ^ 64 := by decide
example : per (some ⟨8, 0, 0, 1⟩) = 30 := by decide

end OtpVerif.Props.C02

#print axioms OtpVerif.Props.C02.C02_totp_eq_hotp
#print axioms OtpVerif.Props.C02.C02_totp_eq_rfc
#print axioms OtpVerif.Props.C02.C02_step
#print axioms OtpVerif.Props.C02.C02_boundary
#print axioms OtpVerif.Props.C02.C02_defaults
