/-
C12 — caller data and package defaults are never modified  (PARTIAL: see DESIGN.md).
(a) memory-level model of the OCRA message assembly (`padBytes`, the appends into the pooled buffer): every
    write lands in the pooled buffer or in fresh memory; all caller memory – including the spare capacity
    behind every argument slice – is unchanged, for every heap, every slice geometry and every suite;
(b) regenerated store roots: the root of every write through a pointer / slice is followed through internal helpers
    (a helper's parameter is resolved at all of its call sites; a helper returning a view of its argument is
    followed into that argument; a reference loaded from a by-value struct parameter still counts as the caller's);
    every write, returned reference or unsafe string view whose ultimate root is an exported function's argument,
    a global or pooled memory is one of the reviewed sites of `Model/Justified.lean` (none touches a library
    argument);
(c) defaults: the nil-parameter paths work on a by-value copy.
-/
import OtpVerif.Gen.Sites
import OtpVerif.Model.Justified
import OtpVerif.Lemmas.Mem
import OtpVerif.Model.Otp

namespace OtpVerif.Props.C12
open OtpVerif OtpVerif.Model OtpVerif.Model.Mem OtpVerif.Lemmas.Mem

/-- (a) frame: pre-existing memory other than the pooled buffer is unchanged by the message assembly, and every
write goes to the pooled buffer or to memory allocated during the call -/
theorem C12_frame (h0 : Heap) (pool : Slice) (cfg : SuiteConfig) (i : InputM)
    (hpool : pool.off + pool.cap ≤ (h0.cells pool.addr).length) (hlive : pool.addr < h0.next)
    (hin : InputsOk h0 pool.addr i) :
    (∀ a, a ≠ pool.addr → a < h0.next → (assemble h0 pool cfg i).h.cells a = h0.cells a) ∧
    (∀ w ∈ (assemble h0 pool cfg i).writes, w = pool.addr ∨ h0.next ≤ w) :=
  let r := assemble_spec h0 pool cfg i hpool hlive hin
  ⟨r.2.2, r.2.1⟩

/-- in particular the whole backing array of each input (spare capacity included) is bit-for-bit what it was -/
theorem C12_inputs_untouched (h0 : Heap) (pool : Slice) (cfg : SuiteConfig) (i : InputM)
    (hpool : pool.off + pool.cap ≤ (h0.cells pool.addr).length) (hlive : pool.addr < h0.next)
    (hin : InputsOk h0 pool.addr i) :
    (assemble h0 pool cfg i).h.cells i.challenge.addr = h0.cells i.challenge.addr ∧
    (assemble h0 pool cfg i).h.cells i.session.addr = h0.cells i.session.addr ∧
    (assemble h0 pool cfg i).h.cells i.counter.addr = h0.cells i.counter.addr ∧
    (assemble h0 pool cfg i).h.cells i.password.addr = h0.cells i.password.addr ∧
    (assemble h0 pool cfg i).h.cells i.timestamp.addr = h0.cells i.timestamp.addr := by
  have f := (C12_frame h0 pool cfg i hpool hlive hin).1
  exact ⟨f _ hin.q.1.2 hin.q.1.1, f _ hin.s.1.2 hin.s.1.1, f _ hin.c.1.2 hin.c.1.1, f _ hin.p.2 hin.p.1, f _ hin.t.1.2 hin.t.1.1⟩

/-- the memory-level model refines the pure model (so C05's value is what the real message assembly hashes) -/
theorem C12_refines (h0 : Heap) (pool : Slice) (cfg : SuiteConfig) (i : InputM)
    (hpool : pool.off + pool.cap ≤ (h0.cells pool.addr).length) (hlive : pool.addr < h0.next)
    (hin : InputsOk h0 pool.addr i) :
    (assemble h0 pool cfg i).h.read (assemble h0 pool cfg i).msg = ocraMessage cfg (inputOf h0 i) :=
  (assemble_spec h0 pool cfg i hpool hlive hin).1

/-- (b) every store / return / unsafe-view site with a non-local root is a reviewed one -/
theorem C12_stores : Gen.storeSites.all (fun s => Model.justifiedStoreSites.contains s) = true := by decide +kernel

/-- (c) nil parameters are resolved to a value (copy of the regenerated default), never to shared state -/
theorem C12_defaults (O : HashOracle) (s code : Bytes) (c : Nat) (sec : Int) :
    generateHOTP O s c none = generateHOTP O s c (some Gen.defaultHOTP) ∧
    validateHOTP O s code c none = validateHOTP O s code c (some Gen.defaultHOTP) ∧
    generateTOTP O s sec none = generateTOTP O s sec (some Gen.defaultTOTP) ∧
    validateTOTP O s code sec none = validateTOTP O s code sec (some Gen.defaultTOTP) := ⟨rfl, rfl, rfl, rfl⟩

-- non-vacuity: a concrete heap with a 256-byte pooled buffer and caller slices with spare capacity
example : InputsOk { cells := fun a => if a = 0 then List.replicate 256 7 else List.replicate 200 0xC5, next := 6 } 0
    ⟨⟨1, 0, 8, 8⟩, ⟨2, 13, 8, 187⟩, ⟨3, 0, 20, 200⟩, ⟨4, 0, 0, 200⟩, ⟨5, 0, 8, 8⟩⟩ :=
  ⟨⟨⟨by decide, by decide⟩, by decide⟩, ⟨⟨by decide, by decide⟩, by decide⟩, ⟨by decide, by decide⟩,
   ⟨⟨by decide, by decide⟩, by decide⟩, ⟨⟨by decide, by decide⟩, by decide⟩⟩

end OtpVerif.Props.C12

#print axioms OtpVerif.Props.C12.C12_frame
#print axioms OtpVerif.Props.C12.C12_inputs_untouched
#print axioms OtpVerif.Props.C12.C12_refines
#print axioms OtpVerif.Props.C12.C12_stores
#print axioms OtpVerif.Props.C12.C12_defaults
