/-
C16 — provisioning URLs round-trip: parsing a generated otpauth URL returns its input.
`net/url` is modelled in Std/Url.lean (trusted, validated against the real package by the urlg / urlp ops).
-/
import OtpVerif.Model.Url
import OtpVerif.Lemmas.Url
import OtpVerif.Props.C02

namespace OtpVerif.Props.C16
open OtpVerif OtpVerif.Std OtpVerif.Std.Url OtpVerif.Model OtpVerif.Lemmas.Url

theorem ctl_escaped (m : Mode) (c : UInt8) (h : isCTL c = true) : shouldEscape m c = true := by
  have hn : c.toNat < 32 ∨ c.toNat = 127 := by
    unfold isCTL at h; simp only [Bool.or_eq_true, decide_eq_true_eq] at h; exact h
  have ne : ∀ k : UInt8, isCTL k = false → c ≠ k := by
    intro k hk e; subst e; rw [h] at hk; cases hk
  unfold shouldEscape
  have h1 : isAlnum c = false := by
    unfold isAlnum
    simp only [Bool.or_eq_false_iff, Bool.and_eq_false_iff, decide_eq_false_iff_not]
    omega
  have h2 : isMark c = false := by
    unfold isMark
    simp only [Bool.or_eq_false_iff, decide_eq_false_iff_not]
    exact ⟨⟨⟨ne 45 (by decide), ne 95 (by decide)⟩, ne 46 (by decide)⟩, ne 126 (by decide)⟩
  have h3 : isReserved c = false := by
    unfold isReserved
    simp only [Bool.or_eq_false_iff, decide_eq_false_iff_not]
    exact ⟨⟨⟨⟨⟨⟨⟨⟨⟨ne 36 (by decide), ne 38 (by decide)⟩, ne 43 (by decide)⟩, ne 44 (by decide)⟩, ne 47 (by decide)⟩,
      ne 58 (by decide)⟩, ne 59 (by decide)⟩, ne 61 (by decide)⟩, ne 63 (by decide)⟩, ne 64 (by decide)⟩
  simp [h1, h2, h3]

/-- escaped text contains no control byte and no '#' -/
theorem escape_clean (m : Mode) (s : Bytes) : ∀ c ∈ escape m s, isCTL c = false ∧ c ≠ 35 := by
  intro c hc
  rcases escape_chars m s c hc with h | h | h
  · constructor
    · cases hctl : isCTL c with
      | false => rfl
      | true => rw [ctl_escaped m c hctl] at h; cases h
    · intro e; subst e; revert h; cases m <;> decide
  · subst h; exact ⟨by decide, by decide⟩
  · rw [h.2]; exact ⟨by decide, by decide⟩

theorem mem_joinWith (sep : UInt8) : ∀ (pieces : List Bytes) (c : UInt8), c ∈ joinWith sep pieces →
    c = sep ∨ ∃ p ∈ pieces, c ∈ p := by
  intro pieces
  induction pieces with
  | nil => intro c h; simp [joinWith] at h
  | cons p ps ih =>
    intro c h
    cases ps with
    | nil => simp only [joinWith] at h; exact Or.inr ⟨p, by simp, h⟩
    | cons q qs =>
      simp only [joinWith] at h
      rcases List.mem_append.mp h with h | h
      · exact Or.inr ⟨p, by simp, h⟩
      · rcases List.mem_cons.mp h with h | h
        · exact Or.inl h
        · rcases ih c h with e | ⟨x, hx, hc⟩
          · exact Or.inl e
          · exact Or.inr ⟨x, by simp [hx], hc⟩

/-- an encoded query string contains no control byte and no '#' -/
theorem valuesEncode_clean (kvs : List (Bytes × Bytes)) : ∀ c ∈ valuesEncode kvs, isCTL c = false ∧ c ≠ 35 := by
  intro c hc
  unfold valuesEncode at hc
  rcases mem_joinWith 38 _ c hc with e | ⟨p, hp, hcp⟩
  · subst e; exact ⟨by decide, by decide⟩
  · obtain ⟨kv, _, rfl⟩ := List.mem_map.mp hp
    rcases List.mem_append.mp hcp with h | h
    · exact escape_clean .query kv.1 c h
    · rcases List.mem_cons.mp h with h | h
      · subst h; exact ⟨by decide, by decide⟩
      · exact escape_clean .query kv.2 c h

theorem any_false_of_forall {p : UInt8 → Bool} (l : Bytes) (h : ∀ c ∈ l, p c = false) : l.any p = false := by
  induction l with
  | nil => rfl
  | cons x xs ih =>
    simp only [List.any_cons, h x (by simp), Bool.false_or]
    exact ih (fun c hc => h c (by simp [hc]))

/-- **Parse ∘ String = id** for URLs of the shape the library generates -/
theorem parse_string (host label rawQuery : Bytes) (hh : host = sTotp ∨ host = sHotp)
    (hq : rawQuery ≠ []) (hclean : ∀ c ∈ rawQuery, isCTL c = false ∧ c ≠ 35) :
    urlParse (urlString { scheme := sOtpauth, host := host, path := 47 :: label, rawQuery := rawQuery }) =
      .ok { scheme := sOtpauth, host := host, path := 47 :: label, rawQuery := rawQuery } := by
  have hesc : escape .path (47 :: label) = 47 :: escape .path label := by
    conv => lhs; unfold escape
    rw [if_neg (by decide), if_neg (by decide)]
  have hqe : rawQuery.isEmpty = false := by cases rawQuery with | nil => exact absurd rfl hq | cons _ _ => rfl
  have hE := escape_clean .path label
  have hE63 : (63 : UInt8) ∉ escape .path label := escape_avoids .path label 63 (by decide) (by decide) (by decide)
  unfold urlString
  simp only [hesc, hqe, Bool.false_eq_true, if_false, ne_eq, not_true_eq_false, if_false]
  -- the text
  have htext : ∀ h : Bytes, sOtpauth ++ [58, 47, 47] ++ h ++ (47 :: escape .path label) ++ (63 :: rawQuery) =
      sOtpauth ++ 58 :: (((47 :: 47 :: h) ++ (47 :: escape .path label)) ++ 63 :: rawQuery) := by
    intro h; simp
  rw [htext]
  unfold urlParse
  have hctl : (sOtpauth ++ 58 :: (((47 :: 47 :: host) ++ (47 :: escape .path label)) ++ 63 :: rawQuery)).any isCTL = false := by
    apply any_false_of_forall
    intro c hc
    simp only [List.mem_append, List.mem_cons] at hc
    rcases hc with h | h | ((h | h | h) | h | h) | h | h
    · rcases hh with rfl | rfl <;> (revert h; unfold sOtpauth; simp only [List.mem_cons, List.not_mem_nil, or_false]; rintro (rfl|rfl|rfl|rfl|rfl|rfl|rfl) <;> decide)
    · subst h; decide
    · subst h; decide
    · subst h; decide
    · rcases hh with rfl | rfl <;> (revert h; simp only [sTotp, sHotp, List.mem_cons, List.not_mem_nil, or_false]; rintro (rfl|rfl|rfl|rfl) <;> decide)
    · subst h; decide
    · exact (hE c h).1
    · subst h; decide
    · exact (hclean c h).1
  rw [hctl]
  have hhash : (sOtpauth ++ 58 :: (((47 :: 47 :: host) ++ (47 :: escape .path label)) ++ 63 :: rawQuery)).contains 35 = false := by
    apply contains_false_of_not_mem
    intro hc
    simp only [List.mem_append, List.mem_cons] at hc
    rcases hc with h | h | ((h | h | h) | h | h) | h | h
    · revert h; unfold sOtpauth; decide
    · revert h; decide
    · revert h; decide
    · revert h; decide
    · rcases hh with rfl | rfl <;> (revert h; simp only [sTotp, sHotp]; decide)
    · revert h; decide
    · exact (hE 35 h).2 rfl
    · revert h; decide
    · exact (hclean 35 h).2 rfl
  simp only [Bool.false_eq_true, if_false, hhash]
  rw [splitFirst_append 58 sOtpauth _ (by unfold sOtpauth; decide)]
  simp only
  have hsch : (sOtpauth.isEmpty = false) := rfl
  simp only [hsch, Bool.false_eq_true, if_false]
  have h63 : (63 : UInt8) ∉ (47 :: 47 :: host) ++ (47 :: escape .path label) := by
    intro hc
    simp only [List.mem_append, List.mem_cons] at hc
    rcases hc with (h | h | h) | h | h
    · revert h; decide
    · revert h; decide
    · rcases hh with rfl | rfl <;> (revert h; simp only [sTotp, sHotp]; decide)
    · revert h; decide
    · exact hE63 h
  rw [splitFirst_append 63 _ rawQuery h63]
  simp only [List.cons_append]
  have h47 : (47 : UInt8) ∉ host := by rcases hh with rfl | rfl <;> (simp only [sTotp, sHotp]; decide)
  rw [splitFirst_append 47 host _ h47]
  simp only
  have hauth : (host.isEmpty = false) ∧ host.all isPlainHostChar = true := by
    rcases hh with rfl | rfl <;> exact ⟨rfl, by decide⟩
  simp only [hauth.1, hauth.2, Bool.false_eq_true, false_or, Bool.not_true, if_false]
  rw [← hesc, unescape_escape]
  have hlow : toLowerAscii sOtpauth = sOtpauth := by decide
  simp only [hlow]
  rw [if_neg (by decide)]


theorem itoa_ne_nil (n : Nat) : itoa n ≠ [] := (decDigits_spec (n + 1) n [] (by omega) (by simp)).2.1

theorem itoa_isEmpty (n : Nat) : (itoa n).isEmpty = false := by
  cases h : itoa n with
  | nil => exact absurd h (itoa_ne_nil n)
  | cons _ _ => rfl

theorem algo_roundtrip (a : Nat) (h : a < 3) : (algoNameB a).isEmpty = false ∧ algoOfText (algoNameB a) = some a := by
  have : a = 0 ∨ a = 1 ∨ a = 2 := by omega
  rcases this with rfl | rfl | rfl <;> exact ⟨rfl, by decide⟩

/-- the query pairs `generateOTPURL` encodes (sorted by key) -/
def genKvs (a d : Nat) (issuer secret exK exV : Bytes) : List (Bytes × Bytes) :=
  if exK = kCounter then [(kAlgorithm, algoNameB a), (exK, exV), (kDigits, itoa d), (kIssuer, issuer), (kSecret, secret)]
  else [(kAlgorithm, algoNameB a), (kDigits, itoa d), (kIssuer, issuer), (exK, exV), (kSecret, secret)]

/-- what parsing returns for a URL whose label is `issuer:account` and whose query encodes the five pairs -/
theorem parse_generated (kind issuer account secret : Bytes) (d a : Nat) (exK exV : Bytes)
    (hk : kind = sTotp ∨ kind = sHotp) (hi : (58 : UInt8) ∉ issuer)
    (hd : d ≤ 255) (ha : a < 3)
    (hex : (exK = kPeriod ∧ ∃ per, per < 2 ^ 63 ∧ exV = itoa per) ∨ (exK = kCounter ∧ exV = [48])) :
    parseOTPAuthURL (URL.mk sOtpauth kind (47 :: (issuer ++ 58 :: account)) (valuesEncode (genKvs a d issuer secret exK exV))) =
      .ok (URLParam.mk issuer account secret d a (if exK = kPeriod then decVal exV else 30)) := by
  unfold parseOTPAuthURL genKvs
  simp only [ne_eq, not_true_eq_false, if_false, not_true, ite_false]
  have hlow : toLowerFold kind = some kind := by rcases hk with rfl | rfl <;> decide
  rw [hlow]
  have hkk : ¬ (¬ some kind = some sTotp ∧ ¬ some kind = some sHotp) := by
    rcases hk with rfl | rfl <;> simp
  rw [if_neg hkk]
  rw [splitFirst_append 58 issuer account hi]
  simp only
  obtain ⟨ane, aok⟩ := algo_roundtrip a ha
  have hdig : atoi (itoa d) = some (d : Int) := atoi_itoa d (by omega)
  rcases hex with ⟨rfl, per, hper, rfl⟩ | ⟨rfl, rfl⟩
  · have hne : ¬ (kPeriod = kCounter) := by decide
    rw [if_neg hne, parseQuery_encode _ (by simp)]
    have g1 : queryGet [(kAlgorithm, algoNameB a), (kDigits, itoa d), (kIssuer, issuer), (kPeriod, itoa per), (kSecret, secret)] kDigits = itoa d := by
      simp [queryGet, List.find?, kAlgorithm, kDigits]
    have g2 : queryGet [(kAlgorithm, algoNameB a), (kDigits, itoa d), (kIssuer, issuer), (kPeriod, itoa per), (kSecret, secret)] kAlgorithm = algoNameB a := by
      simp [queryGet, List.find?, kAlgorithm]
    have g3 : queryGet [(kAlgorithm, algoNameB a), (kDigits, itoa d), (kIssuer, issuer), (kPeriod, itoa per), (kSecret, secret)] kPeriod = itoa per := by
      simp [queryGet, List.find?, kAlgorithm, kDigits, kIssuer, kPeriod]
    have g4 : queryGet [(kAlgorithm, algoNameB a), (kDigits, itoa d), (kIssuer, issuer), (kPeriod, itoa per), (kSecret, secret)] kSecret = secret := by
      simp [queryGet, List.find?, kAlgorithm, kDigits, kIssuer, kPeriod, kSecret]
    rw [g1, g2, g3, g4]
    simp only [itoa_isEmpty, ane, Bool.false_eq_true, if_false, hdig, atoi_itoa per hper, aok]
    have hv : decVal (itoa per) = per := by
      have := (decDigits_spec (per + 1) per [] (by omega) (by simp)).2.2
      unfold itoa; rw [this]; simp [decVal]
    simp only [hv]
    have c1 : (0 : Int) ≤ (d : Int) ∧ (d : Int) ≤ 255 := by omega
    have c2 : (0 : Int) ≤ (per : Int) := by omega
    simp [c1, c2]
  · rw [if_pos rfl, parseQuery_encode _ (by simp)]
    have g1 : queryGet [(kAlgorithm, algoNameB a), (kCounter, [48]), (kDigits, itoa d), (kIssuer, issuer), (kSecret, secret)] kDigits = itoa d := by
      simp [queryGet, List.find?, kAlgorithm, kDigits, kCounter]
    have g2 : queryGet [(kAlgorithm, algoNameB a), (kCounter, [48]), (kDigits, itoa d), (kIssuer, issuer), (kSecret, secret)] kAlgorithm = algoNameB a := by
      simp [queryGet, List.find?, kAlgorithm]
    have g3 : queryGet [(kAlgorithm, algoNameB a), (kCounter, [48]), (kDigits, itoa d), (kIssuer, issuer), (kSecret, secret)] kPeriod = [] := by
      simp [queryGet, List.find?, kAlgorithm, kDigits, kIssuer, kPeriod, kCounter, kSecret]
    have g4 : queryGet [(kAlgorithm, algoNameB a), (kCounter, [48]), (kDigits, itoa d), (kIssuer, issuer), (kSecret, secret)] kSecret = secret := by
      simp [queryGet, List.find?, kAlgorithm, kDigits, kIssuer, kCounter, kSecret]
    rw [g1, g2, g3, g4]
    simp only [itoa_isEmpty, ane, Bool.false_eq_true, if_false, hdig, aok, List.isEmpty_nil, if_true]
    have c1 : (0 : Int) ≤ (d : Int) ∧ (d : Int) ≤ 255 := by omega
    have hne : ¬ (kCounter = kPeriod) := by decide
    simp [c1, hne]


theorem isEmpty_false_of_ne_nil (b : Bytes) (h : b ≠ []) : b.isEmpty = false := by
  cases b with
  | nil => exact absurd rfl h
  | cons _ _ => rfl

theorem generate_eq (kind : Bytes) (p : URLParam) (exK exV : Bytes)
    (hi : p.issuer ≠ []) (hacc : p.account ≠ []) (hs : p.secret ≠ []) :
    generateOTPURL kind p exK exV =
      .ok (URL.mk sOtpauth kind (47 :: (p.issuer ++ 58 :: p.account))
        (valuesEncode (genKvs p.algo (if p.digits = 0 then 6 else p.digits) p.issuer p.secret exK exV))) := by
  unfold generateOTPURL genKvs
  rw [isEmpty_false_of_ne_nil _ hi, isEmpty_false_of_ne_nil _ hacc, isEmpty_false_of_ne_nil _ hs]
  simp only [Bool.false_eq_true, if_false]

/-- **C16, TOTP round trip**: for every non-empty issuer without a colon, non-empty account and secret (any bytes:
spaces, %, /, ?, #, &, =, +, @, non-ASCII, escape look-alikes, control bytes, invalid UTF-8), every supported
hash, every code length 0..255 and every period < 2^63: the generated URL has scheme `otpauth` and type
`totp`; its textual form parses back to itself; and `ParseOTPAuthURL` returns exactly issuer, account,
secret, code length (0 ↦ 6), hash and period (0 ↦ 30) -/
theorem C16_roundtrip_totp (p : URLParam) (hi : p.issuer ≠ []) (hcol : (58 : UInt8) ∉ p.issuer) (hacc : p.account ≠ [])
    (hs : p.secret ≠ []) (ha : p.algo < 3) (hd : p.digits ≤ 255) (hp : p.period < 2 ^ 63) :
    ∃ u, generateTOTPURL p = .ok u ∧ u.scheme = sOtpauth ∧ u.host = sTotp ∧
      urlParse (urlString u) = .ok u ∧
      parseOTPAuthURL u = .ok (URLParam.mk p.issuer p.account p.secret (if p.digits = 0 then 6 else p.digits) p.algo
        (if p.period = 0 then 30 else p.period)) := by
  unfold generateTOTPURL
  simp only
  rw [generate_eq sTotp p _ _ hi hacc hs]
  refine ⟨_, rfl, rfl, rfl, ?_, ?_⟩
  · apply parse_string sTotp _ _ (Or.inl rfl)
    · unfold valuesEncode genKvs
      rw [if_neg (by decide)]
      simp [joinWith]
    · exact valuesEncode_clean _
  · have hd' : (if p.digits = 0 then 6 else p.digits) ≤ 255 := by split <;> omega
    have hp' : (if p.period = 0 then 30 else p.period) < 2 ^ 63 := by split <;> omega
    have := parse_generated sTotp p.issuer p.account p.secret (if p.digits = 0 then 6 else p.digits) p.algo kPeriod
      (itoa (if p.period = 0 then 30 else p.period)) (Or.inl rfl) hcol hd' ha (Or.inl ⟨rfl, _, hp', rfl⟩)
    rw [this]
    have hv : decVal (itoa (if p.period = 0 then 30 else p.period)) = (if p.period = 0 then 30 else p.period) := by
      have := (decDigits_spec ((if p.period = 0 then 30 else p.period) + 1) (if p.period = 0 then 30 else p.period) [] (by omega) (by simp)).2.2
      unfold itoa; rw [this]; simp [decVal]
    simp only [if_true, hv]

/-- **C16, HOTP round trip** (no period in the URL: parsing reports the default 30) -/
theorem C16_roundtrip_hotp (p : URLParam) (hi : p.issuer ≠ []) (hcol : (58 : UInt8) ∉ p.issuer) (hacc : p.account ≠ [])
    (hs : p.secret ≠ []) (ha : p.algo < 3) (hd : p.digits ≤ 255) :
    ∃ u, generateHOTPURL p = .ok u ∧ u.scheme = sOtpauth ∧ u.host = sHotp ∧
      urlParse (urlString u) = .ok u ∧
      parseOTPAuthURL u = .ok (URLParam.mk p.issuer p.account p.secret (if p.digits = 0 then 6 else p.digits) p.algo 30) := by
  unfold generateHOTPURL
  rw [generate_eq sHotp p _ _ hi hacc hs]
  refine ⟨_, rfl, rfl, rfl, ?_, ?_⟩
  · apply parse_string sHotp _ _ (Or.inr rfl)
    · unfold valuesEncode genKvs
      rw [if_pos rfl]
      simp [joinWith]
    · exact valuesEncode_clean _
  · have hd' : (if p.digits = 0 then 6 else p.digits) ≤ 255 := by split <;> omega
    have := parse_generated sHotp p.issuer p.account p.secret (if p.digits = 0 then 6 else p.digits) p.algo kCounter [48]
      (Or.inr rfl) hcol hd' ha (Or.inr ⟨rfl, rfl⟩)
    rw [this]
    have hne : ¬ (kCounter = kPeriod) := by decide
    simp only [hne, if_false]

/-- C16, shape: the issuer in the label equals the issuer parameter (both come from `p.issuer`) – part of the two
theorems above: the label is `issuer:account` and the query's `issuer` pair is `p.issuer`. -/
theorem C16_required (p : URLParam) (kind exK exV : Bytes) :
    (p.issuer = [] → generateOTPURL kind p exK exV = .err .issuerRequired) ∧
    (p.issuer ≠ [] → p.account = [] → generateOTPURL kind p exK exV = .err .accountRequired) ∧
    (p.issuer ≠ [] → p.account ≠ [] → p.secret = [] → generateOTPURL kind p exK exV = .err .secretRequired) := by
  refine ⟨?_, ?_, ?_⟩
  · intro h; unfold generateOTPURL; rw [h]; rfl
  · intro h1 h2; unfold generateOTPURL; rw [isEmpty_false_of_ne_nil _ h1, h2]; rfl
  · intro h1 h2 h3; unfold generateOTPURL; rw [isEmpty_false_of_ne_nil _ h1, isEmpty_false_of_ne_nil _ h2, h3]; rfl

/-- C16, exactness: whatever URL is parsed, a returned code length is the number written in `digits=` (a plain
decimal numeral in 0..255) and a returned period is the number written in `period=`; never a wrapped value -/
theorem C16_exact (u : URL) (q : URLParam) (h : parseOTPAuthURL u = .ok q) :
    (queryGet (parseQuery u.rawQuery) kDigits = [] ∧ q.digits = 6 ∨
      ∃ d : Int, atoi (queryGet (parseQuery u.rawQuery) kDigits) = some d ∧ 0 ≤ d ∧ d ≤ 255 ∧ (q.digits : Int) = d) ∧
    (queryGet (parseQuery u.rawQuery) kPeriod = [] ∧ q.period = 30 ∨
      ∃ p : Int, atoi (queryGet (parseQuery u.rawQuery) kPeriod) = some p ∧ 0 ≤ p ∧ (q.period : Int) = p) := by
  unfold parseOTPAuthURL at h
  by_cases h1 : u.scheme ≠ sOtpauth
  · rw [if_pos h1] at h; cases h
  rw [if_neg h1] at h
  simp only at h
  by_cases h2 : toLowerFold u.host ≠ some sTotp ∧ toLowerFold u.host ≠ some sHotp
  · rw [if_pos h2] at h; cases h
  rw [if_neg h2] at h
  split at h
  · cases h
  · split at h
    · rename_i d a p hD hA hP
      injection h with h
      subst h
      simp only
      constructor
      · by_cases he : (queryGet (parseQuery u.rawQuery) kDigits).isEmpty = true
        · rw [if_pos he] at hD
          injection hD with hD
          left; exact ⟨List.isEmpty_iff.mp he, hD.symm⟩
        · rw [if_neg he] at hD
          right
          cases hat : atoi (queryGet (parseQuery u.rawQuery) kDigits) with
          | none => rw [hat] at hD; cases hD
          | some dv =>
            rw [hat] at hD
            simp only at hD
            by_cases hr : 0 ≤ dv ∧ dv ≤ 255
            · rw [if_pos hr] at hD; injection hD with hD
              exact ⟨dv, rfl, hr.1, hr.2, by rw [← hD]; omega⟩
            · rw [if_neg hr] at hD; cases hD
      · by_cases he : (queryGet (parseQuery u.rawQuery) kPeriod).isEmpty = true
        · rw [if_pos he] at hP
          injection hP with hP
          left; exact ⟨List.isEmpty_iff.mp he, hP.symm⟩
        · rw [if_neg he] at hP
          right
          cases hat : atoi (queryGet (parseQuery u.rawQuery) kPeriod) with
          | none => rw [hat] at hP; cases hP
          | some pv =>
            rw [hat] at hP
            simp only at hP
            by_cases hr : 0 ≤ pv
            · rw [if_pos hr] at hP; injection hP with hP
              exact ⟨pv, rfl, hr, by rw [← hP]; omega⟩
            · rw [if_neg hr] at hP; cases hP
    · cases h

-- non-vacuity: an issuer with a space and '%41', an account with '/', '?', '#'
example : generateTOTPURL { issuer := [77, 121, 32, 37, 52, 49], account := [97, 47, 63, 35], secret := [65, 66], digits := 0, algo := 1, period := 0 } =
    .ok { scheme := sOtpauth, host := sTotp, path := [47, 77, 121, 32, 37, 52, 49, 58, 97, 47, 63, 35],
          rawQuery := valuesEncode [(kAlgorithm, [83, 72, 65, 50, 53, 54]), (kDigits, [54]), (kIssuer, [77, 121, 32, 37, 52, 49]), (kPeriod, [51, 48]), (kSecret, [65, 66])] } := by decide

theorem generateTOTP_period_default (O : HashOracle) (s : Bytes) (sec : Int) (d a sk : Nat) :
    generateTOTP O s sec (some ⟨d, 0, sk, a⟩) = generateTOTP O s sec (some ⟨d, 30, sk, a⟩) := by
  unfold generateTOTP
  simp only [resolveTOTP, effPeriod]
  rfl

/-- C16 ∘ C02 (what provisioning is for): an authenticator that reads the generated URL computes, at every instant, the code
the issuing side computes from its own parameters — same secret text, length and hash, and the period the URL spells out
(30 when the issuer's period was left 0) -/
theorem C16_provisioned_codes (O : HashOracle) (p : URLParam) (hi : p.issuer ≠ []) (hcol : (58 : UInt8) ∉ p.issuer)
    (hacc : p.account ≠ []) (hs : p.secret ≠ []) (ha : p.algo < 3) (hd1 : 1 ≤ p.digits) (hd : p.digits ≤ 255)
    (hp : p.period < 2 ^ 63) (sec : Int) :
    ∃ u q, generateTOTPURL p = .ok u ∧ parseOTPAuthURL u = .ok q ∧
      generateTOTP O q.secret sec (some ⟨q.digits, q.period, 0, q.algo⟩) =
        generateTOTP O p.secret sec (some ⟨p.digits, p.period, 0, p.algo⟩) := by
  obtain ⟨u, hg, _, _, _, hq⟩ := C16_roundtrip_totp p hi hcol hacc hs ha hd hp
  refine ⟨u, _, hg, hq, ?_⟩
  have hd0 : p.digits ≠ 0 := by omega
  simp only [if_neg hd0]
  by_cases h0 : p.period = 0
  · simp only [if_pos h0]
    rw [h0]
    exact (generateTOTP_period_default O p.secret sec p.digits p.algo 0).symm
  · simp only [if_neg h0]

end OtpVerif.Props.C16

#print axioms OtpVerif.Props.C16.parse_string
#print axioms OtpVerif.Props.C16.parse_generated
#print axioms OtpVerif.Props.C16.C16_roundtrip_totp
#print axioms OtpVerif.Props.C16.C16_roundtrip_hotp
#print axioms OtpVerif.Props.C16.C16_required
#print axioms OtpVerif.Props.C16.C16_exact
#print axioms OtpVerif.Props.C16.C16_provisioned_codes
