/-
C04 — TOTP validation accepts exactly the codes of time steps inside the skew window; work is bounded.
-/
import OtpVerif.Props.C02

namespace OtpVerif.Props.C04
open OtpVerif OtpVerif.Model OtpVerif.Lemmas OtpVerif.Props.C01 OtpVerif.Props.C02

theorem validateTOTP_unfold (O : HashOracle) (s k code : Bytes) (sec : Int) (p : Option Param)
    (hs : decodeSecret s = .ok k) (hsk : (resolveTOTP p).skew ≤ 10)
    (h0 : 0 ≤ sec) (h1 : sec < 2 ^ 63) (hP : per p < 2 ^ 64) :
    validateTOTP O s code sec p =
      (match windowLoop (totpProbe (fun c' => accepted (validateRFC4226 O code k c' (resolveTOTP p).digits (resolveTOTP p).algo)) (sec.toNat / per p))
          ((resolveTOTP p).skew : Int) (2 * (resolveTOTP p).skew + 1) (-((resolveTOTP p).skew : Int)) with
        | .ok true => .ok (true, none)
        | .ok false => .ok (false, some .invalidCode)
        | .err e => .err e
        | .panic => .panic) := by
  unfold validateTOTP
  simp only [hs]
  rw [if_neg (by omega)]
  have := timeCounter_eq sec (per p) h0 h1 (per_pos p) hP
  unfold per at this
  simp only [this]
  rfl

/-- C04, main clause: at an instant with step n = ⌊t/p⌋, skew s ≤ 10 and s ≤ n (the whole window lies at or
after step 0), validation returns `(true, nil)` iff the submitted string is byte-for-byte the code of a
step n' with |n' − n| ≤ s; otherwise `(false, ErrInvalidCode)` -/
theorem C04_iff (O : HashOracle) (s k code : Bytes) (sec : Int) (p : Option Param)
    (hs : decodeSecret s = .ok k) (hsk : (resolveTOTP p).skew ≤ 10)
    (h0 : 0 ≤ sec) (h1 : sec < 2 ^ 63) (hP : per p < 2 ^ 64)
    (hwin : (resolveTOTP p).skew ≤ sec.toNat / per p)
    (hd1 : 1 ≤ (resolveTOTP p).digits) (hd2 : (resolveTOTP p).digits ≤ 10) (ha : (resolveTOTP p).algo < 3) :
    (validateTOTP O s code sec p = .ok (true, none) ↔
      ∃ n', sec.toNat / per p - (resolveTOTP p).skew ≤ n' ∧ n' ≤ sec.toNat / per p + (resolveTOTP p).skew ∧
        code = Spec.hotp O.hmac (resolveTOTP p).algo k n' (resolveTOTP p).digits) ∧
    (validateTOTP O s code sec p = .ok (true, none) ∨ validateTOTP O s code sec p = .ok (false, some .invalidCode)) := by
  rw [validateTOTP_unfold O s k code sec p hs hsk h0 h1 hP]
  have hchk : (fun c' => accepted (validateRFC4226 O code k c' (resolveTOTP p).digits (resolveTOTP p).algo)) =
      (fun c' => Out.ok (decide (code = Spec.hotp O.hmac (resolveTOTP p).algo k c' (resolveTOTP p).digits))) := by
    funext c'; exact accepted_validate_supported O code k c' _ _ hd1 hd2 ha
  rw [hchk]
  have hn : sec.toNat / per p + (resolveTOTP p).skew < 2 ^ 64 := by
    have : sec.toNat / per p ≤ sec.toNat := Nat.div_le_self _ _
    omega
  have hw := totpWindow_iff (fun c' => decide (code = Spec.hotp O.hmac (resolveTOTP p).algo k c' (resolveTOTP p).digits))
    (sec.toNat / per p) (resolveTOTP p).skew hwin hn
  rcases hw.2 with ht | hf
  · rw [ht]
    refine ⟨⟨fun _ => ?_, fun _ => rfl⟩, Or.inl rfl⟩
    obtain ⟨c', h1, h2, h3⟩ := hw.1.mp ht
    exact ⟨c', h1, h2, of_decide_eq_true h3⟩
  · rw [hf]
    refine ⟨⟨fun h => (by cases h), ?_⟩, Or.inr rfl⟩
    rintro ⟨c', h1, h2, h3⟩
    have := hw.1.mpr ⟨c', h1, h2, decide_eq_true h3⟩
    rw [hf] at this; cases this

/-- C04 without the side condition `s ≤ n` (any instant from the epoch on): the accepted strings are exactly the codes of
the steps `(n + j) mod 2^64`, `-s ≤ j ≤ s` — within the first `s` periods after the epoch the window continues at the top of
the 64-bit range (what `counter + uint64(i)` computes; the js/wasm binding must do the same, C20).  Outside the
property's stated domain; stated so that the loop as written is characterised for every instant. -/
theorem C04_iff_wrap (O : HashOracle) (s k code : Bytes) (sec : Int) (p : Option Param)
    (hs : decodeSecret s = .ok k) (hsk : (resolveTOTP p).skew ≤ 10)
    (h0 : 0 ≤ sec) (h1 : sec < 2 ^ 63) (hP : per p < 2 ^ 64)
    (hd1 : 1 ≤ (resolveTOTP p).digits) (hd2 : (resolveTOTP p).digits ≤ 10) (ha : (resolveTOTP p).algo < 3) :
    (validateTOTP O s code sec p = .ok (true, none) ↔
      ∃ j : Int, -((resolveTOTP p).skew : Int) ≤ j ∧ j ≤ (resolveTOTP p).skew ∧
        code = Spec.hotp O.hmac (resolveTOTP p).algo k (((((sec.toNat / per p : Nat) : Int) + j) % (2 ^ 64 : Int)).toNat)
          (resolveTOTP p).digits) ∧
    (validateTOTP O s code sec p = .ok (true, none) ∨ validateTOTP O s code sec p = .ok (false, some .invalidCode)) := by
  rw [validateTOTP_unfold O s k code sec p hs hsk h0 h1 hP]
  have hchk : (fun c' => accepted (validateRFC4226 O code k c' (resolveTOTP p).digits (resolveTOTP p).algo)) =
      (fun c' => Out.ok (decide (code = Spec.hotp O.hmac (resolveTOTP p).algo k c' (resolveTOTP p).digits))) := by
    funext c'; exact accepted_validate_supported O code k c' _ _ hd1 hd2 ha
  rw [hchk]
  have hn : sec.toNat / per p < 2 ^ 64 := by
    have : sec.toNat / per p ≤ sec.toNat := Nat.div_le_self _ _
    omega
  have hw := totpWindow_wrap_iff (fun c' => decide (code = Spec.hotp O.hmac (resolveTOTP p).algo k c' (resolveTOTP p).digits))
    (sec.toNat / per p) (resolveTOTP p).skew hn (by omega)
  rcases hw.2 with ht | hf
  · rw [ht]
    refine ⟨⟨fun _ => ?_, fun _ => rfl⟩, Or.inl rfl⟩
    obtain ⟨j, h1, h2, h3⟩ := hw.1.mp ht
    exact ⟨j, h1, h2, of_decide_eq_true h3⟩
  · rw [hf]
    refine ⟨⟨fun h => (by cases h), ?_⟩, Or.inr rfl⟩
    rintro ⟨j, h1, h2, h3⟩
    have := hw.1.mpr ⟨j, h1, h2, decide_eq_true h3⟩
    rw [hf] at this; cases this

/-- a code validates at the instant it was generated for -/
theorem C04_self (O : HashOracle) (s k : Bytes) (sec : Int) (p : Option Param)
    (hs : decodeSecret s = .ok k) (hsk : (resolveTOTP p).skew ≤ 10)
    (h0 : 0 ≤ sec) (h1 : sec < 2 ^ 63) (hP : per p < 2 ^ 64)
    (hwin : (resolveTOTP p).skew ≤ sec.toNat / per p)
    (hd1 : 1 ≤ (resolveTOTP p).digits) (hd2 : (resolveTOTP p).digits ≤ 10) (ha : (resolveTOTP p).algo < 3)
    (code : Bytes) (hg : generateTOTP O s sec p = .ok code) :
    validateTOTP O s code sec p = .ok (true, none) := by
  rw [C02_totp_eq_rfc O s k sec p hs h0 h1 hP hd1 hd2 ha] at hg
  injection hg with hg
  exact (C04_iff O s k code sec p hs hsk h0 h1 hP hwin hd1 hd2 ha).1.mpr ⟨sec.toNat / per p, by omega, by omega, hg.symm⟩

/-- a skew above the documented maximum of 10 is refused -/
theorem C04_skew_refused (O : HashOracle) (s code : Bytes) (sec : Int) (p : Option Param)
    (h : 10 < (resolveTOTP p).skew) : validateTOTP O s code sec p = .ok (false, some .invalidSkew) := by
  unfold validateTOTP
  simp only
  rw [if_pos h]

/-- cost-instrumented twin of the window loop: number of per-counter checks (= HMAC computations) performed -/
def windowCalls (probe : Int → Out Bool) (hi : Int) : Nat → Int → Nat
  | 0, _ => 0
  | fuel + 1, i =>
    if i > hi then 0
    else match probe i with
      | .ok false => 1 + windowCalls probe hi fuel (i + 1)
      | _ => 1

theorem windowCalls_le (probe : Int → Out Bool) (hi : Int) : ∀ fuel i, windowCalls probe hi fuel i ≤ fuel := by
  intro fuel
  induction fuel with
  | zero => intro i; simp [windowCalls]
  | succ n ih =>
    intro i
    unfold windowCalls
    split
    · omega
    · split
      · have := ih (i + 1); omega
      · omega

/-- C04, work bound: whatever the arguments, a call performs at most 2·10+1 = 21 HMAC computations
(the loop is entered only with skew ≤ 10 and its fuel is 2·skew+1) -/
theorem C04_work (probe : Int → Out Bool) (skew : Nat) (h : skew ≤ 10) :
    windowCalls probe (skew : Int) (2 * skew + 1) (-(skew : Int)) ≤ 21 := by
  have := windowCalls_le probe (skew : Int) (2 * skew + 1) (-(skew : Int))
  omega

/-- the fuel is sufficient: the loop never stops for lack of fuel (it ends by `i > hi` or by a match) -/
theorem C04_fuel (probe : Int → Out Bool) (pb : Int → Bool) (hp : ∀ i, probe i = .ok (pb i)) (skew : Nat) :
    windowLoop probe (skew : Int) (2 * skew + 1) (-(skew : Int)) = .ok true ↔
      ∃ j : Int, -(skew : Int) ≤ j ∧ j ≤ skew ∧ pb j = true :=
  (windowLoop_iff probe pb hp (skew : Int) (2 * skew + 1) (-(skew : Int)) (by omega)).1

/-- absent parameters mean 6 digits, SHA-1, 30 s, skew 0; period 0 means 30 s -/
theorem C04_nil : resolveTOTP none = { digits := 6, period := 30, skew := 0, algo := 0 } ∧ effPeriod 0 = 30 := by
  exact ⟨by decide, by decide⟩

example : (resolveTOTP none).skew ≤ (59 : Int).toNat / per none := by decide

-- non-vacuity of the wrap clause: at step 0 the offset -1 reaches step 2^64-1
example : ((((0 : Nat) : Int) + (-1)) % (2 ^ 64 : Int)).toNat = 2 ^ 64 - 1 := by decide

end OtpVerif.Props.C04

#print axioms OtpVerif.Props.C04.C04_iff
#print axioms OtpVerif.Props.C04.C04_iff_wrap
#print axioms OtpVerif.Props.C04.C04_self
#print axioms OtpVerif.Props.C04.C04_skew_refused
#print axioms OtpVerif.Props.C04.C04_work
#print axioms OtpVerif.Props.C04.C04_fuel
#print axioms OtpVerif.Props.C04.C04_nil
