/-
Models of the `strings` functions the library calls, on byte lists (a Go string is a byte
sequence; UTF-8 only matters where the Go function decodes runes).

`trimSpace` models `strings.TrimSpace`: strip from the left, then from the right, every
encoded white-space rune (`unicode.IsSpace`: the six ASCII ones, U+0085, U+00A0, U+1680,
U+2000–U+200A, U+2028, U+2029, U+202F, U+205F, U+3000).  Go decodes runes forward on the left
and backward on the right; for shortest-form UTF-8 both amount to matching these exact byte
sequences as prefix / suffix (an invalid or overlong sequence decodes to U+FFFD, not a space).
Trusted stdlib model, validated by the `std.trim` correspondence op.
-/
import OtpVerif.Basic

namespace OtpVerif.Std
open OtpVerif

def isAsciiSpace (c : UInt8) : Bool := c = 9 || c = 10 || c = 11 || c = 12 || c = 13 || c = 32

/-- the UTF-8 encodings of the non-ASCII white-space runes -/
def uniSpaces : List Bytes :=
  [[0xC2, 0x85], [0xC2, 0xA0], [0xE1, 0x9A, 0x80],
   [0xE2, 0x80, 0x80], [0xE2, 0x80, 0x81], [0xE2, 0x80, 0x82], [0xE2, 0x80, 0x83], [0xE2, 0x80, 0x84],
   [0xE2, 0x80, 0x85], [0xE2, 0x80, 0x86], [0xE2, 0x80, 0x87], [0xE2, 0x80, 0x88], [0xE2, 0x80, 0x89],
   [0xE2, 0x80, 0x8A], [0xE2, 0x80, 0xA8], [0xE2, 0x80, 0xA9], [0xE2, 0x80, 0xAF], [0xE2, 0x81, 0x9F],
   [0xE3, 0x80, 0x80]]

/-- length of the white-space rune encoding `s` starts with (0 = none) -/
def spacePrefixLen (s : Bytes) : Nat :=
  match s with
  | [] => 0
  | c :: _ =>
    if isAsciiSpace c then 1
    else match uniSpaces.find? (fun w => w.isPrefixOf s) with
      | some w => w.length
      | none => 0

def trimLeft : Nat → Bytes → Bytes
  | 0, s => s
  | fuel + 1, s =>
    let n := spacePrefixLen s
    if n = 0 then s else trimLeft fuel (s.drop n)

/-- length of the white-space rune encoding `s` ends with (0 = none); `r` is `s` reversed -/
def spaceSuffixLenRev (r : Bytes) : Nat :=
  match r with
  | [] => 0
  | c :: _ =>
    if isAsciiSpace c then 1
    else match uniSpaces.find? (fun w => w.reverse.isPrefixOf r) with
      | some w => w.length
      | none => 0

def trimLeftRev : Nat → Bytes → Bytes
  | 0, r => r
  | fuel + 1, r =>
    let n := spaceSuffixLenRev r
    if n = 0 then r else trimLeftRev fuel (r.drop n)

/-- `strings.TrimSpace` -/
def trimSpace (s : Bytes) : Bytes :=
  let l := trimLeft s.length s
  (trimLeftRev l.length l.reverse).reverse

def upperAscii (c : UInt8) : UInt8 := if 97 ≤ c.toNat ∧ c.toNat ≤ 122 then c - 32 else c
def lowerAscii (c : UInt8) : UInt8 := if 65 ≤ c.toNat ∧ c.toNat ≤ 90 then c + 32 else c

/-- `strings.ToUpper` restricted to ASCII input (callers establish that every byte is < 0x80) -/
def toUpperAscii (s : Bytes) : Bytes := s.map upperAscii
def toLowerAscii (s : Bytes) : Bytes := s.map lowerAscii

/-- `strings.ToUpper` on arbitrary text, as far as comparisons with ASCII words can see it:
U+017F 'ſ' ↦ 'S' and U+0131 'ı' ↦ 'I' are the only non-ASCII runes whose upper case is ASCII;
every other non-ASCII byte stays non-ASCII (or becomes U+FFFD).  Result: the folded ASCII text,
or `none` if some non-ASCII content remains (then it equals no ASCII word). -/
def toUpperFold : Bytes → Option Bytes
  | [] => some []
  | 0xC5 :: 0xBF :: rest => (toUpperFold rest).map (83 :: ·)
  | 0xC4 :: 0xB1 :: rest => (toUpperFold rest).map (73 :: ·)
  | c :: rest => if c.toNat < 128 then (toUpperFold rest).map (upperAscii c :: ·) else none

/-- `strings.ToLower` as far as comparisons with ASCII words can see it: U+0130 'İ' ↦ 'i' and
U+212A 'K' ↦ 'k' are the only non-ASCII runes whose lower case is ASCII. -/
def toLowerFold : Bytes → Option Bytes
  | [] => some []
  | 0xC4 :: 0xB0 :: rest => (toLowerFold rest).map (105 :: ·)
  | 0xE2 :: 0x84 :: 0xAA :: rest => (toLowerFold rest).map (107 :: ·)
  | c :: rest => if c.toNat < 128 then (toLowerFold rest).map (lowerAscii c :: ·) else none

/-- `strings.Split(s, sep)` for a one-byte separator (always at least one part) -/
def splitOn (sep : UInt8) : Bytes → List Bytes
  | [] => [[]]
  | c :: rest =>
    if c = sep then [] :: splitOn sep rest
    else match splitOn sep rest with
      | [] => [[c]]          -- unreachable: splitOn never returns []
      | p :: ps => (c :: p) :: ps

/-- `strings.SplitN(s, sep, 2)` for a one-byte separator: split at the first occurrence -/
def splitFirst (sep : UInt8) : Bytes → Option (Bytes × Bytes)
  | [] => none
  | c :: rest =>
    if c = sep then some ([], rest)
    else (splitFirst sep rest).map (fun (a, b) => (c :: a, b))

def ofString (s : String) : Bytes := s.toUTF8.toList

end OtpVerif.Std
