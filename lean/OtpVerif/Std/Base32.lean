/-
Model of Go's `encoding/base32` (`StdEncoding`, RFC 4648 alphabet, '=' padding), as far as the
library uses it:

* `enc`        – `StdEncoding.EncodeToString` (padded), structurally on 5-byte chunks
* `encNoPad`   – `StdEncoding.WithPadding(NoPadding).EncodeToString`
* `decode`     – `StdEncoding.DecodeString` after new-line stripping: the decoder *as written*
  (missing / short / incorrect padding, rejection of data lengths 1, 3, 6, the `end` flag that lets
  trailing bytes after a final padded quantum go unread, the outer loop)

Byte values are `Nat`s here (`< 256` is a hypothesis of the lemmas); `Model/Decoder.lean` wraps
this for `List UInt8`.  This is a *model of the standard library* (trusted, validated by the
`std.b32dec` / `std.b32enc` correspondence ops against the real package).
-/
namespace OtpVerif.Std.B32

def PAD : Nat := 61   -- '='

/-- alphabet: value 0..31 ↦ 'A'..'Z','2'..'7' -/
def alpha (n : Nat) : Nat := if n < 26 then 65 + n else 24 + n
/-- decodeMap (upper case only; 0xFF ↦ none) -/
def sym (c : Nat) : Option Nat :=
  if 65 ≤ c ∧ c ≤ 90 then some (c - 65) else if 50 ≤ c ∧ c ≤ 55 then some (c - 24) else none

-- the eight symbols of a 5-byte quantum (RFC 4648 §6)
def s0 (b0 : Nat) := b0 / 8
def s1 (b0 b1 : Nat) := (b0 % 8) * 4 + b1 / 64
def s2 (b1 : Nat) := (b1 / 2) % 32
def s3 (b1 b2 : Nat) := (b1 % 2) * 16 + b2 / 16
def s4 (b2 b3 : Nat) := (b2 % 16) * 2 + b3 / 128
def s5 (b3 : Nat) := (b3 / 4) % 32
def s6 (b3 b4 : Nat) := (b3 % 4) * 8 + b4 / 32
def s7 (b4 : Nat) := b4 % 32

/-- padded encoder -/
def enc : List Nat → List Nat
  | b0 :: b1 :: b2 :: b3 :: b4 :: rest =>
      alpha (s0 b0) :: alpha (s1 b0 b1) :: alpha (s2 b1) :: alpha (s3 b1 b2) :: alpha (s4 b2 b3) ::
      alpha (s5 b3) :: alpha (s6 b3 b4) :: alpha (s7 b4) :: enc rest
  | [b0, b1, b2, b3] =>
      [alpha (s0 b0), alpha (s1 b0 b1), alpha (s2 b1), alpha (s3 b1 b2), alpha (s4 b2 b3), alpha (s5 b3), alpha (s6 b3 0), PAD]
  | [b0, b1, b2] => [alpha (s0 b0), alpha (s1 b0 b1), alpha (s2 b1), alpha (s3 b1 b2), alpha (s4 b2 0), PAD, PAD, PAD]
  | [b0, b1] => [alpha (s0 b0), alpha (s1 b0 b1), alpha (s2 b1), alpha (s3 b1 0), PAD, PAD, PAD, PAD]
  | [b0] => [alpha (s0 b0), alpha (s1 b0 0), PAD, PAD, PAD, PAD, PAD, PAD]
  | [] => []

/-- unpadded encoder (`WithPadding(NoPadding)`) -/
def encNoPad : List Nat → List Nat
  | b0 :: b1 :: b2 :: b3 :: b4 :: rest =>
      alpha (s0 b0) :: alpha (s1 b0 b1) :: alpha (s2 b1) :: alpha (s3 b1 b2) :: alpha (s4 b2 b3) ::
      alpha (s5 b3) :: alpha (s6 b3 b4) :: alpha (s7 b4) :: encNoPad rest
  | [b0, b1, b2, b3] =>
      [alpha (s0 b0), alpha (s1 b0 b1), alpha (s2 b1), alpha (s3 b1 b2), alpha (s4 b2 b3), alpha (s5 b3), alpha (s6 b3 0)]
  | [b0, b1, b2] => [alpha (s0 b0), alpha (s1 b0 b1), alpha (s2 b1), alpha (s3 b1 b2), alpha (s4 b2 0)]
  | [b0, b1] => [alpha (s0 b0), alpha (s1 b0 b1), alpha (s2 b1), alpha (s3 b1 0)]
  | [b0] => [alpha (s0 b0), alpha (s1 b0 0)]
  | [] => []

/-- pack dbuf into bytes (uint8 arithmetic: shifts wrap mod 256), the `switch dlen` with fallthrough -/
def pack (d : List Nat) : Option (List Nat) :=
  match d with
  | [d0, d1, d2, d3, d4, d5, d6, d7] =>
      some [(d0 * 8) % 256 + d1 / 4, (d1 * 64) % 256 + (d2 * 2) % 256 + d3 / 16, (d3 * 16) % 256 + d4 / 2,
            (d4 * 128) % 256 + (d5 * 4) % 256 + d6 / 8, (d6 * 32) % 256 + d7]
  | [d0, d1, d2, d3, d4, d5, d6] =>
      some [(d0 * 8) % 256 + d1 / 4, (d1 * 64) % 256 + (d2 * 2) % 256 + d3 / 16, (d3 * 16) % 256 + d4 / 2,
            (d4 * 128) % 256 + (d5 * 4) % 256 + d6 / 8]
  | [d0, d1, d2, d3, d4] =>
      some [(d0 * 8) % 256 + d1 / 4, (d1 * 64) % 256 + (d2 * 2) % 256 + d3 / 16, (d3 * 16) % 256 + d4 / 2]
  | [d0, d1, d2, d3] => some [(d0 * 8) % 256 + d1 / 4, (d1 * 64) % 256 + (d2 * 2) % 256 + d3 / 16]
  | [d0, d1] => some [(d0 * 8) % 256 + d1 / 4]
  | _ => none          -- dlen 1, 3, 6 are rejected before packing; 0 cannot occur

/-- inner `for j := 0; j < 8;` loop: returns (dbuf, rest, end) -/
def readQ : Nat → Nat → List Nat → List Nat → Option (List Nat × List Nat × Bool)
  | 0, _, src, acc => some (acc, src, false)                  -- j reached 8
  | fuel + 1, j, src, acc =>
    match src with
    | [] => none                                              -- padChar ≠ NoPadding: missing padding
    | c :: rest =>
      if c = PAD ∧ j ≥ 2 ∧ rest.length < 8 then
        if rest.length + j < 7 then none                      -- not enough padding
        else if (rest.take (7 - j)).all (· = PAD) = false then none   -- incorrect padding
        else if j = 1 ∨ j = 3 ∨ j = 6 then none
        else some (acc, rest, true)
      else
        match sym c with
        | none => none
        | some v => readQ fuel (j + 1) rest (acc ++ [v])

/-- outer `for len(src) > 0 && !end` loop -/
def decodeLoop : Nat → List Nat → Option (List Nat)
  | 0, _ => none
  | fuel + 1, src =>
    match src with
    | [] => some []
    | _ =>
      match readQ 8 0 src [] with
      | none => none
      | some (d, rest, fin) =>
        match pack d with
        | none => none
        | some bytes =>
          if fin then some bytes
          else (decodeLoop fuel rest).map (bytes ++ ·)

/-- `StdEncoding.DecodeString`: strip '\r' and '\n', then decode. Fuel: one quantum per 8 input bytes. -/
def decode (src : List Nat) : Option (List Nat) :=
  let s := src.filter (fun c => c ≠ 10 ∧ c ≠ 13)
  decodeLoop (s.length / 8 + 2) s

end OtpVerif.Std.B32
