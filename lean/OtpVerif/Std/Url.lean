/-
Model of the parts of `net/url` and `strconv` that the provisioning-URL code uses, for URLs of the shape
`scheme://host/path?query` (no user info, no port, no fragment): `shouldEscape` for the path and
query-component modes, `escape`, `unescape`, `Values.Encode`, `ParseQuery` (pairs that fail to unescape are
skipped), `URL.String`, `Parse`, `strconv.Atoi`, `%d` formatting.
Trusted stdlib model, validated by the `urlg` / `urlp` / `std.*` correspondence ops.
-/
import OtpVerif.Basic
import OtpVerif.Std.Strings

namespace OtpVerif.Std.Url
open OtpVerif OtpVerif.Std

def isAlnum (c : UInt8) : Bool :=
  (97 ≤ c.toNat && c.toNat ≤ 122) || (65 ≤ c.toNat && c.toNat ≤ 90) || (48 ≤ c.toNat && c.toNat ≤ 57)

/-- '-', '_', '.', '~' -/
def isMark (c : UInt8) : Bool := c = 45 || c = 95 || c = 46 || c = 126

/-- '$', '&', '+', ',', '/', ':', ';', '=', '?', '@' -/
def isReserved (c : UInt8) : Bool :=
  c = 36 || c = 38 || c = 43 || c = 44 || c = 47 || c = 58 || c = 59 || c = 61 || c = 63 || c = 64

inductive Mode | path | query deriving DecidableEq

/-- `shouldEscape(c, encodePath)` / `shouldEscape(c, encodeQueryComponent)` -/
def shouldEscape (m : Mode) (c : UInt8) : Bool :=
  if isAlnum c then false
  else if isMark c then false
  else if isReserved c then (match m with | .path => c = 63 | .query => true)
  else true

def hexDigit (n : Nat) : UInt8 := if n < 10 then (48 + n).toUInt8 else (55 + n).toUInt8      -- "0123456789ABCDEF"

def unhex (c : UInt8) : Option Nat :=
  if 48 ≤ c.toNat ∧ c.toNat ≤ 57 then some (c.toNat - 48)
  else if 97 ≤ c.toNat ∧ c.toNat ≤ 102 then some (c.toNat - 97 + 10)
  else if 65 ≤ c.toNat ∧ c.toNat ≤ 70 then some (c.toNat - 65 + 10)
  else none

/-- `escape(s, mode)` -/
def escape (m : Mode) : Bytes → Bytes
  | [] => []
  | c :: cs =>
    if m = .query ∧ c = 32 then 43 :: escape m cs                      -- ' ' ↦ '+'
    else if shouldEscape m c then 37 :: hexDigit (c.toNat / 16) :: hexDigit (c.toNat % 16) :: escape m cs
    else c :: escape m cs

/-- `unescape(s, mode)`: `none` for a malformed `%` escape -/
def unescape (m : Mode) : Bytes → Option Bytes
  | [] => some []
  | c :: rest =>
    if c = 37 then
      match rest with
      | h :: l :: rest' =>
        match unhex h, unhex l, unescape m rest' with
        | some a, some b, some r => some ((a * 16 + b).toUInt8 :: r)
        | _, _, _ => none
      | _ => none
    else if m = .query ∧ c = 43 then (unescape m rest).map (32 :: ·)
    else (unescape m rest).map (c :: ·)

def joinWith (sep : UInt8) : List Bytes → Bytes
  | [] => []
  | [x] => x
  | x :: xs => x ++ sep :: joinWith sep xs

/-- `Values.Encode()` for single-valued keys given in sorted order: `k=v&k=v…` with both sides query-escaped -/
def valuesEncode (kvs : List (Bytes × Bytes)) : Bytes :=
  joinWith 38 (kvs.map (fun kv => escape .query kv.1 ++ 61 :: escape .query kv.2))

/-- one `key[=value]` piece of `ParseQuery` (`none`: the piece is skipped) -/
def parsePair (piece : Bytes) : Option (Bytes × Bytes) :=
  if piece.contains 59 then none                          -- ';' is an invalid separator
  else if piece.isEmpty then none
  else
    let (k, v) := match splitFirst 61 piece with
      | some (k, v) => (k, v)
      | none => (piece, [])
    match unescape .query k, unescape .query v with
    | some k', some v' => some (k', v')
    | _, _ => none

/-- `ParseQuery` as used by `URL.Query()` (errors ignored): the successfully parsed pairs in order -/
def parseQuery (q : Bytes) : List (Bytes × Bytes) := (splitOn 38 q).filterMap parsePair

/-- `Values.Get(key)`: first value or "" -/
def queryGet (kvs : List (Bytes × Bytes)) (key : Bytes) : Bytes :=
  match kvs.find? (fun kv => kv.1 == key) with
  | some kv => kv.2
  | none => []

structure URL where
  scheme : Bytes
  host : Bytes
  path : Bytes
  rawQuery : Bytes
  deriving DecidableEq, Repr

/-- `URL.String()` for a URL with non-empty scheme and host, no user, no fragment, `RawPath = ""`:
`scheme://host` + escaped path (a '/' is inserted if the path does not start with one) + `?rawQuery` if non-empty -/
def urlString (u : URL) : Bytes :=
  let p := escape .path u.path
  let p := match p with | [] => [] | c :: _ => if c ≠ 47 then 47 :: p else p
  u.scheme ++ [58, 47, 47] ++ u.host ++ p ++ (if u.rawQuery.isEmpty then [] else 63 :: u.rawQuery)

def isCTL (c : UInt8) : Bool := c.toNat < 32 || c.toNat = 127

def isSchemeChar (c : UInt8) (first : Bool) : Bool :=
  (97 ≤ c.toNat && c.toNat ≤ 122) || (65 ≤ c.toNat && c.toNat ≤ 90) ||
  (!first && ((48 ≤ c.toNat && c.toNat ≤ 57) || c = 43 || c = 45 || c = 46))

/-- host characters `parseHost`/`validOptionalPort` accept without further ado in this model: letters, digits, '-', '.', '_', '~' -/
def isPlainHostChar (c : UInt8) : Bool := isAlnum c || isMark c

inductive ParseRes
  | ok (u : URL)
  | err
  | unsupported           -- a shape outside this model (user info, port, brackets, fragment, opaque, …)
  deriving DecidableEq, Repr

/-- `url.Parse(raw)` for `scheme://host[/path][?query]` -/
def urlParse (raw : Bytes) : ParseRes :=
  if raw.any isCTL then .err
  else if raw.contains 35 then .unsupported                             -- '#': fragments not modelled
  else
    match splitFirst 58 raw with
    | none => .unsupported
    | some (scheme, rest) =>
      if scheme.isEmpty then .unsupported
      else if !(match scheme with | c :: cs => isSchemeChar c true && cs.all (isSchemeChar · false) | [] => false) then .unsupported
      else
        let (rest, rawQuery) := match splitFirst 63 rest with
          | some (r, q) => (r, q)
          | none => (rest, [])
        match rest with
        | 47 :: 47 :: after =>
          let (authority, path) := match splitFirst 47 after with
            | some (a, p) => (a, 47 :: p)
            | none => (after, [])
          if authority.isEmpty ∨ !(authority.all isPlainHostChar) then .unsupported
          else match unescape .path path with
            | some p => .ok { scheme := toLowerAscii scheme, host := authority, path := p, rawQuery := rawQuery }
            | none => .err
        | _ => .unsupported

def decDigits : Nat → Nat → Bytes → Bytes
  | 0, _, acc => acc
  | fuel + 1, n, acc => if n < 10 then (48 + n).toUInt8 :: acc else decDigits fuel (n / 10) ((48 + n % 10).toUInt8 :: acc)

/-- `fmt.Sprintf("%d", n)` for a non-negative integer -/
def itoa (n : Nat) : Bytes := decDigits (n + 1) n []

/-- optional sign -/
def splitSign : Bytes → Bool × Bytes
  | 43 :: r => (false, r)
  | 45 :: r => (true, r)
  | s => (false, s)

/-- `strconv.Atoi` (64-bit int): optional sign, at least one digit, digits only, in int64 range -/
def atoi (s : Bytes) : Option Int :=
  let p := splitSign s
  if p.2.isEmpty ∨ !(p.2.all isDigitChar) then none
  else
    let v : Nat := p.2.foldl (fun (n : Nat) c => n * 10 + (c.toNat - 48)) 0
    if p.1 then (if v ≤ 2 ^ 63 then some (-(v : Int)) else none)
    else (if v < 2 ^ 63 then some (v : Int) else none)

end OtpVerif.Std.Url
