-- This module serves as the root of the `OtpVerif` library.
-- Import modules here that should be built as part of the library.
import OtpVerif.Basic
