HOOK_COMMITS = ["5270141", "b97fdf1"]
NOT_APPLICABLE = {}
_T = "machine-checked proof (Lean 4) about a model of the code + model tied to /repo by regenerated facts and differential correspondence"
LEVEL = {
 "C01": {"technique": _T,
   "text": "Lean theorems C01_derive_eq_rfc / C01_generate_eq_rfc / C01_unsupported / C01_shape: for every key, every counter, digits 1..10 and the three hashes the model of GenerateHOTP (table lookup, uint32 shift/or/mask truncation, both digit formatters with their loops) returns exactly the RFC 4226 value, and unsupported lengths/hashes give an error; all inputs, no bound. The model is tied to the code by the regenerated mod10/mask/hash-order facts (decide) and by the ghotp/derive/trunc/fmt correspondence run.",
   "note": "HMAC/SHA themselves are a parameter (only output lengths assumed). Tie = fact extractor + differential run (trusted; reach bounded by the generators). Go compiler/runtime trusted."},
}
